"""C17 - static and dynamic analysis agree on the API skeleton (spec/Inspector.tla).

TLC enumerates every program of the bounded statement alphabet (one statement per step, advancing the
transcription of the static visitor and of CPython's execution together), runs the transcription of the
dynamic agent on the final object graph, projects both trees onto the skeleton and decides
   clean domains : SkeletonsAgree  (Skel(static) = Skel(dynamic))
   full domains  : DiffsExplained  (every difference has one of the recorded root causes)
   defect configs: one invariant per recorded root cause, expected violated; the counterexample is the witness.
Binding (gverif/props/c17_worker.py, fresh subprocesses, batches of uniquely named packages):
   real static skeleton  vs real dynamic skeleton   -> the property on the code        (VIOLATION / known finding)
   real static / dynamic vs the spec's skS / skD     -> conformance of the two models   (drift note)
   real object graph     vs the spec's Exec (xdump)  -> validity of the CPython model   (exit 2)
   inspect.cleandoc      vs the spec's Cleandoc      -> validity of the CPython model   (exit 2)
"""
from __future__ import annotations

import inspect
import json
import os
import random
import subprocess
import sys
import time
from concurrent.futures import ThreadPoolExecutor, as_completed

from gverif import tlc
from gverif.common import PY, SEED, child_env, die, ensure_repo, scratch
from gverif.harness import Run
from gverif.props.c17_render import DOC_LINES, doc_text, render_main, text_to_lines

# domain configurations per tier: (cfg, expected to be free of differences)
DOMAINS = {
    "quick": [
        ("Inspector_full_quick.cfg", False),
        ("Inspector_clean_quick.cfg", True),
        ("Inspector_sigdoc_quick.cfg", True),
        ("Inspector_cprop_quick.cfg", True),
        ("Inspector_relimp_quick.cfg", False),
        ("Inspector_accessor_quick.cfg", False),
    ],
    "thorough": [
        ("Inspector_relimp_thorough.cfg", False, 16000),     # idem
        ("Inspector_accessor_quick.cfg", False),
        ("Inspector_clean_thorough.cfg", True, 16000),      # model-checked exhaustively, seeded sample replayed
        ("Inspector_clean2_thorough.cfg", True),
        ("Inspector_full_thorough.cfg", False),
        ("Inspector_sigdoc_thorough.cfg", True),
        ("Inspector_deffull_thorough.cfg", False),
        ("Inspector_nestfull_thorough.cfg", False, 8000),   # idem
        ("Inspector_full_quick.cfg", False),
        ("Inspector_cprop_quick.cfg", True),
    ],
}
# one TLC run per recorded root cause (Inspector_defect.cfg): the invariant TLC must refute + the small domain holding the trigger
_D = {"MAININS": '{"init"}', "MAXSTMTS": 2, "STMTS": '{"def"}', "DECOS": '{"none"}', "SIGS": '{"s0"}', "DOCS": '{"none"}', "VALS": '{"lit"}',
      "IMPORTS": '{"OK"}', "ASNAMES": '{"-"}', "LEVELS": "{1}", "CHAINS": '{"-"}', "ALLOWINST": "FALSE", "INSTNAMES": '{"q"}'}
DEFECTS = {
    "annonly": ("NoAnnOnly", dict(_D, STMTS='{"def", "annonly"}')),
    "import-self": ("NoImportSelf", dict(_D, MAININS='{"init", "sub"}', STMTS='{"import", "from"}')),
    "base-rebound": ("NoBaseRebound", dict(_D, MAXSTMTS=3, STMTS='{"class", "assign", "from"}', ASNAMES='{"-", "a"}')),
    "from-package-attribute": ("NoFromPackageAttribute", dict(_D, MAININS='{"mid", "deep"}', STMTS='{"from"}', IMPORTS='{"OK", "other"}',
                                                              ASNAMES='{"-", "a"}', LEVELS="{1, 2}")),
    "init-assign-replaces-member": ("NoInitAssignReplacesMember", dict(_D, MAXSTMTS=3, STMTS='{"def", "class"}', ALLOWINST="TRUE", INSTNAMES='{"q", "a"}')),
    "ref": ("NoRef", dict(_D, STMTS='{"def", "assign", "ref"}')),
}
BATCH = 200
TLC_WORKERS = {"quick": 3, "thorough": 4}
# many short TLC runs start at once: keep each JVM small (C1 compiler only, two GC threads) so that they do not starve each other
JVM_ENV = {"JAVA_TOOL_OPTIONS": "-XX:TieredStopAtLevel=1 -XX:ParallelGCThreads=2"}
LABEL_VOCAB = {"staticmethod", "classmethod", "property", "cached", "async"}


def _is_dunder(name: str) -> bool:
    return name.startswith("__") and name.endswith("__") and name != "__init__"


def _canon(dotted, pkg: str) -> str:
    if dotted is None:
        return ""
    parts = dotted.split(".")
    if parts[0] == pkg:
        parts[0] = "pkg"
    return ".".join(parts)


def _canon_key(key: str, pkg: str) -> str:
    return ".".join("pkg" if part == pkg else part for part in key.split("."))


def _lines(text) -> list:
    return [(x["ind"], x["txt"]) for x in text_to_lines(text)]


def _sk(kind, params=(), bases=(), doc=(), target="", tkind="-"):
    return {"kind": kind, "params": list(params), "bases": list(bases), "doc": list(doc), "target": target, "tkind": tkind}


# ---------------------------------------------------------------------------------------------------
# Skel on real trees: removes exactly the exempted differences (mirror of SkelStatic / SkelDynamic)
# ---------------------------------------------------------------------------------------------------
def skeleton(tree: dict, moddoc, side: str, pkg: str) -> dict:
    sk = {"": _sk("module", doc=_lines(moddoc))}
    tree = {_canon_key(k, pkg): v for k, v in tree.items()}
    for key, r in tree.items():
        parts = key.split(".")
        if any(_is_dunder(x) for x in parts):
            continue  # interpreter-provided dunder attributes
        kind = r["kind"]
        if kind == "module":
            continue  # the package's own submodules: found on disk by the loader for both agents
        if side == "static" and kind == "attribute" and set(r["labels"]) == {"instance-attribute"} and r.get("hasvalue"):
            # instance attribute assigned in __init__: the only static attributes that carry this label alone *and* a value
            # (annotation-only class attributes have no value; an assignment that took over a class-level member carries
            # that member's labels as well and is kept)
            continue
        if kind == "alias":
            if r["tkind"] == "attribute":
                sk[key] = _sk("attribute")  # origin of imported plain values
            else:
                sk[key] = _sk("alias", target=_canon(r["final"] or r["target"], pkg), tkind=r["tkind"])
        elif kind == "function":
            sk[key] = _sk("function", params=[(q["name"], q["kind"], q["req"]) for q in r["params"]], doc=_lines(r["doc"]))
        elif kind == "class":
            sk[key] = _sk("class", bases=[_canon(b, pkg) for b in r["bases"]], doc=_lines(r["doc"]))
        else:
            sk[key] = _sk("attribute")  # attribute docstrings are exempt (Griffe models properties as attributes)
    return sk


def spec_skeleton(items: list) -> dict:
    sk = {}
    for it in items:
        n = it["node"]
        sk[".".join(it["path"])] = _sk(
            n["kind"],
            params=[(q["name"], q["kind"], q["req"]) for q in n["params"]],
            bases=[".".join(b) for b in n["bases"]],
            doc=[(x["ind"], x["txt"]) for x in n["doc"]],
            target=".".join(n["target"]),
            tkind=n["tkind"],
        )
    return sk


def _comparable(a: dict, b: dict, key: str) -> bool:
    if key == "":
        return True
    parts = key.split(".")
    for i in range(len(parts)):
        q = ".".join(parts[:i])
        if q not in a or q not in b or a[q]["kind"] != b[q]["kind"]:
            return False
    return True


def clauses(a: dict, b: dict, key: str) -> list:
    if key not in a or key not in b:
        return ["members"]
    x, y = a[key], b[key]
    if x["kind"] != y["kind"]:
        return ["kind"]
    out = []
    if [(p[0], p[1]) for p in x["params"]] != [(p[0], p[1]) for p in y["params"]]:
        out.append("params")
    elif x["params"] != y["params"]:
        out.append("required")
    if x["bases"] != y["bases"]:
        out.append("bases")
    if x["doc"] != y["doc"]:
        out.append("doc")
    if x["target"] != y["target"] or x["tkind"] != y["tkind"]:
        out.append("target")
    return out


def diff_skeletons(a: dict, b: dict) -> list:
    out = []
    for key in sorted(set(a) | set(b)):
        if _comparable(a, b, key):
            out += [(key, c) for c in clauses(a, b, key)]
    return out


def first_diff(a: dict, b: dict) -> str:
    for key in sorted(set(a) | set(b)):
        if a.get(key) != b.get(key):
            return f"{key or '<module>'}: {a.get(key)} vs {b.get(key)}"
    return ""


# ---------------------------------------------------------------------------------------------------
def case_key(case: dict) -> str:
    return json.dumps([case["main"], case["mdoc"], case["prog"]], sort_keys=True)


def abstract(case: dict) -> dict:
    return {"main": case["main"], "mdoc": case["mdoc"], "prog": case["prog"]}


def compact_prog(case: dict) -> str:
    return render_main(case, "pkg")


def signature_of(case: dict, key: str, clause: str, rs: dict, rd: dict) -> dict:
    """Abstract signature of one real difference, over the spec's vocabulary."""
    smeta = {".".join(m["path"]): m for m in case["smeta"]}
    m = smeta.get(key)
    parts = key.split(".") if key else []
    sig = {
        "clause": clause,
        "main": case["main"],
        "scope": "module" if len(parts) <= 1 else ("class" if len(parts) == 2 else "nested"),
        "origin": m["origin"] if m else ("module" if key == "" else "absent"),
        "val": m["val"] if m else "-",
        "docshape": case["mdoc"] if key == "" else (m["dshape"] if m else "-"),
        "deco": "-",
        "rebound": bool(m and m["rebound"]),
        "bvia": m["bvia"] if m else "-",
        "via": (m["bvia"] if clause == "bases" else m["origin"]) if m else ("module" if key == "" else "absent"),
        "skind": rs[key]["kind"] if key in rs else "absent",
        "dkind": rd[key]["kind"] if key in rd else "absent",
        "name": "other" if parts and parts[-1] == "other" else ("pkg" if parts and parts[-1] == "pkg" else "-"),
        "pkind": "-",
        "builtin_base": False,
    }
    if m:
        for lab, deco in (("classmethod", "class"), ("staticmethod", "static"), ("cached", "cprop"), ("property", "prop")):
            if lab in m["labels"]:
                sig["deco"] = deco
                break
        else:
            sig["deco"] = "none" if m["origin"] == "def" else "-"
    if clause == "required" and key in rs and key in rd:
        kinds = {p[1] for p, q in zip(rs[key]["params"], rd[key]["params"]) if p != q}
        sig["pkind"] = "variadic" if kinds and all(k.startswith("variadic") for k in kinds) else "other"
    if clause == "bases" and key in rs and key in rd:
        sig["builtin_base"] = [".".join(c.lstrip("_") for c in b.split(".")) for b in rd[key]["bases"]] == rs[key]["bases"] and rd[key]["bases"] != rs[key]["bases"]
    return sig


class Checker:
    def __init__(self, run: Run):
        self.run = run
        self.drift_s = 0
        self.drift_d = 0
        self.drift_labels = 0
        self.drift_examples = []
        self.label_examples = []
        self.predicted_not_seen = {}
        self.real_diff_cases = 0
        self.causes_seen = set()
        self.stmt_seen = set()
        self.dyn_labels_seen = set()
        self.smallest = {}

    def check(self, case: dict, res: dict, pkg: str):
        run = self.run
        ident = abstract(case)
        src = compact_prog(case)
        if res["error"]:
            die(f"C17: generated program failed to load (renderer/Exec model wrong?): {res['error']}\n{src}")
        run.replayed()
        for k in case["prog"]:
            self.stmt_seen.add(k["t"])
        if res.get("dynamic_missing"):
            # the static agent delivered the main module, the dynamic agent did not (import failed under the inspector's sys.path)
            sig = {"clause": "module", "main": case["main"], "scope": "module", "origin": "module", "skind": "module", "dkind": "absent"}
            run.violation(sig, f"the dynamic agent does not deliver the main module ({res['dynamic_missing']}) while the static agent does, main={case['main']}\n{src}", {"case": ident, "source": src, "diff": ["", "module"]})
            return
        # -- CPython's object graph vs the spec's Exec
        if res["xdump"] is None:
            die(f"C17: the inspector never reached the main module of {pkg}\n{src}")
        real_x = sorted(json.dumps(_canon_dump(x, pkg), sort_keys=True) for x in res["xdump"])
        spec_x = sorted(json.dumps(x, sort_keys=True) for x in case["xdump"])
        if real_x != spec_x:
            only_r = [x for x in real_x if x not in spec_x][:3]
            only_s = [x for x in spec_x if x not in real_x][:3]
            die(f"C17: spec Exec disagrees with CPython on\n{src}\nreal only: {only_r}\nspec only: {only_s}")
        # -- skeletons
        rs = skeleton(res["static"], res["sdoc"], "static", pkg)
        rd = skeleton(res["dynamic"], res["ddoc"], "dynamic", pkg)
        ss = spec_skeleton(case["skS"])
        sd = dict(ss)
        sd.update(spec_skeleton(case["skDd"]))
        for path in case["skDm"]:
            sd.pop(".".join(path), None)
        run.evaluated(3)
        if len(case["prog"]) >= 2:
            run.nontrivial_case(case_key(case))
        run.sample({"case": ident, "source": src, "static": {k: v["kind"] for k, v in rs.items()}, "dynamic": {k: v["kind"] for k, v in rd.items()}})
        real = diff_skeletons(rs, rd)
        if real:
            self.real_diff_cases += 1
        for key, clause in real:
            sig = signature_of(case, key, clause, rs, rd)
            what = (f"static and dynamic skeletons differ at {key or '<module>'} ({clause}): "
                    f"static {rs.get(key)} vs dynamic {rd.get(key)} for main={case['main']}\n{src}")
            if clause in ("params", "required"):
                py = [x for x in res["xdump"] if ".".join(_canon_dump(x, pkg)["path"]) == key]
                if py:
                    what += f"CPython (inspect.signature of the underlying function, wrapper={py[0]['wrap']}): {[(q['name'], q['kind'], q['req']) for q in py[0]['sig']]}\n"
            run.violation(sig, what, {"case": ident, "source": src, "diff": [key, clause]})
        # -- conformance of the two agent models (drift, never a verdict)
        if rs != ss:
            self.drift_s += 1
            if len(self.drift_examples) < 5:
                self.drift_examples.append("static " + first_diff(rs, ss) + "\n" + src)
        if rd != sd:
            self.drift_d += 1
            if len(self.drift_examples) < 5:
                self.drift_examples.append("dynamic " + first_diff(rd, sd) + "\n" + src)
        for meta, tree in ((case["smeta"], res["static"]), (case["dmeta"], res["dynamic"])):
            tree = {_canon_key(k, pkg): v for k, v in tree.items()}
            for m in meta:
                r = tree.get(".".join(m["path"]))
                if r is not None and r["kind"] in ("function", "attribute") and "labels" in r:
                    if set(r["labels"]) & LABEL_VOCAB != set(m["labels"]) & LABEL_VOCAB:
                        self.drift_labels += 1
                        if len(self.label_examples) < 3:
                            self.label_examples.append(f"{'.'.join(m['path'])}: real {sorted(r['labels'])} vs spec {sorted(m['labels'])} in {src!r}")
        predicted = {(".".join(d["path"]), d["clause"]): d["cause"] for d in case["diffs"]}
        for d in case["diffs"]:
            self.causes_seen.add(d["cause"])
            w = self.smallest.get(d["cause"])
            if w is None or (len(case["prog"]), case_key(case)) < (len(w["prog"]), case_key(w)):
                self.smallest[d["cause"]] = case
        for m in case["dmeta"]:
            self.dyn_labels_seen.update(m["labels"])
        for pc, cause in predicted.items():
            if pc not in real:
                self.predicted_not_seen[cause] = self.predicted_not_seen.get(cause, 0) + 1

    def report(self):
        run = self.run
        if self.drift_s or self.drift_d:
            run.note(f"model drift: real static tree differs from the spec's in {self.drift_s} program(s), real dynamic tree in {self.drift_d}; first: " + " | ".join(self.drift_examples[:2]))
        if self.drift_labels:
            run.note(f"label drift (labels are outside the skeleton): {self.drift_labels} member(s); first: " + " | ".join(self.label_examples[:2]))
        for cause, n in sorted(self.predicted_not_seen.items()):
            run.note(f"the model predicts a difference with cause '{cause}' that the real code does not show in {n} place(s) (fixed upstream, or model drift)")
        run.extra["drift"] = {"static": self.drift_s, "dynamic": self.drift_d, "labels": self.drift_labels}
        run.extra["programs_with_real_difference"] = self.real_diff_cases


def _canon_dump(x: dict, pkg: str) -> dict:
    def c(parts):
        return ["pkg" if (i == 0 and p == pkg) else p for i, p in enumerate(parts)]

    return dict(x, mod=c(x["mod"]), bases=[c(b) for b in x["bases"]], path=["pkg" if part == pkg else part for part in x["path"]])


# ---------------------------------------------------------------------------------------------------
def run_batch(root: str, idx: int, items: list) -> list:
    job = os.path.join(root, f"job{idx}.json")
    out = os.path.join(root, f"out{idx}.json")
    with open(job, "w") as fh:
        json.dump({"root": os.path.join(root, f"b{idx}"), "items": items}, fh)
    os.makedirs(os.path.join(root, f"b{idx}"), exist_ok=True)
    proc = subprocess.run([PY, "-m", "gverif.props.c17_worker", job, out], env=child_env(), capture_output=True, text=True, timeout=1800, check=False)
    if proc.returncode != 0 or not os.path.exists(out):
        die(f"C17 worker failed rc={proc.returncode}: {proc.stdout[-2000:]} {proc.stderr[-2000:]}")
    with open(out) as fh:
        return json.load(fh)["results"]


def validate_doctable(res):
    """The spec's Cleandoc / Rstrip against the real inspect.cleandoc, on every docstring shape."""
    tables = [n["doctable"] for n in res.notes if isinstance(n, dict) and "doctable" in n]
    if not tables:
        die("C17: Inspector.tla did not print its docstring table")
    for row in tables[0]:
        shape = row["shape"]
        raw = [(x["ind"], x["txt"]) for x in row["raw"]]
        if raw != DOC_LINES[shape]:
            die(f"C17: DocLines({shape}) differs between spec and renderer: {raw} vs {DOC_LINES[shape]}")
        text = doc_text(shape)
        once = _lines(inspect.cleandoc(text.rstrip()))
        twice = _lines(inspect.cleandoc(inspect.cleandoc(text).rstrip()))  # what cleaning twice would give (not idempotent on "deep")
        if once != [(x["ind"], x["txt"]) for x in row["once"]] or once != [(x["ind"], x["txt"]) for x in row["dyn"]]:
            die(f"C17: spec Cleandoc disagrees with inspect.cleandoc on shape {shape}: {once} vs static {row['once']} / dynamic {row['dyn']}")
        if shape == "deep" and twice == once:
            die("C17: the 'deep' docstring shape no longer distinguishes one cleandoc pass from two")


class Replayer:
    """Pool of fresh worker subprocesses; batches are submitted as soon as a TLC run delivers its programs."""

    def __init__(self, root: str, procs: int, tag: str = "c"):
        self.root = root
        self.pool = ThreadPoolExecutor(max_workers=procs)
        self.futs = {}
        self.n = 0
        self.tag = tag

    def submit(self, cases: list):
        for b in range(0, len(cases), BATCH):
            chunk = cases[b:b + BATCH]
            items = [{"pkg": f"c17{self.tag}{os.getpid()}x{self.n + i}", "case": abstract(c)} for i, c in enumerate(chunk)]
            self.futs[self.pool.submit(run_batch, self.root, self.n, items)] = (chunk, items)
            self.n += len(chunk)

    def drain(self, checker: Checker):
        for fut in as_completed(list(self.futs)):
            chunk, items = self.futs.pop(fut)
            for case, item, res in zip(chunk, items, fut.result()):
                checker.check(case, res, item["pkg"])
        self.pool.shutdown()


def replay_cases(run: Run, checker: Checker, cases: list, procs: int, tag: str = "c"):
    if not cases:
        return
    with scratch("c17-") as root:
        rp = Replayer(root, procs, tag)
        rp.submit(cases)
        rp.drain(checker)


def main(tier: str, replay: str | None = None):
    ensure_repo()
    run = Run("C17", tier)
    run.rule = ("Inspector.tla: every program of <= MaxStmts statements over the statement alphabet of each domain configuration "
                "(def/async def with decorators, signature and docstring shapes; class with base and docstring, nested once; "
                "x = literal/None; x: int = v; x: int; from-imports of class/function/value/module/stdlib class; import pkg.other; "
                "x = name), main module = pkg/__init__.py or pkg/sub.py. Every program is written to disk and loaded by both real "
                "agents. Non-trivial = program of at least two statements; distinct by (main, module docstring, token sequence).")
    checker = Checker(run)
    procs = 8 if tier == "quick" else 10
    if replay:
        with open(replay) as fh:
            rec = json.load(fh)
        want = rec["case"]["case"]
        print(rec["what"])
        res = tlc.must(_tlc_single_program(want), allow_violations=True)
        run.add_tlc(res)
        hits = [c for c in res.cases if case_key(c) == case_key(want)]
        if not hits:
            die("C17 replay: TLC did not regenerate the stored program")
        replay_cases(run, checker, hits[:1], 1, "r")
        checker.report()
        run.finish()

    t0 = time.time()
    seen: set = set()
    caps: dict = {}
    sampled = False
    witnesses = []
    with scratch("c17-") as root:
        rp = Replayer(root, procs)
        with ThreadPoolExecutor(max_workers=len(DOMAINS[tier]) + len(DEFECTS)) as pool:
            futs = {}
            for cfg, clean, *cap in DOMAINS[tier]:
                caps[cfg] = cap[0] if cap else None
                futs[pool.submit(tlc.run, "Inspector", cfg, workers=TLC_WORKERS[tier], timeout=3000, heap="2g" if tier == "quick" else "6g", env=JVM_ENV if tier == "quick" else None)] = ("domain", cfg, clean)
            # thorough: one refutation run per open root cause (TLC must violate No<Cause>; its counterexample is the witness).
            # quick: the machine-wide bound on concurrent JVMs makes 7 more runs expensive; there the witness of a cause is the
            # smallest program the full domains emit with a predicted difference of that cause (DiffsComplete: skS # skD there).
            for cause, (inv, consts) in (DEFECTS.items() if tier == "thorough" else ()):
                futs[pool.submit(tlc.run, "Inspector", "Inspector_defect.cfg", workers=1, timeout=600, constants=dict(consts, INV=inv), dump_trace=True, heap="512m", env=JVM_ENV)] = ("defect", cause, inv)
            first = True
            for fut in as_completed(futs):
                kind, a, b = futs[fut]
                res = fut.result()
                if kind == "domain":
                    tlc.must(res)  # SkeletonsAgree (clean) / DiffsExplained (full) hold on the model
                    run.add_tlc(res)
                    if first:
                        validate_doctable(res)
                        first = False
                    fresh = []
                    pool_cases = res.cases
                    if b and any(c["diffs"] for c in pool_cases):
                        die(f"C17: clean domain {a} emitted a program with predicted differences")
                    if caps[a] and len(pool_cases) > caps[a]:
                        # TLC decided the invariants on every program of this domain; the binding replays a seeded sample
                        # (drawn from the sorted case list, so the replayed set does not depend on the order TLC runs finish)
                        run.note(f"{a}: {len(pool_cases)} programs model-checked, {caps[a]} of them (seed {SEED}) replayed on the real agents")
                        pool_cases = random.Random(SEED).sample(sorted(pool_cases, key=case_key), caps[a])
                        sampled = True
                    for c in pool_cases:
                        k = case_key(c)
                        if k not in seen:
                            seen.add(k)
                            fresh.append(c)
                    print(f"tlc {a}: {res.distinct} distinct states, {len(res.cases)} programs ({len(fresh)} new), {res.wall_s:.1f}s, t+{time.time() - t0:.0f}s", flush=True)
                    rp.submit(fresh)
                else:
                    tlc.must(res, allow_violations=True)
                    run.add_tlc(res)
                    if b not in res.violated or not res.trace:
                        die(f"C17: the model no longer exhibits the recorded defect '{a}' (invariant {b} not refuted: {res.violated})")
                    witnesses.append((a, res.trace[-1]))
        print(f"tlc done t+{time.time() - t0:.0f}s, {len(seen)} distinct programs", flush=True)
        run.exhaustive = not sampled
        rp.drain(checker)
        print(f"replay done t+{time.time() - t0:.0f}s", flush=True)
    # every recorded root cause: TLC's counterexample program must show the very difference on the real code
    wcases = [{"main": st["main"], "mdoc": st["mdoc"], "prog": st["prog"], "cause": cause, "diffs": st["diffs"]} for cause, st in witnesses]
    if tier != "thorough":
        wcases = [{"main": c["main"], "mdoc": c["mdoc"], "prog": c["prog"], "cause": cause, "diffs": c["diffs"]} for cause, c in sorted(checker.smallest.items()) if cause in DEFECTS]
    confirm_witnesses(run, wcases)
    expected_stmts = {"def", "class", "end", "assign", "ann", "annonly", "from", "import", "ref", "setter"}
    if not expected_stmts <= checker.stmt_seen:
        die(f"C17: vacuous run, statement kinds never generated: {sorted(expected_stmts - checker.stmt_seen)}")
    if not LABEL_VOCAB <= checker.dyn_labels_seen:
        die(f"C17: vacuous run, rungs of the kind ladder never taken (by label): {sorted(LABEL_VOCAB - checker.dyn_labels_seen)}")
    if not set(DEFECTS) <= checker.causes_seen:
        die(f"C17: vacuous run, root causes never predicted in the full domains: {sorted(set(DEFECTS) - checker.causes_seen)}")
    checker.report()
    run.finish()


def confirm_witnesses(run: Run, wcases: list):
    with scratch("c17w-") as root:
        items = [{"pkg": f"c17w{os.getpid()}x{i}", "case": abstract(c)} for i, c in enumerate(wcases)]
        results = run_batch(root, 0, items)
    for c, item, res in zip(wcases, items, results):
        if res["error"]:
            die(f"C17: witness of '{c['cause']}' does not load: {res['error']}")
        rs = skeleton(res["static"], res["sdoc"], "static", item["pkg"])
        rd = skeleton(res["dynamic"], res["ddoc"], "dynamic", item["pkg"])
        real = set(diff_skeletons(rs, rd))
        want = {(".".join(d["path"]), d["clause"]) for d in c["diffs"] if d["cause"] == c["cause"]}
        run.replayed()
        run.evaluated()
        if want & real:
            print(f"witness {c['cause']}: confirmed on the real code: {sorted(want & real)}\n" + "\n".join("    " + ln for ln in render_main(c, 'pkg').splitlines()), flush=True)
        else:
            run.note(f"TLC's witness of root cause '{c['cause']}' is not reproduced by the real code (fixed upstream, or model drift): {render_main(c, 'pkg')!r}")


def _tla_value(v) -> str:
    if isinstance(v, bool):
        return "TRUE" if v else "FALSE"
    return json.dumps(v)


def _tlc_single_program(case: dict):
    """TLC on a module that extends Inspector and forces the stored token sequence (ForcedProg <- ReplayProg)."""
    import shutil

    toks = ",\n  ".join("[" + ", ".join(f"{f} |-> {_tla_value(k.get(f, 0))}" for f in ("t", "n", "deco", "async", "sig", "doc", "val", "what", "as", "base", "inst", "lvl")) + f", chain |-> {json.dumps(k.get('chain', '-'))}]" for k in case["prog"])
    with scratch("c17r-") as d:
        shutil.copy(os.path.join(tlc.SPEC_DIR, "Inspector.tla"), d)
        with open(os.path.join(d, "InspectorReplay.tla"), "w") as fh:
            fh.write("---- MODULE InspectorReplay ----\nEXTENDS Inspector\nReplayProg == <<\n  " + toks + "\n>>\n====\n")
        rel = os.path.relpath(os.path.join(d, "InspectorReplay"), tlc.SPEC_DIR)
        return tlc.run(rel, "Inspector_replay.cfg", workers=1, timeout=600, constants=_replay_constants(case))


def _replay_constants(case: dict) -> dict:
    """A domain just large enough to regenerate one stored program."""
    prog = [k for k in case["prog"] if k["t"] != "end"]

    def s(values):
        return "{" + ", ".join(json.dumps(v) if not isinstance(v, bool) else str(v).upper() for v in sorted(set(values), key=str)) + "}"

    names = [k["n"] for k in prog if k["n"] not in ("-", "__init__")] + [k["as"] for k in prog if k["as"] != "-"] + [k["base"] for k in prog if k["base"] not in ("-", "OK", "other", "pkg")] + [k["what"] for k in prog if k["t"] == "ref" and k["what"] not in ("OK", "og")]
    depth, nest = 0, 0
    for k in case["prog"]:
        if k["t"] == "class":
            depth += 1
            nest = max(nest, depth)
        elif k["t"] == "end":
            depth -= 1
    return {
        "MAININS": s([case["main"]]),
        "NAMES": s(names or ["a"]),
        "MAXSTMTS": len(prog),
        "MAXNEST": max(nest, 1),
        "STMTS": s([k["t"] for k in prog] or ["def"]),
        "DECOS": s([k["deco"] for k in prog if k["t"] == "def"] or ["none"]),
        "ASYNCS": s([k["async"] for k in prog if k["t"] == "def"] or [False]),
        "SIGS": s([k["sig"] for k in prog if k["t"] == "def"] or ["s0"]),
        "DOCS": s([k["doc"] for k in prog if k["t"] in ("def", "class")] or ["none"]),
        "MODDOCS": s([case["mdoc"]]),
        "VALS": s([k["val"] for k in prog if k["t"] in ("assign", "ann")] or ["lit"]),
        "IMPORTS": s([k["what"] for k in prog if k["t"] == "from"] or ["OK"]),
        "ASNAMES": s([k["as"] for k in prog if k["t"] in ("from", "import")] or ["-"]),
        "CHAINS": s([k.get("chain", "-") for k in prog if k["t"] == "class"] or ["-"]),
        "LEVELS": "{" + ", ".join(str(x) for x in sorted({max(k.get("lvl", 1), 1) for k in prog if k["t"] == "from"} or {1})) + "}",
        "INSTNAMES": s([k["what"] for k in prog if k["t"] == "def" and k["inst"]] or ["q"]),
        "ALLOWINST": "TRUE" if any(k["inst"] for k in prog) or any(k["n"] == "__init__" for k in prog) else "FALSE",
    }
