"""X05 - what runs inside forked children: the real griffe.dynamic_import, and CPython itself as oracle.

Every run happens in a fresh fork of a warm worker (griffe imported, nothing of the case imported), reports one
JSON document through a pipe and leaves with os._exit: the case's modules, sys.path games and SystemExit /
KeyboardInterrupt raised by module bodies never reach the worker.
"""
from __future__ import annotations

import builtins
import json
import os
import sys
import types
from importlib import import_module
from pathlib import Path


def forked(fn, *args):
    """Run fn(*args) in a forked child; returns its JSON-able result (or {'crash': ...})."""
    r, w = os.pipe()
    pid = os.fork()
    if pid == 0:
        code = 0
        try:
            os.close(r)
            try:
                res = fn(*args)
            except BaseException as exc:  # noqa: BLE001
                res = {"crash": f"{type(exc).__name__}: {exc}"}
            with os.fdopen(w, "w") as fh:
                json.dump(res, fh)
        except BaseException:  # noqa: BLE001
            code = 3
        finally:
            os._exit(code)
    os.close(w)
    with os.fdopen(r) as fh:
        data = fh.read()
    _, status = os.waitpid(pid, 0)
    if not data:
        return {"crash": f"child died without a report (status {status})"}
    return json.loads(data)


# ---- projections onto the spec's vocabulary --------------------------------------------------------
def _root_of(w: dict, loc: str | None) -> str:
    for tag, p in w["roots"].items():
        if loc and (loc == p or loc.startswith(p + os.sep)):
            return tag
    return "?"


def vid(w: dict, v) -> dict:
    if isinstance(v, types.ModuleType):
        loc = getattr(v, "__file__", None)
        if not loc:
            paths = list(getattr(v, "__path__", []) or [])
            loc = paths[0] if paths else None
        root = _root_of(w, loc)
        level = v.__name__.count(".") + 1
        if root == "R":
            return {"t": "M", "k": 0, "i": level}
        if root == "X":
            return {"t": "X", "k": 0, "i": level}
        return {"t": "?", "k": 0, "i": level, "repr": repr(v)[:120]}
    tag = getattr(v, "__vid__", None) if isinstance(v, type) else None
    if isinstance(tag, str) and tag.startswith("O:"):
        _, k, i = tag.split(":")
        return {"t": "O", "k": int(k), "i": int(i)}
    return {"t": "?", "k": 0, "i": 0, "repr": repr(v)[:120]}


def path_tokens(w: dict, base: list, path) -> list:
    out = []
    rev = {p: t for t, p in w["roots"].items()}
    rev[w["plus"]] = "+"
    basestr = set(base)
    for e in path:
        s = str(e)
        if s in rev:
            out.append(rev[s] if isinstance(e, str) else rev[s] + ":" + type(e).__name__)
        elif s not in basestr:
            out.append("?" + s)
    return out


def seen_tokens(w: dict, base: list, entries: list) -> list:
    """sys.path as the first execution of a module body saw it ("<type>:<entry>" strings)."""
    rev = {p: t for t, p in w["roots"].items()}
    rev[w["plus"]] = "+"
    basestr = set(base)
    out = []
    for e in entries:
        typ, _, s = e.partition(":")
        if s in rev:
            out.append(rev[s] if typ == "str" else rev[s] + ":" + typ)
        elif s not in basestr:
            out.append("?" + s)
    return out


def observe(w: dict, base: list, before_obj) -> dict:
    top = w["comps"][0]
    mods = []
    for name, m in list(sys.modules.items()):
        if name == top or name.startswith(top + "."):
            mods.append(vid(w, m) if isinstance(m, types.ModuleType) else {"t": "?", "k": 0, "i": 0, "repr": name})
    return {
        "mods": sorted(mods, key=lambda v: (v["t"], v["i"])),
        "execs": dict(getattr(builtins, "_x05_execs", {})),
        "seen": {k: seen_tokens(w, base, v) for k, v in getattr(builtins, "_x05_seen", {}).items()},
        "same_list": sys.path is before_obj,
        "path": path_tokens(w, base, sys.path),
    }


def _exc(exc: BaseException) -> dict:
    try:
        text = str(exc)
    except BaseException:  # noqa: BLE001
        text = ""  # unprintable: no text can be expected in a report
    return {"cls": type(exc).__name__, "mro": [c.__name__ for c in type(exc).__mro__], "text": text}


# ---- the real code ---------------------------------------------------------------------------------
def run_real(w: dict) -> dict:
    import griffe  # noqa: PLC0415  (already imported in the worker, from $VERIF_REPO/src)

    base = list(sys.path)
    sys.path[:] = w["up"] + base
    before_obj, before = sys.path, list(sys.path)
    if not w["ip"]:
        ip = None
    elif w["ipk"] == "path":
        ip = [Path(p) for p in w["ip"]]
    else:
        ip = list(w["ip"])
    out: dict = {}
    try:
        value = griffe.dynamic_import(w["dotted"], ip)
        out["outcome"] = {"kind": "return", "value": vid(w, value)}
    except BaseException as exc:  # noqa: BLE001
        out["outcome"] = {"kind": "raise", **_exc(exc)}
    out.update(observe(w, base, before_obj))
    out["before"] = path_tokens(w, base, before)
    return out


# ---- CPython as the oracle -------------------------------------------------------------------------
def run_oracle(w: dict, m: int) -> dict:
    """Fresh interpreter state, sys.path = the paths the contract says are used; import_module(prefix m), then
    getattr of the remaining components; also the value of the plain expression c1.c2...cn."""
    base = list(sys.path)
    if w["ip"]:
        sys.path[:] = list(w["ip"])  # "the paths to use when importing modules"
    else:
        sys.path[:] = w["up"] + base
    before_obj = sys.path
    comps = w["comps"]
    out: dict = {"m": m}
    try:
        value = import_module(".".join(comps[:m]))
        out["import"] = {"ok": True}
    except BaseException as exc:  # noqa: BLE001
        out["import"] = {"ok": False, **_exc(exc)}
        value = None
    out.update(observe(w, base if not w["ip"] else [], before_obj))
    if out["import"]["ok"]:
        try:
            for part in comps[m:]:
                value = getattr(value, part)
            out["walk"] = {"ok": True, "value": vid(w, value)}
        except BaseException as exc:  # noqa: BLE001
            out["walk"] = {"ok": False, **_exc(exc)}
        try:
            value = sys.modules[comps[0]]
            for part in comps[1:]:
                value = getattr(value, part)
            out["expr"] = {"ok": True, "value": vid(w, value)}
        except BaseException as exc:  # noqa: BLE001
            out["expr"] = {"ok": False, **_exc(exc)}
    return out


# ---- griffe.sys_path used directly -------------------------------------------------------------------
def run_syspath(w: dict, pmut: str, exit_kind: str) -> dict:
    """`with griffe.sys_path(*import_paths): <mutate sys.path like the imported code would>; <leave by exit_kind>`."""
    import griffe  # noqa: PLC0415

    base = list(sys.path)
    sys.path[:] = w["up"] + base
    before_obj, before = sys.path, list(sys.path)
    paths = [Path(p) for p in w["ip"]] if w["ipk"] == "path" else list(w["ip"])
    out: dict = {"escaped": "none", "entered": False}
    try:
        with griffe.sys_path(*paths):
            out["entered"] = True
            out["inside_same"] = sys.path is before_obj
            out["inside"] = path_tokens(w, base, sys.path)
            if pmut == "append":
                sys.path.append(w["plus"])
            elif pmut == "rebind":
                sys.path = [*sys.path, w["plus"]]
            if exit_kind == "exception":
                raise ValueError("x05 leaving by exception")
            if exit_kind == "interrupt":
                raise KeyboardInterrupt("x05 leaving by interrupt")
    except BaseException as exc:  # noqa: BLE001
        out["escaped"] = type(exc).__name__ + ":" + str(exc)
    out["same_list"] = sys.path is before_obj
    out["path"] = path_tokens(w, base, sys.path)
    out["before"] = path_tokens(w, base, before)
    return out
