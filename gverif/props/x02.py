"""X02 - source location fidelity (lineno/endlineno, docstring spans, lines/source, aliases, stubs, inspector).

TLC: spec/SrcLayout.tla enumerates abstract source layouts (outline of statement forms with heights, decorator
lists, built-in docstrings, nesting, transparent blocks, fillers, stub + runtime twin) and computes for every object
the reference location (`ref`) and the transcription of what _griffe does (`impl`).
Binding (gverif/props/x02_replay.py, in a process pool): every emitted layout is rendered to a package on disk and
   CPython ast/tokenize  vs  spec ref   -> validity of the reference        (exit 2 when different)
   real Griffe           vs  spec ref   -> the contract on the code         (VIOLATION / KNOWN-FINDING)
   real Griffe           vs  spec impl  -> conformance of the transcription (drift note)
Clean configurations must satisfy every invariant; defect configurations must violate the expected ones.
"""
from __future__ import annotations

import json
import multiprocessing as mp
import os
import threading
import zlib
from concurrent.futures import ThreadPoolExecutor

from gverif import tlc
from gverif.common import SEED, die, scratch  # noqa: I001
from gverif.harness import Run

Q = lambda xs: ", ".join(f'"{x}"' for x in xs)  # noqa: E731

GROUPS = {   # domains of spec/SrcLayout.tla (DomTab) per TLC run
    "quick": [("clean", ["core", "wide", "conts"], 4), ("hazard", ["breaks", "decos", "leak", "bom", "twin", "twinx"], 3)],
    "thorough": [("core", ["core"], 6), ("wide", ["wide", "mid", "conts"], 6), ("hazard", ["breaks", "decos", "leak", "bom", "twin", "twinx"], 4)],
}
# every defect domain must make TLC report the unconditioned clauses violated (the model exhibits the defect)
EXHIBIT_DOMAINS = ["breaks", "decos", "leak", "bom", "twinx"]
EXHIBIT_INV = {"SpanExact", "DocExact", "TextExact", "FileExact", "Loadable"}
# every domain of the tier must emit layouts (vacuity)
EXPECT_DOMAINS = {"core", "wide", "conts", "breaks", "decos", "leak", "bom", "twin", "twinx"}


def case_hash(case: dict) -> int:
    """Stable number of a layout (TLC's emission order depends on worker scheduling)."""
    return zlib.crc32(json.dumps([case["dom"], case["head"], case["items"]], sort_keys=True).encode()) + SEED


def modes_for(h: int, case: dict, tier: str) -> tuple:
    if case.get("twin"):
        return ("stubs",)
    m = ["load"]
    k = (h // 4) % 4
    # load/stubs on every layout plus one of the four other modes: every mode meets every domain, evenly
    ks = {k}
    for j, name in enumerate(("json", "nosource", "visit", "inspect")):
        if j in ks:
            m.append(name)
    return tuple(m)


class Feeder:
    """Streams the layouts TLC prints into the replay pool (chunks of 40), from several TLC reader threads."""

    def __init__(self, pool, tier):
        self.pool, self.tier = pool, tier
        self.lock = threading.Lock()
        self.pending, self.doms, self.n = [], {}, 0

    def sink(self):
        chunk = []

        def add(case):
            h = case_hash(case)
            chunk.append((h, case, h % 4, modes_for(h, case, self.tier)))
            if len(chunk) >= 40:
                flush()

        def flush():
            from gverif.props import x02_replay  # noqa: PLC0415

            if chunk:
                with self.lock:
                    for _, c, _, _ in chunk:
                        self.doms[c["dom"]] = self.doms.get(c["dom"], 0) + 1
                    self.n += len(chunk)
                    self.pending.append(self.pool.apply_async(x02_replay.check_chunk, (list(chunk),)))
                del chunk[:]

        return add, flush


def run_group(group, tier, feeder):
    name, doms, workers = group
    add, flush = feeder.sink()
    res = tlc.run("SrcLayout", "SrcLayout_run.cfg", workers=workers, constants={"DOMAINS": Q(doms), "DEEP": "TRUE" if tier == "thorough" else "FALSE"},
                  timeout=3000 if tier == "thorough" else 900, heap="8g" if tier == "thorough" else "3g", keep_cases=False, on_line=add)
    flush()
    return group, res


def run_exhibits():
    return tlc.run("SrcLayout", "SrcLayout_exhibit.cfg", workers=1, constants={"DOMAINS": Q(EXHIBIT_DOMAINS)}, extra=["-continue"], timeout=900)


def replay_file(run: Run, path: str):
    from gverif.props import x02_replay  # noqa: PLC0415

    with open(path) as fh:
        rec = json.load(fh)
    print(rec["what"])
    c = rec["case"]
    res = x02_replay.check_case(c["case"], c["variant"], tuple(c["modes"]))
    if res["fatal"]:
        die(f"X02 replay: {res['fatal']}")
    run.replayed()
    run.evaluated(res["objects"])
    for sig, what in res["viol"]:
        run.violation(sig, what, c)
    r = tlc.run("SrcLayout", "SrcLayout_run.cfg", workers=1, constants={"DOMAINS": Q(["bom"]), "DEEP": "FALSE"})  # counters for the evidence file
    run.add_tlc(tlc.must(r))
    run.finish()


def main(tier: str, replay: str | None = None):
    run = Run("X02", tier)
    run.rule = ("SrcLayout.tla: every outline of <= MaxLen items (statement form x decorator list x depth) within the bounds of the "
                "domains of DomTab (core: deep; wide/mid: full alphabet, shallow; breaks, decos, leak, bom: hazard forms; twin: stub + runtime "
                "twin; twinx: with stub-only objects); one rendering variant (lf / crlf / no final newline / trailing blank lines) per layout. Non-trivial = distinct "
                "(object kind, form, decorator list, nested or not) whose location was compared on the real code.")
    if replay:
        replay_file(run, replay)
    nproc = max(2, min(12, (os.cpu_count() or 4) - 2))
    with scratch("x02-") as wd:
        os.environ["X02_WORKDIR"] = wd                     # rendered packages of all workers; removed on exit
        _main(run, tier, nproc)


def _main(run: Run, tier: str, nproc: int):
    from gverif.props import x02_replay  # noqa: PLC0415, F401

    pool = mp.get_context("fork").Pool(nproc)          # before any TLC output is parsed (copy-on-write)
    feeder = Feeder(pool, tier)
    totals = {"cases": 0, "objects": 0, "drift": 0, "inspected": 0, "modes": {}}
    fatal = None
    try:
        with ThreadPoolExecutor(max_workers=5) as ex:
            futs = [ex.submit(run_group, g, tier, feeder) for g in GROUPS[tier]]
            fex = ex.submit(run_exhibits)
            for fut in futs:
                group, res = fut.result()
                tlc.must(res)
                run.add_tlc(res)
                if not res.ncases:
                    die(f"X02: TLC run {group[0]} emitted no layout")
            xres = fex.result()
            if xres.errors or not xres.finished or not EXHIBIT_INV <= set(xres.violated) or "RefNested" in xres.violated:
                die(f"X02: the defect domains no longer violate {sorted(EXHIBIT_INV - set(xres.violated))} on the model (errors={xres.errors[:2]})")
            run.add_tlc(xres)
        if EXPECT_DOMAINS - set(feeder.doms):
            die(f"X02: no layout emitted for domains {sorted(EXPECT_DOMAINS - set(feeder.doms))}")
        totals["domains"] = dict(sorted(feeder.doms.items()))
        for p in feeder.pending:
            for h, r in p.get(timeout=6000):
                case = r.get("case")
                if r["fatal"]:
                    fatal = fatal or f"[{case['dom']}] {r['fatal']} on items {json.dumps(case['items'])} head {case['head']}"
                    continue
                totals["cases"] += 1
                totals["objects"] += r["objects"]
                totals["drift"] += r["drift"]
                totals["inspected"] += r["inspected"]
                for m in r["modes"]:
                    totals["modes"][m] = totals["modes"].get(m, 0) + 1
                run.replayed()
                run.evaluated(r["objects"])
                for k in r["keys"]:
                    run.nontrivial_case(tuple(k))
                if case is not None and not r["viol"]:
                    run.sample({"dom": case["dom"], "head": case["head"], "items": case["items"], "ref": case["ref"]})
                for sig, what in r["viol"]:
                    run.violation(sig, what, {"case": case, "variant": h % 4, "modes": list(modes_for(h, case, tier))})
    finally:
        pool.terminate()
    if fatal:
        die(f"X02: {fatal}")
    run.exhaustive = True
    run.extra["x02"] = totals
    if totals["drift"]:
        run.note(f"{totals['drift']} object(s) where the real code differs from the spec's transcription (impl) - model drift or a violation reported above")
    if totals["inspected"] < 50:
        die(f"X02: only {totals['inspected']} inspected objects carried line numbers - vacuous inspector binding")
    for m in ("load", "stubs", "json", "nosource", "visit", "inspect"):
        if totals["modes"].get(m, 0) < 20:
            die(f"X02: mode {m} ran on {totals['modes'].get(m, 0)} layouts only - vacuous")
    print(f"X02: layouts={totals['cases']} objects={totals['objects']} inspected={totals['inspected']} modes={totals['modes']} seed={SEED}", flush=True)
    run.finish()
