"""X02 - source location fidelity (lineno/endlineno, docstring spans, lines/source, aliases, stubs, inspector).

TLC: spec/SrcLayout.tla enumerates abstract source layouts (outline of statement forms with heights, decorator
lists, built-in docstrings, nesting, transparent blocks, fillers, stub + runtime twin) and computes for every object
the reference location (`ref`) and the transcription of what _griffe does (`impl`).
Binding (gverif/props/x02_replay.py, in a process pool): every emitted layout is rendered to a package on disk and
   CPython ast/tokenize  vs  spec ref   -> validity of the reference        (exit 2 when different)
   real Griffe           vs  spec ref   -> the contract on the code         (VIOLATION / KNOWN-FINDING)
   real Griffe           vs  spec impl  -> conformance of the transcription (drift note)
Clean configurations must satisfy every invariant; defect configurations must violate the expected ones.
"""
from __future__ import annotations

import json
import multiprocessing as mp
import os
from concurrent.futures import ThreadPoolExecutor

from gverif import tlc
from gverif.common import SEED, die
from gverif.harness import Run

Q = lambda xs: ", ".join(f'"{x}"' for x in xs)  # noqa: E731

CORE = ["def", "defh2", "defdoc2", "cls", "clsdoc1", "asg", "asgp3", "tup", "str1", "fromp4", "if", "else", "cmt", "init", "sasg", "with"]
CLEAN_ALL = ["def", "defh2", "defdoc1", "defdoc2", "defdocp3", "defh2doc2", "adef", "def1l", "def1l2", "init",
             "cls", "clsh3", "clsdoc1", "clsdoc2", "cls1l",
             "asg", "asgp3", "asgs2", "asgs2c0", "asgb2", "ann", "ann0", "annp3", "tup", "chain", "semi", "semis2", "sasg", "sasgp3",
             "imp", "imp2", "from", "from2", "fromp4", "fromb2", "star",
             "if", "ifh2", "for", "with", "withh3", "else", "expr", "exprp2", "str1", "str2", "strp3", "blank", "cmt", "cmt0"]
CLEAN_DECOS = ["none", "d1", "d1d1", "d2", "d1d2"]
HAZARD = ["def", "cls", "clsdoc1", "asg", "str1", "if", "else", "for", "cmt", "ff", "cmtls", "asgnel"]
HAZARD_DECOS = ["none", "d1", "dp", "prop", "d1prop"]
TWIN = ["def", "defdoc2", "defh2", "cls", "clsdoc1", "asg", "asgp3", "ann0", "cmt"]

CLEAN_INV = []
DEFECT_INV = {"SpanExact", "DocExact", "TextExact", "Loadable"}
TWIN_DEFECT_INV = {"FileExact", "TextExact"}


def jobs(tier: str) -> list:
    """(name, cfg, constants, expected violated invariants, workers)."""
    deep = tier == "thorough"
    return [
        ("core", "SrcLayout_core.cfg", {"MAXLEN": 4 if deep else 3, "FORMS": Q(CORE), "DECOS": Q(["none", "d1d2"]), "HEADS": "HeadsOne"}, set(), 8 if deep else 4),
        ("wide", "SrcLayout_core.cfg", {"MAXLEN": 3 if deep else 2, "FORMS": Q(CLEAN_ALL), "DECOS": Q(CLEAN_DECOS), "HEADS": "HeadsQuick" if deep else "HeadsAll"}, set(), 8 if deep else 2),
        ("defect", "SrcLayout_defect.cfg", {"MAXLEN": 3, "FORMS": Q(HAZARD), "DECOS": Q(HAZARD_DECOS), "HEADS": "HeadsDefectDeep" if deep else "HeadsDefect"}, DEFECT_INV, 2),
        ("twin", "SrcLayout_twin.cfg", {"MAXLEN": 4 if deep else 3, "FORMS": Q(TWIN), "DECOS": Q(["none", "d1"]), "HEADS": "HeadsQuick", "INPY": "TRUE"}, set(), 2),
        ("twin-defect", "SrcLayout_twin.cfg", {"MAXLEN": 3, "FORMS": Q(TWIN), "DECOS": Q(["none", "d1"]), "HEADS": "HeadsOne", "INPY": "TRUE, FALSE"}, TWIN_DEFECT_INV, 2),
    ]


def modes_for(idx: int, case: dict, tier: str) -> tuple:
    if case.get("twin"):
        return ("stubs",)
    m = ["load"]
    k = idx % 4
    if tier == "thorough" or k == 0:
        m.append("json")
    if tier == "thorough" or k == 1:
        m.append("nosource")
    if tier == "thorough" or k == 2:
        m.append("visit")
    if tier == "thorough" or k == 3:
        m.append("inspect")
    return tuple(m)


def run_job(job, tier):
    name, cfg, consts, expect, workers = job
    res = tlc.run("SrcLayout", cfg, workers=workers, constants=consts, extra=["-continue"] if expect else None,
                  timeout=3000 if tier == "thorough" else 600, heap="6g" if tier == "thorough" else "3g")
    return job, res


def replay_file(run: Run, path: str):
    from gverif.props import x02_replay  # noqa: PLC0415

    with open(path) as fh:
        rec = json.load(fh)
    print(rec["what"])
    c = rec["case"]
    res = x02_replay.check_case(c["case"], c["variant"], tuple(c["modes"]))
    if res["fatal"]:
        die(f"X02 replay: {res['fatal']}")
    run.replayed()
    run.evaluated(res["objects"])
    for sig, what in res["viol"]:
        run.violation(sig, what, c)
    r = tlc.run("SrcLayout", "SrcLayout_core.cfg", workers=1, constants={"MAXLEN": 1, "FORMS": Q(CORE), "DECOS": Q(["none"]), "HEADS": "HeadsOne"})
    run.add_tlc(tlc.must(r))
    run.finish()


def main(tier: str, replay: str | None = None):
    run = Run("X02", tier)
    run.rule = ("SrcLayout.tla: every outline of <= MaxLen items (statement form x decorator list x depth) within the bounds of 5 "
                "configurations (core deep, full alphabet shallow, hazard forms, stub+twin clean, stub+twin with stub-only objects); "
                "one rendering variant (lf / crlf / no final newline / trailing blank lines) per layout. Non-trivial = distinct "
                "(object kind, form, decorator list, nested or not) whose location was compared on the real code.")
    if replay:
        replay_file(run, replay)
    from gverif.props import x02_replay  # noqa: PLC0415

    nproc = max(2, min(12, (os.cpu_count() or 4) - 2))
    pool = mp.get_context("fork").Pool(nproc)          # before any TLC output is parsed (copy-on-write)
    pending = []
    totals = {"cases": 0, "objects": 0, "drift": 0, "inspected": 0, "modes": {}}
    idx = 0
    fatal = None
    meta = {}
    try:
        with ThreadPoolExecutor(max_workers=5) as ex:
            futs = [ex.submit(run_job, job, tier) for job in jobs(tier)]
            for fut in futs:
                job, res = fut.result()
                name, cfg, consts, expect, _ = job
                tlc.must(res, allow_violations=bool(expect))
                got = set(res.violated)
                if expect and not expect <= got:
                    die(f"X02: defect configuration {name} no longer violates {sorted(expect - got)} (model lost a defect)")
                if got - expect - {"EmitCase"}:
                    die(f"X02: configuration {name} violates {sorted(got - expect)} on the model")
                run.add_tlc(res)
                if not res.cases:
                    die(f"X02: configuration {name} emitted no layout")
                chunk = []
                for case in res.cases:
                    meta[idx] = (name, case)
                    chunk.append((idx, case, idx % 4, modes_for(idx, case, tier)))
                    idx += 1
                    if len(chunk) == 40:
                        pending.append(pool.apply_async(x02_replay.check_chunk, (chunk,)))
                        chunk = []
                if chunk:
                    pending.append(pool.apply_async(x02_replay.check_chunk, (chunk,)))
                res.cases = []
        seen_causes = set()
        for p in pending:
            for i, r in p.get(timeout=3000):
                name, case = meta[i]
                if r["fatal"]:
                    fatal = fatal or f"[{name}] {r['fatal']} on items {json.dumps(case['items'])} head {case['head']}"
                    continue
                totals["cases"] += 1
                totals["objects"] += r["objects"]
                totals["drift"] += r["drift"]
                totals["inspected"] += r["inspected"]
                for m in r["modes"]:
                    totals["modes"][m] = totals["modes"].get(m, 0) + 1
                run.replayed()
                run.evaluated(r["objects"])
                for k in r["keys"]:
                    run.nontrivial_case(tuple(k))
                if len(run.samples) < 5 and r["objects"] > 2:
                    run.sample({"config": name, "head": case["head"], "items": case["items"], "ref": case["ref"]})
                for sig, what in r["viol"]:
                    seen_causes.add(sig["cause"])
                    run.violation(sig, what, {"case": case, "variant": i % 4, "modes": list(modes_for(i, case, tier)), "config": name})
    finally:
        pool.terminate()
    if fatal:
        die(f"X02: {fatal}")
    run.exhaustive = True
    run.extra["x02"] = totals
    if totals["drift"]:
        run.note(f"{totals['drift']} object(s) where the real code differs from the spec's transcription (impl) - model drift or a violation reported above")
    if totals["inspected"] < 50:
        die(f"X02: only {totals['inspected']} inspected objects carried line numbers - vacuous inspector binding")
    for m in ("load", "stubs", "json", "nosource", "visit", "inspect"):
        if totals["modes"].get(m, 0) < 20:
            die(f"X02: mode {m} ran on {totals['modes'].get(m, 0)} layouts only - vacuous")
    print(f"X02: layouts={totals['cases']} objects={totals['objects']} inspected={totals['inspected']} modes={totals['modes']} seed={SEED}", flush=True)
    run.finish()
