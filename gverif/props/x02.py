"""X02 - source location fidelity (lineno/endlineno, docstring spans, lines/source, aliases, stubs, inspector).

TLC: spec/SrcLayout.tla enumerates abstract source layouts (outline of statement forms with heights, decorator
lists, built-in docstrings, nesting, transparent blocks, fillers, stub + runtime twin) and computes for every object
the reference location (`ref`) and the transcription of what _griffe does (`impl`).
Binding (gverif/props/x02_replay.py, in a process pool): every emitted layout is rendered to a package on disk and
   CPython ast/tokenize  vs  spec ref   -> validity of the reference        (exit 2 when different)
   real Griffe           vs  spec ref   -> the contract on the code         (VIOLATION / KNOWN-FINDING)
   real Griffe           vs  spec impl  -> conformance of the transcription (drift note)
Clean configurations must satisfy every invariant; defect configurations must violate the expected ones.
"""
from __future__ import annotations

import json
import multiprocessing as mp
import os
import zlib
from concurrent.futures import ThreadPoolExecutor

from gverif import tlc
from gverif.common import SEED, die  # noqa: I001
from gverif.harness import Run

Q = lambda xs: ", ".join(f'"{x}"' for x in xs)  # noqa: E731

GROUPS = {   # domains of spec/SrcLayout.tla (DomTab) per TLC run
    "quick": [("clean", ["core", "wide"], 4), ("hazard", ["breaks", "decos", "leak", "bom", "twin", "twinx"], 3)],
    "thorough": [("core", ["core"], 6), ("wide", ["wide", "mid"], 6), ("hazard", ["breaks", "decos", "leak", "bom", "twin", "twinx"], 4)],
}
# every defect domain must make TLC report the unconditioned clauses violated (the model exhibits the defect)
EXHIBIT_DOMAINS = ["breaks", "decos", "leak", "bom", "twinx"]
EXHIBIT_INV = {"SpanExact", "DocExact", "TextExact", "FileExact", "Loadable"}
# ... and every named cause must be seen in the model's own deviation table (implx) of some emitted layout
EXPECT_DOMAINS = {"core", "wide", "breaks", "decos", "leak", "bom", "twin", "twinx"}


def case_hash(case: dict) -> int:
    """Stable number of a layout (TLC's emission order depends on worker scheduling)."""
    return zlib.crc32(json.dumps([case["dom"], case["head"], case["items"]], sort_keys=True).encode()) + SEED


def modes_for(h: int, case: dict, tier: str) -> tuple:
    if case.get("twin"):
        return ("stubs",)
    m = ["load"]
    k = (h // 4) % 4
    if tier == "thorough" or k == 0:
        m.append("json")
    if tier == "thorough" or k == 1:
        m.append("nosource")
    if tier == "thorough" or k == 2:
        m.append("visit")
    if tier == "thorough" or k == 3:
        m.append("inspect")
    return tuple(m)


def run_group(group, tier):
    name, doms, workers = group
    res = tlc.run("SrcLayout", "SrcLayout_run.cfg", workers=workers, constants={"DOMAINS": Q(doms), "DEEP": "TRUE" if tier == "thorough" else "FALSE"},
                  timeout=3000 if tier == "thorough" else 900, heap="8g" if tier == "thorough" else "3g")
    return group, res


def run_exhibits():
    return tlc.run("SrcLayout", "SrcLayout_exhibit.cfg", workers=1, constants={"DOMAINS": Q(EXHIBIT_DOMAINS)}, extra=["-continue"], timeout=900)


def replay_file(run: Run, path: str):
    from gverif.props import x02_replay  # noqa: PLC0415

    with open(path) as fh:
        rec = json.load(fh)
    print(rec["what"])
    c = rec["case"]
    res = x02_replay.check_case(c["case"], c["variant"], tuple(c["modes"]))
    if res["fatal"]:
        die(f"X02 replay: {res['fatal']}")
    run.replayed()
    run.evaluated(res["objects"])
    for sig, what in res["viol"]:
        run.violation(sig, what, c)
    r = tlc.run("SrcLayout", "SrcLayout_run.cfg", workers=1, constants={"DOMAINS": Q(["bom"]), "DEEP": "FALSE"})  # counters for the evidence file
    run.add_tlc(tlc.must(r))
    run.finish()


def main(tier: str, replay: str | None = None):
    run = Run("X02", tier)
    run.rule = ("SrcLayout.tla: every outline of <= MaxLen items (statement form x decorator list x depth) within the bounds of 5 "
                "configurations (core deep, full alphabet shallow, hazard forms, stub+twin clean, stub+twin with stub-only objects); "
                "one rendering variant (lf / crlf / no final newline / trailing blank lines) per layout. Non-trivial = distinct "
                "(object kind, form, decorator list, nested or not) whose location was compared on the real code.")
    if replay:
        replay_file(run, replay)
    from gverif.props import x02_replay  # noqa: PLC0415

    nproc = max(2, min(12, (os.cpu_count() or 4) - 2))
    pool = mp.get_context("fork").Pool(nproc)          # before any TLC output is parsed (copy-on-write)
    pending = []
    totals = {"cases": 0, "objects": 0, "drift": 0, "inspected": 0, "modes": {}}
    idx = 0
    fatal = None
    meta = {}
    doms_seen = set()
    try:
        with ThreadPoolExecutor(max_workers=5) as ex:
            futs = [ex.submit(run_group, g, tier) for g in GROUPS[tier]]
            fex = ex.submit(run_exhibits)
            for fut in futs:
                group, res = fut.result()
                name = group[0]
                tlc.must(res)
                run.add_tlc(res)
                if not res.cases:
                    die(f"X02: TLC run {name} emitted no layout")
                chunk = []
                for case in res.cases:
                    meta[idx] = (case["dom"], case)
                    doms_seen.add(case["dom"])
                    h = case_hash(case)
                    chunk.append((idx, case, h % 4, modes_for(h, case, tier)))
                    idx += 1
                    if len(chunk) == 40:
                        pending.append(pool.apply_async(x02_replay.check_chunk, (chunk,)))
                        chunk = []
                if chunk:
                    pending.append(pool.apply_async(x02_replay.check_chunk, (chunk,)))
                res.cases = []
            xres = fex.result()
            if xres.errors or not xres.finished or not EXHIBIT_INV <= set(xres.violated) or "RefNested" in xres.violated:
                die(f"X02: the defect domains no longer violate {sorted(EXHIBIT_INV - set(xres.violated))} on the model (errors={xres.errors[:2]})")
            run.add_tlc(xres)
        if EXPECT_DOMAINS - doms_seen:
            die(f"X02: no layout emitted for domains {sorted(EXPECT_DOMAINS - doms_seen)}")
        seen_causes = set()
        for p in pending:
            for i, r in p.get(timeout=3000):
                name, case = meta[i]
                if r["fatal"]:
                    fatal = fatal or f"[{name}] {r['fatal']} on items {json.dumps(case['items'])} head {case['head']}"
                    continue
                totals["cases"] += 1
                totals["objects"] += r["objects"]
                totals["drift"] += r["drift"]
                totals["inspected"] += r["inspected"]
                for m in r["modes"]:
                    totals["modes"][m] = totals["modes"].get(m, 0) + 1
                run.replayed()
                run.evaluated(r["objects"])
                for k in r["keys"]:
                    run.nontrivial_case(tuple(k))
                if len(run.samples) < 5 and r["objects"] > 2:
                    run.sample({"config": name, "head": case["head"], "items": case["items"], "ref": case["ref"]})
                for sig, what in r["viol"]:
                    seen_causes.add(sig["cause"])
                    run.violation(sig, what, {"case": case, "variant": case_hash(case) % 4, "modes": list(modes_for(case_hash(case), case, tier))})
    finally:
        pool.terminate()
    if fatal:
        die(f"X02: {fatal}")
    run.exhaustive = True
    run.extra["x02"] = totals
    if totals["drift"]:
        run.note(f"{totals['drift']} object(s) where the real code differs from the spec's transcription (impl) - model drift or a violation reported above")
    if totals["inspected"] < 50:
        die(f"X02: only {totals['inspected']} inspected objects carried line numbers - vacuous inspector binding")
    for m in ("load", "stubs", "json", "nosource", "visit", "inspect"):
        if totals["modes"].get(m, 0) < 20:
            die(f"X02: mode {m} ran on {totals['modes'].get(m, 0)} layouts only - vacuous")
    print(f"X02: layouts={totals['cases']} objects={totals['objects']} inspected={totals['inspected']} modes={totals['modes']} seed={SEED}", flush=True)
    run.finish()
