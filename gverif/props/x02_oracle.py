"""X02 - CPython oracle: positions of the objects of a rendered file according to ast + tokenize.

`table(data, wanted)` returns, for every wanted object, the record the spec's `ref` must equal:
k, lo (line of the `@` of the first decorator, else node.lineno), hi (node.end_lineno), dlo/dhi (lines of
the documenting string literal: first statement of a def/class body, or - PEP 257 attribute docstrings -
the string statement that immediately follows the assignment in the same statement list), ds (decorator
expression spans).  `pylines(data)` are the lines as CPython numbers them (\n, \r\n, \r only).
"""
from __future__ import annotations

import ast
import io
import re
import tokenize

_NL = re.compile(r"\r\n|\r|\n")


def decode(data: bytes) -> str:
    return data.decode("utf-8-sig")


def pylines(data: bytes) -> list:
    lines = _NL.split(decode(data))
    if lines and lines[-1] == "":
        lines.pop()
    return lines


def _at_lines(data: bytes) -> list:
    """(line, col) of every `@` operator token."""
    out = []
    for tok in tokenize.tokenize(io.BytesIO(data).readline):
        if tok.type == tokenize.OP and tok.string == "@":
            out.append(tok.start)
    return out


def _bodies(stmts):
    """Statements of a scope, looking through transparent compound statements; yields (stmt, list, index)."""
    for k, st in enumerate(stmts):
        yield st, stmts, k
        if isinstance(st, (ast.If, ast.For, ast.While, ast.With, ast.Try)):
            for field in ("body", "orelse", "finalbody"):
                yield from _bodies(getattr(st, field, []) or [])
            for h in getattr(st, "handlers", []):
                yield from _bodies(h.body)


def _doc_of_body(node):
    b = node.body
    if b and isinstance(b[0], ast.Expr) and isinstance(b[0].value, ast.Constant) and isinstance(b[0].value.value, str):
        return b[0].value.lineno, b[0].value.end_lineno
    return 0, 0


def _target_names(st):
    names = []

    def add(t):
        if isinstance(t, ast.Name):
            names.append(t.id)
        elif isinstance(t, ast.Attribute) and isinstance(t.value, ast.Name) and t.value.id == "self":
            names.append("self." + t.attr)
        elif isinstance(t, (ast.Tuple, ast.List)):
            for e in t.elts:
                add(e)

    if isinstance(st, ast.Assign):
        for t in st.targets:
            add(t)
    elif isinstance(st, ast.AnnAssign):
        add(st.target)
    return names


def table(data: bytes, wanted: list) -> dict:
    """wanted: list of (key, classpath names, name, kind); returns {key: record or None}."""
    tree = ast.parse(decode(data) if not data.startswith(b"\xef\xbb\xbf") else data)
    ats = _at_lines(data)
    out = {}
    for key, cpath, name, kind in wanted:
        scope = tree.body
        ok = True
        for cname in cpath:
            nxt = [st for st, _, _ in _bodies(scope) if isinstance(st, ast.ClassDef) and st.name == cname]
            if not nxt:
                ok = False
                break
            scope = nxt[-1].body
        if not ok:
            out[key] = None
            continue
        if kind == "module":
            d = _doc_of_body(tree)
            out[key] = {"k": "module", "lo": 0, "hi": 0, "dlo": d[0], "dhi": d[1], "ds": []}
            continue
        rec = None
        if name.startswith("self."):
            inits = [st for st, _, _ in _bodies(scope) if isinstance(st, ast.FunctionDef) and st.name == "__init__"]
            scope = inits[-1].body if inits else []
        for st, lst, k in _bodies(scope):
            if kind in ("function", "class", "attribute") and isinstance(st, (ast.FunctionDef, ast.AsyncFunctionDef, ast.ClassDef)) and st.name == name:
                lo = st.lineno
                if st.decorator_list:
                    d0 = st.decorator_list[0]
                    before = [a for a in ats if a < (d0.lineno, d0.col_offset)]
                    lo = max(before)[0]
                d = _doc_of_body(st)
                isprop = any(isinstance(x, ast.Name) and x.id == "property" for x in st.decorator_list)
                rec = {"k": "class" if isinstance(st, ast.ClassDef) else ("attribute" if isprop else "function"),
                       "lo": lo, "hi": st.end_lineno, "dlo": d[0], "dhi": d[1],
                       "ds": [] if isprop else [[x.lineno, x.end_lineno] for x in st.decorator_list]}
            elif kind == "attribute" and name in _target_names(st):
                dlo = dhi = 0
                if k + 1 < len(lst):
                    nx = lst[k + 1]
                    if isinstance(nx, ast.Expr) and isinstance(nx.value, ast.Constant) and isinstance(nx.value.value, str):
                        dlo, dhi = nx.value.lineno, nx.value.end_lineno
                rec = {"k": "attribute", "lo": st.lineno, "hi": st.end_lineno, "dlo": dlo, "dhi": dhi, "ds": []}
            elif kind == "alias" and isinstance(st, (ast.Import, ast.ImportFrom)):
                bound = [a.asname or a.name for a in st.names]
                if name in bound or (bound == ["*"] and name in ("L1", "L2")):
                    rec = {"k": "alias", "lo": st.lineno, "hi": st.end_lineno, "dlo": 0, "dhi": 0, "ds": []}
        out[key] = rec
    return out
