"""C19 binding helpers: abstract (runtime, stubs) pair of spec/Merge.tla -> files on disk -> real Griffe -> projection.

Vocabulary (identical to Merge.tla):
  case  = {cells: [cellA, cellB], mdoc, place, order}
  cell  = {rk, rtg (runtime member declared under `if typing.TYPE_CHECKING:`), sk, rdoc, sdoc, rann, sann, sret, rpar, spar, rov, sov, irk, isk, ibare}
          rpar in two|none (runtime function has parameters p, q / none); spar in same|diff|none (stub: p, q / p, r / none)
          rk in abs|cls|fun|att|al_ext|al_fun|al_cls|al_att      (runtime side of the name)
          sk in abs|cls|fun|att|al|al_fun|ovo                     (stub side; ovo = @overload signatures only; al: import of an
                                                                   unloaded module's object, al_fun: of an object of the loaded `tgt`)
          irk/isk: the same for the inner name `u` of a class (no nested classes with members)
  place = sub   pkg/mod.py + pkg/mod.pyi                 (sibling .pyi; implicit merge in set_member)
          top   mod.py + mod.pyi in the search path        (sibling .pyi of a single-file top-level module)
          init  mod/__init__.py + mod/__init__.pyi         (.pyi inside the package)
          spkg  mod/__init__.py + mod-stubs/__init__.pyi   (-stubs package, module = top module)
          ssub  pkg/mod.py + pkg-stubs/mod.pyi             (-stubs package, module = submodule)
  order = rt | st   which of the two files the directory listing / search path presents first
  req   = top | mod | obj   what is asked of griffe.load: top-level name, dotted path of the module, dotted path of its first member (`obj`)

The module under test is always called `mod`; alias targets live in the single-file package `tgt`
(loaded first by the same loader, so `from tgt import fn_a as a` is resolvable at merge time), while
`from nowhere import zz as a` is not.

Taps also record: every merge_stubs call (exception, alias `_target` snapshots), every Alias.resolve_target call made
below merger.py (site), every _merge_{module,class,function,attribute}_stubs call (step trace = variable `tr` of the spec).

Projection tags: annotations RT/ST/TT/OV1/OV2 (stub overloads)/RV1/RV2 (runtime overloads) and docstrings "rt doc"/"st doc"/"tgt doc" are mapped back to
"R"/"S"/"T" (overloads "O1","O2" / "Q1","Q2") so that the projected tree is over the spec's finite vocabulary.
"""
from __future__ import annotations

import os
import pathlib
import sys

NAMES = ["a", "b"]
PLACES = ["sub", "top", "init", "spkg", "ssub"]

# ---------------------------------------------------------------------------------------------------------
# rendering
# ---------------------------------------------------------------------------------------------------------

def _fun(name: str, params: list, ann: str | None, ret: str | None, doc: str | None, ind: str, method: bool, stub: bool, overloads: bool) -> list:
    out = []
    selfp = ["self"] if method else []
    if overloads:
        for i in (1, 2):
            out.append(f"{ind}@typing.overload")
            tag = "RV" if not stub else "OV"
            out.append(f"{ind}def {name}({', '.join(selfp + [f'{p}: {tag}{i}' for p in params])}) -> {tag}{i}: ...")
    ps = ", ".join(selfp + [f"{p}: {ann}" if ann else p for p in params])
    head = f"{ind}def {name}({ps})" + (f" -> {ret}" if ret else "") + ":"
    if doc:
        out.append(head)
        out.append(f'{ind}    """{doc}"""')
    else:
        out.append(head + (" ..." if stub else " pass"))
    return out


def _ovo(name: str, params: list, ind: str, method: bool) -> list:
    out = []
    selfp = ["self"] if method else []
    for i in (1, 2):
        out.append(f"{ind}@typing.overload")
        out.append(f"{ind}def {name}({', '.join(selfp + [f'{p}: OV{i}' for p in params])}) -> OV{i}: ...")
    return out


def _att(name: str, ann: str | None, doc: str | None, ind: str, stub: bool) -> list:
    if stub:
        out = [f"{ind}{name}: {ann}" if ann else f"{ind}{name} = ..."]
    else:
        out = [f"{ind}{name}: {ann} = 1" if ann else f"{ind}{name} = 1"]
    if doc:
        out.append(f'{ind}"""{doc}"""')
    return out


def _inner(side: str, top: str, kind: str, bare: bool, ind: str) -> list:
    """Inner member `u` of class `top` on side rt/st."""
    stub = side == "st"
    tag = "ST" if stub else "RT"
    doc = f"{side} doc {top}.u"
    if kind == "abs":
        return []
    if kind == "fun":
        b = bare and not stub
        return _fun("u", ["p", "q"], None if b else tag, None if b else tag, None if b else doc, ind, True, stub, False)
    if kind == "att":
        b = bare and not stub
        return _att("u", None if b else tag, None if b else doc, ind, stub)
    if kind == "cls":
        b = bare and not stub
        return [f"{ind}class u:", f'{ind}    """{doc}"""' if not b else f"{ind}    pass"]
    if kind == "al_ext":
        return [f"{ind}from nowhere import zz as u"]
    if kind == "al_fun":
        return [f"{ind}from tgt import fn_{top} as u"]
    if kind == "al":
        return [f"{ind}from elsewhere import yy as u"]
    if kind == "ovo":
        return _ovo("u", ["p", "q"], ind, True)
    raise ValueError(kind)


def _cls(side: str, name: str, doc: bool, ikind: str, bare: bool) -> list:
    stub = side == "st"
    tag = "ST" if stub else "RT"
    out = [f"class {name}:"]
    if doc:
        out.append(f'    """{side} doc {name}"""')
    out += _inner(side, name, ikind, bare, "    ")
    out += _fun("v", ["p", "q"], tag, tag, f"{side} doc {name}.v", "    ", True, stub, False)
    return out


def render_side(case: dict, side: str) -> str:
    stub = side == "st"
    out = []
    md = case["mdoc"]
    if (md in ("both", "rt") and not stub) or (md in ("both", "st") and stub):
        out.append(f'"""{side} doc mod"""')
    out.append("import typing")
    for name, c in zip(NAMES, case["cells"]):
        start = len(out)
        if not stub:
            k = c["rk"]
            doc = f"rt doc {name}" if c["rdoc"] else None
            ann = "RT" if c["rann"] else None
            if k == "cls":
                out += _cls("rt", name, c["rdoc"], c["irk"], c["ibare"])
            elif k == "fun":
                out += _fun(name, ["p", "q"] if c.get("rpar", "two") == "two" else [], ann, ann, doc, "", False, False, c["rov"])
            elif k == "att":
                out += _att(name, ann, doc, "", False)
            elif k == "al_ext":
                out.append(f"from nowhere import zz as {name}")
            elif k == "al_fun":
                out.append(f"from tgt import fn_{name} as {name}")
            elif k == "al_cls":
                out.append(f"from tgt import Kl_{name} as {name}")
            elif k == "al_att":
                out.append(f"from tgt import at_{name} as {name}")
        else:
            k = c["sk"]
            doc = f"st doc {name}" if c["sdoc"] else None
            ann = "ST" if c["sann"] else None
            if k == "cls":
                out += _cls("st", name, c["sdoc"], c["isk"], False)
            elif k == "fun":
                params = {"same": ["p", "q"], "diff": ["p", "r"], "none": []}[c["spar"]]
                out += _fun(name, params, ann, "ST" if c["sret"] else None, doc, "", False, True, c["sov"])
            elif k == "att":
                out += _att(name, ann, doc, "", True)
            elif k == "al":
                out.append(f"from elsewhere import yy as {name}")
            elif k == "al_fun":
                out.append(f"from tgt import fn_{name} as {name}")
            elif k == "ovo":
                out += _ovo(name, ["p", "q"], "", False)
        if not stub and c.get("rtg") and len(out) > start:
            # declared under `if TYPE_CHECKING:`: the visitor builds the member (and what it contains) with runtime = False
            out[start:] = ["if typing.TYPE_CHECKING:"] + ["    " + line for line in out[start:]]
    return "\n".join(out) + "\n"


def render_tgt() -> str:
    out = ['"""tgt doc"""']
    for n in NAMES:
        out += _fun(f"fn_{n}", ["p", "q"], "TT", "TT", f"tgt doc fn_{n}", "", False, False, False)
        out += [f"class Kl_{n}:", f'    """tgt doc Kl_{n}"""']
        out += _fun("u", ["p", "q"], "TT", "TT", f"tgt doc Kl_{n}.u", "    ", True, False, False)
        out += _fun("v", ["p", "q"], "TT", "TT", f"tgt doc Kl_{n}.v", "    ", True, False, False)
        out += _att(f"at_{n}", "TT", f"tgt doc at_{n}", "", False)
    return "\n".join(out) + "\n"


def layout(case: dict) -> dict:
    """-> {files: {relpath: text}, search: [reldirs in order], load: name, stubs_pkg: bool, modpath: [..]}"""
    rt, st = render_side(case, "rt"), render_side(case, "st")
    place, order = case["place"], case["order"]
    files = {"sp/tgt.py": render_tgt()}
    search = ["sp"]
    stubs_pkg = False
    if place == "sub":
        files.update({"sp/pkg/__init__.py": '"""pkg"""\n', "sp/pkg/mod.py": rt, "sp/pkg/mod.pyi": st})
        load, modpath = "pkg", ["pkg", "mod"]
    elif place == "top":
        files.update({"sp/mod.py": rt, "sp/mod.pyi": st})
        load, modpath = "mod", ["mod"]
    elif place == "init":
        files.update({"sp/mod/__init__.py": rt, "sp/mod/__init__.pyi": st})
        load, modpath = "mod", ["mod"]
    elif place == "spkg":
        files.update({"sp/mod/__init__.py": rt, "ss/mod-stubs/__init__.pyi": st})
        load, modpath, stubs_pkg = "mod", ["mod"], True
        search = ["sp", "ss"] if order == "rt" else ["ss", "sp"]
    elif place == "ssub":
        files.update({"sp/pkg/__init__.py": '"""pkg"""\n', "sp/pkg/mod.py": rt,
                      "ss/pkg-stubs/__init__.pyi": '"""pkg stubs"""\n', "ss/pkg-stubs/mod.pyi": st})
        load, modpath, stubs_pkg = "pkg", ["pkg", "mod"], True
        search = ["sp", "ss"] if order == "rt" else ["ss", "sp"]
    else:
        raise ValueError(place)
    return {"files": files, "search": search, "load": load, "stubs_pkg": stubs_pkg, "modpath": modpath}


# ---------------------------------------------------------------------------------------------------------
# listing order injection + taps (installed once per harness process)
# ---------------------------------------------------------------------------------------------------------

class Taps:
    """Wraps, in the harness process only: os.walk and Path.iterdir (listing order of scratch dirs),
    merger.merge_stubs as imported by loader/mixins (alias `_target` snapshot at every merge entry/exit),
    Alias.resolve_target (which merger statement dereferenced an unresolved alias)."""

    def __init__(self, griffe):
        self.g = griffe
        self.root = None          # only paths under this directory are re-ordered
        self.first = "rt"         # "rt": .py before .pyi ; "st": .pyi before .py
        self.merges = []          # per merge_stubs call: {before, after, exc}
        self.derefs = []          # per resolve_target call made under merge_stubs: {alias, site, ok}
        self.depth = 0
        self.steps = []           # merger functions entered: {op, n, i} (stub object a / a.u ; module: n = i = '')
        self.alias_roots = []     # modules whose aliases are snapshotted
        self._install()

    # -- ordering ---------------------------------------------------------------------------------------
    def _key(self, name: str):
        stem, ext = os.path.splitext(name)
        stubs_like = ext == ".pyi" or stem.endswith("-stubs")
        rank = (0 if stubs_like else 1) if self.first == "st" else (1 if stubs_like else 0)
        return (rank, name)

    def _install(self):
        import _griffe.loader  # noqa: F401  (make sure the importers of merge_stubs are loaded)
        import _griffe.merger as merger_mod
        import _griffe.mixins  # noqa: F401
        import _griffe.models as models_mod

        taps = self
        real_walk = os.walk
        real_iterdir = pathlib.Path.iterdir

        def walk(top, *a, **kw):
            inside = taps.root is not None and str(top).startswith(taps.root)
            for root, dirs, files in real_walk(top, *a, **kw):
                if inside:
                    dirs.sort(key=taps._key)
                    files.sort(key=taps._key)
                yield root, dirs, files

        def iterdir(self):
            if taps.root is not None and str(self).startswith(taps.root):
                return iter(sorted(real_iterdir(self), key=lambda p: taps._key(p.name)))
            return real_iterdir(self)

        os.walk = walk
        pathlib.Path.iterdir = iterdir

        real_merge = merger_mod.merge_stubs

        def merge_stubs(mod1, mod2):
            rec = {"before": taps.snapshot_targets(extra=(mod1, mod2)), "mod1": str(mod1.filepath), "mod2": str(mod2.filepath), "exc": None}
            taps.merges.append(rec)
            taps.depth += 1
            try:
                return real_merge(mod1, mod2)
            except BaseException as exc:
                rec["exc"] = type(exc).__name__
                raise
            finally:
                taps.depth -= 1
                rec["after"] = taps.snapshot_targets(extra=(mod1, mod2))

        # merge_stubs is public; rebind the name in every _griffe module that imported it (whatever module calls it)
        self.merge_tap = 0
        for modname, module in list(sys.modules.items()):
            if modname.startswith("_griffe.") and module is not merger_mod and getattr(module, "merge_stubs", None) is real_merge:
                module.merge_stubs = merge_stubs
                self.merge_tap += 1

        real_resolve = models_mod.Alias.resolve_target
        merger_file = merger_mod.__file__

        def resolve_target(alias):
            site = None
            if taps.depth:
                f = sys._getframe(1)
                while f is not None:
                    if f.f_code.co_filename == merger_file:
                        site = (f.f_code.co_name, f.f_lineno)
                        break
                    f = f.f_back
            ok = True
            try:
                return real_resolve(alias)
            except BaseException:
                ok = False
                raise
            finally:
                if site is not None:
                    taps.derefs.append({"alias": alias.name, "fn": site[0], "line": site[1], "ok": ok})

        models_mod.Alias.resolve_target = resolve_target

        with open(merger_file) as fh:
            self._merger_lines = fh.read().splitlines()

        # OPTIONAL taps on private functions of merger.py: the merger step trace (variable `tr` of Merge.tla) and the
        # name of the dereferencing statement are conformance details; when the private layout differs they are skipped
        # (the verdict only uses public observations: trees, flags, alias targets, exceptions).
        private = (("_merge_module_stubs", "module"), ("_merge_class_stubs", "class"),
                   ("_merge_function_stubs", "fun"), ("_merge_attribute_stubs", "attr"))
        self.trace_ok = all(callable(getattr(merger_mod, fname, None)) for fname, _ in private)
        self.sites_ok = all(callable(getattr(merger_mod, fname, None)) for fname in ("_merge_stubs_members", "_merge_stubs_overloads"))
        self.skipped = ([] if self.trace_ok else ["merger step trace (private _merge_*_stubs functions not found)"]) + \
                       ([] if self.sites_ok else ["dereference sites (private _merge_stubs_members/_merge_stubs_overloads not found)"]) + \
                       ([] if self.merge_tap else ["merge_stubs calls (no _griffe module imports merge_stubs by name)"])
        if self.trace_ok:
            for fname, op in private:
                real_fn = getattr(merger_mod, fname)

                def step(obj, stubs, _real=real_fn, _op=op):
                    rel = _rel_to_mod(stubs)
                    if rel is not None:
                        taps.steps.append({"op": _op, "n": rel[0], "i": rel[1]})
                    return _real(obj, stubs)

                setattr(merger_mod, fname, step)

    def site_of(self, d: dict) -> str:
        """Abstract name of the merger statement that dereferenced an alias."""
        text = self._merger_lines[d["line"] - 1].strip() if 0 < d["line"] <= len(self._merger_lines) else ""
        if d["fn"] == "_merge_stubs_members" and "obj_member.kind" in text:
            return "members-kind-test"
        if d["fn"] == "_merge_stubs_overloads":
            return "overloads-set"
        return "other"

    # -- alias snapshots --------------------------------------------------------------------------------
    def snapshot_targets(self, extra=()) -> dict:
        out = {}
        seen = set()

        def walk(obj, prefix, depth):
            if id(obj) in seen or depth > 4:
                return
            seen.add(id(obj))
            for name, m in list(obj.__dict__.get("members", {}).items()):
                if m.is_alias:
                    t = m.__dict__.get("_target")
                    out[prefix + "." + name] = None if t is None else _safe_path(t)
                else:
                    walk(m, prefix + "." + name, depth + 1)

        for mod in list(self.alias_roots) + list(extra):
            suffix = getattr(getattr(mod, "filepath", None), "suffix", "")
            walk(mod, ("S:" if suffix == ".pyi" else "R:") + mod.name, 0)
        return out


def _rel_to_mod(stubs):
    """Names of a stub object below the module under test `mod` (('', '') for the module itself); None outside it."""
    parts = []
    cur = stubs
    n = 0
    while cur is not None and n < 8:
        if cur.name == "mod" and not cur.is_alias and cur.kind.value == "module":
            parts = list(reversed(parts)) + ["", ""]
            return parts[0], parts[1]
        parts.append(cur.name)
        cur = cur.__dict__.get("_parent") if cur.is_alias else cur.parent
        n += 1
    return None


def _safe_path(obj) -> str:
    parts = []
    cur = obj
    n = 0
    while cur is not None and n < 8:
        parts.append(cur.name)
        cur = cur.__dict__.get("_parent") if cur.is_alias else cur.parent
        n += 1
    return ".".join(reversed(parts))


# ---------------------------------------------------------------------------------------------------------
# projection
# ---------------------------------------------------------------------------------------------------------
_TAG = {"RT": "R", "ST": "S", "TT": "T", "OV1": "O1", "OV2": "O2", "RV1": "Q1", "RV2": "Q2"}


def _ann(x):
    if x is None:
        return "none"
    s = str(x)
    return _TAG.get(s, "?" + s)


def _doc(o):
    d = o.docstring
    if d is None:
        return "none"
    v = d.value
    if v.startswith("rt doc"):
        return "R"
    if v.startswith("st doc"):
        return "S"
    if v.startswith("tgt doc"):
        return "T"
    return "?" + v


def _ovl_list(lst):
    out = []
    for f in lst:
        out.append(_ann(getattr(f, "returns", None)) if hasattr(f, "returns") else "?")
    return out


def _ovd(o):
    ov = o.__dict__.get("overloads")
    if isinstance(ov, dict):
        return {k: _ovl_list(v) for k, v in ov.items() if v}
    if ov is None:
        return {}
    return {"<clobbered>": _ovl_list(ov)}


def project(o, depth: int = 0) -> dict:
    """Side-effect free projection of a real object (never dereferences an alias)."""
    if o.is_alias:
        t = o.__dict__.get("_target")
        return {"k": "alias", "rt": bool(o.runtime), "tp": o.target_path, "tgt": "nil" if t is None else _safe_path(t)}
    kind = o.kind.value
    r = {"k": kind, "rt": bool(o.runtime), "doc": _doc(o)}
    if kind == "function":
        r["par"] = {p.name: _ann(p.annotation) for p in o.parameters if p.name != "self"}
        r["ret"] = _ann(o.returns)
        r["ovl"] = [] if not o.overloads else _ovl_list(o.overloads)
    elif kind == "attribute":
        r["ann"] = _ann(o.annotation)
        if "overloads" in o.__dict__:
            r["ovl"] = _ovl_list(o.__dict__["overloads"] or [])
    else:
        r["ovd"] = _ovd(o)
        r["order"] = [n for n in o.members if n != "typing"]
        r["mem"] = {n: project(m, depth + 1) for n, m in o.members.items() if n != "typing" and not (not m.is_alias and m.kind.value == "module")}
    return r


def get_path(root, parts):
    cur = root
    for p in parts:
        cur = cur.members[p]
    return cur


# ---------------------------------------------------------------------------------------------------------
# one case on the real code
# ---------------------------------------------------------------------------------------------------------

def write_files(base: str, files: dict):
    for rel, text in files.items():
        path = os.path.join(base, rel)
        os.makedirs(os.path.dirname(path), exist_ok=True)
        with open(path, "w") as fh:
            fh.write(text)


def run_case(griffe, taps: Taps, case: dict, base: str, *, stubs: bool = True) -> dict:
    """Materialise `case` under `base`, load it with the real Griffe, project.

    stubs=False: the stub files are not written (the runtime-only tree = the 'before' of the merge)."""
    lay = layout(case)
    files = lay["files"] if stubs else {k: v for k, v in lay["files"].items() if not k.endswith(".pyi")}
    write_files(base, files)
    taps.root = base
    taps.first = case["order"]
    taps.merges, taps.derefs, taps.alias_roots, taps.steps = [], [], [], []
    loader = griffe.GriffeLoader(search_paths=[os.path.join(base, s) for s in lay["search"] if os.path.isdir(os.path.join(base, s))], allow_inspection=False)
    out = {"exc": "none", "merges": 0}
    tgt = None
    try:
        tgt = loader.load("tgt", try_relative_path=False)
        taps.alias_roots = [tgt]
        # request form (variable ReqOf of the spec): top-level name / dotted module path / dotted object path
        req = case.get("req", "top")
        objspec = lay["load"] if req == "top" else ".".join(lay["modpath"] + ([case["obj"]] if req == "obj" and case.get("obj") else []))
        loader.load(objspec, try_relative_path=False, find_stubs_package=lay["stubs_pkg"])
    except Exception as exc:  # noqa: BLE001
        out["exc"] = type(exc).__name__
        out["exc_text"] = str(exc)[:200]
    try:
        # observe whatever the collection holds, also after load() raised
        mod = get_path(loader.modules_collection, lay["modpath"])
        out["file"] = "pyi" if str(mod.filepath).endswith(".pyi") else "py"
        if out["exc"] == "none":
            out["mod"] = project(mod)
        if tgt is not None:
            out["tgt"] = project(tgt)
    except Exception as exc:  # noqa: BLE001
        out["project_exc"] = repr(exc)[:200]
    finally:
        taps.root = None
    out["merges"] = len(taps.merges)
    out["merge_exc"] = [m["exc"] for m in taps.merges]
    resolved = {}
    for m in taps.merges:
        for path, t in m.get("after", {}).items():
            b = m["before"].get(path, "absent")
            if t is not None and b is None:
                resolved[path] = t
    out["resolved_in_merge"] = resolved
    out["derefs"] = [dict(d, site=taps.site_of(d)) for d in taps.derefs]
    out["steps"] = list(taps.steps)
    return out


def load_side(griffe, taps: Taps, case: dict, base: str, side: str) -> dict:
    """Load ONE side of the case alone (no merge happens): the 'before' trees preR / preS of Merge.tla."""
    text = render_side(case, side)
    files = {"sp/tgt.py": render_tgt(), ("sp/mod.py" if side == "rt" else "sp/mod/__init__.pyi"): text}
    write_files(base, files)
    taps.root = None
    taps.merges, taps.derefs, taps.alias_roots = [], [], []
    loader = griffe.GriffeLoader(search_paths=[os.path.join(base, "sp")], allow_inspection=False)
    tgt = loader.load("tgt", try_relative_path=False)
    mod = loader.load("mod", try_relative_path=False)
    return {"mod": project(mod), "tgt": project(tgt), "merges": len(taps.merges)}
