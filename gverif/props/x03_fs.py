"""X03 helpers: materialise an abstract layout of spec/FileAttrs.tla on disk, build the `api` trees with the public
constructors, project real Griffe attributes onto the spec's vocabulary (paths = lists of strings, "/" = scratch root).
"""
from __future__ import annotations

import importlib.machinery
import os
import shutil
import sys
from pathlib import Path

SPN = ["sp1", "sp2", "sp3"]
SO_SUFFIX = importlib.machinery.EXTENSION_SUFFIXES[0]
FIELDS = ["fp", "rf", "rpf", "init", "package", "subpackage", "ns", "nssub"]
ATTR = {"fp": "filepath", "rf": "relative_filepath", "rpf": "relative_package_filepath", "init": "is_init_module",
        "package": "is_package", "subpackage": "is_subpackage", "ns": "is_namespace_package",
        "nssub": "is_namespace_subpackage"}

BODY_PY = "class K:\n    x = 1\n\n    def f(self):\n        return 0\n\n\ndef g():\n    return 0\n\n\nv = 2\n"
BODY_PYI = "class K:\n    x: int\n    def f(self) -> int: ...\n\ndef g() -> int: ...\n\nv: int\n"


def so_source() -> str | None:
    """A real extension module of this interpreter whose init function is `PyInit__bisect` (None if statically linked)."""
    try:
        import _bisect  # noqa: PLC0415
    except ImportError:
        return None
    f = getattr(_bisect, "__file__", None)
    return f if f and f.endswith(SO_SUFFIX) else None


def to_real(root: str, parts: list) -> Path:
    """Spec path -> real path (absolute ones start with "/")."""
    if parts and parts[0] == "/":
        return Path(root, *parts[1:])
    return Path(*parts) if parts else Path(".")


def to_spec(root: str, p: Path) -> list:
    """Real path -> spec path; the ABI suffix of the compiled module is folded back to `.so`."""
    s = str(p)
    if s == root:
        parts = ["/"]
    elif s.startswith(root + "/"):
        parts = ["/", *s[len(root) + 1:].split("/")]
    elif s.startswith("/"):
        parts = ["<outside>", *s.split("/")]
    else:
        parts = [] if s == "." else s.split("/")
    if parts and parts[-1] == "_bisect" + SO_SUFFIX:
        parts[-1] = "_bisect.so"
    return parts


def dotted(name: list) -> str:
    return ".".join(name)


def import_lines(case: dict, at: list, guarded: bool) -> str:
    """The import statements that create the planned aliases of module `at`."""
    lines = []
    for a in sorted(case["aliases"], key=lambda a: a["name"]):
        if a["at"] != at:
            continue
        if a["via"]:
            lines.append(f"from {dotted(a['src'])} import {a['via']} as {a['name']}")
        elif a["obj"]:
            lines.append(f"from {dotted(a['tgt'])} import {a['obj']} as {a['name']}")
        else:
            lines.append(f"import {dotted(a['tgt'])} as {a['name']}")
    for d in case["dangling"]:
        if d["at"] == at:
            mod, obj = d["target"].rsplit(".", 1)
            lines.append(f"from {mod} import {obj} as {d['name']}")
    if not lines:
        return ""
    if guarded:  # the package is really imported (compiled sub-module): keep the imports away from the run time
        return "from typing import TYPE_CHECKING\nif TYPE_CHECKING:\n" + "".join(f"    {ln}\n" for ln in lines) + "\n"
    return "".join(ln + "\n" for ln in lines) + "\n"


class Layout:
    """One layout on disk; shared by all cases that differ only in cwd / form / request."""

    def __init__(self, root: str, case: dict):
        self.root = root
        self.case = case
        self.has_so = any(f["r"][-1] == "_bisect.so" for f in case["disk"])
        w = Path(root, "w")
        for sp in SPN:
            (w / sp).mkdir(parents=True, exist_ok=True)
        Path(root, "o").mkdir(exist_ok=True)
        for k in (1, 2):
            os.symlink(w / SPN[k - 1], w / f"ln{k}")
        if case["pth"]:
            (w / "sp1" / "x03.pth").write_text(str(w / "sp3") + "\n")
        for d in case["dirs"]:
            Path(w, SPN[d["i"] - 1], *d["r"]).mkdir(parents=True, exist_ok=True)
        # which file carries the imports of a module: the one the spec names as its filepath
        primary = {}
        for o in case["obs"]:
            fp = o["mi"]["fp"]
            if fp["t"] == "path":
                primary[tuple(fp["v"][0])] = o["name"]
        src = so_source()
        for f in case["disk"]:
            path = Path(w, SPN[f["i"] - 1], *f["r"])
            path.parent.mkdir(parents=True, exist_ok=True)
            base = f["r"][-1]
            if base == "_bisect.so":
                shutil.copyfile(src, path.with_name("_bisect" + SO_SUFFIX))
                continue
            at = primary.get(("/", "w", SPN[f["i"] - 1], *f["r"]))
            # compiled sub-module under static analysis: the package is imported for it, keep our imports away from that
            head = import_lines(case, at, self.has_so and case["agent"] == "visit") if at is not None else ""
            path.write_text(head + (BODY_PYI if base.endswith(".pyi") else BODY_PY))

    def search_paths(self, form: str, cwd: Path) -> list:
        w = Path(self.root, "w")
        if form == "abs":
            return [str(w / "sp1"), str(w / "sp2")]
        if form == "sym":
            return [str(w / "ln1"), str(w / "ln2")]
        return [os.path.relpath(w / "sp1", cwd), os.path.relpath(w / "sp2", cwd)]


def purge_imports(prefix: str = "pkg") -> None:
    for name in [m for m in sys.modules if m == prefix or m.startswith(prefix + ".")]:
        del sys.modules[name]
    importlib.invalidate_caches()


def build_api(griffe, root: str, case: dict):
    """Family api: the module chain built with the public constructors only."""
    coll = griffe.ModulesCollection()
    lines = griffe.LinesCollection()
    by_name = {}
    for o in sorted(case["obs"], key=lambda o: len(o["name"])):
        fp = o["mi"]["fp"]
        if fp["t"] == "err":
            filepath = None
        elif fp["t"] == "list":
            filepath = [to_real(root, p) for p in fp["v"]]
        else:
            filepath = to_real(root, fp["v"][0])
        name = o["name"]
        mod = griffe.Module(name[-1], filepath=filepath, lines_collection=lines, modules_collection=coll)
        if len(name) == 1:
            coll.set_member(name[0], mod)
        else:
            by_name[tuple(name[:-1])].set_member(name[-1], mod)
        by_name[tuple(name)] = mod
        k = griffe.Class("K")
        mod.set_member("K", k)
        k.set_member("x", griffe.Attribute("x"))
        k.set_member("f", griffe.Function("f"))
        mod.set_member("g", griffe.Function("g"))
        mod.set_member("v", griffe.Attribute("v"))
    for a in case["aliases"]:
        target = f"{dotted(a['src'])}.{a['via']}" if a["via"] else dotted(a["tgt"]) + (f".{a['obj']}" if a["obj"] else "")
        by_name[tuple(a["at"])].set_member(a["name"], griffe.Alias(a["name"], target))
    for d in case["dangling"]:
        by_name[tuple(d["at"])].set_member(d["name"], griffe.Alias(d["name"], d["target"]))
    return by_name[("pkg",)]
