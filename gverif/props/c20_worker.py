"""C20 helper: executes one fault schedule of spec/GitWorktree.tla on the REAL code against a REAL repository.

Runs inside a worker process (one per core).  The worker
  * wraps `subprocess.run` in this process: the real git command of griffe runs, then the scheduled
    KeyboardInterrupt is raised at the scheduled step;
  * wraps the loader stages (`load`, `ModuleFinder.find_spec`, `GriffeLoader._load_package`,
    `GriffeLoader.resolve_aliases`), `_griffe.git.TemporaryDirectory` and `_griffe.cli.load_git`
    to log one event per spec action, and passes a recording / raising `Extension`;
  * enables bytecode writing exactly around `_griffe.importer.import_module` (the sandbox exports
    PYTHONDONTWRITEBYTECODE=1, which hides the leak);
  * after every step snapshots `git worktree list --porcelain`, the branches, `git status --porcelain`,
    HEAD and the listing of tempfile.gettempdir() for griffe-worktree-*.
The result is a trace (for Trace_GitWorktree.tla) plus the raw before/after snapshots on which the
terminal invariant is evaluated.
"""
from __future__ import annotations

import contextlib
import copy
import importlib
import io
import os
import shutil
import subprocess
import sys
import tempfile
import traceback

from gverif.props import c20_repo
from gverif.props.c20_repo import F_PARAMS, PKG, PRIV, git

_orig_run = subprocess.run
W: dict = {}          # per-process state: griffe module, scratch dir, templates
REC = None            # the active Recorder (None: wrappers pass through)

TMP_BRANCH_TABLE = {"v1": "griffe-v1", "feat/x": "griffe-feat-x", "x": "griffe-x", "bad": "griffe-bad", "v0": "griffe-v0", "nope": "griffe-nope", "HEAD": "griffe-HEAD",
                    "feat-x": "griffe-feat-x", "HEAD~1": "griffe-HEAD-1", "refs/tags/v1": "griffe-refs-tags-v1", "side/y": "griffe-side-y"}


class ExtBoom(Exception):
    """Raised by the faulty extension."""


class Recorder:
    def __init__(self, case: dict, repo: str, uwt: str, tmpdir: str):
        self.plan = case["plan"]
        self.schedule = [(i["phase"], i["at"]) for i in case["intrs"]]
        self.fired = []
        self.repo, self.uwt, self.tmpdir = repo, uwt, tmpdir
        self.phase = 0 if self.plan["op"] == "check" else 0  # incremented by the load_git wrapper
        self.events = []
        self.tmpnames = {}       # real temporary directory name -> "tmp1"/"tmp2"
        self.location = None     # checkout of the current load_git
        self.stage = {}          # (phase, stage) -> True once logged
        self.init_raw = None
        self.results = []        # objects returned by load_git
        self.errors = []         # harness-level oddities (unknown command, ...)
        self.tmp_branch = {}     # phase -> temporary branch name the real code used
        self.listing0 = {}       # checkout -> file listing right after `worktree add`
        self.plain = False       # inside check()'s plain load() of the working tree (no base_ref)

    # ---- snapshots ---------------------------------------------------------------------------------
    def raw(self, full: bool = False) -> dict:
        r = {
            "worktrees": git(self.repo, "worktree", "list", "--porcelain", check=False),
            "refs": git(self.repo, "for-each-ref", "--format=%(refname) %(objectname)", "refs/heads", "refs/tags", check=False),
            # tracked, untracked AND ignored files of the user's working tree (an ignored __pycache__ counts)
            "status": git(self.repo, "status", "--porcelain", "--ignored", "--untracked-files=all", check=False),
            "tmp": sorted(n for n in os.listdir(tempfile.gettempdir()) if n.startswith("griffe-worktree-")),
        }
        if full:
            r["branch_list"] = git(self.repo, "branch", "--list", check=False)
            r["head"] = git(self.repo, "rev-parse", "HEAD", check=False).strip() + " " + git(self.repo, "symbolic-ref", "-q", "HEAD", check=False).strip()
            r["stash"] = git(self.repo, "stash", "list", check=False)
            r["tree"] = _tree(self.repo)          # listing + content hashes of the user's working tree
            r["uwt_status"] = git(self.uwt, "status", "--porcelain", check=False) if os.path.isdir(self.uwt) else "<gone>"
        return r

    def project(self, raw: dict) -> dict:
        init = self.init_raw
        stanzas = [s for s in raw["worktrees"].strip().split("\n\n") if s.strip()]
        wts, head = [], "?"
        for k, st in enumerate(stanzas):
            f = {}
            for line in st.splitlines():
                key, _, val = line.partition(" ")
                f[key] = val
            path = f.get("worktree", "")
            br = f.get("branch", "(detached)").replace("refs/heads/", "", 1)
            if k == 0:
                head = br if (f.get("HEAD"), br) == init["_main"] else f"moved:{br}"
                continue
            if os.path.realpath(path) == os.path.realpath(self.uwt):
                tmp = "user"
            else:
                top = os.path.basename(os.path.dirname(path))
                tmp = self.tmpnames.get(top, "unknown:" + top)
            wts.append({"branch": br, "tmp": tmp, "dir": os.path.isdir(path)})
        branches = []
        for line in raw["refs"].splitlines():
            name, _, sha = line.partition(" ")
            if name.startswith("refs/heads/"):
                short = name[len("refs/heads/"):]
                if short in init["_heads"] and init["_heads"][short] != sha:
                    short += "@moved"
                branches.append(short)
        dirty = False
        if self.location and os.path.isdir(self.location):
            # untracked files can only exist if the set of file names changed since `worktree add`
            # (cheap listing); only then ask git whether they count (ignored files do not)
            listing = _listing(self.location)
            if self.listing0.get(self.location) is None:
                self.listing0[self.location] = listing
            if listing != self.listing0[self.location]:
                dirty = bool(git(self.location, "status", "--porcelain", check=False).strip())
        return {
            "head": head,
            "status": self.plan["status0"] if raw["status"] == init["status"] else "changed",
            "branches": sorted(branches),
            "worktrees": sorted(wts, key=lambda w: (w["tmp"], w["branch"])),
            "tmpDirs": sorted(self.tmpnames.get(n, "unknown:" + n) for n in raw["tmp"]),
            "wtDirty": dirty,
        }

    def begin(self, cached_raw=None):
        if cached_raw is not None:
            self.init_raw = cached_raw
            return self.project(cached_raw)
        raw = self.raw(full=True)
        first = raw["worktrees"].split("\n\n")[0].splitlines()
        f = dict(line.partition(" ")[::2] for line in first)
        raw["_main"] = (f.get("HEAD"), f.get("branch", "").replace("refs/heads/", "", 1))
        raw["_heads"] = {l.split(" ")[0][len("refs/heads/"):]: l.split(" ")[1] for l in raw["refs"].splitlines() if l.startswith("refs/heads/")}
        self.init_raw = raw
        return self.project(raw)

    # ---- events ------------------------------------------------------------------------------------
    def log(self, ev: str, **kw):
        self.events.append(dict(ev=ev, phase=self.phase, post=self.project(self.raw()), **kw))

    def once(self, stage: str) -> bool:
        key = (self.phase, stage)
        if key in self.stage:
            return False
        self.stage[key] = True
        return True

    def maybe_interrupt(self, at: str):
        if self.schedule and self.schedule[0] == (self.phase, at):
            self.schedule.pop(0)
            self.fired.append((self.phase, at))
            self.log("Interrupt", at=at)
            raise KeyboardInterrupt(f"injected before {at}")


def _tree(top: str) -> list:
    import hashlib

    out = []
    for root, dirs, files in os.walk(top):
        if ".git" in dirs:
            dirs.remove(".git")
        rel = os.path.relpath(root, top)
        out.extend(os.path.join(rel, d) + "/" for d in dirs)
        for f in files:
            if f == ".git":
                continue
            with open(os.path.join(root, f), "rb") as fh:
                out.append(os.path.join(rel, f) + " " + hashlib.sha1(fh.read()).hexdigest())  # noqa: S324
    return sorted(out)


def _listing(top: str) -> frozenset:
    out = set()
    for root, dirs, files in os.walk(top):
        if ".git" in dirs:
            dirs.remove(".git")
        rel = os.path.relpath(root, top)
        out.update(os.path.join(rel, f) for f in files if f != ".git")
        out.update(os.path.join(rel, d) + "/" for d in dirs)
    return frozenset(out)


# ---- wrappers installed once per worker process -----------------------------------------------------------
def _classify(cmd) -> str | None:
    if not isinstance(cmd, (list, tuple)) or not cmd or cmd[0] != "git":
        return None
    c = [str(x) for x in cmd]
    if "--is-inside-work-tree" in c:
        return "AssertRepo"
    if "--show-toplevel" in c:
        return "RepoRoot"
    if "tag" in c and "-l" in c:
        return "LatestTag"
    if "worktree" in c:
        i = c.index("worktree")
        return {"add": "WorktreeAdd", "remove": "WorktreeRemove", "prune": "Prune"}.get(c[i + 1] if i + 1 < len(c) else "", "unknown")
    if "branch" in c and ("-D" in c or "-d" in c or "--delete" in c):
        return "BranchDelete"
    return "unknown"


def _run_wrapper(*args, **kwargs):
    rec = REC
    cmd = args[0] if args else kwargs.get("args")
    step = _classify(cmd) if rec is not None else None
    if step is None:
        return _orig_run(*args, **kwargs)
    if step == "unknown":
        rec.errors.append(f"unmodelled git command {cmd}")
        return _orig_run(*args, **kwargs)
    rec.maybe_interrupt(step)                       # interrupt strikes BEFORE the command runs
    if step == "WorktreeAdd":
        c = [str(x) for x in cmd]
        i = c.index("add")
        rest = [a for a in c[i + 1:] if not a.startswith("-")]
        # `-b <branch> <location> <ref>` / `-B ...`
        if len(rest) >= 2:
            rec.location = rest[1]
            rec.tmp_branch[rec.phase] = rest[0]
    check = kwargs.get("check", False)
    kwargs["check"] = False
    quiet = dict(kwargs)
    if "stderr" not in quiet and not quiet.get("capture_output"):
        quiet["stderr"] = subprocess.DEVNULL          # keep git's complaints off the harness output
    proc = _orig_run(*args, **quiet)                 # the REAL command
    rc = 1 if proc.returncode else 0
    rec.log(step, rc=rc)
    if step == "WorktreeAdd":                        # interrupt AFTER the command: the next spec step
        rec.maybe_interrupt("EnterTry" if rc == 0 else "RmTmp")
    elif step == "BranchDelete":
        rec.maybe_interrupt("RmTmp")
    if check and proc.returncode:
        raise subprocess.CalledProcessError(proc.returncode, proc.args, proc.stdout, proc.stderr)
    return proc


class _RecTmp(tempfile.TemporaryDirectory):
    def __init__(self, *a, **kw):
        if REC is not None:
            REC.maybe_interrupt("MkTmp")
        super().__init__(*a, **kw)

    def __enter__(self):
        r = super().__enter__()
        if REC is not None:
            REC.tmpnames[os.path.basename(self.name)] = "tmp2" if REC.phase == 2 else "tmp1"
            REC.log("MkTmp")
        return r

    def __exit__(self, *exc):
        r = super().__exit__(*exc)
        if REC is not None:
            REC.log("RmTmp")
        return r


def install(griffe):
    import _griffe.cli
    import _griffe.finder
    import _griffe.git
    import _griffe.importer
    import _griffe.loader

    subprocess.run = _run_wrapper
    _griffe.git.TemporaryDirectory = _RecTmp

    orig_tmp_worktree = _griffe.loader.tmp_worktree

    class WorktreeScope:
        """Wraps the context manager load_git enters: EnterTry = its body starts, Return = its body ends normally.
        Interrupts `before Find` / `before Return` are raised INSIDE the body (thrown into the generator at its yield)."""

        def __init__(self, *a, **kw):
            self.cm = orig_tmp_worktree(*a, **kw)

        def __enter__(self):
            value = self.cm.__enter__()
            rec = REC
            if rec is not None:
                rec.log("EnterTry")
                try:
                    rec.maybe_interrupt("Find")
                except KeyboardInterrupt as exc:
                    if not self.cm.__exit__(type(exc), exc, exc.__traceback__):
                        raise
            return value

        def __exit__(self, et, ev, tb):
            rec = REC
            if et is None and rec is not None:
                try:
                    rec.maybe_interrupt("Return")
                except KeyboardInterrupt as exc:
                    if not self.cm.__exit__(type(exc), exc, exc.__traceback__):
                        raise
                    return False
                rec.log("Return")
            return self.cm.__exit__(et, ev, tb)

    _griffe.loader.tmp_worktree = WorktreeScope

    orig_find = _griffe.finder.ModuleFinder.find_spec

    def find_wrapper(self, *a, **kw):
        rec = REC
        if rec is None or rec.plain or not rec.once("Find"):
            return orig_find(self, *a, **kw)
        try:
            r = orig_find(self, *a, **kw)
        except ModuleNotFoundError:
            rec.log("Find", ok=False)
            raise
        rec.log("Find", ok=True)
        return r

    _griffe.finder.ModuleFinder.find_spec = find_wrapper

    orig_pkg = _griffe.loader.GriffeLoader._load_package

    def pkg_wrapper(self, *a, **kw):
        rec = REC
        if rec is None or rec.plain or not rec.once("Analyse"):
            return orig_pkg(self, *a, **kw)
        rec.maybe_interrupt("Analyse")
        try:
            r = orig_pkg(self, *a, **kw)
        except Exception:
            rec.log("Analyse", ok=False)
            raise
        rec.log("Analyse", ok=True)
        return r

    _griffe.loader.GriffeLoader._load_package = pkg_wrapper

    orig_resolve = _griffe.loader.GriffeLoader.resolve_aliases

    def resolve_wrapper(self, *a, **kw):
        rec = REC
        if rec is None or rec.plain or not rec.once("ResolveAliases"):
            return orig_resolve(self, *a, **kw)
        rec.maybe_interrupt("ResolveAliases")
        r = orig_resolve(self, *a, **kw)
        rec.log("ResolveAliases")
        return r

    _griffe.loader.GriffeLoader.resolve_aliases = resolve_wrapper

    orig_load_git = _griffe.loader.load_git

    def load_git_wrapper(*a, **kw):
        rec = REC
        if rec is None:
            return orig_load_git(*a, **kw)
        rec.phase += 1
        rec.location = None
        try:
            obj = orig_load_git(*a, **kw)
        except BaseException as exc:
            rec.log("EndLoad", exc=exc_class(exc))
            raise
        rec.results.append(obj)
        rec.log("EndLoad", exc="none")
        return obj

    _griffe.cli.load_git = load_git_wrapper

    orig_cli_load = _griffe.cli.load

    def cli_load_wrapper(*a, **kw):      # check() without base_ref: plain load of the user's working tree
        rec = REC
        if rec is None:
            return orig_cli_load(*a, **kw)
        rec.phase = 2
        rec.maybe_interrupt("LoadWT")
        rec.location = None
        rec.plain = True
        try:
            obj = orig_cli_load(*a, **kw)
        except BaseException:
            rec.log("LoadWT", ok=False)
            raise
        finally:
            rec.plain = False
        rec.results.append(obj)
        rec.log("LoadWT", ok=True)
        return obj

    _griffe.cli.load = cli_load_wrapper
    W["load_git"] = load_git_wrapper

    orig_import = _griffe.importer.import_module

    def import_wrapper(name, *a, **kw):
        rec = REC
        if rec is None or rec.plan["bc"] == "off":
            return orig_import(name, *a, **kw)
        old = sys.dont_write_bytecode
        sys.dont_write_bytecode = False           # bytecode writing ENABLED in the code path that imports
        try:
            return orig_import(name, *a, **kw)
        finally:
            sys.dont_write_bytecode = old

    _griffe.importer.import_module = import_wrapper

    class RecExt(griffe.Extension):
        def on_package_loaded(self, *, pkg, **kwargs):  # noqa: ARG002
            rec = REC
            if rec is not None and rec.plain:
                if rec.plan["extAt"] == 2:
                    raise ExtBoom("extension failure")
                return
            if rec is None or not rec.once("ExtensionHook"):
                return
            rec.maybe_interrupt("ExtensionHook")
            boom = rec.plan["extAt"] == rec.phase
            rec.log("ExtensionHook", ok=not boom)
            if boom:
                raise ExtBoom("extension failure")

    W["RecExt"] = RecExt


def exc_class(exc: BaseException) -> str:
    g = W["griffe"]
    if isinstance(exc, KeyboardInterrupt):
        return "KeyboardInterrupt"
    if isinstance(exc, ExtBoom):
        return "ExtError"
    if isinstance(exc, g.LoadingError):
        return "LoadingError"
    if isinstance(exc, ImportError):
        return "ImportError"
    if isinstance(exc, RuntimeError):
        return "RuntimeError"
    if isinstance(exc, OSError):
        return "OSError"
    return "Other:" + type(exc).__name__


def init_worker(scratch_dir: str):
    """Process initialiser: own temp dir, real repo templates, wrappers."""
    from gverif.common import ensure_repo

    os.environ.update(c20_repo.GIT_ENV)
    base = tempfile.mkdtemp(prefix=f"w{os.getpid()}-", dir=scratch_dir)
    tmp = os.path.join(base, "tmp")
    os.makedirs(tmp)
    tempfile.tempdir = tmp                       # tempfile.gettempdir() of this process: listed after every step
    os.environ["TMPDIR"] = tmp
    griffe = ensure_repo()
    importlib.import_module("_griffe.cli")
    W.update(griffe=griffe, base=base, tmp=tmp, n=0, templates={}, cached={})
    for ignored in (False, True):
        W["templates"][ignored] = c20_repo.build_template(os.path.join(base, f"template-{int(ignored)}"), ignored)
    install(griffe)
    sys.dont_write_bytecode = True


def _fresh_repo(plan: dict):
    """A repository in its initial state; re-used when the previous run left it untouched."""
    key = (plan["bc"] == "ignored", plan["status0"], bool(plan.get("notags")))
    hit = W["cached"].pop(key, None)
    if hit:
        return hit
    W["n"] += 1
    base = os.path.join(W["base"], f"r{W['n']}")
    os.makedirs(base)
    repo, uwt = c20_repo.instantiate(W["templates"][key[0]], base, plan["status0"], key[2])
    return base, repo, uwt, None


def expected_lines(repo: str, ref: str) -> list:
    return git(repo, "show", f"{ref}:{PKG}/__init__.py").splitlines()


def run_case(case: dict) -> dict:
    """Execute one fault schedule.  Returns the trace and the terminal evaluation on the real snapshots."""
    global REC
    plan = case["plan"]
    plan.setdefault("notags", False)
    g = W["griffe"]
    base, repo, uwt, cached_raw = _fresh_repo(plan)
    for n in os.listdir(W["tmp"]):                # leftovers of a previous (leaking) run are not ours
        shutil.rmtree(os.path.join(W["tmp"], n), ignore_errors=True)
    target = repo
    if not plan["repoOk"]:
        target = os.path.join(base, "plain")
        os.makedirs(os.path.join(target, PKG), exist_ok=True)
    rec = Recorder(case, repo, uwt, W["tmp"])
    init_post = rec.begin(cached_raw)
    inspect = plan["analysis"] == "inspect"
    ext = g.load_extensions(W["RecExt"]())
    outcome, exitcode, exc_text, stderr_text = "returned", 9, "", ""
    cwd = os.getcwd()
    REC = rec
    # the repository root is importable in the running interpreter (`python -m griffe check` started from the
    # repository root, editable installs): the user's CURRENT package must never be imported instead of the ref's
    sys.path.insert(0, repo)
    try:
        if plan["op"] == "load":
            W["load_git"](PKG, ref=plan["ref1"], repo=target, extensions=ext, force_inspection=inspect, resolve_aliases=True)
        else:
            import _griffe.cli as cli

            os.chdir(repo)
            buf = io.StringIO()
            old_err = sys.stderr
            sys.stderr = buf
            try:
                exitcode = cli.check(PKG, None if plan["latest"] else plan["ref1"], base_ref=None if plan["ref2"] == "WT" else plan["ref2"], extensions=[W["RecExt"]()],
                                     force_inspection=inspect, color=False)
            finally:
                with contextlib.suppress(Exception):
                    import colorama

                    colorama.deinit()
                sys.stderr = old_err
                stderr_text = buf.getvalue()
            if rec.phase:                  # no Diff when check() returned before any load (no tags: exit 2)
                rec.phase = 3
                rec.log("Diff", exitcode=exitcode)
    except BaseException as exc:  # noqa: BLE001
        outcome = exc_class(exc)
        exc_text = "".join(traceback.format_exception_only(type(exc), exc)).strip()[:300]
    finally:
        REC = None
        os.chdir(cwd)
        with contextlib.suppress(ValueError):
            sys.path.remove(repo)
    final_raw = rec.raw(full=True)
    rec.events.append({"ev": "Finish", "phase": rec.phase, "outcome": outcome, "exitcode": exitcode, "post": rec.project(final_raw)})
    init_raw = {k: v for k, v in rec.init_raw.items() if not k.startswith("_")}

    # ---- the terminal invariant evaluated on the real snapshots ------------------------------------
    _bad = []

    class bad:  # noqa: N801  (collector: bad.append((clause, what[, branch])))
        @staticmethod
        def append(t):
            _bad.append({"clause": t[0], "what": t[1], "branch": t[2] if len(t) > 2 else None})

    if final_raw["head"] != init_raw["head"]:
        bad.append(("head", f"HEAD was {init_raw['head']!r}, is {final_raw['head']!r}"))
    if final_raw["status"] != init_raw["status"] or final_raw["stash"] != init_raw["stash"] or final_raw["uwt_status"] != init_raw["uwt_status"]:
        bad.append(("status", f"git status --porcelain --ignored was {init_raw['status']!r}, is {final_raw['status']!r}"))
    if final_raw["tree"] != init_raw["tree"]:
        diff = sorted(set(final_raw["tree"]) ^ set(init_raw["tree"]))
        bad.append(("worktree-files", f"the user's working tree changed: {diff[:6]}"))
    if final_raw["refs"] != init_raw["refs"] or final_raw["branch_list"] != init_raw["branch_list"]:
        before, after = set(init_raw["refs"].splitlines()), set(final_raw["refs"].splitlines())
        gone = sorted(before - after)
        new = sorted(after - before)
        if gone:
            bad.append(("userbranch", f"user refs deleted or moved: {gone} (now {new})"))
        for n in new:
            if n.split(" ")[0] not in {x.split(" ")[0] for x in gone}:
                short = n.split(" ")[0].replace("refs/heads/", "", 1)
                bad.append(("branches", f"branch {short!r} left behind in the user's repository", short))
    if final_raw["worktrees"] != init_raw["worktrees"]:
        known = init_raw["worktrees"].strip().split("\n\n")
        extra = [s for s in final_raw["worktrees"].strip().split("\n\n") if s not in known]
        for s in extra:
            br = next((l.split(" ", 1)[1].replace("refs/heads/", "", 1) for l in s.splitlines() if l.startswith("branch ")), None)
            bad.append(("worktrees", "worktree entry left behind: " + s.replace("\n", " | "), br))
        if not extra:
            bad.append(("worktrees", f"git worktree list changed: {final_raw['worktrees']!r}"))
    if final_raw["tmp"]:
        bad.append(("tmpdirs", f"temporary checkout left behind under {W['tmp']}: {final_raw['tmp']}"))
    # "package absent at that reference" must fail: a load_git of such a ref that RETURNS an object is wrong
    absent_returned = [e["phase"] for e in rec.events if e["ev"] == "EndLoad" and e.get("exc") == "none"
                       and (plan["ref1"] if e["phase"] == 1 else plan["ref2"]) == "v0"]
    if absent_returned:
        bad.append(("outcome", f"load_git returned an object for ref 'v0', where the package does not exist (load_git call #{absent_returned[0]})"))
    # every loader stage lies inside the lifetime of the temporary worktree
    for ph in (1, 2):
        evs = [e["ev"] for e in rec.events if e["phase"] == ph]
        if "WorktreeRemove" in evs:
            late = [x for x in evs[evs.index("WorktreeRemove"):] if x in ("Find", "Analyse", "ExtensionHook", "ResolveAliases")]
            if late:
                bad.append(("ordering", f"loader stage(s) {late} of load_git call #{ph} ran after `git worktree remove`"))
    lines_ok = []
    if outcome == "returned" and exitcode != 2:
        refs = [plan["ref1"]] if plan["op"] == "load" else [plan["ref1"], plan["ref2"]]
        if len(rec.results) != len(refs):
            rec.errors.append(f"{len(rec.results)} objects returned for {len(refs)} load_git calls")
        for obj, ref in zip(rec.results, refs):
            if ref == "v0":
                continue          # nothing to compare with: the package does not exist there (clause `outcome`)
            try:
                want = expected_lines(repo, "HEAD" if ref == "WT" else ref)
                checkout_gone = ref == "WT" or not os.path.exists(str(obj.filepath))
                got = list(obj.lines)
                src = obj.source
                ok = got == want and src.strip() != "" and checkout_gone
                what = ""
                if not checkout_gone:
                    what = f"checkout file {obj.filepath} still exists"
                elif got != want:
                    what = f"obj.lines has {len(got)} lines after the checkout was removed, the file at {ref} has {len(want)}"
                if ok:
                    # members re-exported from the private sibling package: usable through the alias
                    api = 1 if (("HEAD" if ref == "WT" else ref) in ("v1", "x", "refs/tags/v1", "side/y")) else 2
                    fal = obj["f"]
                    tgt = fal.final_target if fal.is_alias else fal      # raises AliasResolutionError when unresolvable
                    names = [p.name for p in fal.parameters]
                    gtgt = obj["g"].final_target if obj["g"].is_alias else obj["g"]
                    if inspect:
                        # the inspector inlines re-exported functions, and a second inspection in the same process sees
                        # the cached module (outside C20): only require that the members are usable
                        if not names or not tgt.is_function or not gtgt.is_function:
                            ok, what = False, f"obj['f'] = {fal!r} with parameters {names}"
                    elif not fal.is_alias or tgt.path != PRIV + ".f":
                        ok, what = False, f"obj['f'] is {fal!r} -> {tgt.path}"
                    elif names != F_PARAMS[api]:
                        ok, what = False, f"obj['f'].parameters = {names}, at {ref} it has {F_PARAMS[api]}"
                    elif not inspect and (("def f(" + ", ".join(["a", "b=1"][: len(names)]) + "):") not in fal.source or not fal.lines):
                        ok, what = False, f"obj['f'].source = {fal.source!r}"
                    elif gtgt.path != PRIV + ".g":
                        ok, what = False, "obj['g'] does not resolve"
                if ok:
                    # the module reached through a tracked symlink: its lines after the checkout is gone
                    cm = obj["compat"]
                    cwant = git(repo, "show", f"{'HEAD' if ref == 'WT' else ref}:{PRIV}/compat_impl.py").splitlines()
                    if list(cm.lines) != cwant or not cm.source.strip():
                        ok, what = False, f"obj['compat'] (symlinked module {cm.filepath}): .lines has {len(cm.lines)} lines, the file at {ref} has {len(cwant)}"
                    elif not inspect:
                        hf = cm["h"]
                        if "def h(x):" not in hf.source or "Second line" not in hf.docstring.source:
                            ok, what = False, f"obj['compat.h'].source = {hf.source!r}"
                if ok and not inspect:
                    ksrc = obj["sub"]["K"]["m"].source
                    if "def m(self):" not in ksrc:
                        ok, what = False, f"obj['sub.K.m'].source = {ksrc!r}"
            except Exception as exc:  # noqa: BLE001
                ok, what = False, f"using the returned object raised {exc!r}"
            lines_ok.append(bool(ok))
            if not ok:
                bad.append(("lines", f"object loaded from {ref}: {what}"))
    if plan["op"] == "check" and outcome == "returned" and "griffe-worktree-" in stderr_text:
        bad.append(("location", f"breakage location still contains the temporary worktree: {stderr_text.strip().splitlines()[0][:200]}"))

    bad = _bad
    # keep the repository for the next run only if it is exactly as before
    if not bad and final_raw == init_raw and plan["repoOk"]:
        W["cached"][(plan["bc"] == "ignored", plan["status0"], bool(plan.get("notags")))] = (base, repo, uwt, rec.init_raw)
    else:
        shutil.rmtree(base, ignore_errors=True)
    for name in [m for m in sys.modules if m in (PKG, PRIV) or m.startswith((PKG + ".", PRIV + "."))]:
        del sys.modules[name]
    importlib.invalidate_caches()
    real_tmp_branch = {str(k): v for k, v in rec.tmp_branch.items()}
    return {
        "key": case.get("key"),
        "plan": plan,
        "intrs": case["intrs"],
        "fired": [{"phase": p, "at": a} for p, a in rec.fired],
        "unfired": [{"phase": p, "at": a} for p, a in rec.schedule],
        "init": init_post,
        "events": rec.events,
        "outcome": outcome,
        "exitcode": exitcode,
        "exc": exc_text,
        "bad": bad,
        "lines_ok": lines_ok,
        "errors": rec.errors,
        "stderr": stderr_text[:400],
        "tmp_branch": real_tmp_branch,
        "final": {k: final_raw[k] for k in ("worktrees", "branch_list", "status", "head", "tmp")},
        "absent_returned": absent_returned,
    }


def run_batch(cases: list) -> list:
    out = []
    for c in cases:
        try:
            try:
                out.append(run_case(c))
            except Exception:  # noqa: BLE001
                # transient environment failure (a git spawn failing on the overloaded box ...): once more, on a fresh
                # repository; a deterministic harness error fails again and is reported as a crash (exit 2)
                global REC
                REC = None
                W["cached"].clear()
                for name in [m for m in sys.modules if m in (PKG, PRIV) or m.startswith((PKG + ".", PRIV + "."))]:
                    del sys.modules[name]
                out.append(run_case(copy.deepcopy(c)))
        except BaseException as exc:  # noqa: BLE001
            out.append({"key": c.get("key"), "plan": c["plan"], "intrs": c["intrs"], "crash": "".join(traceback.format_exception(type(exc), exc, exc.__traceback__))[-1500:]})
    return out
