"""C17 worker: runs in a FRESH subprocess (env = gverif.common.child_env()) on a batch of programs.

    python -m gverif.props.c17_worker <job.json> <out.json>

job  = {"root": dir, "items": [{"pkg": unique package name, "case": {"main", "mdoc", "prog"}}, ...]}
out  = {"results": [{"pkg", "static": tree, "dynamic": tree, "sdoc", "ddoc", "xdump": [...], "error": str|None}, ...]}

For every program: the package is written to disk, loaded by the static agent (`griffe.load(pkg)`, which
never imports it), then by the dynamic agent (`griffe.load(pkg, force_inspection=True)`, which imports it
in this process - package names are unique, so batches do not interfere).  While the inspector runs, a
passive extension reads CPython's real object graph of the main module at the very moment the inspector
looks at it (`on_module_node`): that dump validates the spec's Exec.

Trees are raw projections (path -> record); the exempted differences are removed by the driver, in one
place (gverif/props/c17.py: skeleton()).
"""
from __future__ import annotations

import functools
import inspect
import json
import sys
import types

from gverif.props.c17_render import text_to_lines, write_package

KIND_OF = {
    inspect.Parameter.POSITIONAL_ONLY: "positional-only",
    inspect.Parameter.POSITIONAL_OR_KEYWORD: "positional or keyword",
    inspect.Parameter.VAR_POSITIONAL: "variadic positional",
    inspect.Parameter.KEYWORD_ONLY: "keyword-only",
    inspect.Parameter.VAR_KEYWORD: "variadic keyword",
}


def _is_dunder(name: str) -> bool:
    return name.startswith("__") and name.endswith("__") and name != "__init__"


def project(module) -> dict:
    """Griffe tree of the main module -> {dotted relative path: record}.  Reads, never resolves eagerly,
    except `final_target` of aliases (the property speaks about final targets)."""
    out = {}

    def walk(obj, rel):
        for name, m in obj.members.items():
            p = rel + (name,)
            key = ".".join(p)
            if m.is_alias:
                rec = {"kind": "alias", "target": m.target_path, "lineno": m.alias_lineno}
                try:
                    ft = m.final_target
                    rec["final"] = ft.path
                    rec["tkind"] = ft.kind.value
                except Exception as exc:  # noqa: BLE001
                    rec["final"] = None
                    rec["tkind"] = "unresolved"
                    rec["err"] = type(exc).__name__
                out[key] = rec
                continue
            kind = m.kind.value
            rec = {
                "kind": kind,
                "labels": sorted(m.labels),
                "doc": m.docstring.value if m.docstring else None,
                "lineno": m.lineno,
                "endlineno": m.endlineno,
            }
            if kind == "attribute":
                rec["hasvalue"] = getattr(m, "value", None) is not None
            if kind == "function":
                rec["params"] = [
                    {"name": q.name, "kind": q.kind.value if q.kind else None, "req": bool(q.required)} for q in (m.parameters or [])
                ]
            if kind == "class":
                rec["bases"] = [str(getattr(b, "canonical_path", b)) for b in m.bases]
            out[key] = rec
            if kind == "class":
                walk(m, p)

    walk(module, ())
    return out


def _ftype(f) -> str:
    return "coroutine" if inspect.iscoroutinefunction(f) else "function"


def _py_params(f) -> list:
    try:
        sig = inspect.signature(f)
    except (TypeError, ValueError):
        return []
    return [
        {"name": q.name, "kind": KIND_OF[q.kind], "req": q.default is inspect.Parameter.empty and q.kind not in (inspect.Parameter.VAR_POSITIONAL, inspect.Parameter.VAR_KEYWORD)}
        for q in sig.parameters.values()
    ]


def dump_scope(obj, rel: tuple, main_name: str, fuel: int = 3) -> list:
    """vars(obj) as the spec's xdump records (the real Exec)."""
    out = []
    for name, x in list(vars(obj).items()):
        if _is_dunder(name):
            continue
        rec = {"path": list(rel + (name,)), "type": "value", "wrap": "none", "mod": [], "qn": [], "doc": [], "bases": [], "sig": []}
        f = None
        if isinstance(x, types.ModuleType):
            rec.update(type="module", mod=x.__name__.split("."), doc=text_to_lines(x.__doc__))
        elif isinstance(x, type):
            own = x.__module__ == main_name
            rec.update(type="class", mod=x.__module__.split("."), qn=x.__qualname__.split("."))
            if own or x.__module__.split(".")[0] == main_name.split(".")[0]:
                rec.update(doc=text_to_lines(x.__doc__), bases=[(b.__module__ + "." + b.__qualname__).split(".") for b in x.__bases__ if b is not object])
            if own and fuel > 0:
                out += dump_scope(x, rel + (name,), main_name, fuel - 1)
        elif isinstance(x, staticmethod):
            f, rec["wrap"] = x.__func__, "static"
        elif isinstance(x, classmethod):
            f, rec["wrap"] = x.__func__, "class"
        elif isinstance(x, property):
            f, rec["wrap"] = x.fget, "prop"
        elif isinstance(x, functools.cached_property):
            f, rec["wrap"] = x.func, "cprop"
        elif isinstance(x, types.FunctionType):
            f = x
        elif x is None:
            rec["type"] = "none"
        if f is not None:
            rec.update(type=_ftype(f), mod=f.__module__.split("."), qn=f.__qualname__.split("."), doc=text_to_lines(f.__doc__), sig=_py_params(f))
        out.append(rec)
    return out


def main(argv) -> int:
    with open(argv[1]) as fh:
        job = json.load(fh)
    import logging

    import griffe

    src = [p for p in sys.path if p.endswith("/src")]
    if not src or not griffe.__file__.startswith(src[0]):
        print(f"MACHINERY-ERROR: worker imported griffe from {griffe.__file__}")
        return 2
    logging.getLogger("griffe").setLevel(logging.CRITICAL)
    root = job["root"]
    results = []

    class Dumper(griffe.Extension):
        """Passive: reads vars() of the main module when the inspector reaches its node."""

        def __init__(self):
            super().__init__()
            self.want = None
            self.got = None

        def on_module_node(self, *, node, agent, **kwargs):  # noqa: ARG002
            obj = getattr(node, "obj", None)
            if isinstance(obj, types.ModuleType) and obj.__name__ == self.want and self.got is None:
                self.got = dump_scope(obj, (), self.want)

    for item in job["items"]:
        pkg, case = item["pkg"], item["case"]
        res = {"pkg": pkg, "static": None, "dynamic": None, "sdoc": None, "ddoc": None, "xdump": None, "error": None}
        try:
            main_name = write_package(root, pkg, case)
            rel = main_name.split(".")[1:]
            st = griffe.load(pkg, search_paths=[root])
            sm = st
            for part in rel:
                sm = sm.members[part]
            res["static"] = project(sm)
            res["sdoc"] = sm.docstring.value if sm.docstring else None
            dumper = Dumper()
            dumper.want = main_name
            # a top-level module other.py sits next to the package: every load must import it afresh
            sys.modules.pop("other", None)
            try:
                dy = griffe.load(pkg, search_paths=[root], force_inspection=True, extensions=griffe.load_extensions(dumper))
                dm = dy
                for part in rel:
                    dm = dm.members[part]
            except Exception as exc:  # noqa: BLE001
                # the program is executable (the spec's Exec says so): a main module the dynamic agent cannot deliver
                # is a difference between the agents, not a machinery failure - the driver reports it
                res["dynamic_missing"] = f"{type(exc).__name__}: {exc}"[:600]
                dm = None
            if dm is not None:
                res["dynamic"] = project(dm)
                res["ddoc"] = dm.docstring.value if dm.docstring else None
                res["xdump"] = dumper.got
            sys.modules.pop("other", None)
        except Exception as exc:  # noqa: BLE001
            import traceback

            res["error"] = f"{type(exc).__name__}: {exc}\n{traceback.format_exc()[-1500:]}"
        results.append(res)
    with open(argv[2], "w") as fh:
        json.dump({"results": results}, fh)
    return 0


if __name__ == "__main__":
    sys.exit(main(sys.argv))
