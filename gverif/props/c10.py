"""C10 - no call-breaking signature change goes unreported (spec/DiffSig.tla).

TLC decides the clauses (i)-(iv) on the model for every pair of signatures (one state per pair):
  * quick:    2-name alphabet, all 157 x 157 pairs; plus a seeded slice of the 3-name alphabet
              (K old signatures x all 2290 new ones);
  * thorough: 2-name alphabet, all pairs; 3-name alphabet, every canonical old signature x all 2290 new
              ones in TLC, and ALL 2290 x 2290 pairs on the real code (expectations transported through the
              renaming symmetry, see DiffSig.tla `Canon`).
Binding, per pair:  real find_breaking_changes on two one-function modules
   real vs Ref (breaking / must / differ / identical, all from TLC)  -> the property on the code (VIOLATION)
   real vs Impl (Breakages)                                          -> conformance of the model (drift note)
   CPython (interpreter call and inspect.Signature.bind) vs PyBinds  -> validity of the reference (exit 2)
The kind sets used by the model's Breakages are extracted from _griffe.diff at check time.
"""
from __future__ import annotations

import json
import multiprocessing
import random
from concurrent.futures import ThreadPoolExecutor

from gverif import tlc
from gverif.common import SEED, die, ensure_repo
from gverif.harness import Run
from gverif.props import c10_lib as L

QUICK_PICK = 20         # old signatures of the 3-name alphabet sampled in the quick tier
N3 = 2290               # number of legal signatures over {a, b, c}, <= 3 parameters (asserted)
N2 = 157
BOTH = ("visit", "inplace")
N4 = 546                # signatures of the 4-name family (kinds po/pk, names in alphabet order, <= 4 parameters)
QUICK_PICK4 = 40        # old signatures of that family sampled in the quick tier


def run_tlc(cfg: str, nn: int, old: str, pick=(), emit=True, workers=4, dump_trace=False, timeout=1500, routes=("visit",), kinds=("po", "pk", "vp", "ko", "vk"), sorted_names=False):
    consts = dict(L.kind_sets(), KINDS="{" + ", ".join('"%s"' % k for k in kinds) + "}", SORTED="TRUE" if sorted_names else "FALSE", ROUTES="{" + ", ".join('"%s"' % r for r in routes) + "}", NNAMES=nn, OLD=old, PICK="{" + ", ".join(str(i) for i in sorted(pick)) + "}", EMIT="TRUE" if emit else "FALSE")
    return tlc.run("DiffSig", cfg, workers=workers, constants=consts, dump_trace=dump_trace, timeout=timeout, heap="3g")


class Table:
    """Signature table and pair expectations of one TLC run."""

    def __init__(self, res, nn: int):
        self.nn = nn
        self.names = L.NAMESEQ[:nn]
        self.sig = {}      # index -> key
        self.binds = {}    # index -> set of call shapes
        self.canon = set()
        self.exp = {}      # (o, n) -> normalised expectation (route "visit")
        self.hist = {}     # (o, n) -> (normalised expectation, container history) of route "inplace"
        for c in res.cases:
            if c["t"] == "sig":
                self.sig[c["i"]] = L.key(c["sig"])
                self.binds[c["i"]] = {(b[0], tuple(sorted(b[1]))) for b in c["binds"]}
                if c["canon"]:
                    self.canon.add(c["i"])
            elif c["r"] == "inplace":
                self.hist[(c["o"], c["n"])] = (L.normalise(c), c["ops"])
            else:
                self.exp[(c["o"], c["n"])] = L.normalise(c)
        self.idx = {k: i for i, k in self.sig.items()}
        if len(self.idx) != len(self.sig):
            die("C10: TLC emitted duplicate signatures")

    def expectation(self, o: int, n: int):
        """Expectation for the pair of indices (o, n): direct, or through the canonical image of the pair."""
        e = self.exp.get((o, n))
        if e is not None:
            return e
        nm, swap, inv = L.canoniser(self.sig[o], self.nn)
        co = self.idx[L.apply_renaming(self.sig[o], nm, swap)]
        cn = self.idx[L.apply_renaming(self.sig[n], nm, swap)]
        e = self.exp.get((co, cn))
        if e is None:
            die(f"C10: no TLC case for pair ({o},{n}) nor for its canonical image ({co},{cn})")
        return L.transport(e, inv)


def validate_reference(run: Run, tab: Table):
    """PyBinds (the spec's bind sets) against the interpreter and inspect.Signature.bind, every (sig, call)."""
    dev = 0
    for i, k in tab.sig.items():
        real, d = L.cpython_binds(k, tab.names)
        dev += d
        run.evaluated(len(L.calls(tab.names)))
        if real != tab.binds[i]:
            diff = sorted(real ^ tab.binds[i])[:3]
            die(f"C10: spec reference PyBinds disagrees with CPython on f({L.render(k)}): call shapes {diff} (CPython binds: {[c in real for c in diff]})")
    if dev:
        run.note(f"{dev} call shape(s) over {tab.nn} names where inspect.Signature.bind rejects a keyword named like a defaulted positional-only parameter although **kwargs takes it; the interpreter (and PyBinds) accept - interpreter taken as CPython's verdict")


_G: dict = {}   # tables shared with forked workers


def _judge_rows(olds):
    """Worker: diff every pair (o, *) on the real code; returns aggregated verdicts."""
    griffe, tab, mods = _G["griffe"], _G["tab"], _G["mods"]
    agg: dict = {}
    drift = 0
    drift_ex = None
    n_pairs = 0
    for o in olds:
        ok = tab.sig[o]
        work = [(n, nk, "visit") for n, nk in tab.sig.items()] + [(n, tab.sig[n], "inplace") for (oo, n) in tab.hist if oo == o]
        for n, nk, route in work:
            if route == "visit":
                exp = tab.expectation(o, n)
                real, outcome = L.real_breakages(griffe, mods[o], mods[n])
            else:
                exp, ops = tab.hist[(o, n)]
                edited, outcome = L.build_inplace(griffe, mods[o], mods[n], ops)
                real, outcome = L.real_breakages(griffe, mods[o], edited) if outcome == "ok" else (set(), outcome)
            n_pairs += 1
            # the antecedent of (i) recomputed from the interpreter's bind sets (validated = TLC's, see validate_reference)
            viols, d = L.judge(ok, nk, exp, real, outcome)
            if route == "inplace":
                viols = [(dict(sig, route="inplace"), what + f" [new parameters built in place: {ops}]") for sig, what in viols]
            if d:
                drift += 1
                drift_ex = drift_ex or f"f({L.render(ok)}) -> f({L.render(nk)}): real {sorted((k, p) for k, p, _ in real)} model {sorted(exp['b'])}"
            for sig, what in viols:
                kk = json.dumps(sig, sort_keys=True)
                if kk not in agg:
                    agg[kk] = [0, sig, what, {"nn": tab.nn, "route": route, "old": [list(p) for p in ok], "new": [list(p) for p in nk], "old_def": f"def f({L.render(ok)})", "new_def": f"def f({L.render(nk)})",
                                              "real": sorted((k, p) for k, p, _ in real), "expected": {"breakages_model": sorted(exp["b"]), "breaking": exp["x"], "witness": exp["w"], "must": sorted(exp["m"]), "differ": sorted(exp["d"])}}]
                agg[kk][0] += 1
    return agg, drift, drift_ex, n_pairs


def replay_pairs(run: Run, griffe, tab: Table, olds, procs: int = 1):
    """Real code on every pair (o, n), o in olds, n any signature of the table."""
    del L.MISLOADED[:]
    mods = {i: L.visit_module(griffe, k) for i, k in tab.sig.items()}
    if L.MISLOADED:
        run.note(f"{tab.nn}-name alphabet: the visitor stores {len(L.MISLOADED)} signature(s) differently from their source (e.g. {L.MISLOADED[0]}); the diff clauses are judged on what is loaded")
    _G.update(griffe=griffe, tab=tab, mods=mods)
    olds = sorted(olds)
    if procs > 1:
        chunks = [olds[i::procs * 4] for i in range(procs * 4)]
        with multiprocessing.get_context("fork").Pool(procs) as pool:
            results = pool.map(_judge_rows, [c for c in chunks if c])
    else:
        results = [_judge_rows(olds)]
    drift = 0
    drift_ex = None
    for agg, d, dex, n_pairs in results:
        run.replayed(n_pairs)
        run.evaluated(n_pairs)
        drift += d
        drift_ex = drift_ex or dex
        for _kk, (count, sig, what, case) in sorted(agg.items()):
            run.violation(sig, what, case)
            for _ in range(count - 1):
                run.violation(sig, what, None)
    if drift:
        run.note(f"{tab.nn}-name alphabet: {drift} pair(s) where the real finder differs from the model's transcription Breakages (model drift; the verdict comes from the reference clauses only), e.g. {drift_ex}")
    # vacuity / accounting over the pairs TLC enumerated
    for (o, n), e in tab.exp.items():
        if e["x"] or e["m"] or o == n:
            run.nontrivial_case(tab.nn * 10**8 + o * 10**4 + n)
    for (o, n), e in list(tab.exp.items())[:: max(1, len(tab.exp) // 3)]:
        run.sample({"old": f"def f({L.render(tab.sig[o])})", "new": f"def f({L.render(tab.sig[n])})", "model_breakages": sorted(e["b"]), "call_breaking": e["x"], "witness_call": e["w"], "must_report": sorted(e["m"]), "cause": e["c"]}, limit=8)


def check_vacuity(tab: Table, what: str):
    n_x = sum(1 for e in tab.exp.values() if e["x"])
    n_m = sum(1 for e in tab.exp.values() if e["m"])
    n_b = sum(1 for e in tab.exp.values() if e["b"])
    n_id = sum(1 for (o, n) in tab.exp if o == n)
    if not (n_x and n_m and n_b and n_id):
        die(f"C10: vacuous enumeration ({what}): breaking={n_x} must={n_m} reported={n_b} identical={n_id}")
    kinds = {k for e in tab.exp.values() for k, _ in e["b"]}
    if kinds != L.PARAM_KINDS:
        die(f"C10: vacuous enumeration ({what}): breakage kinds reached by the model {sorted(kinds)}")


def confirm_defect_trace(run: Run, griffe, res, nn: int):
    """DiffSig_defect.cfg: TLC must exhibit clause (i) violated on the model of the unchanged code; the
    counterexample is replayed on the real code (it is one of the known findings, or drift)."""
    if "I_NoSilentBreak" not in res.violated:
        run.note("DiffSig_defect: the model no longer violates I_NoSilentBreak (kind sets changed?)")
        return
    st = res.trace[-1] if res.trace else None
    if not st:
        die("C10: DiffSig_defect reported a violation without a counterexample dump")
    tab = Table(res, nn)
    ok, nk = tab.sig[st["oi"]], tab.sig[st["ni"]]
    real, outcome = L.real_breakages(griffe, L.visit_module(griffe, ok), L.visit_module(griffe, nk))
    w = (st["witness"][0], tuple(sorted(st["witness"][1])))
    if not L.lost_call(ok, nk, w):
        die(f"C10: counterexample witness {w} is not a lost call on CPython: f({L.render(ok)}) -> f({L.render(nk)})")
    run.replayed()
    if outcome == "ok" and not real:
        run.note(f"DiffSig_defect counterexample confirmed on the real code: f({L.render(ok)}) -> f({L.render(nk)}), lost call {w}, nothing reported (cause {st['cause']})")
    else:
        run.note(f"DiffSig_defect counterexample f({L.render(ok)}) -> f({L.render(nk)}) is reported by the real code as {sorted(real)}: the model of the implementation is stale for family {st['cause']} (fixed?)")


def main(tier: str, replay: str | None = None):
    griffe = ensure_repo()
    run = Run("C10", tier)
    run.rule = ("DiffSig.tla: one state per pair (old, new) of legal signatures (<=2 parameters over {a,b}: all 157^2 pairs; <=3 over {a,b,c}: "
                "canonical old x all 2290 new in TLC, all 2290^2 on the real code in thorough, a seeded slice in quick) x 32 call shapes. "
                "Non-trivial = pair with a lost call, or with a clause-(ii) obligation, or identical pair; distinct by (alphabet, old, new) among the pairs TLC enumerated.")
    run.extra["kind_sets"] = L.kind_sets()
    for text in L.KIND_NOTES:
        run.note(text)
    if replay:
        with open(replay) as fh:
            rec = json.load(fh)
        case = rec["case"]
        print(rec["what"])
        nn = case["nn"]
        r0 = tlc.must(run_tlc("DiffSig_gen.cfg", nn, "pick", (), workers=1))
        t0 = Table(r0, nn)
        ko, kn = L.key(case["old"]), L.key(case["new"])
        inplace = case.get("route") == "inplace"
        r1 = tlc.must(run_tlc("DiffSig_gen.cfg", nn, "pick", (t0.idx[ko],), workers=2, routes=BOTH if inplace else ("visit",)))
        run.add_tlc(r1)
        tab = Table(r1, nn)
        o, n = tab.idx[ko], tab.idx[kn]
        if (o, n) not in tab.exp:
            die("C10: TLC's signature indexing is not stable between runs; cannot replay")
        exp = tab.expectation(o, n)
        for i in (o, n):
            real, _ = L.cpython_binds(tab.sig[i], tab.names)
            if real != tab.binds[i]:
                die("C10: PyBinds disagrees with CPython on the replayed signature")
        mo, mn = L.visit_module(griffe, tab.sig[o]), L.visit_module(griffe, tab.sig[n])
        if inplace:
            exp, ops = tab.hist[(o, n)]
            mn, outcome = L.build_inplace(griffe, mo, mn, ops)
            print("container history:", ops)
        real, outcome = L.real_breakages(griffe, mo, mn) if (not inplace or outcome == "ok") else (set(), outcome)
        run.replayed()
        viols, _ = L.judge(tab.sig[o], tab.sig[n], exp, real, outcome)
        if inplace:
            viols = [(dict(sig, route="inplace"), what) for sig, what in viols]
        print(f"real: {sorted((k, p) for k, p, _ in real)}  model: {sorted(exp['b'])}  breaking: {exp['x']} witness: {exp['w']}")
        for sig, what in viols:
            run.violation(sig, what, case)
        run.finish()

    rnd = random.Random(SEED)
    jobs = {
        "two": lambda: run_tlc("DiffSig_check.cfg", 2, "all", workers=4, routes=BOTH),
        "defect": lambda: run_tlc("DiffSig_defect.cfg", 2, "all", workers=1, dump_trace=True),
    }
    if tier == "quick":
        pick = rnd.sample(range(1, N3 + 1), QUICK_PICK)
        jobs["three"] = lambda: run_tlc("DiffSig_check.cfg", 3, "pick", pick, workers=4)
    else:
        jobs["three"] = lambda: run_tlc("DiffSig_check.cfg", 3, "canon", workers=12, timeout=3000)
    # 4-name family: positional kinds only, names in alphabet order (546 signatures: `a, /, b, c=d1, d=d2` ...)
    pick4 = rnd.sample(range(1, N4 + 1), QUICK_PICK4) if tier == "quick" else ()
    four_args = dict(nn=4, old="pick" if tier == "quick" else "all", pick=pick4, kinds=("po", "pk"), sorted_names=True)
    jobs["four"] = lambda: run_tlc("DiffSig_check.cfg", workers=4 if tier == "quick" else 8, timeout=3000, **four_args)
    with ThreadPoolExecutor(max_workers=4) as ex:
        futs = {k: ex.submit(f) for k, f in jobs.items()}
        res = {k: f.result() for k, f in futs.items()}
    run.extra["timing"] = {"tlc_wall_s": {k: round(r.wall_s, 1) for k, r in res.items()}}
    for k in ("two", "three", "four"):
        r = res[k]
        if r.violated:
            # the model of the (possibly changed) implementation breaks a clause: enumerate without invariants,
            # the real code decides below
            run.note(f"TLC: the model with the extracted kind sets violates {r.violated} ({k}); replaying the enumeration on the real code decides")
            run.add_tlc(r)
            nn = 2 if k == "two" else 3
            old = "all" if k == "two" else ("pick" if tier == "quick" else "canon")
            if k == "four":
                res[k] = run_tlc("DiffSig_gen.cfg", workers=8, timeout=3000, **four_args)
            else:
                res[k] = run_tlc("DiffSig_gen.cfg", nn, old, pick if (k == "three" and tier == "quick") else (), workers=8, timeout=3000, routes=BOTH if k == "two" else ("visit",))
        tlc.must(res[k])
        run.add_tlc(res[k])
    tlc.must(res["defect"], allow_violations=True)
    run.add_tlc(res["defect"])

    import time  # noqa: PLC0415

    t_py = time.time()
    two, three = Table(res["two"], 2), Table(res["three"], 3)
    if len(two.sig) != N2 or len(three.sig) != N3:
        die(f"C10: unexpected number of signatures: {len(two.sig)} / {len(three.sig)}")
    if len(two.hist) != N2 * N2:
        die(f"C10: expected {N2 * N2} in-place histories over the 2-name alphabet, TLC enumerated {len(two.hist)}")
    if len(two.exp) != N2 * N2:
        die(f"C10: expected {N2 * N2} pairs over the 2-name alphabet, TLC enumerated {len(two.exp)}")
    want3 = (QUICK_PICK if tier == "quick" else len(three.canon)) * N3
    if len(three.exp) != want3:
        die(f"C10: expected {want3} pairs over the 3-name alphabet, TLC enumerated {len(three.exp)}")
    check_vacuity(two, "2 names")
    check_vacuity(three, "3 names")
    four = Table(res["four"], 4)
    want4 = (QUICK_PICK4 if tier == "quick" else N4) * N4
    if len(four.sig) != N4 or len(four.exp) != want4:
        die(f"C10: 4-name family: {len(four.sig)} signatures / {len(four.exp)} pairs, expected {N4} / {want4}")
    validate_reference(run, four)
    validate_reference(run, two)
    validate_reference(run, three)
    confirm_defect_trace(run, griffe, res["defect"], 2)
    run.extra["timing"]["reference_validation_s"] = round(time.time() - t_py, 1)
    t_py = time.time()

    replay_pairs(run, griffe, two, two.sig.keys())
    if tier == "quick":
        replay_pairs(run, griffe, three, sorted({o for o, _ in three.exp}))
        run.exhaustive = False
        run.note(f"quick: 2-name alphabet exhaustive ({N2 * N2} pairs); 3-name alphabet: {QUICK_PICK} seeded old signatures x {N3} new ones")
    else:
        replay_pairs(run, griffe, three, three.sig.keys(), procs=10)
        run.exhaustive = True
    replay_pairs(run, griffe, four, sorted({o for o, _ in four.exp}), procs=1 if tier == "quick" else 8)
    run.extra["timing"]["real_replay_s"] = round(time.time() - t_py, 1)
    run.finish()
