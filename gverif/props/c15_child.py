"""C15 worker process: runs cases of spec/LoadProtocol.tla on the real Griffe and records
(a) the observations of the property (sentinel file, sys.modules delta, sys.path identity and
content, exception class, __pycache__ directories) and (b) the event trace validated by
spec/Trace_LoadProtocol.tla.

  python -m gverif.props.c15_child <workdir>        stdin: one JSON case per line; stdout: one JSON result per line

A case whose options allow inspection runs in a forked child of this (pristine) process, so nothing
it imports can leak into the next case; static cases run in-process, one after the other (a leak
there *is* a violation and is attributed to the first case that shows it).  `--fresh` runs exactly
one case in this interpreter and exits (used for the fresh-interpreter cross-check).

Taps (no edit of /repo): wrappers installed on ModuleFinder.find_spec, GriffeLoader.load /
_load_package / _load_module / _load_module_path / _load_submodule / _visit_module / _inspect_module /
_create_module, _griffe.importer.sys_path / import_module / dynamic_import (and the names bound in
loader and inspector), plus sys.addaudithook for import / exec / compile.
"""
from __future__ import annotations

import contextlib
import functools
import json
import os
import pathlib
import shutil
import sys
import traceback

from gverif.props.c15_pkg import MISSING_DEP, Builder, ext_name, model_id, pyname

REC = None  # the active Recorder (one per case)


class Recorder:
    def __init__(self, cfg: dict, root: str):
        self.cfg = cfg
        self.root = os.path.realpath(root)
        self.roots = [self.root]          # + the temporary git worktree while load_git runs
        self.wt_pycache: list = []
        self.events: list = []
        self.depth = 0          # nesting of GriffeLoader.load
        self.agent_stack: list = []
        self.aux: list = []     # observations that are not spec actions
        self.on = True

    def emit(self, ev: str, **kw):
        if self.on:
            self.events.append(dict(ev=ev, **kw))

    def mid_from_path(self, path) -> str | None:
        """abstract module id for a file of the generated tree."""
        p = os.path.realpath(str(path)) if os.path.exists(str(path)) else os.path.abspath(str(path))
        base = next((r for r in self.roots if p.startswith(r + os.sep)), None)
        if base is None:
            return None
        rel = os.path.relpath(p, os.path.join(base, "sp"))
        parts = rel.split(os.sep)
        if parts and parts[0].endswith(".zip"):      # a module inside the zip archive of the search path
            parts = parts[1:]
        parts[-1] = parts[-1].split(".", 1)[0]
        if parts[-1] == "__init__":
            parts.pop()
        if parts and parts[0] == "p-stubs":
            return "s"
        mid = model_id(self.cfg, ".".join(parts)) or "?" + ".".join(parts)
        if p.endswith(".pyi") and os.path.exists(p[:-1]):
            # a stub file next to its source: the in-package stubs of p ("s"), or of a sub-module ("as" / "bs")
            return "s" if mid == "p" else mid + "s"
        return mid

    def mid_from_name(self, name: str) -> str | None:
        if name == MISSING_DEP:
            return "dep"
        return model_id(self.cfg, name)


def _audit(event: str, args):
    rec = REC
    if rec is None or not rec.on:
        return
    try:
        if event == "import":
            name, filename = args[0], args[1]
            mid = rec.mid_from_name(name)
            if mid is None:
                return
            if filename is not None:
                # _imp.create_dynamic: a shared object is being loaded = its init code runs
                rec.emit("Import", m=mid)
            else:
                rec.aux.append({"ev": "ImportStmt", "m": mid})   # `import x` statement inside a module body
        elif event == "exec":
            code = args[0]
            fn = getattr(code, "co_filename", "")
            if isinstance(fn, str) and code.co_name == "<module>" and any(fn.startswith(r + os.sep) for r in rec.roots):
                rec.emit("Import", m=rec.mid_from_path(fn))
        elif event == "compile":
            fn = args[1]
            if isinstance(fn, bytes):
                fn = os.fsdecode(fn)
            if isinstance(fn, str) and any(fn.startswith(r + os.sep) for r in rec.roots):
                rec.aux.append({"ev": "Compile", "m": rec.mid_from_path(fn)})   # ast.parse of the visitor also lands here
    except Exception:  # noqa: BLE001
        rec.events.append({"ev": "TapError", "where": "audit", "tb": traceback.format_exc()[-400:]})


_INSTALLED = False


def install_taps(griffe):
    """Wrap the linearisation points.  Idempotent; the wrappers are no-ops while REC is None."""
    global _INSTALLED  # noqa: PLW0603
    if _INSTALLED:
        return
    _INSTALLED = True
    import _griffe.agents.inspector  # noqa: F401
    import _griffe.extensions.base  # noqa: F401
    import _griffe.finder as g_finder
    import _griffe.importer as g_imp
    import _griffe.loader as g_loader

    L = g_loader.GriffeLoader
    LoadingError = griffe.LoadingError

    def excname(exc: BaseException) -> str:
        if isinstance(exc, LoadingError):
            return "LoadingError"
        if isinstance(exc, ModuleNotFoundError):
            return "ModuleNotFoundError"
        if isinstance(exc, FileNotFoundError):
            return "FileNotFoundError"
        if isinstance(exc, ImportError):
            return "ImportError"
        if isinstance(exc, SystemExit):
            return "SystemExit"
        return type(exc).__name__

    # ---- finder.find_spec ------------------------------------------------------------------
    orig_find_spec = g_finder.ModuleFinder.find_spec

    @functools.wraps(orig_find_spec)
    def find_spec(self, module, **kw):
        rec = REC
        if rec is None:
            return orig_find_spec(self, module, **kw)
        top = os.path.basename(str(module)).split(".", 1)[0]
        pkg = rec.mid_from_name(top) or "?" + top
        try:
            res = orig_find_spec(self, module, **kw)
        except FileNotFoundError:
            rec.emit("FindSpec", pkg=pkg, res="nofile", stubs=False, viastubs=False)
            raise
        except ModuleNotFoundError:
            rec.emit("FindSpec", pkg=pkg, res="notfound", stubs=False, viastubs=False)
            raise
        package = res[1]
        if isinstance(package, g_finder.NamespacePackage):
            rec.emit("FindSpec", pkg=pkg, res="namespace", stubs=False, viastubs=False)
        else:
            rec.emit("FindSpec", pkg=pkg, res="package", stubs=package.stubs is not None,
                     viastubs=os.path.basename(os.path.dirname(str(package.path))) == "p-stubs")
        return res

    g_finder.ModuleFinder.find_spec = find_spec

    # ---- load_git: the temporary worktree ---------------------------------------------------------------------
    orig_worktree = g_loader.tmp_worktree

    @contextlib.contextmanager
    def tmp_worktree(repo=".", ref="HEAD"):
        rec = REC
        if rec is None:
            with orig_worktree(repo, ref) as wt:
                yield wt
            return
        with orig_worktree(repo, ref) as wt:
            rec.roots.append(os.path.realpath(str(wt)))
            rec.emit("Checkout")
            try:
                yield wt
            finally:
                for dp, dn, _fn in os.walk(os.path.join(str(wt), "sp")):
                    if "__pycache__" in dn:
                        rec.wt_pycache.append(os.path.relpath(os.path.join(dp, "__pycache__"), os.path.join(str(wt), "sp")))
                rec.emit("Cleanup", **_path_fields())

    g_loader.tmp_worktree = tmp_worktree

    # ---- GriffeLoader.load (re-entrant for external packages) -----------------------------------
    orig_load = L.load

    @functools.wraps(orig_load)
    def load(self, objspec=None, /, **kw):
        rec = REC
        if rec is None:
            return orig_load(self, objspec, **kw)
        top = os.path.basename(str(objspec)).split(".", 1)[0]
        pkg = rec.mid_from_name(top) or "?" + top
        rec.emit("Load" if pkg == "p" else "ResolveExternal", pkg=pkg, depth=rec.depth)
        rec.depth += 1
        try:
            res = orig_load(self, objspec, **kw)
        except BaseException as exc:
            rec.depth -= 1
            rec.emit("LoadRaise", pkg=pkg, exc=excname(exc), **_path_fields())
            raise
        rec.depth -= 1
        rec.emit("LoadReturn", pkg=pkg, **_path_fields())
        return res

    L.load = load

    # ---- agent ladder --------------------------------------------------------------------------
    def module_of(self, name, path, parent):
        rec = REC
        if isinstance(path, list):
            path = path[0] if path else None
        if path is not None:
            p = str(path)
            if os.path.isdir(p):      # namespace portion: a directory
                full = f"{parent.path}.{name}" if parent is not None else name
                return rec.mid_from_name(full) or "?" + full
            return rec.mid_from_path(p)
        full = f"{parent.path}.{name}" if parent is not None else name
        return rec.mid_from_name(full) or "?" + full

    orig_lmp = L._load_module_path

    @functools.wraps(orig_lmp)
    def _load_module_path(self, module_name, module_path, *, submodules=True, parent=None):
        rec = REC
        if rec is None:
            return orig_lmp(self, module_name, module_path, submodules=submodules, parent=parent)
        mid = module_of(self, module_name, module_path, parent)
        frame = {"m": mid, "chosen": False}
        rec.agent_stack.append(frame)
        try:
            return orig_lmp(self, module_name, module_path, submodules=submodules, parent=parent)
        except LoadingError as exc:
            if not frame["chosen"] and "without inspection" in str(exc):
                frame["chosen"] = True
                rec.emit("ChooseAgent", m=mid, agent="refuse")
            raise
        finally:
            rec.agent_stack.pop()

    L._load_module_path = _load_module_path

    def choose(rec, mid, agent):
        if rec.agent_stack and not rec.agent_stack[-1]["chosen"]:
            rec.agent_stack[-1]["chosen"] = True
            rec.emit("ChooseAgent", m=mid, agent=agent)
            return True
        return False

    orig_visit = L._visit_module

    @functools.wraps(orig_visit)
    def _visit_module(self, module_name, module_path, parent=None):
        rec = REC
        if rec is None:
            return orig_visit(self, module_name, module_path, parent)
        mid = module_of(self, module_name, module_path, parent)
        choose(rec, mid, "visit")
        res = orig_visit(self, module_name, module_path, parent)
        rec.emit("Visit", m=mid)
        return res

    L._visit_module = _visit_module

    orig_inspect = L._inspect_module

    @functools.wraps(orig_inspect)
    def _inspect_module(self, module_name, filepath=None, parent=None):
        rec = REC
        if rec is None:
            return orig_inspect(self, module_name, filepath, parent)
        mid = module_of(self, module_name, filepath, parent)
        if not choose(rec, mid, "inspect"):
            rec.emit("InspectTop", m=mid)      # load(): top-level module without __path__
        try:
            res = orig_inspect(self, module_name, filepath, parent)
        except BaseException as exc:
            rec.emit("InspectFail", m=mid, exc=excname(exc))
            raise
        rec.emit("Inspected", m=mid)
        return res

    L._inspect_module = _inspect_module

    orig_create = L._create_module

    @functools.wraps(orig_create)
    def _create_module(self, module_name, module_path):
        rec = REC
        if rec is None:
            return orig_create(self, module_name, module_path)
        if rec.agent_stack and not rec.agent_stack[-1]["chosen"]:
            choose(rec, rec.agent_stack[-1]["m"], "create")
        else:
            rec.emit("CreateNsParent", name=module_name)
        return orig_create(self, module_name, module_path)

    L._create_module = _create_module

    orig_lm = L._load_module

    @functools.wraps(orig_lm)
    def _load_module(self, module_name, module_path, *, submodules=True, parent=None):
        rec = REC
        if rec is None:
            return orig_lm(self, module_name, module_path, submodules=submodules, parent=parent)
        mid = module_of(self, module_name, module_path, parent)
        try:
            return orig_lm(self, module_name, module_path, submodules=submodules, parent=parent)
        except LoadingError as exc:
            cause = exc.__cause__
            if cause is not None:
                rec.emit("WrapError", m=mid, frm=excname(cause), to="LoadingError")
            raise

    L._load_module = _load_module

    orig_lsub = L._load_submodule

    @functools.wraps(orig_lsub)
    def _load_submodule(self, module, subparts, subpath):
        rec = REC
        if rec is None:
            return orig_lsub(self, module, subparts, subpath)
        mid = rec.mid_from_path(subpath)
        n0 = len(rec.events)
        rec.emit("Submodule", m=mid, suffix=os.path.splitext(str(subpath))[1])
        res = orig_lsub(self, module, subparts, subpath)
        # loaded iff an agent ran to completion for it (Visit / Inspected / create) after the Submodule event
        done = any(e["ev"] in ("Visit", "Inspected") and e.get("m") == mid for e in rec.events[n0:]) or any(
            e["ev"] == "ChooseAgent" and e.get("agent") == "create" and e.get("m") == mid for e in rec.events[n0:])
        if not done:
            tried = any(e["ev"] == "ChooseAgent" and e.get("m") == mid for e in rec.events[n0:])
            rec.emit("SkipSubmodule", m=mid, why="error" if tried else "unimportable")
        return res

    L._load_submodule = _load_submodule

    # ---- importer ------------------------------------------------------------------------------------
    orig_sys_path = g_imp.sys_path

    @contextlib.contextmanager
    def sys_path(*paths):
        rec = REC
        if rec is None:
            with orig_sys_path(*paths):
                yield
            return
        before = sys.path
        cm = orig_sys_path(*paths)
        cm.__enter__()
        rec.emit("EnterSysPath", replaced=sys.path is not before, n=len(paths),
                 first=(rec.mid_dir(paths[0]) if paths else "-"))
        rec.path_stack.append(before)
        try:
            yield
        except BaseException as exc:
            try:
                if not cm.__exit__(type(exc), exc, exc.__traceback__):
                    raise
            finally:
                saved = rec.path_stack.pop()
                rec.emit("ExitSysPath", restored=sys.path is saved, by="exception")
        else:
            try:
                cm.__exit__(None, None, None)
            finally:
                saved = rec.path_stack.pop()
                rec.emit("ExitSysPath", restored=sys.path is saved, by="normal")

    g_imp.sys_path = sys_path

    orig_import_module = g_imp.import_module

    def import_module(name, package=None):
        rec = REC
        if rec is None:
            return orig_import_module(name, package)
        mid = rec.mid_from_name(name) or "?" + name
        rec.emit("TryImport", m=mid)
        try:
            res = orig_import_module(name, package)
        except BaseException as exc:
            rec.emit("ImportFail", m=mid, exc=type(exc).__name__)
            raise
        rec.emit("ImportOk", m=mid)
        return res

    g_imp.import_module = import_module

    orig_dyn = g_imp.dynamic_import

    @functools.wraps(orig_dyn)
    def dynamic_import(import_path, import_paths=None):
        rec = REC
        if rec is None:
            return orig_dyn(import_path, import_paths)
        mid = rec.mid_from_name(import_path)
        if mid is None:
            # not a module of the case: load_extensions() importing Griffe's own built-in extension
            # through dynamic_import(path, None) -> sys_path() without paths must leave sys.path alone
            before = sys.path
            rec.on = False
            try:
                return orig_dyn(import_path, import_paths)
            finally:
                rec.on = True
                rec.emit("LoadExtensions", touched=sys.path is not before)
        rec.emit("DynImport", m=mid)
        try:
            res = orig_dyn(import_path, import_paths)
        except BaseException as exc:
            rec.emit("DynImportFail", m=mid, exc=excname(exc))
            raise
        rec.emit("DynImportOk", m=mid)
        return res

    # every `from _griffe.importer import dynamic_import` binding (loader, inspector, extensions.base ...)
    for name, mod in list(sys.modules.items()):
        if (name == "_griffe" or name.startswith("_griffe.")) and getattr(mod, "dynamic_import", None) is orig_dyn:
            mod.dynamic_import = dynamic_import

    sys.addaudithook(_audit)


def _path_fields() -> dict:
    rec = REC
    return {"path_same": sys.path is rec.path0, "path_equal": list(sys.path) == rec.path0_copy, "saved": len(rec.path_stack)}


def universe_names(cfg: dict) -> set:
    names = {"p", "p.a", "p.b", "p.a.b", "q", "_p", "p-stubs", MISSING_DEP}
    return names


def run_case(case: dict, workdir: str, ext_so: str | None) -> dict:
    """Build the package, call griffe.load, observe.  Runs in the process that must be observed."""
    global REC  # noqa: PLW0603
    import griffe

    cfg = case["cfg"]
    root = os.path.join(workdir, f"c{case['id']}-{os.getpid()}")
    os.makedirs(root)
    out: dict = {"id": case["id"]}
    try:
        b = Builder(cfg, root, case.get("compiled_as", "pyc"), ext_so, case.get("xc_as", "pyd")).build()
        os.environ["C15_SENTINEL"] = b.sentinel
        os.environ["C15_PATHMUT"] = cfg.get("pathmut", "none")
        os.environ["C15_WALK"] = cfg.get("walk", "none")
        os.environ["C15_CFAULTS"] = json.dumps(b.cfaults)
        rec = Recorder(cfg, root)
        path_before_case = list(sys.path)
        if cfg.get("onpath"):
            # the search directory is already an entry of sys.path when the call is made (same string as the resolved search path)
            sys.path.append(os.path.realpath(b.sp))
        rec.path0 = sys.path
        rec.path0_copy = list(sys.path)
        rec.path_stack = []
        rec.mid_dir = lambda p: "sp" if os.path.realpath(str(p)) == os.path.realpath(b.sp) else "other"
        mods0 = set(sys.modules)
        uni = universe_names(cfg)
        leaked_before = sorted(n for n in mods0 if n in uni)
        ext = {"true": True, "false": False, "none": None}[cfg["external"]]
        form = cfg.get("objspec", "name")
        objspec = {"name": "p", "relpath": "p", "abspath": pathlib.Path(b.sp, "p"), "dotted": "p.X"}[form]
        entry = cfg.get("entry", "load")
        cwd0 = os.getcwd()
        if form == "relpath":
            os.chdir(b.sp)
        if entry == "load_git":
            b.commit()
        REC = rec
        outcome = "Return"
        try:
            if entry == "attrs":
                # a loader built with the default options whose public option attributes are assigned afterwards
                loader = griffe.GriffeLoader(search_paths=[b.sp, *b.extra_paths])
                loader.allow_inspection = cfg["allow"]
                loader.force_inspection = cfg["force"]
                rec.emit("SetOptions", allow=cfg["allow"], force=cfg["force"])
                loader.load(objspec, submodules=cfg.get("submodules", True), try_relative_path=form == "relpath", find_stubs_package=cfg["findstubs"])
                if cfg["resolve"]:
                    loader.resolve_aliases(implicit=False, external=ext)
            elif entry == "load_git":
                # the second caller of the protocol: the package is checked out of a real repository, options are forwarded
                griffe.load_git(
                    objspec,
                    ref="HEAD",
                    repo=root,
                    submodules=cfg.get("submodules", True),
                    search_paths=["sp"],
                    allow_inspection=cfg["allow"],
                    force_inspection=cfg["force"],
                    find_stubs_package=cfg["findstubs"],
                    resolve_aliases=cfg["resolve"],
                    resolve_external=ext,
                )
            else:
                griffe.load(
                    objspec,
                    submodules=cfg.get("submodules", True),
                    search_paths=[b.sp, *b.extra_paths],
                    try_relative_path=form == "relpath",
                    allow_inspection=cfg["allow"],
                    force_inspection=cfg["force"],
                    find_stubs_package=cfg["findstubs"],
                    resolve_aliases=cfg["resolve"],
                    resolve_external=ext,
                )
        except griffe.LoadingError:
            outcome = "LoadingError"
        except ModuleNotFoundError:
            outcome = "ModuleNotFoundError"
        except FileNotFoundError:
            outcome = "FileNotFoundError"
        except ImportError:
            outcome = "ImportError"
        except KeyError:
            outcome = "KeyError"
        except SystemExit:
            outcome = "SystemExit"
        except BaseException as exc:  # noqa: BLE001
            outcome = "Other:" + type(exc).__name__
            out["tb"] = traceback.format_exc()[-1500:]
        finally:
            if outcome == "Return":
                rec.emit("Return", **_path_fields())
            else:
                rec.emit("Raise", exc=outcome, **_path_fields())
            REC = None
            os.chdir(cwd0)
        with open(b.sentinel) as fh:
            ran = [ln.strip() for ln in fh if ln.strip()]
        delta = sorted(set(sys.modules) - mods0)
        pyc_dirs = []
        for dp, dn, _fn in os.walk(b.sp):
            if "__pycache__" in dn:
                pyc_dirs.append(os.path.relpath(os.path.join(dp, "__pycache__"), b.sp))
        out.update(
            outcome=outcome,
            executed=sorted({model_id(cfg, n) or "?" + n for n in ran}),
            executed_seq=[model_id(cfg, n) or "?" + n for n in ran],
            sysmodules=sorted({model_id(cfg, n) or n for n in delta if n in uni}),
            sysmodules_other=[n for n in delta if n not in uni][:20],
            leaked_before=leaked_before,
            path_same=sys.path is rec.path0,
            path_equal=list(sys.path) == rec.path0_copy,
            path_now=None if list(sys.path) == rec.path0_copy else [str(x) for x in sys.path][:6],
            saved_depth=len(rec.path_stack),
            pycache=sorted(set(pyc_dirs) | set(rec.wt_pycache)),
            events=rec.events,
            aux=rec.aux[:40],
            compiled_as=b.compiled_as,
            xc_as=b.xc_as,
            pid=os.getpid(),
        )
        # restore so that one broken case does not poison the following in-process cases; the
        # observation above has already been taken
        if sys.path is not rec.path0:
            sys.path = rec.path0
        sys.path[:] = path_before_case
        for name in list(sys.modules):
            if name in uni or name.startswith("p."):
                del sys.modules[name]
    except BaseException as exc:  # noqa: BLE001
        out["machinery_error"] = f"{type(exc).__name__}: {exc}\n{traceback.format_exc()[-1500:]}"
    finally:
        REC = None
        shutil.rmtree(root, ignore_errors=True)
    return out


def run_forked(case: dict, workdir: str, ext_so: str | None) -> dict:
    r, w = os.pipe()
    pid = os.fork()
    if pid == 0:
        code = 0
        try:
            os.close(r)
            res = run_case(case, workdir, ext_so)
            with os.fdopen(w, "w") as fh:
                json.dump(res, fh)
        except BaseException:  # noqa: BLE001
            code = 3
        finally:
            os._exit(code)
    os.close(w)
    with os.fdopen(r) as fh:
        data = fh.read()
    _, status = os.waitpid(pid, 0)
    if not data:
        return {"id": case["id"], "machinery_error": f"forked case died with status {status}"}
    res = json.loads(data)
    res["forked"] = True
    return res


def main(argv):
    from gverif.common import ensure_repo

    workdir = argv[1]
    fresh = "--fresh" in argv
    ext_so = os.path.join(workdir, "c15ext.so")
    if not os.path.exists(ext_so):
        ext_so = None
    if os.environ.get("PYTHONDONTWRITEBYTECODE") or sys.dont_write_bytecode:
        print(json.dumps({"id": -1, "machinery_error": "bytecode writing is disabled in the C15 worker"}), flush=True)
        return 2
    griffe = ensure_repo()
    install_taps(griffe)
    for line in sys.stdin:
        line = line.strip()
        if not line:
            continue
        case = json.loads(line)
        cfg = case["cfg"]
        if fresh or not (cfg["allow"] or cfg["force"]):
            res = run_case(case, workdir, ext_so)
            res["forked"] = False
        else:
            res = run_forked(case, workdir, ext_so)
        res["fresh"] = fresh
        sys.stdout.write(json.dumps(res) + "\n")
        sys.stdout.flush()
    return 0


if __name__ == "__main__":
    sys.exit(main(sys.argv))
