"""X05 - one abstract case: build the world, run the real code and CPython in forked children, compare.

   real griffe vs CPython oracle -> the contract on the code          (violations)
   CPython oracle vs spec Ref    -> validity of the model's CPython   ("die": machinery error, exit 2)
   real griffe vs spec Impl      -> conformance of the transcription  (drift)
"""
from __future__ import annotations

import os
import shutil
import zlib

from gverif.props import x05_child as child
from gverif.props import x05_world as world

SPEC_CLS = {"_BadStr": "BadStr"}
_COUNTER = 0


def case_key(case: dict) -> tuple:
    s = case["setup"]
    return (case["n"], tuple(case["mk"]), tuple(case["body"]), tuple(case["at"]), tuple(s["ip"]), tuple(s["up"]), s["ipk"], case["pmut"])


def _setup_name(s: dict) -> str:
    return "ip=" + ",".join(s["ip"]) + "|up=" + ",".join(s["up"]) + "|" + s["ipk"]


def _val(v: dict) -> tuple:
    return (v.get("t"), v.get("k"), v.get("i"))


def _vals(vs: list) -> list:
    return sorted(_val(v) for v in vs)


def _fail_kind(case: dict, ref: dict) -> str:
    """What stops the import at level K+1 (abstract): a body kind, 'absent', or 'none' when everything imports."""
    k, n = ref["K"], case["n"]
    if k >= n:
        return "none"
    if ref["top"] != "R":
        return "absent"
    if case["mk"][k] == "absent" or (k >= 1 and case["mk"][k - 1] not in ("pkg", "ns")):
        return "absent"
    return case["body"][k]


def _in_order(message: str, tokens: list) -> str | None:
    pos = 0
    for tok in tokens:
        j = message.find(tok, pos)
        if j < 0:
            return tok
        pos = j + len(tok)
    return None


def check_case(case: dict, workdir: str) -> dict:
    res: dict = {"viol": [], "die": None, "drift": [], "key": case_key(case), "nontrivial": False, "sample": None}
    global _COUNTER  # noqa: PLW0603
    _COUNTER += 1
    d = os.path.join(workdir, "c%d_%d" % (os.getpid(), _COUNTER))
    os.makedirs(d)
    try:
        w = world.build(case, d)
        _check(case, w, res)
    finally:
        shutil.rmtree(d, ignore_errors=True)
    return res


def _check(case: dict, w: dict, res: dict) -> None:
    n, ref, impl = case["n"], case["ref"], case["impl"]
    ident = {"case": {k: case[k] for k in ("n", "mk", "body", "at", "setup", "pmut")}, "import_path": w["dotted"]}
    real = child.forked(child.run_real, w)
    if "crash" in real:
        res["die"] = f"real child crashed on {ident}: {real['crash']}"
        return
    # ---- CPython oracle.  deep: the longest importable prefix is the first success of fresh attempts n, n-1, ..., 1
    # (one pristine interpreter state each).  Otherwise two fresh children: one attempt at the whole path - CPython
    # imports parents first, so the prefixes it leaves in sys.modules are the importable ones and every longer prefix
    # fails at the same step with the same exception - then import_module(longest importable prefix).
    attempts = []
    k_o = 0
    deep = zlib.crc32(repr(res["key"]).encode()) % 8 == 0
    for m in range(n, 0, -1):
        o = child.forked(child.run_oracle, w, m)
        if "crash" in o:
            res["die"] = f"oracle child crashed on {ident}: {o['crash']}"
            return
        attempts.append(o)
        if o["import"]["ok"]:
            k_o = m
            break
        if not deep:
            k_o = max([v["i"] for v in o["mods"] if v["t"] in ("M", "X")], default=0)
            attempts += [dict(o, m=x) for x in range(n - 1, k_o, -1)]
            if k_o:
                o = child.forked(child.run_oracle, w, k_o)
                if "crash" in o or not o["import"]["ok"]:
                    res["die"] = f"oracle: prefix {k_o} is in sys.modules after a failed attempt but does not import alone on {ident}: {o}"
                    return
                attempts.append(o)
            break
    first, last = attempts[0], attempts[-1]
    failed = [o for o in attempts if not o["import"]["ok"]]
    o_kind = "return" if k_o and last["walk"]["ok"] else "raise"
    # ---- oracle vs spec reference (a wrong reference must never look like a pass or a violation)
    problems = []
    if k_o != ref["K"]:
        problems.append(f"longest importable prefix: CPython {k_o}, spec {ref['K']}")
    else:
        want = [e["cls"] for e in ref["errors"] if e["stage"] == "import"]
        got = [SPEC_CLS.get(o["import"]["cls"], o["import"]["cls"]) for o in failed]
        if want != got:
            problems.append(f"import error classes: CPython {got}, spec {want}")
        if o_kind != ref["kind"]:
            problems.append(f"outcome kind: CPython {o_kind}, spec {ref['kind']}")
        elif o_kind == "return" and _val(last["walk"]["value"]) != _val(ref["value"]):
            problems.append(f"value: CPython {last['walk']['value']}, spec {ref['value']}")
        elif k_o and not last["walk"]["ok"]:
            ge = [e["cls"] for e in ref["errors"] if e["stage"] == "getattr"]
            if ge != [last["walk"]["cls"]]:
                problems.append(f"getattr error: CPython {last['walk']['cls']}, spec {ge}")
        if k_o and (last["expr"]["ok"] != ref["expr"]["ok"] or (last["expr"]["ok"] and _val(last["expr"]["value"]) != _val(ref["expr"]["v"]))):
            problems.append(f"expression value: CPython {last['expr']}, spec {ref['expr']}")
    if _vals(first["mods"]) != _vals(ref["mods"]):
        problems.append(f"sys.modules after one attempt: CPython {first['mods']}, spec {ref['mods']}")
    if not case["setup"]["ip"]:
        if first["same_list"] != (ref["spcur"] == "orig") or first["path"] != ref["splist"]:
            problems.append(f"sys.path after one attempt: CPython same={first['same_list']} {first['path']}, spec {ref['spcur']} {ref['splist']}")
    if problems:
        res["die"] = f"spec reference disagrees with CPython on {ident}: " + "; ".join(problems)
        return
    # ---- the contract: real code vs oracle
    out = real["outcome"]
    got = out["kind"] if out["kind"] == "return" else out["cls"]
    fail = _fail_kind(case, ref)
    attrfail = last["walk"]["cls"] if (k_o and not last["walk"]["ok"]) else "none"
    sig0 = {"n": n, "K": k_o, "top": ref["top"], "kind": ref["kind"], "fail": fail, "attr": attrfail,
            "setup": _setup_name(case["setup"]), "pmut": case["pmut"], "got": got}

    def viol(clause: str, what: str):
        res["viol"].append((dict(sig0, clause=clause), f"dynamic_import({w['dotted']!r}, import_paths={case['setup']['ip'] or None}) [{ident['case']}]: {what}", dict(ident, tlc=case)))

    is_import_error = out["kind"] == "raise" and "ImportError" in out["mro"]
    if out["kind"] == "raise" and not is_import_error:
        viol("always-importerror", f"raised {out['cls']}: {out['text'][:200]!r} instead of an ImportError")
    if out["kind"] != o_kind and not (out["kind"] == "raise" and not is_import_error):
        viol("result", f"outcome {got} but importlib + getattr gives {o_kind} ({last.get('walk')})")
    elif out["kind"] == "return" and _val(out["value"]) != _val(last["walk"]["value"]):
        viol("result", f"returned {out['value']}, import_module(prefix {k_o}) + getattr gives {last['walk']['value']}")
    if is_import_error and o_kind == "raise":
        tokens = []
        for o in failed:
            tokens += [repr(".".join(w["comps"][: o["m"]])), o["import"]["cls"], o["import"]["text"]]
        if attrfail != "none":
            tokens += [last["walk"]["cls"], last["walk"]["text"]]
        missing = _in_order(out["text"], tokens)
        if missing is not None:
            viol("aggregates", f"message lacks (in order) {missing!r}: {out['text'][:400]!r}")
    if ref["notfound"] and out["kind"] == "raise" and is_import_error and "ModuleNotFoundError" not in out["mro"]:
        viol("doc-modulenotfound", f"no module of the path exists; docstring says ModuleNotFoundError, raised {out['cls']}")
    if case["setup"]["ip"]:
        if not real["same_list"] or real["path"] != real["before"]:
            viol("syspath-restored", f"sys.path afterwards: same object={real['same_list']} {real['path']}, before {real['before']}")
    elif real["same_list"] != first["same_list"] or real["path"] != first["path"]:
        viol("syspath-untouched", f"sys.path afterwards same={real['same_list']} {real['path']}, CPython alone: same={first['same_list']} {first['path']}")
    for key, seen in real["seen"].items():
        if key in first["seen"] and seen != first["seen"][key]:
            viol("path-inside", f"body of {key} saw sys.path {seen}, contract (CPython with the given paths) {first['seen'][key]}")
    if _vals(real["mods"]) != _vals(first["mods"]):
        viol("sysmodules", f"sys.modules afterwards {real['mods']}, one CPython attempt leaves {first['mods']}")
    imported = {(v["t"], v["i"]) for v in real["mods"]}
    for key, cnt in real["execs"].items():
        name, _, root = key.partition("@")
        if (("M" if root == "R" else "X"), name.count(".") + 1) in imported and cnt != 1:
            viol("body-once", f"body of imported module {key} executed {cnt} times")
    if out["kind"] == "return" and o_kind == "return" and not ref["shadowed"]:
        if not last["expr"]["ok"] or _val(last["expr"]["value"]) != _val(out["value"]):
            viol("expr-same", f"returned {out['value']}, expression gives {last['expr']}")
    # ---- conformance of the transcription (never a verdict)
    if not res["viol"]:
        iout = impl["outcome"]
        if (iout["kind"], iout["cls"] if iout["kind"] == "raise" else "") != (out["kind"], out["cls"] if out["kind"] == "raise" else ""):
            res["drift"].append("outcome")
        execs = [0] * len(impl["execs"])
        xexec = 0
        for key, cnt in real["execs"].items():
            name, _, root = key.partition("@")
            if root == "R":
                execs[name.count(".")] = cnt
            else:
                xexec = cnt
        if execs != impl["execs"] or xexec != impl["xexec"]:
            res["drift"].append("execs")
        if _vals(real["mods"]) != _vals(impl["mods"]):
            res["drift"].append("mods")
        if real["same_list"] != (impl["spcur"] == "orig") or real["path"] != impl["splist"]:
            res["drift"].append("syspath")
    res["nontrivial"] = bool(failed) or n > k_o or ref["shadowed"] or case["pmut"] != "none" or case["setup"] != {"ip": ["R"], "up": ["E"], "ipk": "str"}
    res["sample"] = {"import_path": w["dotted"], **ident["case"], "real": out, "cpython_K": k_o}
    res["shadow_differs"] = bool(k_o and o_kind == "return" and last["expr"].get("ok") and _val(last["expr"]["value"]) != _val(last["walk"]["value"]))


EXITS = {"normal": "none", "exception": "ValueError:x05 leaving by exception", "interrupt": "KeyboardInterrupt:x05 leaving by interrupt"}


def check_syspath(case: dict, workdir: str) -> list:
    """griffe.sys_path used directly, against the EnterSysPath / ExitSysPath steps of the spec: `case` is an enumerated
    case in which the sys.path mutation (if any) was executed, so ref.spcur / ref.splist say what must be left."""
    global _COUNTER  # noqa: PLW0603
    _COUNTER += 1
    d = os.path.join(workdir, "s%d_%d" % (os.getpid(), _COUNTER))
    os.makedirs(d)
    viols = []
    try:
        w = world.build(case, d)
        ref, setup = case["ref"], case["setup"]
        for exit_kind, escaped in EXITS.items():
            r = child.forked(child.run_syspath, w, case["pmut"], exit_kind)
            if "crash" in r:
                return [("die", f"sys_path child crashed: {r['crash']}", None)]
            sig = {"clause": "", "setup": _setup_name(setup), "pmut": case["pmut"], "exit": exit_kind, "n": 0, "K": 0, "fail": "none", "got": "none"}
            ident = {"case": {k: case[k] for k in ("n", "mk", "body", "at", "setup", "pmut")}, "tlc": case, "direct": "sys_path"}
            call = f"with griffe.sys_path(*{setup['ip']}) [user sys.path {setup['up']}, body does {case['pmut']}, exit {exit_kind}]"
            want_inside = setup["ip"] or setup["up"]
            if not r["entered"] or r["inside"] != want_inside or r["inside_same"] != (not setup["ip"]):
                viols.append((dict(sig, clause="ctx-inside"), f"{call}: inside sys.path = {r.get('inside')} (caller's list: {r.get('inside_same')}), contract {want_inside}", ident))
            if r["escaped"] != escaped:
                viols.append((dict(sig, clause="ctx-propagates"), f"{call}: exception leaving the block: {r['escaped']}, expected {escaped}", ident))
            if r["same_list"] != (ref["spcur"] == "orig") or r["path"] != ref["splist"]:
                viols.append((dict(sig, clause="ctx-restored"), f"{call}: afterwards same list={r['same_list']} {r['path']}, contract {ref['spcur']} {ref['splist']}", ident))
    finally:
        shutil.rmtree(d, ignore_errors=True)
    return viols
