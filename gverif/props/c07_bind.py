"""C07 binding helpers: abstract hierarchy (a CASE of spec/C3.tla) -> Python source, real Griffe view,
CPython view, and the comparison with the spec.  Imported by the driver (c07.py), by its worker
processes and by the inspection child process (c07_inspect.py).

Vocabulary shared with the spec: classes are 1..n (rendered C1..Cn), members are the names of `Mem`
(m1 is rendered as a class attribute, m2 as a method, both carry the name of the declaring class),
a linearisation is a list of class numbers, `0` is "no class".
"""
from __future__ import annotations

from pathlib import Path

MEMBER_KIND = {"m1": "attr", "m2": "method"}
# kind "imp": the class body binds the name with an import statement; one distinct object per class so that CPython's
# getattr result identifies the class it was found in (index = class number - 1)
IMPORTED = {
    "m1": ("string", ["ascii_lowercase", "ascii_uppercase", "digits", "hexdigits", "octdigits", "punctuation"]),
    "m2": ("os.path", ["join", "split", "basename", "dirname", "abspath", "normpath"]),
}


def kind_of(case: dict, c: int, m: str) -> str:
    k = case.get("kind")
    return k[c - 1].get(m, "def") if k and isinstance(k[c - 1], dict) else "def"


EXT = 9  # marker of an unresolvable base in bases[c] (spec: Ext)
# The external class named by the Ext position of class c (spec: ExtOf(c) - one distinct, otherwise unrelated class per
# class statement, so that CPython's MRO restricted to the analysed classes is defined by the analysed classes alone):
# a builtin, a subscripted generic, a module attribute of / a name imported from a package that is not loaded.
EXTERNALS = [
    ("Exception", None),
    ("Generic[T]", "from typing import Generic, TypeVar\nT = TypeVar('T')"),
    ("textwrap.TextWrapper", "import textwrap"),
    ("PrettyPrinter", "from pprint import PrettyPrinter"),
    ("string.Formatter", "import string"),
    ("shlex", "from shlex import shlex"),
]


def local_bases(case: dict, c: int) -> list:
    """The bases of c that are classes of the analysed modules (spec: LocalBases)."""
    return [b for b in case["bases"][c - 1] if b != EXT]


def forward_refs(case: dict) -> bool:
    return any(b > c for c in range(1, case["n"] + 1) for b in local_bases(case, c))


def ext_position(case: dict, c: int) -> str:
    bs = case["bases"][c - 1]
    if EXT not in bs:
        return "none"
    i = bs.index(EXT)
    return "only" if len(bs) == 1 else ("first" if i == 0 else ("last" if i == len(bs) - 1 else "middle"))


def prelude(case: dict) -> str:
    """Imports needed by the external bases (module ma; the ext domain only uses the one-module layout)."""
    lines = [EXTERNALS[c - 1][1] for c in range(1, case["n"] + 1) if EXT in case["bases"][c - 1] and EXTERNALS[c - 1][1]]
    return "\n".join(lines) + "\n\n" if lines else ""


def normalise(case: dict) -> dict:
    """TLC prints a function with an empty domain (Mem = {}) as an empty sequence."""
    if "kind" in case:
        case["kind"] = [x if isinstance(x, dict) else {} for x in case["kind"]]
    for key in ("attr", "inh"):
        case[key] = [x if isinstance(x, dict) else {} for x in case[key]]
    case.setdefault("delop", {"cls": 0, "name": "", "had": False, "out": "none"})
    return case


def source_has(case: dict) -> list:
    """Members as written in the source: the placement *before* the `del cls[name]` of the case (if any)."""
    has = [list(h) for h in case["has"]]
    d = case.get("delop") or {}
    if d.get("cls") and d.get("had"):
        has[d["cls"] - 1] = sorted(set(has[d["cls"] - 1]) | {d["name"]})
    return has


# ---------------------------------------------------------------------------------------------------
# rendering
def mod_name(case: dict, c: int, prefix: str = "") -> str:
    return prefix + case["mods"][c - 1]


def class_name(c: int) -> str:
    return f"C{c}"


def class_path(case: dict, c: int, prefix: str = "") -> str:
    return f"{mod_name(case, c, prefix)}.C{c}"


def base_spelling(case: dict, c: int, b: int, prefix: str = "", canonical: bool = False) -> str:
    """How the class statement of c names its base b under the layout of the case."""
    layout = case["layout"]
    if canonical:
        return f"C{b}"
    if layout == "sub":  # subscripted base: every class of this layout defines __class_getitem__ returning itself
        return f"C{b}[int]"
    if case["mods"][c - 1] == case["mods"][b - 1]:
        return f"C{b}"
    if layout == "nest":  # attribute chain through the holder class (a nested class sees module-level names directly)
        return f"H.C{b}" if case["mods"][b - 1].endswith(".H") else f"C{b}"
    if layout in ("nest2", "nest2d"):  # dotted chain of three components through two holder classes
        return f"H.M.C{b}" if case["mods"][b - 1].endswith(".H.M") else f"C{b}"
    if layout == "as":
        return f"K{b}"
    if layout == "attr":
        return f"{mod_name(case, b, prefix)}.C{b}"
    return f"C{b}"  # from / chain


def class_chunk(case: dict, c: int, prefix: str = "", canonical: bool = False, guarded: bool = False) -> str:
    bases = ", ".join(EXTERNALS[c - 1][0] if b == EXT else base_spelling(case, c, b, prefix, canonical) for b in case["bases"][c - 1])
    head = f"class C{c}({bases}):" if bases else f"class C{c}:"
    body = []
    if case["layout"] == "sub" and not canonical:
        body += ["    def __class_getitem__(cls, item):", "        return cls"]
    for m in sorted(source_has(case)[c - 1]):
        if kind_of(case, c, m) == "imp":
            module, names = IMPORTED[m]
            body.append(f"    from {module} import {names[c - 1]} as {m}")
        elif MEMBER_KIND.get(m, "attr") == "method":
            body += [f"    def {m}(self):", f"        return 'C{c}'"]
        else:
            body.append(f"    {m} = 'C{c}'")
    if not body:
        body = ["    pass"]
    lines = [head, *body]
    if guarded:  # importable even when CPython refuses the class statement (inspection only)
        lines = ["try:", *("    " + ln for ln in lines), "except (TypeError, NameError, AttributeError):", "    pass"]
    return "\n".join(lines) + "\n"


def import_lines(case: dict, module: str, prefix: str = "", guarded: bool = False) -> list:
    """Import statements of `module` ('ma' / 'mb' / 'mc' / 'md') under the layout."""
    layout, n = case["layout"], case["n"]
    if layout in ("one", "sub", "nest", "nest2", "nest2d"):
        return []
    mods = case["mods"]

    def from_import(source: str, names: list) -> list:
        if not guarded:
            return [f"from {source} import " + ", ".join(names)]
        out = []  # inspection: a class CPython refused does not exist in its module; the importer must still import
        for name in names:
            out += ["try:", f"    from {source} import {name}", "except ImportError:", "    pass"]
        return out

    if module in ("mc", "md"):  # the re-exporting modules of layouts "chain" / "chain2": the classes used across modules
        needed = sorted({b for c in range(1, n + 1) for b in local_bases(case, c) if mods[b - 1] != mods[c - 1]})
        out = []
        for b in needed:
            out += from_import(f"{prefix}mc" if module == "md" else f"{prefix}{mods[b - 1]}", [f"C{b}"])
        return out
    needed = sorted({b for c in range(1, n + 1) if mods[c - 1] == module for b in local_bases(case, c) if mods[b - 1] != module})
    if not needed:
        return []
    other = prefix + ("mb" if module == "ma" else "ma")
    if layout == "from":
        return from_import(other, [f"C{b}" for b in needed])
    if layout == "as":
        return from_import(other, [f"C{b} as K{b}" for b in needed])
    if layout == "attr":
        return [f"import {other}"]
    if layout in ("chain", "chain2"):
        return from_import(f"{prefix}{'mc' if layout == 'chain' else 'md'}", [f"C{b}" for b in needed])
    raise ValueError(layout)


def render(case: dict, prefix: str = "", guarded: bool = False) -> dict:
    """module name -> source, as Griffe sees the hierarchy (classes in index order: forward references stay)."""
    out = {}
    if case["layout"] == "nest":  # one module; classes 1..cut are members of the holder class H
        inner = [class_chunk(case, c, prefix) for c in range(1, case["n"] + 1) if case["mods"][c - 1].endswith(".H")]
        outer = [class_chunk(case, c, prefix) for c in range(1, case["n"] + 1) if not case["mods"][c - 1].endswith(".H")]
        body = "\n".join("\n".join("    " + ln if ln else ln for ln in chunk.split("\n")) for chunk in inner)
        return {prefix + "ma": "class H:\n" + body + "\n" + "\n".join(outer)}
    if case["layout"] in ("nest2", "nest2d"):  # classes 1..cut are members of ma.H.M; "nest2d": decoys ma.H.Cb at the shorter path
        def indent(text: str, k: int) -> str:
            return "\n".join(" " * k + ln if ln else ln for ln in text.split("\n"))
        inner = [c for c in range(1, case["n"] + 1) if case["mods"][c - 1].endswith(".H.M")]
        outer = [c for c in range(1, case["n"] + 1) if c not in inner]
        mem = sorted(case["attr"][0])
        decoys = ""
        if case["layout"] == "nest2d":
            decoys = "".join(f"    class C{c}:\n" + ("".join(f"        {m} = 'decoy'\n" for m in mem) or "        pass\n") + "\n" for c in inner)
        src = "class H:\n" + decoys + "    class M:\n" + "\n".join(indent(class_chunk(case, c, prefix), 8) for c in inner)
        return {prefix + "ma": src + "\n" + "\n".join(class_chunk(case, c, prefix) for c in outer)}
    present = {"one": ["ma"], "sub": ["ma"], "chain": ["mb", "mc", "ma"], "chain2": ["mb", "mc", "md", "ma"]}.get(case["layout"], ["mb", "ma"])
    for module in present:
        lines = import_lines(case, module, prefix, guarded)
        chunks = [class_chunk(case, c, prefix, guarded=guarded) for c in range(1, case["n"] + 1) if case["mods"][c - 1] == module]
        out[prefix + module] = (prelude(case) if module == "ma" else "") + "\n".join(lines) + ("\n\n" if lines else "") + "\n".join(chunks)
    # dependency order for loaders that import for real: mb, mc, md, ma
    order = [prefix + m for m in ("mb", "mc", "md", "ma") if prefix + m in out]
    return {k: out[k] for k in order}


# ---------------------------------------------------------------------------------------------------
# CPython: executes the very class statements (canonical spelling, one namespace); classes are
# executed in an order in which every base precedes its subclasses, which exists for every class
# that cannot reach a cycle.
def cpython_view(case: dict) -> dict:
    n = case["n"]
    bases = [local_bases(case, c) for c in range(1, n + 1)]
    cyc = case["cyc"]
    order, state = [], {}

    def visit(c):
        if state.get(c):
            return
        state[c] = 1
        for b in bases[c - 1]:
            if not cyc[b - 1]:
                visit(b)
        order.append(c)

    for c in range(1, n + 1):
        if not cyc[c - 1]:
            visit(c)
    ns: dict = {"__name__": "c07cpy"}
    out = {"mro": {}, "attr": {}}
    if prelude(case):
        exec(compile(prelude(case), "<c07>", "exec", dont_inherit=True), ns)  # noqa: S102
    for c in order:
        src = class_chunk(case, c, canonical=case["layout"] != "sub")
        try:
            exec(compile(src, "<c07>", "exec", dont_inherit=True), ns)  # noqa: S102
        except TypeError as exc:
            out["mro"][c] = "TypeError:" + str(exc)[:40]
            continue
        except NameError:
            out["mro"][c] = "NameError"
            continue
        k = ns[f"C{c}"]
        out["mro"][c] = [int(x.__name__[1:]) for x in k.__mro__ if x.__module__ == "c07cpy"]  # restricted to the analysed classes
    d = case["delop"]
    if d["cls"] and isinstance(out["mro"].get(d["cls"]), list):  # CPython's `del C.m`: own namespace only
        try:
            delattr(ns[f"C{d['cls']}"], d["name"])
            out["del"] = "deleted"
        except AttributeError:
            out["del"] = "AttributeError"
    for c in order:
        if not isinstance(out["mro"].get(c), list):
            continue
        k = ns[f"C{c}"]
        out["attr"][c] = {}
        for m in case["attr"][c - 1]:
            # the class in whose namespace CPython's getattr found the object (objects are distinct per class)
            v = getattr(k, m, ns)
            owners = [c2 for c2 in order if isinstance(out["mro"].get(c2), list) and m in vars(ns[f"C{c2}"]) and vars(ns[f"C{c2}"])[m] is v]
            out["attr"][c][m] = 0 if v is ns else (owners[0] if len(owners) == 1 else -1)
    return out


def check_reference(case: dict) -> str | None:
    """None when the spec's CPython transcription (PyLin, ExistsExt, PyGetattr) equals CPython on this case."""
    py = cpython_view(case)
    if case["layout"] in ("nest2", "nest2d") and all(r["ok"] for r in case["ref"]):
        ns: dict = {"__name__": "ma"}
        exec(compile(render(case)["ma"], "<c07deep>", "exec", dont_inherit=True), ns)  # noqa: S102
        for c in range(1, case["n"] + 1):
            k = ns
            for part in class_path(case, c).split(".")[1:]:
                k = k[part] if isinstance(k, dict) else getattr(k, part)
            got = ["ma." + x.__qualname__ for x in k.__mro__ if x is not object]
            want = [class_path(case, x) for x in case["ref"][c - 1]["order"]]
            if got != want:
                return f"written source: {class_path(case, c)}.__mro__ = {got}, reference {want}"
    if "del" in py and (py["del"] == "deleted") != bool(case["delop"]["had"]):
        return f"del C{case['delop']['cls']}.{case['delop']['name']}: CPython {py['del']}, reference says own member = {case['delop']['had']}"
    for c in range(1, case["n"] + 1):
        ref = case["ref"][c - 1]
        if case["cyc"][c - 1]:
            if ref["ok"]:
                return f"class C{c} can reach a cycle but the reference accepts it"
            continue
        got = py["mro"].get(c)
        if isinstance(got, list):
            if not ref["ok"] or ref["order"] != got:
                return f"C{c}: CPython __mro__ {got}, reference {ref}"
            for m, owner in case["attr"][c - 1].items():
                if py["attr"][c][m] != owner:
                    return f"C{c}.{m}: CPython finds it in C{py['attr'][c][m]}, reference PyGetattr says C{owner}"
        else:
            if ref["ok"]:
                return f"C{c}: CPython raised {got}, reference accepts with {ref['order']}"
            if got == "NameError" and all(case["ref"][b - 1]["ok"] for b in local_bases(case, c)):
                return f"C{c}: NameError in CPython although every base was accepted"
            if str(got).startswith("TypeError") and not all(case["ref"][b - 1]["ok"] for b in local_bases(case, c)):
                return f"C{c}: TypeError in CPython although a base had been refused (expected NameError)"
    return None


# ---------------------------------------------------------------------------------------------------
# the real Griffe
def load_static(griffe, sources: dict):
    coll = griffe.ModulesCollection()
    lines = griffe.LinesCollection()
    for name, src in sources.items():
        mod = griffe.visit(name, filepath=Path(name + ".py"), code=src, modules_collection=coll, lines_collection=lines)
        coll[name] = mod
    return coll


def load_disk(griffe, sources: dict, directory: str, force_inspection: bool = False):
    for name, src in sources.items():
        with open(Path(directory) / (name + ".py"), "w") as fh:
            fh.write(src)
    loader = griffe.GriffeLoader(search_paths=[directory], force_inspection=force_inspection, allow_inspection=force_inspection)
    for name in sources:
        loader.load(name)
    loader.resolve_aliases()
    return loader.modules_collection


def apply_del(case: dict, coll, prefix: str = "") -> str:
    """`del cls[name]` of the case on the real class -> "deleted" / "noop" / "KeyError" / exception name."""
    d = case["delop"]
    if not d["cls"]:
        return "none"
    k = coll.get_member(class_path(case, d["cls"], prefix))
    had = d["name"] in k.members
    try:
        del k[d["name"]]
    except KeyError:
        return "KeyError"
    except RecursionError:
        return "RecursionError"
    except Exception as exc:  # noqa: BLE001
        return type(exc).__name__
    return "deleted" if had and d["name"] not in k.members else "noop"


def _final_path(a) -> str:
    """Path of the object an (inherited / view) alias finally stands for: follow the links that are bound to objects;
    stop at a non-alias (= final_target) or at an unresolved import alias (a class-body import of an unloaded package:
    the member of the declaring class *is* that alias)."""
    cur = a
    for _ in range(16):
        if not cur.is_alias or not cur.resolved:
            return cur.path
        cur = cur.target
    return "<loop>"


def _member_view(a) -> dict:
    try:
        is_alias = bool(a.is_alias)
        return {
            "path": a.path,
            "final": _final_path(a),
            "inherited": bool(a.inherited),
            "alias": is_alias,
        }
    except Exception as exc:  # noqa: BLE001
        return {"error": type(exc).__name__}


def class_view(k, mem: list) -> dict:
    """Projection of a Class (or an Alias to one) onto the spec's vocabulary."""
    out: dict = {}
    try:
        out["mro"] = [x.path for x in k.mro()]
    except ValueError as exc:
        out["mro"] = "ValueError"
        out["why"] = "cycle" if "cycle" in str(exc) else "merge"
    except RecursionError:
        # every other accessor recomputes the MRO and would hit the recursion limit again (slow): stop here
        return {"mro": "RecursionError", "inh": "RecursionError", "declared": sorted(name for name in k.members if name in mem),
                "all": "RecursionError", "item": {m: "RecursionError" for m in mem}}
    except Exception as exc:  # noqa: BLE001
        out["mro"] = type(exc).__name__
    try:
        inh = k.inherited_members
        out["inh"] = {name: dict(_member_view(a), parent_is_self=a.parent is k) for name, a in inh.items() if name in mem}
    except RecursionError:
        out["inh"] = "RecursionError"
    except Exception as exc:  # noqa: BLE001
        out["inh"] = type(exc).__name__
    try:
        out["declared"] = sorted(name for name in k.members if name in mem)
    except Exception as exc:  # noqa: BLE001
        out["declared"] = type(exc).__name__
    try:
        out["all"] = sorted(name for name in k.all_members if name in mem)
    except RecursionError:
        out["all"] = "RecursionError"
    except Exception as exc:  # noqa: BLE001
        out["all"] = type(exc).__name__
    out["item"] = {}
    for m in mem:
        try:
            out["item"][m] = _member_view(k[m])
        except KeyError:
            out["item"][m] = "KeyError"
        except RecursionError:
            out["item"][m] = "RecursionError"
        except Exception as exc:  # noqa: BLE001
            out["item"][m] = type(exc).__name__
    return out


def real_view(case: dict, coll, prefix: str = "") -> dict:
    mem = sorted(case["attr"][0])
    out = {"classes": {}, "views": {}}
    for c in range(1, case["n"] + 1):
        try:
            k = coll.get_member(class_path(case, c, prefix))
        except KeyError:
            out["classes"][c] = None  # only under inspection: CPython refused the class statement
            continue
        out["classes"][c] = class_view(k, mem)
    for b in range(1, case["n"] + 1):
        for mod, _ in case["views"][b - 1]:
            name = f"K{b}" if case["layout"] == "as" else f"C{b}"
            path = f"{prefix}{mod}.{name}"
            try:
                a = coll.get_member(path)
            except KeyError:
                out["views"][path] = None
                continue
            out["views"][path] = dict(class_view(a, mem), cls=b, is_alias=bool(a.is_alias))
    return out


# ---------------------------------------------------------------------------------------------------
# comparison with the spec
def class_kind(case: dict, c: int) -> str:
    if case["cyc"][c - 1]:
        return "cyclic"
    if not case["ref"][c - 1]["ok"]:
        return "refused" if all(case["ref"][b - 1]["ok"] for b in local_bases(case, c)) else "base-refused"
    nb = len(local_bases(case, c))
    return "root" if nb == 0 else ("single" if nb == 1 else "multiple")


def compare(case: dict, real: dict, agent: str, prefix: str = "") -> tuple:
    """-> (violations [(sig, what)], drift count).  The verdict is real vs reference (`ref`, `attr`);
    real vs the model's transcription (`mro`, `inh`, `all`) only counts as drift."""
    viol, drift = [], 0
    n = case["n"]
    mem = sorted(case["attr"][0])
    forward = forward_refs(case)

    def paths(order):
        return [class_path(case, x, prefix) for x in order]

    def sig(clause, c, **kw):
        return dict({"clause": clause, "agent": agent, "domain": case["domain"], "layout": case["layout"], "kind": class_kind(case, c), "forward": forward, "ext": ext_position(case, c)}, **kw)

    def check_class(c, v, who, self_path):
        nonlocal drift
        ref = case["ref"][c - 1]
        has = set(case["has"][c - 1])
        # ---- the order
        if ref["ok"]:
            want = paths(ref["order"][1:])
            if v["mro"] != want:
                clause = "mro-order" if isinstance(v["mro"], list) else {"RecursionError": "mro-loops", "ValueError": "mro-spurious-uncomputable"}.get(v["mro"], "mro-crashes")
                viol.append((sig(clause, c, who=who), f"{self_path}.mro() = {v['mro']}, CPython's order is {want}"))
                return
        else:
            if v["mro"] != "ValueError":
                clause = "mro-accepts-refused" if isinstance(v["mro"], list) else ("mro-loops" if v["mro"] == "RecursionError" else "mro-crashes")
                reason = "can reach an inheritance cycle" if case["cyc"][c - 1] else "is refused by CPython (no consistent order)"
                viol.append((sig(clause, c, who=who), f"{self_path} {reason} but mro() gave {v['mro']} instead of raising ValueError"))
                return
            if v["inh"] != {} or any(v["item"][m] == "RecursionError" for m in mem) or v["all"] == "RecursionError":
                if v["inh"] == "RecursionError" or v["all"] == "RecursionError":
                    viol.append((sig("mro-loops", c, who=who), f"{self_path}.inherited_members loops on an uncomputable hierarchy"))
                else:
                    drift += 1
            impl = case["mro"][c - 1]
            if impl["why"] not in ("pending", v.get("why")):   # pending: this class was not run through the machine (roots = last)
                drift += 1
            return
        impl = case["mro"][c - 1]
        pending = impl["why"] == "pending"
        if not pending and (not impl["ok"] or paths(impl["order"]) != v["mro"]):
            drift += 1
        # ---- inherited members = what getattr finds through the order
        attr = case["attr"][c - 1]
        want_inh = {m: attr[m] for m in mem if m not in has and attr[m] != 0}
        inh = v["inh"]
        if not isinstance(inh, dict):
            viol.append((sig("inherited-total", c, who=who), f"{self_path}.inherited_members raised {inh}"))
            return
        shadow = sorted(set(inh) & has)
        if shadow:
            viol.append((sig("inherited-shadows-declared", c, who=who), f"{self_path}.inherited_members lists {shadow} although the class declares them itself"))
        for m in mem:
            if m in has:
                continue
            got = inh.get(m)
            owner = want_inh.get(m)
            if owner is None:
                if got is not None:
                    viol.append((sig("inherited-extra", c, who=who), f"{self_path}.inherited_members has {m} -> {got} but no class of the MRO declares it"))
                continue
            if got is None:
                viol.append((sig("inherited-missing", c, who=who, mkind=kind_of(case, owner, m)), f"{self_path}.inherited_members lacks {m}; CPython finds it in {class_path(case, owner, prefix)}"))
                continue
            want_final = f"{class_path(case, owner, prefix)}.{m}"
            if got.get("final") != want_final:
                viol.append((sig("inherited-target", c, who=who, mkind=kind_of(case, owner, m)), f"{self_path}.inherited_members[{m!r}] targets {got.get('final', got)}, CPython's look-up finds {want_final} (nearest definition along {paths(ref['order'])})"))
            if got.get("path") != f"{self_path}.{m}" or got.get("inherited") is not True or got.get("alias") is not True or got.get("parent_is_self") is not True:
                viol.append((sig("inherited-alias-shape", c, who=who), f"{self_path}.inherited_members[{m!r}] = {got}: expected an inherited alias with path {self_path}.{m}"))
            if not pending and case["inh"][c - 1][m]["owner"] != owner:
                drift += 1
        # ---- all_members / __getitem__
        want_all = sorted(has | set(want_inh))
        if v["all"] != want_all:
            viol.append((sig("all-members", c, who=who), f"{self_path}.all_members has {v['all']} of {mem}, expected {want_all}"))
        for m in mem:
            it = v["item"][m]
            if m in has:
                ok = isinstance(it, dict) and it.get("path") == f"{self_path}.{m}" and it.get("inherited") is False and (who == "alias" or it.get("alias") is (kind_of(case, c, m) == "imp"))
                if who == "alias" and isinstance(it, dict):
                    ok = ok and it.get("final") == f"{class_path(case, c, prefix)}.{m}"
                if not ok:
                    viol.append((sig("getitem-declared", c, who=who), f"{self_path}[{m!r}] = {it}: the class declares {m} itself"))
            elif m in want_inh:
                want_final = f"{class_path(case, want_inh[m], prefix)}.{m}"
                ok = isinstance(it, dict) and it.get("path") == f"{self_path}.{m}" and it.get("final") == want_final and it.get("inherited") is True
                if not ok:
                    viol.append((sig("getitem-inherited", c, who=who, mkind=kind_of(case, want_inh[m], m)), f"{self_path}[{m!r}] = {it}: expected an inherited alias {self_path}.{m} -> {want_final}"))
            elif it != "KeyError":
                viol.append((sig("getitem-absent", c, who=who), f"{self_path}[{m!r}] = {it} although no class of the MRO declares {m}"))

    for c in range(1, n + 1):
        v = real["classes"][c]
        if v is None:
            if agent != "inspect" or case["ref"][c - 1]["ok"]:
                viol.append((sig("class-missing", c, who="class"), f"{class_path(case, c, prefix)} was not loaded"))
            continue
        if v["declared"] != sorted(case["has"][c - 1]):
            viol.append((sig("declared", c, who="class"), f"{class_path(case, c, prefix)} declares {v['declared']}, source declares {sorted(case['has'][c - 1])}"))
            continue
        check_class(c, v, "class", class_path(case, c, prefix))
    for path, v in real["views"].items():
        if v is None:
            if agent != "inspect":
                viol.append(({"clause": "alias-view-missing", "agent": agent, "domain": case["domain"], "layout": case["layout"], "kind": "-", "forward": forward, "who": "alias"}, f"import alias {path} was not loaded"))
            continue
        if not v["is_alias"]:
            drift += 1
            continue
        check_class(v["cls"], v, "alias", path)
    return viol, drift


def check_case(griffe, case: dict, agent: str = "visit", directory: str | None = None, prefix: str = "") -> dict:
    """Run one abstract case on the real code.  -> {"viol": [(sig, what)], "drift": k, "machinery": msg | None}"""
    sources = render(case, prefix)
    try:
        if agent == "visit":
            coll = load_static(griffe, sources)
        else:
            coll = load_disk(griffe, sources, directory, force_inspection=False)
        delout = apply_del(case, coll, prefix)
        real = real_view(case, coll, prefix)
    except Exception as exc:  # noqa: BLE001
        forward = forward_refs(case)
        return {"viol": [({"clause": "load-total", "agent": agent, "domain": case["domain"], "layout": case["layout"], "kind": "-", "forward": forward, "who": "class"}, f"loading raised {exc!r}")], "drift": 0, "sources": sources}
    viol, drift = compare(case, real, agent, prefix)
    d = case["delop"]
    if d["cls"] and delout != d["out"]:
        if delout in ("deleted", "noop", "KeyError"):
            drift += 1  # differs from the model's transcription of __delitem__; the verdict is the state compared above
        else:
            forward = forward_refs(case)
            viol.append(({"clause": "del-crashes", "agent": agent, "domain": case["domain"], "layout": case["layout"], "kind": class_kind(case, d["cls"]), "forward": forward, "who": "class"},
                         f"del {class_path(case, d['cls'], prefix)}[{d['name']!r}] raised {delout}"))
    return {"viol": viol, "drift": drift, "sources": sources, "real": real}
