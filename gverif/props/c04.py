"""C04 - names in expressions resolve to the object Python scoping binds them to (spec/Scope.tla).

TLC decides, on the model, that the transcription of Object.resolve / Function.resolve / relative_to_absolute /
visit_import[from] / ExprAttribute chaining equals the reference (Python's LOAD_NAME/LOAD_GLOBAL rules and
importlib._bootstrap._resolve_name) in the *clean* domain, and exhibits one counterexample in each relaxed domain
(the recorded defect classes).  Binding: every finished case TLC prints is grouped by package configuration; each
configuration becomes a real package on disk (c04_render) whose reference sites are stored expressions for Griffe and
executable probes for CPython (c04_worker, subprocesses):

   real Griffe  vs  spec reference (py, just)   -> the property on the code        (VIOLATION / KNOWN-FINDING)
   real Griffe  vs  spec Impl                    -> conformance of the model        (drift note)
   real CPython vs  spec reference               -> validity of the reference model (exit 2 when different)
"""
from __future__ import annotations

import json
import os
import subprocess
import time
from concurrent.futures import ThreadPoolExecutor

from gverif import tlc
from gverif.common import PY, SEED, VERIF, child_env, die, ensure_repo, scratch
from gverif.harness import Run
from gverif.props.c04_render import MOD_FILE, SCOPES

ALL_RELAX = ["nested", "method", "shortcut", "mparam", "decl", "eloc"]
ENV_KEYS = ["fam", "M", "n", "up1", "up2", "modb", "ab", "bb", "fnb", "inh", "stub", "st"]
PLAIN_FORMS = ["ann", "val", "base", "dec", "par_ann", "par_def", "ret", "api"]
EXPECTED_BINDERS = {"fn-param", "fn-local", "own-class", "own-class-decl", "enclosing-class", "module", "submodule", "parent-shortcut", "none"}
NWORKERS = max(2, min(14, (os.cpu_count() or 4) - 2))


def tla_set(items) -> str:
    return "{" + ", ".join(f'"{i}"' for i in items) + "}"


def env_key(c: dict) -> str:
    return json.dumps([c[k] for k in ENV_KEYS], sort_keys=True)


def name_class(c: dict) -> str:
    if c["fam"] == "rel":
        return "import-bound"
    n = c["n"]
    return {"x": "generic", "A": "class-A", "B": "class-B", "q": "module-name", "pkg": "module-name", "a": "submodule-name", "sub": "submodule-name"}.get(n, "other")


def group_envs(cases: list) -> list:
    """One package configuration per distinct (M, n, bindings); its cases are the site scopes TLC enumerated for it."""
    envs: dict = {}
    for c in cases:
        e = envs.setdefault(env_key(c), {**{k: c[k] for k in ENV_KEYS}, "zmod": c["zmod"], "rks": sorted(c["va"]), "cases": {}, "suffix": {}, "stm": None})
        e["cases"][c["S"]] = c
        e["suffix"][c["S"]] = c["suffix"] if not c["S"].endswith(".m") else []
        if c["S"] == "A.init":
            e["stm"] = c["stm"]
            e["pre"] = c["pre"]
    out = []
    for i, (k, e) in enumerate(sorted(envs.items())):
        if e["stm"] is None:
            die(f"C04: TLC emitted no A.init case for configuration {k} (Scope.tla EmitCase carries the statements there)")
        e["id"] = i
        out.append(e)
    return out


def run_workers(envs: list, keep_source: bool = False) -> dict:
    """Render + Griffe + CPython for every configuration, in NWORKERS subprocesses.  Returns id -> result."""
    results: dict = {}
    if not envs:
        return results
    nw = min(NWORKERS, len(envs))
    with scratch("c04-") as root:
        procs = []
        for w in range(nw):
            chunk = [{k: v for k, v in e.items() if k != "cases"} for e in envs[w::nw]]
            job = os.path.join(root, f"job{w}.json")
            out = os.path.join(root, f"out{w}.json")
            with open(job, "w") as fh:
                json.dump({"root": os.path.join(root, f"w{w}"), "envs": chunk, "keep_source": keep_source}, fh)
            procs.append((subprocess.Popen([PY, "-m", "gverif.props.c04_worker", job, out], env=child_env(), cwd=VERIF, stdout=subprocess.PIPE, stderr=subprocess.STDOUT, text=True), out))
        for proc, out in procs:
            text, _ = proc.communicate(timeout=3000)
            if proc.returncode != 0:
                die(f"C04: worker failed rc={proc.returncode}:\n{text[-3000:]}")
            with open(out) as fh:
                for r in json.load(fh):
                    results[r["id"]] = r
    return results


def dotted(p: list) -> str:
    return ".".join(p)


def impl_str(c: dict) -> str:
    k, p = c["impl"]["k"], c["impl"]["p"]
    if k == "path":
        return dotted(p)
    if k == "param":
        return f"{dotted(p)}({c['n']})"
    return c["n"]


class Checker:
    def __init__(self, run: Run):
        self.run = run
        self.drift = 0
        self.overapprox = 0
        self.violating_cases: set = set()
        self.binders: set = set()
        self.clauses = {"bound": 0, "param": 0, "unbound": 0, "exempt": 0, "chain": 0, "eloc": 0, "value-attr": 0}

    def check_env(self, e: dict, res: dict):
        run = self.run
        src = res.get("source")
        g, cp = res["griffe"], res["cpython"]
        ident = {k: e[k] for k in ENV_KEYS}
        if "import_exc" in cp:
            die(f"C04: CPython cannot import the rendered package for {ident}: {cp['import_exc']}")
        if "load_exc" in g:
            run.violation({"clause": "total", "scope": "load", "binder": "unmodelled", "pybinder": "n/a", "form": "load", "fam": e["fam"], "name": name_class(e)},
                          f"griffe.load raised {g['load_exc']} on configuration {ident}", self._case(e, None, None))
            return
        probes = cp["probes"]
        for sc in SCOPES:
            c = e["cases"].get(sc)
            if c is None:
                continue
            self._check_reference(e, c, probes, cp["rejected"], ident)
            self._check_site(e, c, g[sc], ident, src)

    # -- CPython vs the spec's reference operators (machinery: exit 2) ---------------------------------------------
    def _check_reference(self, e, c, probes, rejected, ident):
        sc = c["S"]
        if e["fam"] == "rel":
            tag = sc
            if c["exempt"] != (tag in rejected):
                die(f"C04: Scope.tla PyStmt says CPython {'rejects' if c['exempt'] else 'accepts'} the statement {c['st']} in {ident} at {sc} ({c['why']}), CPython did the opposite (rejected={rejected})")
        if c["exempt"]:
            return
        py = c["py"]
        want = {"obj": ["obj", dotted(py["p"])], "param": ["param"], "unbound": ["unbound"]}[py["b"]]
        if probes.get(sc) != want:
            die(f"C04: spec reference PyBind disagrees with CPython on {ident} scope {sc}: spec {want}, CPython {probes.get(sc)}")
        if not sc.endswith(".m"):
            for i in range(1, len(c["suffix"]) + 1):
                want = ["obj", dotted(py["p"] + c["suffix"][:i])]
                if probes.get(f"{sc}/c{i}") != want:
                    die(f"C04: spec chain reference disagrees with CPython on {ident} scope {sc} chain {i}: spec {want}, CPython {probes.get(f'{sc}/c{i}')}")
        if sc in ("mod", "A", "B"):
            pyl = c["pyl"]
            want = {"obj": ["obj", dotted(pyl["p"])], "param": ["param"], "unbound": ["unbound"]}[pyl["b"]]
            if probes.get(f"{sc}/late") != want:
                die(f"C04: spec reference for stringized annotations disagrees with inspect.get_annotations(eval_str=True) on {ident} scope {sc}: spec {want}, CPython {probes.get(f'{sc}/late')}")
        if not sc.endswith(".m"):
            for rk in c["va"]:      # CPython: `<value>.n` is the attribute of the value, whatever the scopes bind under n
                want = ["obj", "builtins.str"] if rk == "str" else ["attr"]
                if probes.get(f"{sc}/v_{rk}") != want:
                    die(f"C04: attribute-of-value probe {rk} in {sc} of {ident} saw {probes.get(f'{sc}/v_{rk}')}, expected {want}")
        for f in ("lam", "cmp"):
            if probes.get(f"{sc}/{f}") != ["local"]:
                die(f"C04: expression-local probe {f} in {sc} of {ident} saw {probes.get(f'{sc}/{f}')}")

    # -- real Griffe vs reference (the property) and vs Impl (drift) -----------------------------------------------
    def _case(self, e, c, form):
        env = {k: v for k, v in e.items() if k != "cases"}
        return {"env": env, "cases": list(e["cases"].values()), "scope": c["S"] if c else None, "form": form}

    def _check_site(self, e, c, g, ident, src):
        run = self.run
        sc, n, py = c["S"], c["n"], c["py"]
        istr = impl_str(c)
        base_sig = {"scope": sc, "pybinder": py["lvl"], "fam": e["fam"], "name": name_class(e)}
        self.binders.add(c["binder"])
        nontrivial = py["b"] != "unbound" or c["impl"]["k"] != "name"
        if nontrivial:
            run.nontrivial_case((env_key(c), sc))
        if c["exempt"]:
            self.clauses["exempt"] += 1
        elif py["b"] == "obj":
            self.clauses["bound"] += 1
        elif py["b"] == "param":
            self.clauses["param"] += 1
        else:
            self.clauses["unbound"] += 1
        real_verdicts = set()
        for form, r in g.items():
            run.evaluated()
            if "missing" in r:
                die(f"C04: site {form} of scope {sc} is not stored as an expression in {ident}: {r['missing']}\n{src or ''}")
            if "exc" in r:
                run.violation(dict(base_sig, clause="total", binder="unmodelled", form=form), f"resolving {n!r} at site {form} of scope {sc} raised {r['exc']} in {ident}", self._case(e, c, form))
                self.violating_cases.add((env_key(c), sc))
                continue
            real = n if "raise" in r else r["r"]         # NameResolutionError from Object.resolve == "unchanged"
            if form in ("lam", "cmp"):
                kind, ok, expect, want = "eloc", real == n, istr, n
                sig_py = "expr-local"
                if not c["exempt"]:
                    self.clauses["eloc"] += 1
            elif form.startswith("v_"):
                rk = {"v_chain": "call", "v_dec": "call"}.get(form, form[2:])
                tail = ".K" if form == "v_chain" else ""
                va = c["va"][rk]
                expect = (n if va["impl"]["k"] == "name" else dotted(va["impl"]["p"])) + tail
                want = (n if va["ref"]["k"] == "name" else dotted(va["ref"]["p"])) + tail
                kind, sig_py = "value-attr", "attribute-of-value"
                ok = real == want or (rk == "str" and real == n + tail)
                self.clauses["value-attr"] += 1
            elif form.startswith("c"):
                i = int(form[1:])
                want = dotted(py["p"] + c["suffix"][:i])
                expect = ".".join([istr] + c["suffix"][:i])
                kind, ok, sig_py = "chain", real == want, py["lvl"]
                self.clauses["chain"] += 1
            else:
                ref = c["pyl"] if form == "str_ann" else py      # stringized annotations are evaluated after the module ran
                expect, sig_py = istr, ref["lvl"]
                if ref["b"] == "obj":
                    kind, want = "bound", dotted(ref["p"])
                    ok = real == want
                elif ref["b"] == "param":
                    kind, want = "param", f"{n} or {dotted(ref['p'])}({n})"
                    ok = real in (n, f"{dotted(ref['p'])}({n})")
                else:
                    kind, want = "unjustified", f"{n} or one of {[dotted(j) for j in c['just']]}"
                    ok = real == n or real in [dotted(j) for j in c["just"]]
            if c["exempt"]:
                continue                                  # CPython rejects the import: only totality is demanded
            binder = c["binder"] if real == expect else "unmodelled"
            if not ok:
                real_verdicts.add(kind)
                self.violating_cases.add((env_key(c), sc))
                run.violation(dict(base_sig, clause=kind, binder=binder, pybinder=sig_py, form=form),
                              f"name {n!r} at site {form} of scope {sc} in {MODNAME[e['M']]} resolves to {real!r}; Python binds {py['b']} {dotted(py['p']) if py['b'] == 'obj' else ''} (expected {want}); configuration {ident}",
                              self._case(e, c, form))
            elif real != expect:
                self.drift += 1
        run.replayed()
        run.sample({"configuration": ident, "scope": sc, "griffe": {f: r.get("r", r) for f, r in g.items()}, "python": py, "source": src})
        model_says = {v for v in ((c["mv"],) if sc.endswith(".m") else (c["mv"], c["mve"], c["mvl"]) if "." not in sc else (c["mv"], c["mve"])) if v not in ("ok", "exempt")}
        if model_says and not real_verdicts:
            self.overapprox += 1
            if self.overapprox <= 3:
                run.note(f"model predicts {sorted(model_says)} for scope {sc} of {ident}, real results {g}")


MODNAME = MOD_FILE


def replay_file(run: Run, path: str):
    with open(path) as fh:
        rec = json.load(fh)
    print(rec["what"])
    env = dict(rec["case"]["env"])
    env["cases"] = {c["S"]: c for c in rec["case"]["cases"]}
    env["id"] = 0
    for f in run.findings:
        f.pop("expect_every_run", None)          # a single configuration cannot show every recorded finding
    res = run_workers([env], keep_source=True)
    print(res[0].get("source", ""))
    chk = Checker(run)
    chk.check_env(env, res[0])
    run.states = run.transitions = 1
    run.finish()


def main(tier: str, replay: str | None = None):
    ensure_repo()
    run = Run("C04", tier)
    run.rule = ("Scope.tla: every package configuration (site module in {pkg/__init__, pkg.sub/__init__, pkg.sub.b} (quick: first and last); focus name in {x, A, B, q, pkg, a, sub}; "
                "binding kind of the name at module / class A / nested class B / __init__ level and in the ancestor packages) x every site scope "
                "(module, A, B, A.__init__, A.m, B.__init__, B.m), plus every `from` statement (level 0..3 x module part x imported name x as) in 6 (quick: 5) modules at module/class/function level. "
                "Non-trivial = Python binds the name or some Griffe scope level declares it; distinct by (configuration, site scope).")
    if replay:
        replay_file(run, replay)
    cfg = f"Scope_{tier}.cfg"
    consts = {"FAMS": tla_set(["scope", "rel"])}
    jobs = {}
    # two TLC JVMs at a time (tlc.run holds a machine-wide slot per JVM): the main run, and the six small defect-domain
    # runs one after the other; the latter overlap with the replay of the main run
    pool = ThreadPoolExecutor(max_workers=1)
    main_pool = ThreadPoolExecutor(max_workers=1)
    jobs["full"] = main_pool.submit(tlc.run, "Scope", cfg, workers=4 if tier == "quick" else 8, deadlock=True, timeout=3000, heap="6g",
                                    constants=dict(consts, RELAX=tla_set(ALL_RELAX), GUARD="{}", EMIT="TRUE"))
    for d in ALL_RELAX:
        jobs[d] = pool.submit(tlc.run, "Scope", "Scope_defect.cfg", workers=1, deadlock=True, timeout=3000, dump_trace=True,
                              constants=dict(FAMS=tla_set(["scope"]), RELAX=tla_set([d]), GUARD=tla_set([d]), EMIT="FALSE"))
    pool.shutdown(wait=False)
    main_pool.shutdown(wait=False)
    full = jobs["full"].result()
    print(f"TLC: {full.summary()} (t+{time.time() - run.t0:.1f}s)", flush=True)
    tlc.must(full, allow_violations=True)
    run.add_tlc(full)
    if full.violated:
        print(full.tail)
        die(f"C04: Scope.tla violates {full.violated} in the clean domain: the model (or the reference) is wrong; replay decides nothing until this is understood")
    cases = full.cases
    envs = group_envs(cases)
    if len(cases) < 1000 or not all(len(e["cases"]) >= 2 for e in envs):
        die(f"C04: implausible case space ({len(cases)} cases, {len(envs)} configurations)")
    t0 = time.time()
    results = run_workers(envs, keep_source=False)
    print(f"replayed {len(envs)} package configurations on Griffe and CPython in {time.time() - t0:.1f}s", flush=True)
    chk = Checker(run)
    for e in envs:
        chk.check_env(e, results[e["id"]])
    print(f"compared {len(cases)} cases (t+{time.time() - run.t0:.1f}s)", flush=True)
    run.exhaustive = True
    # vacuity: every action of the walk fired, every clause had instances
    missing = EXPECTED_BINDERS - chk.binders
    if missing:
        die(f"C04: vacuous run, the walk never ended with {sorted(missing)}")
    if min(chk.clauses.values()) == 0:
        die(f"C04: vacuous run, clause instance counts {chk.clauses}")
    run.extra["clause_instances"] = chk.clauses
    run.extra["configurations"] = len(envs)
    # the model must exhibit each recorded defect class in its own domain; the counterexample must be a real one
    verdicts = {}
    by_key = {(env_key(c), c["S"]): c for c in cases}
    for d in ALL_RELAX:
        res = jobs[d].result()
        tlc.must(res, allow_violations=True)
        run.add_tlc(res)
        verdicts[d] = res.violated
        print(f"TLC defect domain {d}: violated={res.violated} distinct={res.distinct} wall={res.wall_s:.1f}s", flush=True)
        if not res.violated or not res.trace:
            run.note(f"domain {d}: Scope.tla no longer exhibits a defect there (model changed?)")
            continue
        last = res.trace[-1]
        key = (env_key(last), last["S"])
        if key not in by_key:
            die(f"C04: TLC counterexample of domain {d} is not among the enumerated cases: {key}")
        if key in chk.violating_cases:
            run.note(f"domain {d}: TLC counterexample for {res.violated} ({dict((k, last[k]) for k in ('M', 'n', 'modb', 'ab', 'bb', 'fnb', 'up1', 'S'))}) reproduced on the real code")
        else:
            run.note(f"domain {d}: TLC counterexample for {res.violated} does NOT reproduce on the real code (model over-approximates / defect fixed)")
    run.extra["model_verdicts"] = verdicts
    if chk.drift:
        run.note(f"{chk.drift} site(s) where the real code differs from the model's Impl although it satisfies the reference (model drift)")
    if chk.overapprox:
        run.note(f"{chk.overapprox} case(s) where the model predicts a violation and the real code shows none (model drift)")
    run.extra["seed_use"] = f"VERIF_SEED={SEED} unused: the enumeration is exhaustive in both tiers, no random choice is made"
    run.finish()
