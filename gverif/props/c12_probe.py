"""Everything the C12 / C13 bindings need to know about the parsers, obtained through the PUBLIC API only
(`griffe.Docstring(...).parse(style)`): which titles introduce which section kind, which Sphinx field names select which
kind of field.  No private table, regex constant or helper of `_griffe.docstrings.*` is read, so behaviour-preserving
refactorings of the parser modules cannot break the checks.

Candidates = the values of `griffe.DocstringSectionKind`, the aliases documented in docs/reference/docstrings.md
(transcribed below; the file of the working tree is read too when it is there) - the parser decides which are accepted.
"""
from __future__ import annotations

import logging
import os
import re

from gverif.common import REPO

DOCUMENTED_ALIASES = [
    # docs/reference/docstrings.md, "Aliases:" lines and section headings (Google and Numpydoc chapters)
    "args", "arguments", "params", "parameters", "keyword args", "keyword arguments", "other args", "other arguments", "other params",
    "other parameters", "raises", "exceptions", "returns", "yields", "receives", "examples", "attributes", "functions", "methods",
    "classes", "modules", "warns", "warnings", "deprecated",
]
SPHINX_FIELD_CANDIDATES = ["param", "parameter", "arg", "argument", "key", "keyword", "type", "var", "ivar", "cvar", "vartype",
                           "returns", "return", "rtype", "raises", "raise", "except", "exception"]


def _quiet():
    logging.getLogger("griffe").setLevel(logging.CRITICAL)


def title_candidates(griffe) -> list:
    out = list(DOCUMENTED_ALIASES)
    for kind in griffe.DocstringSectionKind:
        if kind.value not in out:
            out.append(kind.value)
    path = os.path.join(REPO, "docs", "reference", "docstrings.md")
    try:
        with open(path) as fh:
            for line in fh:
                m = re.match(r"^- Aliases: (.+)$", line.strip())
                if m:
                    for alias in m.group(1).split(","):
                        a = alias.strip().lower()
                        if a and a not in out:
                            out.append(a)
    except OSError:
        pass
    return out


def probe_titles(griffe, style: str) -> dict:
    """{section kind (underscored): [titles the parser accepts for it]} for google / numpy."""
    _quiet()
    table: dict = {}
    for title in title_candidates(griffe):
        shown = title.capitalize()
        if style == "google":
            text = f"S.\n\n{shown}:\n    x: d"
        else:
            text = f"S.\n\n{shown}\n{'-' * len(shown)}\nx\n    d"
        try:
            secs = griffe.Docstring(text).parse(style)
        except Exception:  # noqa: BLE001
            continue
        kinds = [s.kind.value for s in secs[1:]]
        if len(kinds) == 1 and kinds[0] not in ("text", "admonition"):
            table.setdefault(kinds[0].replace(" ", "_"), []).append(title)
    return table


def probe_sphinx_fields(griffe) -> dict:
    """{field kind of DocSphinx.tla: [names the parser accepts]} by observing what a one/two-line docstring produces."""
    _quiet()
    out: dict = {fk: [] for fk in ("type", "param", "vartype", "var", "raises", "returns", "rtype")}

    def kinds(text):
        try:
            return griffe.Docstring(text).parse("sphinx")
        except Exception:  # noqa: BLE001
            return []

    def ann(secs, kind):
        for s in secs:
            if s.kind.value == kind and s.value:
                return s.value[0].annotation
        return None

    for name in SPHINX_FIELD_CANDIDATES:
        secs = kinds(f":{name} x: d")
        got = [s.kind.value for s in secs]
        if "parameters" in got:
            out["param"].append(name)
        elif "attributes" in got:
            out["var"].append(name)
        elif "raises" in got:
            out["raises"].append(name)
        elif "returns" in got:
            out["returns"].append(name)
        elif str(ann(kinds(f":param x: d\n:{name} x: Tq"), "parameters")) == "Tq":
            out["type"].append(name)
        elif str(ann(kinds(f":var x: d\n:{name} x: Tq"), "attributes")) == "Tq":
            out["vartype"].append(name)
        elif str(ann(kinds(f":returns: d\n:{name}: Tq"), "returns")) == "Tq":
            out["rtype"].append(name)
    return out
