"""Run TLC on a module of /verif/spec and parse what the harness needs out of its output.

Conventions used by every spec module:
  * `PrintT(<<"CASE", ToJson(rec)>>)` (from an always-TRUE invariant or from a constraint) emits one
    abstract case / behaviour record per reached state; `cases` collects them (bracket-safe parsing,
    one record per line, robust to interleaving of whole lines only -> gen configs run with -workers 1
    unless the caller says otherwise).
  * Invariant violations are reported by name in `violated`.
  * The final counters "N states generated, M distinct states found" are parsed into
    `generated` / `distinct`; TLC's generated-states counter is the number of transitions taken
    (successor states computed), which is what evidence files report as `transitions`.
"""
from __future__ import annotations

import json
import os
import re
import shutil
import subprocess
import tempfile
import time
from dataclasses import dataclass, field

from gverif.common import VERIF, die, scratch_root

SPEC_DIR = os.path.join(VERIF, "spec")
JAR = "/opt/veriftools/tla/tla2tools.jar:/opt/veriftools/tla/CommunityModules-deps.jar"

_RE_STATES = re.compile(r"^(\d+) states generated, (\d+) distinct states found, (\d+) states left on queue")
_RE_INV = re.compile(r"^Error: Invariant (\S+) is violated")
_RE_PROP = re.compile(r"^Error: (?:Action property|Temporal properties?) (.*) (?:is|were) violated")
_RE_DEPTH = re.compile(r"^The depth of the complete state graph search is (\d+)")
_RE_CASE = re.compile(r'^<<"(CASE|TRACE|NOTE)", (".*")>>$')
_RE_COV = re.compile(r"^<(\w+) line (\d+), col \d+ to line \d+, col \d+ of module (\w+)>: (\d+):(\d+)")


@dataclass
class TLCResult:
    module: str
    cfg: str
    rc: int = 0
    wall_s: float = 0.0
    generated: int = 0
    distinct: int = 0
    queue: int = 0
    depth: int = 0
    violated: list = field(default_factory=list)
    errors: list = field(default_factory=list)
    cases: list = field(default_factory=list)
    notes: list = field(default_factory=list)
    coverage: dict = field(default_factory=dict)  # action name -> (distinct, total)
    trace: list = field(default_factory=list)     # counterexample states (dicts) when dump_trace=True
    ncases: int = 0                               # CASE lines seen when keep_cases=False (streamed to on_line)
    finished: bool = False
    tail: str = ""
    cmd: str = ""

    @property
    def ok(self) -> bool:
        return self.finished and not self.violated and not self.errors

    def summary(self) -> dict:
        return {
            "module": self.module,
            "cfg": self.cfg,
            "states_generated": self.generated,
            "distinct_states": self.distinct,
            "depth": self.depth,
            "violated": self.violated,
            "wall_s": round(self.wall_s, 2),
            "cases": len(self.cases) or self.ncases,
        }


def _acquire_slot():
    """Machine-wide bound on concurrently running TLC JVMs (several checks / builders share the box):
    one of VERIF_TLC_SLOTS (default 10) lock files is held for the duration of a run."""
    import fcntl  # noqa: PLC0415

    n = int(os.environ.get("VERIF_TLC_SLOTS", "10") or 10)
    if n <= 0:
        return None
    d = os.path.join(tempfile.gettempdir(), "gverif-tlc-slots")
    os.makedirs(d, exist_ok=True)
    while True:
        for i in range(n):
            fh = open(os.path.join(d, f"slot{i}"), "w")  # noqa: SIM115
            try:
                fcntl.flock(fh, fcntl.LOCK_EX | fcntl.LOCK_NB)
                return fh
            except OSError:
                fh.close()
        time.sleep(0.5)


def _parse_case(raw: str):
    # raw is a TLA+ string literal whose content is JSON text; TLA+ escapes are a subset of JSON's.
    try:
        return json.loads(json.loads(raw))
    except Exception:  # noqa: BLE001
        return None


def run(
    module: str,
    cfg: str | None = None,
    *,
    workers: int | str = 1,
    timeout: int = 600,
    simulate: str | None = None,
    depth: int | None = None,
    seed: int | None = None,
    env: dict | None = None,
    coverage: bool = False,
    deadlock: bool = False,
    dfs_queue: bool = False,
    extra: list | None = None,
    constants: dict | None = None,
    cfg_text: str | None = None,
    keep_out: str | None = None,
    heap: str = "3g",
    on_line=None,
    dump_trace: bool = False,
    keep_cases: bool = True,
    meta_root: str | None = None,
) -> TLCResult:
    """Run TLC. `cfg` names a file in spec/cfg/ (without directory); `cfg_text` supplies one inline.

    `constants`: textual substitutions `@KEY@` -> value applied to the cfg (to emit literal constants).
    """
    # TLC's metadir holds its on-disk state queue / fingerprint files: large searches should not keep them in tmpfs
    meta = tempfile.mkdtemp(prefix="tlc-", dir=meta_root or os.environ.get("VERIF_TLC_META") or scratch_root())
    try:
        if cfg_text is None:
            with open(os.path.join(SPEC_DIR, "cfg", cfg)) as fh:
                cfg_text = fh.read()
        for k, v in (constants or {}).items():
            cfg_text = cfg_text.replace(f"@{k}@", str(v))
        cfg_path = os.path.join(meta, "run.cfg")
        with open(cfg_path, "w") as fh:
            fh.write(cfg_text)
        cmd = ["java", "-XX:+UseParallelGC", f"-Xmx{heap}", "-Xss16m"]
        if dfs_queue:
            cmd.append("-Dtlc2.tool.queue.IStateQueue=StateDeque")
        cmd += ["-cp", JAR, "tlc2.TLC", "-workers", str(workers), "-metadir", os.path.join(meta, "md"), "-noGenerateSpecTE", "-config", cfg_path]
        if not deadlock:
            cmd.append("-deadlock")  # disables deadlock checking
        if coverage:
            cmd += ["-coverage", "1"]
        if simulate:
            cmd += ["-simulate", simulate]
        if depth is not None:
            cmd += ["-depth", str(depth)]
        if seed is not None:
            cmd += ["-seed", str(seed)]
        trace_path = os.path.join(meta, "trace.json")
        if dump_trace:
            cmd += ["-dumpTrace", "json", trace_path]
        cmd += list(extra or [])
        cmd.append(os.path.join(SPEC_DIR, module + ".tla"))
        res = TLCResult(module=module, cfg=cfg or "<inline>", cmd=" ".join(cmd))
        penv = dict(os.environ)
        penv.pop("JAVA_TOOL_OPTIONS", None)
        penv.update({k: str(v) for k, v in (env or {}).items()})
        out_path = os.path.join(meta, "tlc.out")
        tail = []

        def handle(line):
                line = line.rstrip("\n")
                m = _RE_CASE.match(line)
                if m:
                    rec = _parse_case(m.group(2))
                    if rec is None:
                        res.errors.append("unparsable CASE line: " + line[:200])
                    elif m.group(1) == "NOTE":
                        res.notes.append(rec)
                    else:
                        if keep_cases:
                            res.cases.append(rec)
                        else:
                            res.ncases += 1
                        if on_line:
                            on_line(rec)
                    return
                tail.append(line)
                if len(tail) > 400:
                    del tail[:200]
                m = _RE_STATES.match(line)
                if m:
                    res.generated, res.distinct, res.queue = int(m.group(1)), int(m.group(2)), int(m.group(3))
                    return
                m = _RE_INV.match(line)
                if m:
                    res.violated.append(m.group(1))
                    return
                m = _RE_PROP.match(line)
                if m:
                    res.violated.append(m.group(1))
                    return
                m = _RE_DEPTH.match(line)
                if m:
                    res.depth = int(m.group(1))
                    return
                m = _RE_COV.match(line)
                if m and coverage:
                    res.coverage[m.group(1)] = (int(m.group(4)), int(m.group(5)))
                    return
                if line.startswith("Model checking completed") or line.startswith("Finished in") or "Finished computing initial states" in line and simulate:
                    res.finished = True
                if line.startswith("Error:") and "Invariant" not in line and "property" not in line.lower() and "behavior up to this point" not in line.lower():
                    res.errors.append(line)

        slot = _acquire_slot()
        t0 = time.time()
        try:
            if keep_cases:
                with open(out_path, "w") as out:
                    try:
                        proc = subprocess.run(cmd, stdout=out, stderr=subprocess.STDOUT, env=penv, cwd=SPEC_DIR, timeout=timeout, check=False)
                        res.rc = proc.returncode
                    except subprocess.TimeoutExpired:
                        res.rc = -9
                        res.errors.append(f"timeout after {timeout}s")
            else:
                # streaming: CASE lines go straight to on_line, nothing but the other lines is stored
                import threading  # noqa: PLC0415

                proc = subprocess.Popen(cmd, stdout=subprocess.PIPE, stderr=subprocess.STDOUT, env=penv, cwd=SPEC_DIR, text=True, errors="replace", bufsize=1 << 20)
                timed_out = []
                timer = threading.Timer(timeout, lambda: (timed_out.append(1), proc.kill()))
                timer.start()
                try:
                    with open(out_path, "w") as out:
                        for line in proc.stdout:
                            if not line.startswith('<<"CASE"'):
                                out.write(line)
                            handle(line)
                    res.rc = proc.wait()
                finally:
                    timer.cancel()
                if timed_out:
                    res.rc = -9
                    res.errors.append(f"timeout after {timeout}s")
        finally:
            if slot is not None:
                slot.close()
        res.wall_s = time.time() - t0
        if keep_cases:
            with open(out_path, errors="replace") as fh:
                for line in fh:
                    handle(line)
        if simulate and res.rc in (0,) :
            res.finished = True
        res.tail = "\n".join(tail[-60:])
        if dump_trace and os.path.exists(trace_path):
            try:
                with open(trace_path) as fh:
                    ce = json.load(fh).get("counterexample", {})
                res.trace = [st[1] for st in ce.get("state", [])]
            except Exception as exc:  # noqa: BLE001
                res.errors.append(f"unreadable counterexample dump: {exc!r}")
        if keep_out:
            shutil.copy(out_path, keep_out)
        return res
    finally:
        shutil.rmtree(meta, ignore_errors=True)


def must(res: TLCResult, *, allow_violations: bool = False) -> TLCResult:
    """Abort (exit 2) when TLC itself failed; invariant violations are the caller's business."""
    if res.errors or not res.finished or (res.violated and not allow_violations):
        print(res.tail)
        die(f"TLC failed on {res.module}/{res.cfg}: rc={res.rc} errors={res.errors[:3]} violated={res.violated}")
    return res


def sany(module: str) -> bool:
    proc = subprocess.run(["java", "-cp", JAR, "tla2sany.SANY", os.path.join(SPEC_DIR, module + ".tla")], capture_output=True, text=True, cwd=SPEC_DIR, check=False)
    ok = "Semantic errors" not in proc.stdout and "error" not in proc.stdout.lower().replace("errors: 0", "")
    if not ok:
        print(proc.stdout[-3000:])
    return ok
