"""gverif - model-based verification harness for mkdocstrings/griffe (TLA+ spec + TLC + conformance)."""
