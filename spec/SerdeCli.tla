------------------------------ MODULE SerdeCli ------------------------------
(***************************************************************************)
(* C08, last clause: "the command-line dump emits exactly this             *)
(* serialisation for each requested package".                              *)
(*                                                                         *)
(* A case is one invocation of `griffe dump REQ1 REQ2 [options]`.  The     *)
(* packages can be requested in three forms (cli._load_packages calls      *)
(* loader.load(request, try_relative_path=True)):                          *)
(*   name    "p"        found on the search paths (-s)                     *)
(*   path    "src/p"    a directory relative to the cwd: loaded under the  *)
(*                      name of the directory                              *)
(*   dotted  "p.member" the top package p is loaded, the member returned   *)
(*   file    "src/p.py" the file of a single-file top-level module         *)
(* Impl: what cli.dump does - it serialises                                *)
(* loader.modules_collection.members, i.e. every REGISTERED top-level      *)
(* package under its registered name, in one document (stdout / -o FILE)   *)
(* or one file per package (-o with {package}).  Ref: for each requested   *)
(* package P exactly one entry named P holding as_json(P, full) must be    *)
(* emitted, and nothing else.                                              *)
(* KeyRule = "registered" is the code; "request-prefix" (keep the entries  *)
(* whose name equals the request text before the first dot) is a           *)
(* model-only regression domain: it loses packages requested by path.      *)
(* Every case is printed and executed as a real `python -m griffe dump`    *)
(* (gverif/props/c08.py, cli_case).                                        *)
(***************************************************************************)
EXTENDS Naturals, Sequences, FiniteSets, TLC, Json

CONSTANTS Forms,     \* subset of {"name", "path", "dotted", "file"}
          Agents,    \* subset of {"static", "static-resolved", "inspect"}: no flag / -r -I / -x
          KeyRule,   \* "registered" | "request-prefix"
          Emit

Packages == {"p1", "p2"}                       \* the packages the user asks for

VARIABLES form, full, out, agent, pc, emitted, exc
vars == <<form, full, out, agent, pc, emitted, exc>>

\* the text of a request and the name under which GriffeLoader.load registers the package it loads
Request(f, p) == [form |-> f, pkg |-> p,
                  prefix |-> IF f = "path" THEN "src/" ELSE ""]   \* text before the first dot: "src/p" is not "p"
\* name / basename of the directory / first component.  For the FILE of a module that is not inside a package,
\* finder._top_module_name returns the name of the DIRECTORY holding the file: the loader loads a namespace package
\* of that name, and _post_load then looks the module up under its own name -> KeyError
Registered(r) == IF r.form = "file" THEN "src" ELSE r.pkg

Init == /\ form \in Forms /\ full \in BOOLEAN /\ out \in {"stdout", "files"} /\ agent \in Agents
        /\ pc = "args" /\ emitted = {} /\ exc = ""

\* cli.dump: load every request, then serialise data_packages
Dump ==
  /\ pc = "args"
  /\ LET requests == {Request(form, p) : p \in Packages}
         registered == {Registered(r) : r \in requests}
         kept == IF KeyRule = "registered" THEN registered
                 ELSE {n \in registered : \E r \in requests : r.prefix = "" /\ r.pkg = n}
         found == \A r \in requests : Registered(r) = r.pkg        \* modules_collection.get_member(<requested module>)
     IN /\ exc' = IF found THEN "" ELSE "KeyError"
        /\ emitted' = IF found THEN {[name |-> n, serialisation |-> [pkg |-> n, full |-> full]] : n \in kept} ELSE {}
  /\ pc' = "done" /\ UNCHANGED <<form, full, out, agent>>
Next == Dump
Spec == Init /\ [][Next]_vars
Done == pc = "done"

\* "emits exactly this serialisation for each requested package"
EachRequestedPackage == Done => \A p \in Packages : [name |-> p, serialisation |-> [pkg |-> p, full |-> full]] \in emitted
DumpSucceeds == Done => exc = ""
NothingElse == Done => Cardinality(emitted) = Cardinality(Packages)

EmitCase == (Emit /\ Done) =>
  PrintT(<<"CASE", ToJson([form |-> form, full |-> full, out |-> out, agent |-> agent, exc |-> exc,
                           keys |-> {e.name : e \in emitted}])>>)
=============================================================================
