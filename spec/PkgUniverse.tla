---------------------------- MODULE PkgUniverse ----------------------------
(***************************************************************************)
(* Shared vocabulary of PyImport.tla (CPython reference), Alias.tla (alias *)
(* graph + resolve_target machine) and Loader.tla (GriffeLoader): the      *)
(* finite universe of modules, names, object identities and the abstract   *)
(* syntax of the generated packages (C05, C06).                            *)
(*                                                                         *)
(* A package program is  prog : [module -> Seq(Stmt)] ; statement k of a   *)
(* module sits on source line k (one statement per line), so an object is  *)
(* identified by (module, name, line of the creating statement):           *)
(*    def x(): ...           Id(m, "x", k)          a function             *)
(*    __all__ = [...]        Id(m, "__all__", k)    the list / Attribute   *)
(*    from s import x as y   Id(m, "y", k)          the Alias created by   *)
(*    from s import *        Id(m, "s/*", k)        the visitor            *)
(*    (expansion of the star on line k brings name n: Id(m, n, k))         *)
(*    the module itself      ModId(m)                                      *)
(* CPython's "defining object" of a name and Griffe's final target of a    *)
(* member are both such identities, so they can be compared directly.      *)
(***************************************************************************)
EXTENDS Naturals, Sequences, FiniteSets, TLC

Mods == {"p", "p.a", "p.b", "p.s", "p.s.c", "p.s.t", "q", "r"}    \* q, r: further top-level packages (C06: load order, side-loading)

\* dotted string -> parts, for every path string a statement may mention (real modules, missing
\* modules, and paths that run through a member of a module)
PP(s) ==
  CASE s = "p" -> <<"p">>
    [] s = "p.a" -> <<"p", "a">>
    [] s = "p.b" -> <<"p", "b">>
    [] s = "p.s" -> <<"p", "s">>
    [] s = "p.s.c" -> <<"p", "s", "c">>
    [] s = "p.s.t" -> <<"p", "s", "t">>     \* a sub-package nested three levels deep (p/s/t/__init__.py)
    [] s = "q" -> <<"q">>
    [] s = "zz" -> <<"zz">>                 \* a package that is nowhere
    [] s = "p.zz" -> <<"p", "zz">>          \* a missing submodule
    [] s = "p.b.x" -> <<"p", "b", "x">>     \* "module path" running through member x of p.b
    [] s = "p.a.x" -> <<"p", "a", "x">>
    [] s = "p.a.y" -> <<"p", "a", "y">>
    [] s = "p.b.y" -> <<"p", "b", "y">>
    [] s = "p.x" -> <<"p", "x">>
    [] s = "p.y" -> <<"p", "y">>            \* a module reached under a second name (`import p.a as y` in p)
    [] s = "p.a.x.y" -> <<"p", "a", "x", "y">>   \* ... and one level further: the walk has to CROSS member x
    [] s = "p.b.x.y" -> <<"p", "b", "x", "y">>
    [] OTHER -> <<s>>

PathStrs == Mods \cup {"zz", "p.zz", "p.b.x", "p.a.x", "p.a.y", "p.b.y", "p.x", "p.y", "p.a.x.y", "p.b.x.y"}

\* name of the pseudo member the visitor creates for `from s import *`
StarName(s) ==
  CASE s = "p" -> "p/*"
    [] s = "p.a" -> "p/a/*"
    [] s = "p.b" -> "p/b/*"
    [] s = "p.s" -> "p/s/*"
    [] s = "p.s.c" -> "p/s/c/*"
    [] s = "p.s.t" -> "p/s/t/*"
    [] s = "q" -> "q/*"
    [] s = "r" -> "r/*"
    [] s = "zz" -> "zz/*"
    [] s = "p.zz" -> "p/zz/*"
    [] s = "p.b.x" -> "p/b/x/*"
    [] s = "p.a.x" -> "p/a/x/*"
    [] s = "p.a.y" -> "p/a/y/*"
    [] s = "p.b.y" -> "p/b/y/*"
    [] s = "p.x" -> "p/x/*"
    [] s = "p.y" -> "p/y/*"
    [] s = "p.a.x.y" -> "p/a/x/y/*"
    [] s = "p.b.x.y" -> "p/b/x/y/*"
    [] OTHER -> "?/*"
StarNames == {StarName(s) : s \in PathStrs}

ParentOf(m) ==
  CASE m \in {"p.a", "p.b", "p.s"} -> "p"
    [] m \in {"p.s.c", "p.s.t"} -> "p.s"
    [] OTHER -> ""
Leaf(m) == LET pp == PP(m) IN pp[Len(pp)]
IsPkg(m) == m \in {"p", "p.s", "p.s.t", "q", "r"}                   \* has an __init__.py
TopOf(m) == PP(m)[1]                                  \* name (= module string) of the top-level package
TopPkgs == {"p", "q", "r"}
\* sub-modules in the order the loader installs them (finder: sorted by depth, stable)
SubmodSeq(pkg) == IF pkg = "p" THEN <<"p.a", "p.b", "p.s", "p.s.c", "p.s.t">> ELSE <<>>
\* order in which the reference imports "everything" (pkgutil.walk_packages / sorted)
WalkOrder == <<"p", "p.a", "p.b", "p.s", "p.s.c", "p.s.t", "q", "r">>

\* module string of a parts sequence ("" when it is not a module of the universe)
ModOfParts(pp) == IF \E m \in Mods : PP(m) = pp THEN CHOOSE m \in Mods : PP(m) = pp ELSE ""
\* prefix chain of a parts sequence: <<"p","s","c">> -> << <<"p">>, <<"p","s">>, <<"p","s","c">> >>
Prefixes(pp) == [k \in 1..Len(pp) |-> SubSeq(pp, 1, k)]
Front(s) == SubSeq(s, 1, Len(s) - 1)
Last(s) == s[Len(s)]

Underscore(n) == n \in {"_z", "__all__"}               \* names starting with an underscore

\* ---- object identities ------------------------------------------------------------------------------
Nil == [m |-> "", n |-> "", l |-> 0]
Id(m, n, l) == [m |-> m, n |-> n, l |-> l]
ModId(m) == [m |-> m, n |-> "", l |-> 0]
IsModId(o) == o.m \in Mods /\ o.n = ""
IsTrans(o) == o.m = "~"                                \* transient alias built by Alias.members

\* ---- statements -------------------------------------------------------------------------------------
\*  op    m (source path string)  n (imported name)  as   rel (relative spelling)  items  inc (local name spliced in)
Stmt(op, m, n, as, rel, items, inc) == [op |-> op, m |-> m, n |-> n, as |-> as, rel |-> rel, items |-> items, inc |-> inc]
Def(n) == Stmt("def", "", n, "", FALSE, <<>>, "")
From(m, n) == Stmt("from", m, n, "", FALSE, <<>>, "")            \* from m import n
FromAs(m, n, as) == Stmt("from", m, n, as, FALSE, <<>>, "")      \* from m import n as as
FromRel(m, n) == Stmt("from", m, n, "", TRUE, <<>>, "")          \* from .[rest of m] import n
Import(m) == Stmt("import", m, "", "", FALSE, <<>>, "")          \* import m
ImportAs(m, as) == Stmt("import", m, "", as, FALSE, <<>>, "")    \* import m as as
Star(m) == Stmt("star", m, "*", "", FALSE, <<>>, "")             \* from m import *
StarRel(m) == Stmt("star", m, "*", "", TRUE, <<>>, "")
All(items) == Stmt("all", "", "", "", FALSE, items, "")          \* __all__ = [items]
AllInc(items, inc) == Stmt("all", "", "", "", FALSE, items, inc) \* __all__ = [items, *inc]
Aug(items) == Stmt("aug", "", "", "", FALSE, items, "")          \* __all__ += [items]
AugInc(inc) == Stmt("aug", "", "", "", FALSE, <<>>, inc)         \* __all__ += inc

\* `inc` of an __all__ statement: "" nothing spliced; a local name bound to a list (`*a_all`); or the ATTRIBUTE form
\* `*a.__all__` through a local name bound to a module, written "@a"
AttrIncs == {"@a"}
AttrBase(inc) == "a"

BoundName(s) ==      \* the name a statement binds in its module ("" for none / star)
  CASE s.op = "def" -> s.n
    [] s.op = "from" -> IF s.as # "" THEN s.as ELSE s.n
    [] s.op = "import" -> IF s.as # "" THEN s.as ELSE PP(s.m)[1]
    [] s.op = "all" -> "__all__"
    [] OTHER -> ""

\* ---- small helpers on functions with a dynamic domain -----------------------------------------------
Upd(f, k, v) == [x \in DOMAIN f \cup {k} |-> IF x = k THEN v ELSE f[x]]
Range(s) == {s[k] : k \in DOMAIN s}
SeqToSet(s) == Range(s)
=============================================================================
