------------------------------ MODULE Visitor ------------------------------
(***************************************************************************)
(* C01 - static extraction is faithful to the source.                      *)
(*                                                                         *)
(* Shape P + A.  A *program* is an indented listing: a sequence of lines   *)
(* [k, x, n, d] (kind, variant, bound name, depth), i.e. the pre-order of  *)
(* a bounded tree of statements.  The environment builds the program line  *)
(* by line (AddLine, only well-formed listings), then the visitor of       *)
(* _griffe/agents/visitor.py walks it: one action per visit_* / handle_*   *)
(* branch, one Leave* action per return from a compound statement.         *)
(*                                                                         *)
(*   state of the visitor    code                                          *)
(*   stack   (frames)        the Python call stack of visit_*; `current`   *)
(*                           = innermost module/class/__init__ frame       *)
(*   guarded                 Visitor.type_guarded                          *)
(*   tree, imps, exps, stash members / imports / exports / overloads       *)
(*   events                  extensions.call(on_instance|on_members|       *)
(*                           on_alias) in call order                       *)
(*                                                                         *)
(* The reference (operators Ref...) is declarative and never looks at the  *)
(* visitor state: one member per (scope, bound name), the surviving        *)
(* binding under the tie-break "later wins, a conditional re-assignment    *)
(* does not displace", runtime = not lexically inside the body of an       *)
(* `if TYPE_CHECKING`, labels from the binding's own decorators, import    *)
(* map, exports.                                                           *)
(*                                                                         *)
(* Where the unchanged code is known to deviate, the deviation is named by *)
(* a *hazard* predicate over the program; every clause is checked by TLC   *)
(* on all programs without the hazards relevant to it (Strict = FALSE) and *)
(* exhibited as an invariant violation with Strict = TRUE.                 *)
(***************************************************************************)
EXTENDS Naturals, Sequences, FiniteSets, TLC, Json, EventProtocol

CONSTANTS Domains,    \* set of [name, alpha, len, depth, names]: statement alphabet (set of <<kind, variant>>), lines per
                      \* program, deepest indentation, ordinary bound names (a subset of {"f","g","h"}); one TLC run
                      \* explores all of them (a single JVM: the machine-wide number of TLC processes is bounded)
          MaxLen, MaxDepth, Names, Alphabet,   \* the one-domain set CfgDomain, for cfgs that give the bounds literally
          Strict,     \* TRUE: clauses are demanded on hazardous programs too (exhibits the defects)
          Emit        \* TRUE: print one CASE per visited program

VARIABLES dom, prog, phase,                                        \* environment
          cursor, stack, guarded, tree, imps, exps, stash,         \* visitor
          events, placed, outcome, flagok,                         \* observation
          res                                                      \* computed once at the end (see lesson on memoisation)
vars == <<dom, prog, phase, cursor, stack, guarded, tree, imps, exps, stash, events, placed, outcome, flagok, res>>

NoAll == <<"<no __all__>">>
Nil == 0

\* ---- alphabets (selected from the cfg with  Alphabet <- AlphaXxx) ---------------------------------
Blocks == {<<"if", "other">>, <<"else", "else">>, <<"try", "-">>, <<"except", "-">>, <<"with", "-">>}
AlphaBind ==   \* tie-break, kinds, parents
  {<<"def", "none">>, <<"class", "none">>, <<"assign", "plain">>, <<"assign", "annonly">>, <<"import", "from">>, <<"import", "multi">>,
   <<"init", "-">>, <<"assign", "self">>} \cup Blocks
AlphaCond ==   \* the tie-break under conditions: one name, longer programs
  {<<"assign", "plain">>, <<"def", "none">>, <<"import", "from">>, <<"if", "other">>, <<"else", "else">>, <<"try", "-">>, <<"except", "-">>, <<"with", "-">>}
AlphaGuard ==  \* runtime flag
  {<<"def", "none">>, <<"class", "none">>, <<"assign", "plain">>, <<"import", "mod">>, <<"init", "-">>, <<"assign", "self">>,
   <<"if", "TC">>, <<"if", "tTC">>, <<"if", "other">>, <<"else", "else">>, <<"else", "elifTC">>, <<"with", "-">>}
AlphaGuardDeep ==  \* few statements, deep nesting: the flag under nested / chained ifs
  {<<"assign", "plain">>, <<"class", "none">>, <<"if", "TC">>, <<"if", "other">>, <<"else", "else">>, <<"else", "elif">>, <<"else", "elifTC">>, <<"with", "-">>}
AlphaDeco ==   \* decorators -> kinds and labels, overload stash, accessors
  {<<"def", "none">>, <<"def", "async">>, <<"def", "property">>, <<"def", "cached_property">>, <<"def", "staticmethod">>,
   <<"def", "classmethod">>, <<"def", "abstractmethod">>, <<"def", "cache">>, <<"def", "lru_cache">>, <<"def", "unknown">>,
   <<"def", "propabstract">>, <<"def", "asyncstatic">>, <<"def", "asyncabstract">>, <<"def", "asynccache">>,
   <<"def", "overload">>, <<"def", "setter">>, <<"class", "none">>, <<"class", "deco">>, <<"init", "-">>, <<"assign", "plain">>}
AlphaImp ==    \* import map, alias naming, __all__
  {<<"import", "mod">>, <<"import", "dotted">>, <<"import", "as">>, <<"import", "from">>, <<"import", "fromas">>,
   <<"import", "star">>, <<"import", "multi">>, <<"import", "frommulti">>, <<"all", "empty">>, <<"all", "one">>, <<"all", "two">>, <<"all", "aug">>,
   <<"def", "none">>, <<"class", "none">>, <<"assign", "plain">>, <<"if", "other">>, <<"else", "else">>, <<"try", "-">>, <<"except", "-">>}
AlphaAttr ==   \* attribute variants: annotations, ClassVar, instance attributes, multiple targets, dotted targets
  {<<"assign", "plain">>, <<"assign", "ann">>, <<"assign", "annonly">>, <<"assign", "classvar">>, <<"assign", "multi">>,
   <<"assign", "attr">>, <<"assign", "self">>, <<"assign", "selfann">>, <<"class", "none">>, <<"init", "-">>, <<"def", "property">>,
   <<"if", "other">>, <<"else", "else">>}
AlphaInst ==   \* instance attributes: conditional / repeated self.x in __init__ after class-level or earlier bindings
  {<<"class", "none">>, <<"init", "-">>, <<"assign", "self">>, <<"assign", "plain">>, <<"if", "other">>, <<"else", "else">>, <<"try", "-">>, <<"except", "-">>}
AlphaNoMember ==   \* targets that must not create members, next to genuine instance attributes of the same last name
  {<<"assign", "self">>, <<"assign", "selfann">>, <<"assign", "selfdeep">>, <<"assign", "selfdeep3">>, <<"assign", "selfsub">>,
   <<"assign", "tuple">>, <<"assign", "attr">>, <<"if", "other">>}
AlphaInitMod ==   \* pk/__init__.py: the bare relative import at module level (skipped) and in class bodies / __init__ (ordinary)
  {<<"import", "rel">>, <<"import", "from">>, <<"class", "none">>, <<"def", "none">>, <<"init", "-">>, <<"if", "other">>, <<"try", "-">>}
AlphaAll == AlphaNoMember \cup AlphaInst \cup AlphaBind \cup AlphaCond \cup AlphaGuard \cup AlphaGuardDeep \cup AlphaDeco \cup AlphaImp \cup AlphaAttr
AlphaSmoke == {<<"def", "none">>, <<"class", "none">>, <<"assign", "plain">>, <<"if", "TC">>, <<"if", "other">>, <<"init", "-">>,
               <<"def", "overload">>, <<"def", "staticmethod">>}

\* pre: a fixed context (well-formed listing) that every program of the domain starts with; len counts its lines too
\* mod: what the visited file is - "module" (pk/m.py or a lone m.py) or "init" (pk/__init__.py, the package itself)
DomM(name, mod, pre, alpha, len, depth, names) ==
  [name |-> name, mod |-> mod, pre |-> pre, alpha |-> alpha, len |-> len, depth |-> depth, names |-> names]
DomP(name, pre, alpha, len, depth, names) == DomM(name, "module", pre, alpha, len, depth, names)
Dom(name, alpha, len, depth, names) == DomP(name, <<>>, alpha, len, depth, names)
L(k, x, n, d) == [k |-> k, x |-> x, n |-> n, d |-> d]
InInit == <<L("class", "none", "f", 0), L("init", "-", "__init__", 1)>>                                          \* class f: def __init__(self):
InInitAfterClassAttr == <<L("class", "none", "f", 0), L("assign", "plain", "f", 1), L("init", "-", "__init__", 1)>>  \* class f: f = 1; def __init__(self):
CfgDomain == {Dom("cfg", Alphabet, MaxLen, MaxDepth, Names)}
\* the quick tier drops a few variants from the longer domains (each of them still occurs in "all")
QuickDomains ==
  {Dom("all", AlphaAll, 2, 1, {"f", "g"}), Dom("bind", AlphaBind \ {<<"import", "from">>}, 3, 2, {"f", "g"}),
   Dom("cond", AlphaCond \ {<<"with", "-">>, <<"import", "from">>}, 4, 2, {"f"}),
   Dom("guard", AlphaGuard, 3, 2, {"f"}),
   Dom("guard-deep", AlphaGuardDeep \ {<<"with", "-">>, <<"else", "elif">>}, 4, 2, {"f"}),
   Dom("deco", AlphaDeco \ {<<"def", "classmethod">>, <<"def", "cache">>, <<"def", "propabstract">>, <<"def", "asyncabstract">>, <<"def", "asynccache">>, <<"def", "lru_cache">>, <<"def", "unknown">>}, 3, 2, {"f"}),
   Dom("imp", AlphaImp \ {<<"class", "none">>, <<"try", "-">>, <<"except", "-">>, <<"import", "multi">>, <<"import", "frommulti">>}, 3, 2, {"f"}),
   Dom("attr", AlphaAttr \ {<<"assign", "classvar">>, <<"assign", "selfann">>}, 3, 2, {"f", "g"}),
   DomP("inst", InInit, AlphaInst \ {<<"class", "none">>, <<"init", "-">>}, 5, 3, {"f"}),
   DomP("inst2", InInitAfterClassAttr, AlphaInst \ {<<"class", "none">>, <<"init", "-">>}, 6, 3, {"f"}),
   DomP("instnm", InInit, AlphaNoMember, 5, 3, {"f"}), DomM("initmod", "init", <<>>, AlphaInitMod, 3, 2, {"f", "g"})}
ThoroughDomainsA ==
  {Dom("all", AlphaAll, 2, 1, {"f", "g"}), Dom("deco", AlphaDeco, 3, 2, {"f", "g"}), Dom("bind", AlphaBind \ {<<"import", "multi">>}, 4, 2, {"f", "g"}), Dom("bind3", AlphaBind, 3, 2, {"f", "g"}),
   Dom("cond", AlphaCond \ {<<"with", "-">>, <<"import", "from">>}, 5, 2, {"f"}), Dom("imp", AlphaImp \ {<<"import", "multi">>, <<"import", "frommulti">>}, 4, 2, {"f"}),
   Dom("imp2", AlphaImp, 3, 2, {"f", "g"})}
ThoroughDomainsB ==
  {Dom("guard-deep", AlphaGuardDeep \ {<<"with", "-">>, <<"else", "elif">>}, 5, 3, {"f"}), Dom("guard", AlphaGuard, 4, 2, {"f"}),
   Dom("attr", AlphaAttr \ {<<"assign", "classvar">>, <<"assign", "selfann">>}, 4, 2, {"f", "g"}), Dom("attr3", AlphaAttr, 3, 2, {"f", "g"}),
   DomP("inst", InInit, AlphaInst \ {<<"class", "none">>, <<"init", "-">>}, 6, 3, {"f"}), DomP("instc", InInit, AlphaInst, 5, 3, {"f"}),
   DomP("inst2", InInitAfterClassAttr, AlphaInst \ {<<"class", "none">>, <<"init", "-">>}, 7, 3, {"f"}),
   DomP("instnm", InInit, AlphaNoMember, 5, 3, {"f", "g"}), DomP("instnm6", InInit, AlphaNoMember, 6, 3, {"f"}),
   DomM("initmod", "init", <<>>, AlphaInitMod, 4, 2, {"f", "g"})}
\* small domains in which each known defect shows (Strict = TRUE)
DefectDomains == {Dom("smoke", AlphaSmoke, 3, 2, {"f"}), Dom("bind", AlphaBind \ {<<"import", "multi">>}, 3, 2, {"f"})}
NameOrder == <<"f", "g", "h">>
Other(n) == IF n = "f" THEN "g" ELSE "f"        \* second target of  n = other = 1

NameChoices(k, x) ==
  IF k = "import" /\ x = "star" THEN {"zz/*"}
  ELSE IF k \in {"def", "class", "import", "assign"} THEN dom.names
  ELSE IF k = "init" THEN {"__init__"}
  ELSE IF k = "all" THEN {"__all__"}
  ELSE {"-"}

Lines == UNION {{[k |-> a[1], x |-> a[2], n |-> n, d |-> d] : n \in NameChoices(a[1], a[2]), d \in 0..dom.depth} : a \in dom.alpha}

\* statements binding two names at once:  n = other = v ;  import n, other ;  from zz import n, other
Multi(l) == (l.k = "assign" /\ l.x = "multi") \/ (l.k = "import" /\ l.x \in {"multi", "frommulti"})
UsedNames(l) == IF Multi(l) THEN {l.n, Other(l.n)} ELSE {l.n}
Opener(l) == l.k \in {"class", "init", "if", "else", "try", "except", "with"}
SelfAssign(l) == l.k = "assign" /\ l.x \in {"self", "selfann"}
\* assignment targets that create no member: obj.n, self.o.n, self.o.p.n (dotted names), self.n[0], (n, n2) (unsupported nodes)
NoMemberTargets == {"attr", "selfdeep", "selfdeep3", "selfsub", "tuple"}
\* forms the listings only use inside an __init__ (elsewhere `self` is not defined / a tuple target binds module names)
InitOnly(l) == l.k = "assign" /\ l.x \in {"self", "selfann", "selfdeep", "selfdeep3", "selfsub", "tuple"}

\* ---- structure of a listing p ---------------------------------------------------------------------
MaxOf(S) == CHOOSE a \in S : \A b \in S : b <= a
MinOf(S) == CHOOSE a \in S : \A b \in S : a <= b
\* opener of the block that a line at depth d appended after the first `upto` lines would belong to (0: module)
Encl(p, upto, d) == LET S == {j \in 1..upto : p[j].d < d} IN IF S = {} THEN 0 ELSE MaxOf(S)
Par(p, i) == Encl(p, i - 1, p[i].d)
RECURSIVE AncFrom(_, _)
AncFrom(p, j) == IF j = 0 THEN {} ELSE {j} \cup AncFrom(p, Par(p, j))      \* j and its ancestors
Anc(p, i) == AncFrom(p, Par(p, i))                                          \* proper ancestors of line i
\* the line a continuation (`else`, `except`) at depth d would attach to
LastLE(p, upto, d) == LET S == {j \in 1..upto : p[j].d <= d} IN IF S = {} THEN 0 ELSE MaxOf(S)

CanAppend(p, l) ==
  LET n == Len(p)
      enc == AncFrom(p, Encl(p, n, l.d))
      j == LastLE(p, n, l.d)
  IN /\ l.d <= (IF n = 0 THEN 0 ELSE IF Opener(p[n]) THEN p[n].d + 1 ELSE p[n].d)
     /\ (l.k = "else" => (IF j = 0 THEN FALSE ELSE p[j].d = l.d /\ (p[j].k = "if" \/ (p[j].k = "else" /\ p[j].x # "else"))))
     /\ (l.k = "except" => (IF j = 0 THEN FALSE ELSE p[j].d = l.d /\ p[j].k \in {"try", "except"}))
     /\ (InitOnly(l) => \E a \in enc : p[a].k = "init")                       \* self.x = ... only inside an __init__
     /\ (l.k = "all" => \A a \in enc : p[a].k \notin {"class", "init"})       \* __all__ only at module level
     /\ ((l.k = "import" /\ l.x = "star") => \A a \in enc : p[a].k \notin {"class", "init"})   \* SyntaxError elsewhere
     \* names are interchangeable: canonical programs introduce them in the order f, g, h
     /\ \A q \in 2..3 : NameOrder[q] \in UsedNames(l) => NameOrder[q - 1] \in UsedNames(l) \cup UNION {UsedNames(p[i]) : i \in 1..n}

\* ---- tables ---------------------------------------------------------------------------------------
DecoLab(x) ==
  CASE x = "async" -> {"async"}
    [] x = "property" -> {"property"}
    [] x = "cached_property" -> {"cached", "property"}
    [] x = "staticmethod" -> {"staticmethod"}
    [] x = "classmethod" -> {"classmethod"}
    [] x = "abstractmethod" -> {"abstractmethod"}
    [] x = "cache" -> {"cached"}
    [] x = "lru_cache" -> {"cached"}
    [] x = "propabstract" -> {"property", "abstractmethod"}
    [] x = "asyncstatic" -> {"async", "staticmethod"}            \* @staticmethod async def: labels={"async"} | decorator labels
    [] x = "asyncabstract" -> {"async", "abstractmethod"}
    [] x = "asynccache" -> {"async", "cached"}
    [] OTHER -> {}
\* labels that describe the definition itself (decorators, async, accessors) as opposed to where an
\* attribute is available (module-attribute / class-attribute / instance-attribute)
DecoU == {"async", "property", "cached", "staticmethod", "classmethod", "abstractmethod", "writable", "deletable", "dataclass"}
ImpPath(x, n) ==
  CASE x = "mod" -> <<n>>                [] x = "dotted" -> <<n>>           \* import n / import n.sub   -> n
    [] x = "as" -> <<"zz", "sub">>       [] x = "from" -> <<"zz", n>>       \* import zz.sub as n / from zz import n
    [] x = "fromas" -> <<"zz", "orig">>  [] x = "star" -> <<"zz">>          \* from zz import orig as n / from zz import *
    [] x = "multi" -> <<n>>              [] x = "frommulti" -> <<"zz", n>>  \* import n, other / from zz import n, other  (per name)
    [] OTHER -> <<"pk", n>>                                                  \* "rel": from . import n   in pk/__init__.py
ExportList(x) == CASE x = "empty" -> <<>> [] x = "one" -> <<"f">> [] x = "two" -> <<"f", "g">> [] OTHER -> <<"g">>
AttrLabels(scopeKind, x) ==
  IF scopeKind = "module" THEN {"module-attribute"}
  ELSE IF scopeKind = "init" THEN {"instance-attribute"}
  ELSE IF x = "classvar" THEN {"class-attribute"}
  ELSE IF x = "annonly" THEN {"instance-attribute"}
  ELSE {"class-attribute", "instance-attribute"}
SortedSeq(S) == [q \in 1..Cardinality(S) |-> CHOOSE i \in S : Cardinality({j \in S : j < i}) = q - 1]

\* ====================================================================================================
\*  THE VISITOR  (transcription of _griffe/agents/visitor.py)
\* ====================================================================================================
Top == stack[Len(stack)]
CurIdx == MaxOf({q \in 1..Len(stack) : stack[q].t \in {"module", "class", "init"}})
CurFrame == stack[CurIdx]
Cur == CurFrame.l                           \* identity of Visitor.current: opening line, 0 = the module
EOF == cursor = Len(prog) + 1
Line == prog[cursor]
Continues ==   \* the line is the `else:` / `elif` / `except` part of the compound statement on top of the stack
  IF EOF \/ Len(stack) = 1 THEN FALSE
  ELSE /\ Line.d + 1 = Top.bd
       /\ \/ (Line.k = "else" /\ Top.t = "if" /\ Top.part = "body")
          \/ (Line.k = "except" /\ Top.t = "try")
NeedPop == Len(stack) > 1 /\ (IF EOF THEN TRUE ELSE Line.d < Top.bd /\ ~Continues)

AttrParent0 == stack[MaxOf({q \in 1..(CurIdx - 1) : stack[q].t \in {"module", "class", "init"}})].l    \* the class owning the __init__ on top
Mem(s, n, l, k, lab, p, ov) == [s |-> s, n |-> n, l |-> l, k |-> k, rt |-> ~guarded, lab |-> lab, p |-> p, ov |-> ov]
Existing(T, s, n) == {m \in T : m.s = s /\ m.n = n}
SetMember(T, r) == {m \in T : ~(m.s = r.s /\ m.n = r.n)} \cup {r}
\* the parent of an object announced now: Visitor.current, except for instance attributes (the class of the __init__)
EvParent(l) == IF SelfAssign(prog[l]) /\ CurFrame.t = "init" THEN AttrParent0 ELSE Cur
\* identity of an object for the event protocol: its line (1 = the module; the second target of a = b = ... gets its own)
Oid(l, second) == 2 * l + 1 + (IF second THEN 1 ELSE 0)
Ev(e, l, n) ==   \* event about the object created at line l under the name n, announced while `current` is Cur
  [e |-> e, l |-> l, n |-> n,
   o |-> Oid(l, IF l = 0 THEN FALSE ELSE Multi(prog[l]) /\ n # prog[l].n),
   p |-> IF l = 0 THEN NoObj ELSE IF e = "members" THEN NoObj ELSE Oid(EvParent(l), FALSE),
   c |-> IF l = 0 THEN TRUE ELSE prog[l].k = "class"]
\* prev: the value of type_guarded saved by visit_if on entry (`previous`), meaningful for "if" frames
Push(t, l, bd) == Append(stack, [t |-> t, l |-> l, bd |-> bd, part |-> "body", prev |-> guarded])
Advance == cursor' = cursor + 1 /\ UNCHANGED <<dom, prog, phase, res>>

\* -- returns from compound statements ------------------------------------------------------------------
LeaveIf ==            \* visit_if, last line:  self.type_guarded = previous
  /\ NeedPop /\ Top.t = "if"
  /\ guarded' = Top.prev /\ stack' = SubSeq(stack, 1, Len(stack) - 1)
  /\ UNCHANGED <<dom, prog, phase, cursor, tree, imps, exps, stash, events, placed, outcome, flagok, res>>
LeaveClass ==         \* visit_classdef: on_members, on_class_members, current = current.parent
  /\ NeedPop /\ Top.t = "class"
  /\ events' = Append(events, Ev("members", Top.l, prog[Top.l].n)) /\ stack' = SubSeq(stack, 1, Len(stack) - 1)
  /\ UNCHANGED <<dom, prog, phase, cursor, guarded, tree, imps, exps, stash, placed, outcome, flagok, res>>
LeaveOther ==         \* __init__ body (current = current.parent, no event), try / with / unvisited def body
  /\ NeedPop /\ Top.t \in {"init", "skip", "try", "with"}
  /\ stack' = SubSeq(stack, 1, Len(stack) - 1)
  /\ UNCHANGED <<dom, prog, phase, cursor, guarded, tree, imps, exps, stash, events, placed, outcome, flagok, res>>

Ready == phase = "run" /\ outcome = "ok" /\ ~EOF /\ ~NeedPop
Visiting == Ready /\ Top.t # "skip"
IsTCLine(l) == (l.k = "if" /\ l.x \in {"TC", "tTC"}) \/ (l.k = "else" /\ l.x = "elifTC")
\* "lexically inside the body of an `if TYPE_CHECKING`" (the reference for the flag, see RefGuarded)
LexGuarded(i) == \E a \in Anc(prog, i) : IsTCLine(prog[a])
\* flag discipline, recorded while walking: at every visited line the flag equals the lexical reference
Observe == flagok' = (flagok /\ (IF Ready /\ Top.t # "skip" /\ ~Continues THEN guarded = LexGuarded(cursor) ELSE TRUE))

SkipLine ==           \* body of a def that handle_function does not enter
  /\ Observe
  /\ Ready /\ Top.t = "skip" /\ Advance
  /\ stack' = IF Opener(Line) /\ ~Continues THEN Push("skip", cursor, Line.d + 1) ELSE stack
  /\ UNCHANGED <<guarded, tree, imps, exps, stash, events, placed, outcome>>

VisitClassDef ==
  /\ Observe
  /\ Visiting /\ Line.k = "class" /\ Advance
  /\ tree' = SetMember(tree, Mem(Cur, Line.n, cursor, "class", {}, <<>>, <<>>))
  /\ placed' = placed \cup {<<cursor, Line.n, Cur>>}
  /\ events' = Append(events, Ev("inst", cursor, Line.n))
  /\ stack' = Push("class", cursor, Line.d + 1)
  /\ UNCHANGED <<guarded, imps, exps, stash, outcome>>

\* handle_function, outcome 1: "property" in labels -> an Attribute replaces, no body visit
MakeProperty ==
  /\ Observe
  /\ Visiting /\ Line.k = "def" /\ "property" \in DecoLab(Line.x) /\ Advance
  /\ tree' = SetMember(tree, Mem(Cur, Line.n, cursor, "attribute", DecoLab(Line.x), <<>>, <<>>))
  /\ placed' = placed \cup {<<cursor, Line.n, Cur>>}
  /\ events' = Append(events, Ev("inst", cursor, Line.n))
  /\ UNCHANGED <<stack, guarded, imps, exps, stash, outcome>>
\* outcome 2: typing.overload and current is not a Function -> self.current.overloads[name].append(function)
\* (inside __init__, Function.overloads is None: the definition falls through to outcome 4)
StashOverload ==
  /\ Observe
  /\ Visiting /\ Line.k = "def" /\ Line.x = "overload" /\ CurFrame.t # "init" /\ Advance
  /\ stash' = stash \cup {[s |-> Cur, n |-> Line.n, l |-> cursor]}
  /\ events' = Append(events, Ev("inst", cursor, Line.n))
  /\ UNCHANGED <<stack, guarded, tree, imps, exps, placed, outcome>>
\* outcome 3: @name.setter on a member of `current` carrying the "property" label
HasProperty(n) == \E m \in Existing(tree, Cur, n) : m.k # "alias" /\ "property" \in m.lab
AttachAccessor ==
  /\ Observe
  /\ Visiting /\ Line.k = "def" /\ Line.x = "setter" /\ HasProperty(Line.n) /\ Advance
  /\ tree' = {IF m.s = Cur /\ m.n = Line.n THEN [m EXCEPT !.lab = @ \cup {"writable"}] ELSE m : m \in tree}
  /\ events' = Append(events, Ev("inst", cursor, Line.n))
  /\ UNCHANGED <<stack, guarded, imps, exps, stash, placed, outcome>>
\* outcome 4: set_member + adoption of the stashed overloads (only when current is a module or class)
PlaceFunction ==
  /\ Observe
  /\ Visiting /\ Advance
  /\ \/ Line.k = "init"
     \/ Line.k = "def" /\ "property" \notin DecoLab(Line.x) /\ (Line.x = "overload" => CurFrame.t = "init")
                        /\ (Line.x = "setter" => ~HasProperty(Line.n))
  /\ LET adopt == IF CurFrame.t = "init" THEN {} ELSE {o \in stash : o.s = Cur /\ o.n = Line.n}
     IN /\ tree' = SetMember(tree, Mem(Cur, Line.n, cursor, "function", DecoLab(Line.x), <<>>, SortedSeq({o.l : o \in adopt})))
        /\ stash' = stash \ adopt
  /\ placed' = placed \cup {<<cursor, Line.n, Cur>>}
  /\ events' = Append(events, Ev("inst", cursor, Line.n))
  \* `if self.current.kind is Kind.CLASS and function.name == "__init__"`: visit the body with current = function
  /\ stack' = IF Line.k # "init" THEN stack
              ELSE IF CurFrame.t = "class" THEN Push("init", cursor, Line.d + 1) ELSE Push("skip", cursor, Line.d + 1)
  /\ UNCHANGED <<guarded, imps, exps, outcome>>

\* visit_importfrom, first test of the loop: in a/__init__.py, `from . import b` at module level would make member b point at a.b,
\* i.e. at itself: `not node.module and node.level == 1 and not name.asname and current.is_module and is_init_module` -> continue
CyclicSubmoduleImport == Line.x = "rel" /\ dom.mod = "init" /\ CurFrame.t = "module"
SkipSubmoduleImport ==
  /\ Observe
  /\ Visiting /\ Line.k = "import" /\ CyclicSubmoduleImport /\ Advance
  /\ UNCHANGED <<stack, guarded, tree, imps, exps, stash, events, placed, outcome>>
VisitImport ==        \* visit_import / visit_importfrom: imports map (not for *), Alias member, on_alias
  /\ Observe
  /\ Visiting /\ Line.k = "import" /\ ~CyclicSubmoduleImport /\ Advance
  \* `for name in node.names:` - imports map, Alias, set_member and on_alias once per imported name, in order
  /\ LET nm == IF Multi(Line) THEN <<Line.n, Other(Line.n)>> ELSE <<Line.n>>
         One(acc, a) == [I |-> IF Line.x = "star" THEN acc.I
                               ELSE {r \in acc.I : ~(r.s = Cur /\ r.n = a)} \cup {[s |-> Cur, n |-> a, p |-> ImpPath(Line.x, a)]},
                         T |-> SetMember(acc.T, Mem(Cur, a, cursor, "alias", {}, ImpPath(Line.x, a), <<>>)),
                         pl |-> acc.pl \cup {<<cursor, a, Cur>>},
                         ev |-> Append(acc.ev, Ev("alias", cursor, a))]
         a0 == [I |-> imps, T |-> tree, pl |-> placed, ev |-> events]
         a1 == One(a0, nm[1])
         a2 == IF Len(nm) = 2 THEN One(a1, nm[2]) ELSE a1
     IN imps' = a2.I /\ tree' = a2.T /\ placed' = a2.pl /\ events' = a2.ev
  /\ UNCHANGED <<stack, guarded, exps, stash, outcome>>

\* handle_attribute.  names: module/class -> get_names, __init__ -> get_instance_names (the `self.` targets),
\* other functions -> return.  The loop over names shares `labels` (and docstring / annotation) between targets.
AttrNames ==
  \* in __init__: self.n -> "n"; self.o.n -> "o.n", self.o.p.n -> "o.p.n" (still dotted: skipped by the loop); obj.n, locals -> none;
  \* self.n[0] and tuple targets -> KeyError in get_names -> return
  IF CurFrame.t = "init" THEN (IF SelfAssign(Line) THEN <<Line.n>> ELSE <<>>)
  ELSE IF Line.x \in NoMemberTargets \/ SelfAssign(Line) THEN <<>>   \* dotted target: `if "." in name: continue`
  ELSE IF Line.x = "multi" THEN <<Line.n, Other(Line.n)>> ELSE <<Line.n>>
AttrParent == IF CurFrame.t = "init" THEN AttrParent0 ELSE Cur
NodeParentIsIfOrHandler == Top.t = "if" \/ (Top.t = "try" /\ Top.part = "else")
AttrStep(acc, name) ==
  LET ex == Existing(acc.T, AttrParent, name) IN
  IF ex # {} /\ NodeParentIsIfOrHandler THEN acc                    \* `continue  # Prefer "no-exception" case.`
  ELSE LET old == CHOOSE m \in ex : TRUE
           labs == IF ex = {} THEN acc.labs
                   ELSE IF old.k = "alias" THEN acc.labs             \* existing_member.labels raises, suppressed
                   ELSE acc.labs \cup old.lab                        \* labels |= existing_member.labels
       IN [T |-> SetMember(acc.T, Mem(AttrParent, name, cursor, "attribute", labs, <<>>, <<>>)),
           labs |-> labs,
           ev |-> Append(acc.ev, Ev("inst", cursor, name)),
           pl |-> acc.pl \cup {<<cursor, name, AttrParent>>},
           xp |-> IF name = "__all__" THEN ExportList(Line.x) ELSE acc.xp]
HandleAttribute ==
  /\ Observe
  /\ Visiting /\ (Line.k = "assign" \/ (Line.k = "all" /\ Line.x # "aug")) /\ Advance
  /\ LET a0 == [T |-> tree, labs |-> AttrLabels(CurFrame.t, Line.x), ev |-> events, pl |-> placed, xp |-> exps]
         a1 == IF Len(AttrNames) >= 1 THEN AttrStep(a0, AttrNames[1]) ELSE a0
         a2 == IF Len(AttrNames) >= 2 THEN AttrStep(a1, AttrNames[2]) ELSE a1
     IN tree' = a2.T /\ events' = a2.ev /\ placed' = a2.pl /\ exps' = a2.xp
  /\ UNCHANGED <<stack, guarded, imps, stash, outcome>>
VisitAugAssign ==     \* __all__ += [...]: current.exports.extend(...), AttributeError (exports is None) suppressed
  /\ Observe
  /\ Visiting /\ Line.k = "all" /\ Line.x = "aug" /\ Advance
  /\ exps' = IF CurFrame.t = "module" /\ exps # NoAll THEN exps \o ExportList("aug") ELSE exps
  /\ UNCHANGED <<stack, guarded, tree, imps, stash, events, placed, outcome>>

EnterIf ==            \* visit_if: previous = type_guarded; children of the body are visited with previous or type_checking
  /\ Observe
  /\ Visiting /\ Line.k = "if" /\ Advance
  /\ guarded' = (guarded \/ IsTCLine(Line))
  /\ stack' = Push("if", cursor, Line.d + 1)
  /\ UNCHANGED <<tree, imps, exps, stash, events, placed, outcome>>
EnterElse ==          \* orelse of the If on top: its children are visited with `previous`; `elif` = a nested If there
  /\ Observe
  /\ phase = "run" /\ outcome = "ok" /\ Continues /\ Line.k = "else" /\ Advance
  /\ LET s1 == [stack EXCEPT ![Len(stack)].part = "else"]
     IN stack' = IF Line.x = "else" THEN s1
                 ELSE Append(s1, [t |-> "if", l |-> cursor, bd |-> Line.d + 1, part |-> "body", prev |-> Top.prev])
  /\ guarded' = IF Line.x = "else" THEN Top.prev ELSE (Top.prev \/ IsTCLine(Line))
  /\ UNCHANGED <<tree, imps, exps, stash, events, placed, outcome>>
EnterExcept ==
  /\ Observe
  /\ phase = "run" /\ outcome = "ok" /\ Continues /\ Line.k = "except" /\ Advance
  /\ stack' = [stack EXCEPT ![Len(stack)].part = "else"]
  /\ UNCHANGED <<guarded, tree, imps, exps, stash, events, placed, outcome>>
EnterBlock ==         \* try / with / for / while: generic_visit
  /\ Observe
  /\ Visiting /\ Line.k \in {"try", "with"} /\ Advance
  /\ stack' = Push(Line.k, cursor, Line.d + 1)
  /\ UNCHANGED <<guarded, tree, imps, exps, stash, events, placed, outcome>>

\* ====================================================================================================
\*  THE REFERENCE  (declarative, over the program only)
\* ====================================================================================================
P == prog
N == Len(prog)
\* nearest enclosing class / def __init__ (0: module level)
Scp(i) == LET S == {a \in Anc(P, i) : P[a].k \in {"class", "init"}} IN IF S = {} THEN 0 ELSE MaxOf(S)
\* an __init__ whose body Griffe enters: directly in a class scope (if/try/with in between do not matter)
ActiveInit(a) == IF a = 0 THEN FALSE ELSE P[a].k = "init" /\ (IF Scp(a) = 0 THEN FALSE ELSE P[Scp(a)].k = "class")
None == 99
\* the scope in which line i binds its name(s): module 0, a class line, or None (local variable, attribute of
\* something else, nothing)
BindScope(i) ==
  LET a == Scp(i) IN
  IF SelfAssign(P[i]) THEN (IF ActiveInit(a) THEN Scp(a) ELSE None)
  ELSE IF a = 0 THEN 0 ELSE IF P[a].k = "class" THEN a ELSE None
\* `from . import n` at module level of pk/__init__.py binds n to the submodule pk.n itself - the member of that name is (or will be)
\* that module, not an alias to it; anywhere else (class bodies) it is an ordinary import
SubmoduleImport(i) == P[i].k = "import" /\ P[i].x = "rel" /\ dom.mod = "init" /\ BindScope(i) = 0
Creates(i) ==      \* statements that bind a name to a new object of their own
  \/ P[i].k \in {"class", "init"}
  \/ P[i].k = "import" /\ ~SubmoduleImport(i)
  \/ P[i].k = "def" /\ P[i].x \notin {"overload", "setter"}
  \/ P[i].k = "assign" /\ P[i].x \notin NoMemberTargets
  \/ P[i].k = "all" /\ P[i].x # "aug"
BindNames(i) == UsedNames(P[i])
B(s, n) == {i \in 1..N : Creates(i) /\ n \in BindNames(i) /\ BindScope(i) = s}
\* "conditional re-assignment": an assignment written directly in an if / elif / else branch or an except handler
Cond(i) == IF Par(P, i) = 0 THEN FALSE ELSE P[Par(P, i)].k \in {"if", "else", "except"}
CondAssign(i) == P[i].k \in {"assign", "all"} /\ Cond(i)
Eff(s, n) == {i \in B(s, n) : i = MinOf(B(s, n)) \/ ~CondAssign(i)}    \* bindings that take effect
Surv(s, n) == MaxOf(Eff(s, n))                                          \* later definitions win
RefGuarded(i) == LexGuarded(i)
RefKind(i) == CASE P[i].k = "class" -> "class" [] P[i].k = "import" -> "alias" [] P[i].k \in {"assign", "all"} -> "attribute"
                [] P[i].k = "def" /\ "property" \in DecoLab(P[i].x) -> "attribute" [] OTHER -> "function"
AllNames == dom.names \cup {"__init__", "__all__", "zz/*"}
Scopes == {0} \cup {i \in 1..N : P[i].k = "class"}
\* setters written after the surviving property (well-formed programs: the name is then still that property)
Setters(s, n, i) == {j \in (i + 1)..N : P[j].k = "def" /\ P[j].x = "setter" /\ P[j].n = n /\ BindScope(j) = s}
RefMember(s, n) ==
  LET i == Surv(s, n) IN
  [s |-> s, n |-> n, l |-> i, k |-> RefKind(i), rt |-> ~RefGuarded(i),
   dl |-> (IF P[i].k = "def" THEN DecoLab(P[i].x) ELSE {}) \cup (IF Setters(s, n, i) # {} THEN {"writable"} ELSE {}),
   p |-> IF P[i].k = "import" THEN ImpPath(P[i].x, n) ELSE <<>>,
   chain |-> SortedSeq(Eff(s, n)), b |-> SortedSeq(B(s, n))]
RefAll == {RefMember(t[1], t[2]) : t \in {u \in Scopes \X AllNames : B(u[1], u[2]) # {}}}
\* the tree hangs from the module: members of a class that lost its name to a later binding are gone with it
RECURSIVE Reach(_, _)
Reach(T, fuel) == IF fuel = 0 THEN {m \in T : m.s = 0}
                  ELSE LET R == Reach(T, fuel - 1) IN {m \in T : m.s = 0 \/ \E c \in R : c.l = m.s /\ c.k \in {"class", "function"}}
RefTree == Reach(RefAll, dom.depth + 1)
LastImport(s, n) ==
  LET S == {i \in 1..N : P[i].k = "import" /\ P[i].x # "star" /\ ~SubmoduleImport(i) /\ n \in BindNames(i) /\ BindScope(i) = s} IN IF S = {} THEN 0 ELSE MaxOf(S)
RefImports ==
  {[s |-> t[1], n |-> t[2], l |-> LastImport(t[1], t[2]), p |-> ImpPath(P[LastImport(t[1], t[2])].x, t[2])] : t \in {u \in Scopes \X dom.names : LastImport(u[1], u[2]) # 0}}
RECURSIVE Concat(_)
Concat(ss) == IF ss = <<>> THEN <<>> ELSE Head(ss) \o Concat(Tail(ss))
RefExports ==
  IF B(0, "__all__") = {} THEN NoAll
  ELSE LET i == Surv(0, "__all__")
           augs == SortedSeq({j \in (i + 1)..N : P[j].k = "all" /\ P[j].x = "aug" /\ BindScope(j) = 0})
       IN ExportList(P[i].x) \o Concat([q \in 1..Len(augs) |-> ExportList("aug")])

\* programs on which "the binding of a name" is what Python itself would call it
WellFormed ==
  /\ \A i \in 1..N : (P[i].k = "def" /\ P[i].x = "overload" /\ BindScope(i) # None) =>     \* overloads precede their implementation
        \E j \in (i + 1)..N : /\ P[j].k = "def" /\ P[j].x \notin {"overload", "setter"} /\ "property" \notin DecoLab(P[j].x)
                              /\ P[j].n = P[i].n /\ BindScope(j) = BindScope(i) /\ ~Cond(j) /\ Par(P, j) = Par(P, i)
                              /\ \A q \in (i + 1)..(j - 1) : (P[q].n = P[i].n /\ BindScope(q) = BindScope(i)) => P[q].x = "overload"
  /\ \A i \in 1..N : (P[i].k = "def" /\ P[i].x = "setter" /\ BindScope(i) # None) =>       \* accessors follow their property
        LET before == {j \in Eff(BindScope(i), P[i].n) : j < i}
        IN IF before = {} THEN FALSE ELSE LET j == MaxOf(before) IN P[j].k = "def" /\ P[j].x \in {"property", "propabstract"} /\ Par(P, j) = Par(P, i)
  /\ \A i \in 1..N : (P[i].k = "all" /\ P[i].x = "aug") => \E j \in 1..(i - 1) : P[j].k = "all" /\ P[j].x # "aug" /\ ~Cond(j)

\* ---- hazards: where the unchanged code is known to deviate (each names one root cause) ----------------
Visited(i) == \A a \in Anc(P, i) : P[a].k = "init" => ActiveInit(a)
Hazards ==
  \* definitions local to __init__ (an @overload there included) become members of the Function object, which never gets on_members
  (IF \E i \in 1..N : P[i].k \in {"def", "class", "init", "import"} /\ ActiveInit(Scp(i)) /\ Visited(i) THEN {"init-local"} ELSE {})
  \* labels |= existing_member.labels: an attribute inherits the decorator labels of what it displaces,
  \* and the second target of  a = b = ...  inherits those of the first
  \cup (IF \E i \in 1..N : P[i].k = "assign" /\ BindScope(i) # None /\
            \E j \in 1..(i - 1) : P[j].k = "def" /\ DecoLab(P[j].x) # {} /\ BindScope(j) = BindScope(i) /\ P[j].n \in BindNames(i)
        THEN {"label-inherit"} ELSE {})

\* ---- projections compared by the clauses ------------------------------------------------------------------
ImplTree == Reach(tree, dom.depth + 1)
Core(T) == {[s |-> m.s, n |-> m.n, l |-> m.l, k |-> m.k, p |-> m.p] : m \in T}
Common(A, Bt) == {m \in A : \E r \in Bt : r.s = m.s /\ r.n = m.n /\ r.l = m.l}
ImplImports == {r \in imps : r.s = 0 \/ \E c \in ImplTree : c.l = r.s}
RefImportsReach == {r \in RefImports : r.s = 0 \/ \E c \in RefTree : c.l = r.s /\ c.k = "class"}

Compute ==
  [wf |-> WellFormed, hz |-> Hazards,
   impl |-> ImplTree, ref |-> RefTree, rimps |-> RefImportsReach, iimps |-> ImplImports, rexps |-> RefExports]

EndModule ==          \* visit_module after generic_visit: on_members, on_module_members
  /\ phase = "run" /\ outcome = "ok" /\ EOF /\ Len(stack) = 1
  /\ events' = Append(events, Ev("members", 0, "-"))
  /\ phase' = "done" /\ res' = Compute
  /\ UNCHANGED <<dom, prog, cursor, stack, guarded, tree, imps, exps, stash, placed, outcome, flagok>>
\* ---- environment ----------------------------------------------------------------------------------------
AddLine ==
  /\ phase = "build" /\ Len(prog) < dom.len
  /\ \E l \in Lines : CanAppend(prog, l) /\ prog' = Append(prog, l)
  /\ UNCHANGED <<dom, phase, cursor, stack, guarded, tree, imps, exps, stash, events, placed, outcome, flagok, res>>
VisitModule ==        \* visit_module: Module(...), on_instance, then generic_visit
  /\ phase = "build" /\ Len(prog) >= 1
  /\ phase' = "run" /\ events' = <<Ev("inst", 0, "-")>>
  /\ UNCHANGED <<dom, prog, cursor, stack, guarded, tree, imps, exps, stash, placed, outcome, flagok, res>>

Init ==
  /\ dom \in Domains
  /\ prog = dom.pre /\ phase = "build" /\ cursor = 1
  /\ stack = <<[t |-> "module", l |-> 0, bd |-> 0, part |-> "body", prev |-> FALSE]>>
  /\ guarded = FALSE /\ tree = {} /\ imps = {} /\ exps = NoAll /\ stash = {}
  /\ events = <<>> /\ placed = {} /\ outcome = "ok" /\ flagok = TRUE /\ res = <<>>

Next ==
  \/ AddLine \/ VisitModule
  \/ LeaveIf \/ LeaveClass \/ LeaveOther \/ EndModule
  \/ SkipLine \/ SkipSubmoduleImport \/ VisitClassDef \/ MakeProperty \/ StashOverload \/ AttachAccessor \/ PlaceFunction
  \/ VisitImport \/ HandleAttribute \/ VisitAugAssign \/ EnterIf \/ EnterElse \/ EnterExcept \/ EnterBlock
Spec == Init /\ [][Next]_vars

\* ====================================================================================================
\*  THE CLAUSES OF C01
\* ====================================================================================================
Done == phase = "done"
Ok == Done /\ outcome = "ok"
Demand(hz) == Strict \/ res.hz \cap hz = {}

\* never raising
Total == Done => outcome = "ok"      \* no visitor action raises (the harness demands the same of the real code)
\* exactly one member per bound name, of the kind of the surviving binding, under the right parent
MembersFaithful == (Ok /\ res.wf /\ Demand({"init-local"})) => Core(res.impl) = Core(res.ref)
\* runtime / type-guarded flag
RuntimeFaithful == (Ok /\ res.wf) =>
   \A m \in Common(res.impl, res.ref) : \A r \in res.ref : (r.s = m.s /\ r.n = m.n) => r.rt = m.rt
FlagDiscipline == Done => flagok
\* decorator-derived labels
LabelsFaithful == (Ok /\ res.wf /\ Demand({"label-inherit"})) =>
   \A m \in Common(res.impl, res.ref) : \A r \in res.ref : (r.s = m.s /\ r.n = m.n) => r.dl = m.lab \cap DecoU
\* import map and exports
ImportsFaithful == (Ok /\ res.wf /\ Demand({"init-local"})) => res.iimps = {[s |-> r.s, n |-> r.n, p |-> r.p] : r \in res.rimps}
ExportsFaithful == (Ok /\ res.wf) => exps = res.rexps
\* events: every object placed in the tree is announced exactly once ...
Announce(o) == {q \in 1..Len(events) : events[q].e \in {"inst", "alias"} /\ events[q].l = o[1] /\ events[q].n = o[2]}
EvOnce == Ok => \A o \in placed : Cardinality(Announce(o)) = 1
\* ... parent before members ...
EvParentFirst == Ok => \A o \in placed : \A q \in Announce(o) :
   \E r \in 1..(q - 1) : events[r].e = "inst" /\ events[r].l = o[3]
\* ... and the members-complete event comes after the last member, exactly once per object that has members
EvMembersLast == (Ok /\ Demand({"init-local"})) => \A c \in {o[3] : o \in placed} \cup {0} :
   LET M == {q \in 1..Len(events) : events[q].e = "members" /\ events[q].l = c}
   IN /\ Cardinality(M) = 1
      /\ \A o \in placed : o[3] = c => \A q \in Announce(o) : \A r \in M : q < r
\* the same clause as an acceptor (EventProtocol.tla), shared with the validation of real traces (VisitorTrace.tla)
RECURSIVE Fold(_, _)
Fold(st, evs) == IF evs = <<>> THEN st ELSE Fold(Step(st, Head(evs)), Tail(evs))
\* the recorded sequence is followed by one "intree" event per object hanging in the final tree (placed => announced)
InTree == LET ids == {Oid(m.l, Multi(prog[m.l]) /\ m.n # prog[m.l].n) : m \in res.impl}
              sq == SortedSeq(ids)
          IN [q \in 1..Len(sq) |-> [e |-> "intree", o |-> sq[q], p |-> NoObj, c |-> FALSE]]
EventsAccepted == (Ok /\ Demand({"init-local"})) => Final(Fold(Start, events \o InTree)) = "ok"

Pack(l) == <<l.k, l.x, l.n, l.d>>
EmitCase ==
  (Emit /\ Done) =>
    PrintT(<<"CASE", ToJson([dom |-> dom.name, mod |-> dom.mod, submods |-> {P[i].n : i \in {j \in 1..N : SubmoduleImport(j)}}, prog |-> [i \in 1..Len(prog) |-> Pack(prog[i])], outcome |-> outcome, wf |-> res.wf, hz |-> res.hz,
                             ref |-> res.ref, rimps |-> res.rimps, rexps |-> res.rexps,
                             impl |-> res.impl, iimps |-> res.iimps, iexps |-> exps,
                             events |-> [q \in 1..Len(events) |-> [e |-> events[q].e, l |-> events[q].l, n |-> events[q].n]], flagok |-> flagok])>>)
=============================================================================
