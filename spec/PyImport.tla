----------------------------- MODULE PyImport -----------------------------
(***************************************************************************)
(* CPython's import system as the *reference* of C05: what `import pkg`    *)
(* followed by importing every module of the package leaves in each        *)
(* module namespace.  Transcribed from importlib._bootstrap                *)
(* (_find_and_load / _handle_fromlist), ceval IMPORT_NAME / IMPORT_FROM /  *)
(* import_all_from:                                                        *)
(*   - importing a.b.c imports a, a.b, a.b.c in that order, each at most   *)
(*     once (sys.modules); a module's body runs statement by statement;    *)
(*     when the body of a sub-module has finished it is bound as an        *)
(*     attribute of its parent package;                                    *)
(*   - `from m import n`: m's attribute n, else (m a package) the          *)
(*     sub-module m.n, imported on demand;                                 *)
(*   - `from m import *`: the names in m.__all__ when bound (sub-modules   *)
(*     named there are imported on demand), otherwise every name of m that *)
(*     does not start with an underscore;                                  *)
(*   - `__all__ = [..., *other]` builds a new list, `__all__ += ...`       *)
(*     extends the list in place (lists have identity: `lists`).           *)
(* The harness runs the real CPython on every generated package and        *)
(* compares with this module's final state (disagreement = exit 2).        *)
(*                                                                         *)
(* ns[m] : name -> identity of the defining object (PkgUniverse.Id)        *)
(***************************************************************************)
EXTENDS PkgUniverse

VARIABLE prog         \* [Mods -> Seq(Stmt)]   the package program (empty sequence: empty file / absent)

\* The reference state is one record so that its step function is a pure operator.
PyInitState(present) ==
  [ns |-> [m \in present |-> [x \in {} |-> Nil]],
   lists |-> [x \in {} |-> <<>>],
   st |-> [m \in present |-> "no"],            \* "no" | "run" | "done"   (sys.modules membership)
   stack |-> <<>>,                             \* frames [m, pc]: modules whose body is running
   q |-> SelectSeq(WalkOrder, LAMBDA m : m \in present),   \* import everything, in walk order
   err |-> "",                                 \* first exception (program not importable: outside the domain)
   outdom |-> FALSE]                           \* a star import saw a sub-module bound by a *third* module

PyPresent(R) == DOMAIN R.st

\* first module of the prefix chain of `pp` that still has to be started; "" when none; "!" when a
\* prefix is not a module on disk (ModuleNotFoundError)
NextToStart(R, pp) ==
  LET chain == Prefixes(pp)
      bad == {k \in 1..Len(chain) : ModOfParts(chain[k]) \notin PyPresent(R)}
      todo == {k \in 1..Len(chain) : ModOfParts(chain[k]) \in PyPresent(R) /\ R.st[ModOfParts(chain[k])] = "no"}
      firstbad == IF bad = {} THEN 99 ELSE CHOOSE k \in bad : \A j \in bad : k <= j
      firsttodo == IF todo = {} THEN 99 ELSE CHOOSE k \in todo : \A j \in todo : k <= j
  IN IF firsttodo < firstbad THEN ModOfParts(chain[firsttodo])
     ELSE IF bad # {} THEN "!" ELSE ""

PyStart(R, m) == [R EXCEPT !.st[m] = "run", !.stack = Append(@, [m |-> m, pc |-> 1])]
PyErr(R, e) == [R EXCEPT !.err = e, !.stack = <<>>, !.q = <<>>]
PyAdvance(R) == [R EXCEPT !.stack[Len(R.stack)].pc = @ + 1]
PyBind(R, m, n, v) == [R EXCEPT !.ns[m] = Upd(@, n, v)]

\* does a statement of package `src` import its child `c` itself?
OwnImports(src, c) ==
  \E k \in 1..Len(prog[src]) :
    LET s == prog[src][k] IN
      \/ s.op \in {"from", "star", "import"} /\ s.m \in Mods /\ (s.m = c \/ ParentOf(s.m) = c)
      \/ s.op = "from" /\ s.m = src /\ ModOfParts(PP(src) \o <<s.n>>) = c

IncList(R, m, inc) ==      \* the list spliced in by `*inc`; <<"!">> marks a NameError / TypeError / AttributeError
  IF inc = "" THEN <<>>
  ELSE IF inc \in AttrIncs
  THEN LET b == AttrBase(inc) IN          \* `*b.__all__` : b must be bound to a module whose namespace has a list __all__
       IF b \in DOMAIN R.ns[m] /\ IsModId(R.ns[m][b]) /\ R.ns[m][b].m \in PyPresent(R)
          /\ "__all__" \in DOMAIN R.ns[R.ns[m][b].m] /\ R.ns[R.ns[m][b].m]["__all__"] \in DOMAIN R.lists
       THEN R.lists[R.ns[R.ns[m][b].m]["__all__"]] ELSE <<"!">>
  ELSE IF inc \in DOMAIN R.ns[m] /\ R.ns[m][inc] \in DOMAIN R.lists THEN R.lists[R.ns[m][inc]]
  ELSE <<"!">>

PyExec(R, m, pc) ==
  LET s == prog[m][pc] IN
  CASE s.op = "def" -> PyAdvance(PyBind(R, m, s.n, Id(m, s.n, pc)))
    [] s.op = "all" ->
         LET inc == IncList(R, m, s.inc)
             L == Id(m, "__all__", pc)
         IN IF inc = <<"!">> THEN PyErr(R, "NameError")
            ELSE PyAdvance([PyBind(R, m, "__all__", L) EXCEPT !.lists = Upd(@, L, s.items \o inc)])
    [] s.op = "aug" ->
         LET inc == IncList(R, m, s.inc) IN
         IF inc = <<"!">> \/ "__all__" \notin DOMAIN R.ns[m] THEN PyErr(R, "NameError")
         ELSE IF R.ns[m]["__all__"] \notin DOMAIN R.lists THEN PyErr(R, "TypeError")
         ELSE PyAdvance([R EXCEPT !.lists[R.ns[m]["__all__"]] = @ \o s.items \o inc])
    [] s.op = "import" ->
         LET nxt == NextToStart(R, PP(s.m)) IN
         IF nxt = "!" THEN PyErr(R, "ModuleNotFoundError")
         ELSE IF nxt # "" THEN PyStart(R, nxt)
         ELSE IF s.as = "" THEN PyAdvance(PyBind(R, m, PP(s.m)[1], ModId(PP(s.m)[1])))
         ELSE PyAdvance(PyBind(R, m, s.as, ModId(s.m)))
    [] s.op = "from" ->
         LET nxt == NextToStart(R, PP(s.m))
             child == ModOfParts(PP(s.m) \o <<s.n>>)
             as == IF s.as # "" THEN s.as ELSE s.n
         IN IF nxt = "!" THEN PyErr(R, "ModuleNotFoundError")
            ELSE IF nxt # "" THEN PyStart(R, nxt)
            ELSE IF s.n \in DOMAIN R.ns[s.m] THEN PyAdvance(PyBind(R, m, as, R.ns[s.m][s.n]))
            ELSE IF IsPkg(s.m) /\ child \in PyPresent(R)
                 THEN IF R.st[child] = "no" THEN PyStart(R, child)
                      ELSE PyAdvance(PyBind(R, m, as, ModId(child)))        \* sys.modules fallback of IMPORT_FROM
            ELSE PyErr(R, "ImportError")
    [] s.op = "star" ->
         LET nxt == NextToStart(R, PP(s.m)) IN
         IF nxt = "!" THEN PyErr(R, "ModuleNotFoundError")
         ELSE IF nxt # "" THEN PyStart(R, nxt)
         ELSE
           LET src == s.m
               hasall == "__all__" \in DOMAIN R.ns[src]
               lst == IF hasall /\ R.ns[src]["__all__"] \in DOMAIN R.lists THEN R.lists[R.ns[src]["__all__"]] ELSE <<>>
               missing == {k \in 1..Len(lst) : lst[k] \notin DOMAIN R.ns[src]}
               k1 == IF missing = {} THEN 0 ELSE CHOOSE k \in missing : \A j \in missing : k <= j
               child == IF k1 = 0 THEN "" ELSE ModOfParts(PP(src) \o <<lst[k1]>>)
               names == IF hasall THEN Range(lst) ELSE {k \in DOMAIN R.ns[src] : ~Underscore(k)}
               third == \E k \in names : LET v == R.ns[src][k] IN
                           IsModId(v) /\ ParentOf(v.m) = src /\ Leaf(v.m) = k /\ ~OwnImports(src, v.m)
           IN IF hasall /\ R.ns[src]["__all__"] \notin DOMAIN R.lists THEN PyErr(R, "TypeError")
              ELSE IF k1 # 0
                   THEN IF IsPkg(src) /\ child \in PyPresent(R) /\ R.st[child] = "no" THEN PyStart(R, child)
                        ELSE PyErr(R, "AttributeError")
              ELSE PyAdvance([R EXCEPT !.ns[m] = [x \in DOMAIN @ \cup names |-> IF x \in names THEN R.ns[src][x] ELSE @[x]],
                                       !.outdom = @ \/ third])
    [] OTHER -> PyErr(R, "SyntaxError")

PyStep(R) ==
  IF R.stack = <<>> THEN
    IF R.q = <<>> THEN R
    ELSE LET nxt == NextToStart(R, PP(Head(R.q))) IN
         IF nxt \in {"", "!"} THEN [R EXCEPT !.q = Tail(@)] ELSE PyStart(R, nxt)
  ELSE
    LET fr == R.stack[Len(R.stack)] IN
    IF fr.pc > Len(prog[fr.m])
    THEN \* body finished: sys.modules entry complete, bind the sub-module on its parent package
         LET R1 == [R EXCEPT !.st[fr.m] = "done", !.stack = SubSeq(@, 1, Len(@) - 1)] IN
         IF ParentOf(fr.m) # "" THEN PyBind(R1, ParentOf(fr.m), Leaf(fr.m), ModId(fr.m)) ELSE R1
    ELSE PyExec(R, fr.m, fr.pc)

PyDone(R) == R.stack = <<>> /\ R.q = <<>>

RECURSIVE PyRun(_, _)
PyRun(R, fuel) == IF fuel = 0 \/ PyDone(R) THEN R ELSE PyRun(PyStep(R), fuel - 1)
=============================================================================
