----------------------------- MODULE SrcLayout -----------------------------
(***************************************************************************)
(* X02 - source location fidelity.                                         *)
(*                                                                         *)
(* A *layout* is a source file described abstractly: a head (leading       *)
(* comment / BOM, module docstring height, one prelude line) followed by   *)
(* an outline of items.  An item is a statement form (FormTab: kind,       *)
(* header height, built-in docstring, names bound, ...), a decorator list  *)
(* (DecoTab) and a depth.  Write adds one item and *places* it: the spec   *)
(* keeps CPython's line counter (cur), the set of lines on which           *)
(* str.splitlines breaks although CPython does not (brk), the stack of     *)
(* open blocks, and extends the end line of every open ancestor exactly as *)
(* the parser does (end_lineno of a compound statement = end of its last   *)
(* statement).                                                             *)
(*                                                                         *)
(* From the placed outline two object tables are computed:                 *)
(*   ref  - what the contract demands: an object starts at the `@` of its  *)
(*          first decorator, ends with its last statement, its docstring   *)
(*          span is the string literal that documents it (first statement  *)
(*          of a def/class body; string statement that FOLLOWS an          *)
(*          assignment IN THE SAME BLOCK), and slicing the stored lines by *)
(*          the span returns exactly those lines of the file named by      *)
(*          `filepath`.                                                    *)
(*   impl - transcription of _griffe: visitor.visit_classdef /             *)
(*          handle_function (decorator_list[0].lineno = line of the        *)
(*          decorator EXPRESSION; property -> node.lineno),                *)
(*          handle_attribute (node span; docstring = ast_next(node), which *)
(*          is the next child of the PARENT node and therefore crosses     *)
(*          from an if-body into its else), visit_import* (node span),     *)
(*          loader._visit_module (lines = code.splitlines()), merger       *)
(*          (stub-only members are moved into the runtime module: filepath *)
(*          of the .py, line numbers of the .pyi).                         *)
(* TLC enumerates every layout within the bounds; invariants state ref =   *)
(* impl clause by clause.  Clean configurations must satisfy them; defect  *)
(* configurations (hazard forms) must violate them (model exhibits the     *)
(* defect); the driver gverif/props/x02.py renders every emitted layout,   *)
(* cross-checks ref against CPython's ast/tokenize (exit 2) and compares   *)
(* the real Griffe with ref (verdict) and impl (drift).                    *)
(***************************************************************************)
EXTENDS Naturals, Sequences, FiniteSets, TLC, Json

CONSTANTS Domains,    \* names of the domains (DomTab) enumerated in this run
          Deep,       \* TRUE: the thorough bounds
          Exhibit,    \* TRUE: defect domains cut down to the few items needed to exhibit the defect (xcap)
          PyPad,      \* comment lines at the top of the runtime twin (so that its line numbers differ)
          Emit

\* ---------------------------------------------------------------------------------------------
\* Statement forms.  k: kind; h: height of the header / of the simple statement; body: has an
\* indented block; dst: height of the built-in docstring statement (def/class; 0 = body is `pass`);
\* dpre/dlit: offset and height of the string literal inside the docstring (or string) statement;
\* n: names bound; a, b: line offsets <<lo, hi>> of the statement binding the 1st / 2nd name;
\* sbo: 1 + offset of the line that contains a character on which str.splitlines breaks and
\* CPython does not (form feed, U+2028, NEL), 0 = none.
Fm(k, h, body, dst, dpre, dlit) ==
  [k |-> k, h |-> h, body |-> body, dst |-> dst, dpre |-> dpre, dlit |-> dlit,
   n |-> 1, a |-> <<0, h - 1>>, b |-> <<0, h - 1>>, sbo |-> 0]
Two(r) == [r EXCEPT !.n = 2]

FormTab == [
  \* functions
  def      |-> Fm("func", 1, TRUE, 0, 0, 0),      defh2    |-> Fm("func", 2, TRUE, 0, 0, 0),
  defdoc1  |-> Fm("func", 1, TRUE, 1, 0, 1),      defdoc2  |-> Fm("func", 1, TRUE, 2, 0, 2),
  defdocp3 |-> Fm("func", 1, TRUE, 3, 1, 1),      defh2doc2 |-> Fm("func", 2, TRUE, 2, 0, 2),
  adef     |-> Fm("func", 1, TRUE, 0, 0, 0),
  def1l    |-> Fm("func", 1, FALSE, 0, 0, 0),     def1l2   |-> Fm("func", 2, FALSE, 0, 0, 0),
  init     |-> Fm("func", 1, TRUE, 0, 0, 0),
  \* classes
  cls      |-> Fm("class", 1, TRUE, 0, 0, 0),     clsh3    |-> Fm("class", 3, TRUE, 0, 0, 0),
  clsdoc1  |-> Fm("class", 1, TRUE, 1, 0, 1),     clsdoc2  |-> Fm("class", 1, TRUE, 2, 0, 2),
  cls1l    |-> Fm("class", 1, FALSE, 0, 0, 0),
  \* attributes
  asg      |-> Fm("attr", 1, FALSE, 0, 0, 0),     asgp3    |-> Fm("attr", 3, FALSE, 0, 0, 0),
  asgs2    |-> Fm("attr", 2, FALSE, 0, 0, 0),     asgs2c0  |-> Fm("attr", 2, FALSE, 0, 0, 0),
  asgb2    |-> Fm("attr", 2, FALSE, 0, 0, 0),     ann      |-> Fm("attr", 1, FALSE, 0, 0, 0),
  ann0     |-> Fm("attr", 1, FALSE, 0, 0, 0),     annp3    |-> Fm("attr", 3, FALSE, 0, 0, 0),
  chain    |-> Two(Fm("attr", 1, FALSE, 0, 0, 0)),
  \* `a, b = 1, 2`: the visitor does not collect unpacking targets (membership is C01's subject) - a
  \* plain statement here, which must not receive the docstring of a following string either
  tup      |-> Fm("stmt", 1, FALSE, 0, 0, 0),
  semi     |-> Two(Fm("attr", 1, FALSE, 0, 0, 0)),
  semis2   |-> [Two(Fm("attr", 2, FALSE, 0, 0, 0)) EXCEPT !.a = <<0, 1>>, !.b = <<1, 1>>],
  sasg     |-> Fm("attr", 1, FALSE, 0, 0, 0),     sasgp3   |-> Fm("attr", 3, FALSE, 0, 0, 0),
  asgnel   |-> [Fm("attr", 1, FALSE, 0, 0, 0) EXCEPT !.sbo = 1],
  \* imports (aliases)
  imp      |-> Fm("import", 1, FALSE, 0, 0, 0),   imp2     |-> Two(Fm("import", 1, FALSE, 0, 0, 0)),
  from     |-> Fm("import", 1, FALSE, 0, 0, 0),   from2    |-> Two(Fm("import", 1, FALSE, 0, 0, 0)),
  fromp4   |-> Two(Fm("import", 4, FALSE, 0, 0, 0)), fromb2 |-> Two(Fm("import", 2, FALSE, 0, 0, 0)),
  star     |-> Two(Fm("star", 1, FALSE, 0, 0, 0)),
  \* transparent blocks and their continuation
  if       |-> Fm("block", 1, TRUE, 0, 0, 0),     ifh2     |-> Fm("block", 2, TRUE, 0, 0, 0),
  for      |-> Fm("block", 1, TRUE, 0, 0, 0),     with     |-> Fm("block", 1, TRUE, 0, 0, 0),
  withh3   |-> Fm("block", 3, TRUE, 0, 0, 0),     else     |-> Fm("cont", 1, TRUE, 0, 0, 0),
  elif     |-> Fm("cont", 1, TRUE, 0, 0, 0),      try      |-> Fm("block", 1, TRUE, 0, 0, 0),
  exc      |-> Fm("cont", 1, TRUE, 0, 0, 0),      fin      |-> Fm("cont", 1, TRUE, 0, 0, 0),
  \* statements that create nothing
  expr     |-> Fm("stmt", 1, FALSE, 0, 0, 0),     exprp2   |-> Fm("stmt", 2, FALSE, 0, 0, 0),
  \* string statements (role decided by the context)
  str1     |-> Fm("str", 1, FALSE, 0, 0, 1),      str2     |-> Fm("str", 2, FALSE, 0, 0, 2),
  strp3    |-> Fm("str", 3, FALSE, 0, 1, 1),
  \* fillers: no AST node at all
  blank    |-> Fm("filler", 1, FALSE, 0, 0, 0),   cmt      |-> Fm("filler", 1, FALSE, 0, 0, 0),
  cmt0     |-> Fm("filler", 1, FALSE, 0, 0, 0),
  ff       |-> [Fm("filler", 1, FALSE, 0, 0, 0) EXCEPT !.sbo = 1],
  cmtls    |-> [Fm("filler", 1, FALSE, 0, 0, 0) EXCEPT !.sbo = 1]
]
FT(f) == FormTab[f]

\* Decorator lists.  lines: height of the whole list; xo: offset of the first decorator's EXPRESSION
\* from the line of its `@`; prop: makes the function a property; sp: <<lo, hi>> offsets of each
\* decorator expression (Decorator.lineno / endlineno).
DecoTab == [
  none   |-> [lines |-> 0, xo |-> 0, prop |-> FALSE, sp |-> <<>>],
  d1     |-> [lines |-> 1, xo |-> 0, prop |-> FALSE, sp |-> << <<0, 0>> >>],
  d1d1   |-> [lines |-> 2, xo |-> 0, prop |-> FALSE, sp |-> << <<0, 0>>, <<1, 1>> >>],
  d2     |-> [lines |-> 2, xo |-> 0, prop |-> FALSE, sp |-> << <<0, 1>> >>],
  d1d2   |-> [lines |-> 3, xo |-> 0, prop |-> FALSE, sp |-> << <<0, 0>>, <<1, 2>> >>],
  dp     |-> [lines |-> 3, xo |-> 1, prop |-> FALSE, sp |-> << <<1, 1>> >>],
  prop   |-> [lines |-> 1, xo |-> 0, prop |-> TRUE,  sp |-> << <<0, 0>> >>],
  d1prop |-> [lines |-> 2, xo |-> 0, prop |-> TRUE,  sp |-> << <<0, 0>>, <<1, 1>> >>]
]
DT(c) == DecoTab[c]

\* ---------------------------------------------------------------------------------------------
\* Domains.  A domain fixes the alphabet and the bounds; `may` lists the clauses the transcription of
\* the code is allowed (expected) to break there - {} = clean domain.  heads: <<lead, mdoc>> with lead
\* in {"none","cmt","bom"} and mdoc the height of the module docstring.  twin: the layout is a .pyi
\* stub next to a runtime twin .py; inpy: may an object exist in the twin / be stub-only; leak: allow
\* `if: ... attr` followed by `else: "string"`.
HeadsOne == {<<"none", 0>>}
HeadsQuick == {<<"none", 0>>, <<"cmt", 2>>}
HeadsAll == {<<"none", 0>>, <<"none", 1>>, <<"cmt", 0>>, <<"cmt", 2>>}
HeadsBom == {<<"bom", 0>>, <<"bom", 1>>}
CoreForms == {"defdoc2", "cls", "clsdoc1", "asg", "asgp3", "str1", "if", "else", "cmt", "init", "sasg"}
CleanForms == {"def", "defh2", "defdoc1", "defdoc2", "defdocp3", "defh2doc2", "adef", "def1l", "def1l2", "init",
               "cls", "clsh3", "clsdoc1", "clsdoc2", "cls1l",
               "asg", "asgp3", "asgs2", "asgs2c0", "asgb2", "ann", "ann0", "annp3", "tup", "chain", "semi",
               "semis2", "sasg", "sasgp3", "imp", "imp2", "from", "from2", "fromp4", "fromb2", "star",
               "if", "ifh2", "for", "with", "withh3", "else",
               "expr", "exprp2", "str1", "str2", "strp3", "blank", "cmt", "cmt0"}
MidForms == {"def", "defdoc1", "defdocp3", "def1l2", "init", "cls", "clsh3", "clsdoc2", "asgs2", "asgb2", "ann0",
             "chain", "semis2", "sasgp3", "imp2", "fromb2", "star", "ifh2", "for", "else", "exprp2", "str2",
             "strp3", "blank", "cmt0"}
TwinForms == {"defdoc2", "cls", "clsdoc1", "asg"}
Dom(forms, decos, heads, maxlen, may) ==
  [forms |-> forms, decos |-> decos, heads |-> heads, maxlen |-> maxlen, may |-> may,
   twin |-> FALSE, inpy |-> {TRUE}, leak |-> FALSE, xcap |-> 2]
DomTab == [
  core   |-> Dom(CoreForms, {"none", "d1d2"}, HeadsOne, IF Deep THEN 4 ELSE 3, {}),
  wide   |-> Dom(CleanForms, IF Deep THEN {"none", "d1", "d1d1", "d2", "d1d2"} ELSE {"none", "d2"},
                 IF Deep THEN HeadsAll ELSE {<<"cmt", 2>>}, 2, {}),
  mid    |-> Dom(MidForms, {"none", "d1d1"}, {<<"cmt", 1>>}, 3, {}),
  conts  |-> Dom({"if", "elif", "else", "try", "exc", "fin", "asg", "defdoc1", "str1"}, {"none"}, HeadsOne,
                 IF Deep THEN 5 ELSE 4, {}),
  breaks |-> Dom({"def", "cls", "asg", "str1", "cmt", "ff", "cmtls", "asgnel"}, {"none"}, HeadsOne, 3, {"text"}),
  decos  |-> Dom({"def", "cls", "asg"} \cup (IF Deep THEN {"defdoc1", "clsdoc2", "cmt"} ELSE {}),
                 {"none", "d1", "dp", "prop", "d1prop"}, HeadsOne, 3, {"span"}),
  leak   |-> [Dom({"if", "for", "else", "try", "fin", "asg", "str1"} \cup (IF Deep THEN {"cls", "elif"} ELSE {}), {"none"},
                  HeadsOne, IF Deep THEN 5 ELSE 4, {"doc"})
                EXCEPT !.leak = TRUE, !.xcap = 4],
  bom    |-> Dom({"def", "asg", "cls"}, {"none"}, HeadsBom, 2, {"load"}),
  twin   |-> [Dom(TwinForms \cup (IF Deep THEN {"def", "cmt", "asgp3"} ELSE {}),
                  IF Deep THEN {"none", "d1"} ELSE {"none"},
                  {<<"none", 1>>} \cup (IF Deep THEN {<<"cmt", 0>>} ELSE {}), 3, {}) EXCEPT !.twin = TRUE],
  twinx  |-> [Dom(TwinForms, {"none", "d1"}, HeadsOne, IF Deep THEN 3 ELSE 2, {"file", "text"})
                EXCEPT !.twin = TRUE, !.inpy = {TRUE, FALSE}]
]

K(it) == FT(it.f).k
IsFiller(it) == K(it) = "filler"
IsStmt(it) == ~IsFiller(it)
IsBlock(it) == K(it) \in {"block", "cont"}
\* which continuation may follow the block of which compound statement
ContOK(f, prev) ==
  CASE f = "else" -> prev.f \in {"if", "ifh2", "for", "elif", "exc"}
    [] f = "elif" -> prev.f \in {"if", "ifh2", "elif"}
    [] f = "exc"  -> prev.f \in {"try", "exc"}
    [] f = "fin"  -> prev.f \in {"try", "exc"}
    [] OTHER -> TRUE
\* ast_next crosses from the last statement of c's body into the block of e when e's statements are the
\* next children of the same AST node: If/For: body, orelse; Try without handlers: body, finalbody
\* (`elif` is a nested If inside orelse, an `except` clause is an ExceptHandler node: no crossing there)
Crosses(c, e) == \/ c.f \in {"if", "ifh2", "for", "elif"} /\ e.f = "else"
                 \/ c.f = "try" /\ e.f = "fin"
Decorable(f) == FT(f).k \in {"func", "class"} /\ f # "init"
SelfForms == {"sasg", "sasgp3"}

\* ---------------------------------------------------------------------------------------------
VARIABLES dom,     \* the domain of this layout (fixed by Init)
          head,    \* <<lead, mdoc>>
          items,   \* the outline: sequence of [f, dc, d, py, pd]
          pl,      \* placement of every item (stub / only file) + its context + placement in the twin
          cur,     \* next free line (CPython numbering) of the file
          cur2,    \* next free line of the twin
          brk,     \* lines on which str.splitlines() breaks and CPython does not
          stack,   \* open blocks: sequence of [i, c] (item index, context of its children)
          ref, impl
vars == <<dom, head, items, pl, cur, cur2, brk, stack, ref, impl>>

Dm == DomTab[dom]
MaxLen == IF Exhibit THEN Dm.xcap ELSE Dm.maxlen
MaxDepth == 2
Forms == Dm.forms
Decos == Dm.decos
Twin == Dm.twin
InPy == Dm.inpy
AllowLeak == Dm.leak
Lead == head[1]
MDoc == head[2]
LeadLines == IF Lead = "cmt" THEN 1 ELSE 0
FirstItemLine == 1 + LeadLines + MDoc + 1          \* lead, module docstring, one prelude line
ModCtx == [sk |-> "module", p |-> <<>>, py |-> TRUE]
DeadCtx(py) == [sk |-> "dead", p |-> <<>>, py |-> py]
NoPlace == [at |-> 0, dx |-> 0, kw |-> 0, hend |-> 0, end |-> 0, last |-> 0, dlo |-> 0, dhi |-> 0]

\* Lines taken by one item starting at line c (decorators, header, built-in docstring or `pass`).
Place(c, f, dc, withdoc) ==
  LET F == FT(f)
      D == DT(dc)
      kw == c + D.lines
      hend == kw + F.h - 1
      dst == IF withdoc THEN F.dst ELSE 0
      fill == IF F.body /\ F.k \in {"func", "class"} /\ dst = 0 THEN 1 ELSE 0
      end == hend + dst + fill
  IN [at |-> c, dx |-> c + D.xo, kw |-> kw, hend |-> hend, end |-> end, last |-> end,
      dlo |-> IF dst > 0 THEN hend + 1 + F.dpre ELSE 0,
      dhi |-> IF dst > 0 THEN hend + F.dpre + F.dlit ELSE 0]

CtxAt(d) == IF d = 0 THEN ModCtx ELSE stack[d].c

ChildCtx(ctx, f, n, epy) ==
  LET k == FT(f).k IN
  IF k = "class" THEN (IF ctx.sk \in {"module", "class"}
                        THEN [sk |-> "class", p |-> ctx.p \o <<n>>, py |-> epy] ELSE DeadCtx(epy))
  ELSE IF k = "func" THEN (IF f = "init" /\ ctx.sk = "class"
                        THEN [sk |-> "init", p |-> ctx.p, py |-> epy] ELSE DeadCtx(epy))
  ELSE [ctx EXCEPT !.py = epy]

Init ==
  /\ dom \in Domains
  /\ head \in DomTab[dom].heads
  /\ items = <<>> /\ pl = <<>> /\ brk = {} /\ stack = <<>>
  /\ cur = 1 + (IF head[1] = "cmt" THEN 1 ELSE 0) + head[2] + 1
  /\ cur2 = 1 + PyPad + 1
  /\ ref = {} /\ impl = {}

\* ---- reading the outline ---------------------------------------------------------------------
Min(S) == CHOOSE x \in S : \A y \in S : x <= y
Max(S) == CHOOSE x \in S : \A y \in S : x >= y
\* next / previous statement in the same block (0 = none); fillers are not AST nodes
NextStmts(its, i) == {j \in (i + 1)..Len(its) : /\ IsStmt(its[j]) /\ its[j].d = its[i].d
                                                /\ \A m \in (i + 1)..(j - 1) : its[m].d >= its[i].d}
NextStmt(its, i) == IF NextStmts(its, i) = {} THEN 0 ELSE Min(NextStmts(its, i))
ChildStmts(its, c) == {j \in (c + 1)..Len(its) : /\ IsStmt(its[j]) /\ its[j].d = its[c].d + 1
                                                 /\ \A m \in (c + 1)..(j - 1) : its[m].d > its[c].d}
FirstChild(its, c) == IF ChildStmts(its, c) = {} THEN 0 ELSE Min(ChildStmts(its, c))
LastChild(its, c) == IF ChildStmts(its, c) = {} THEN 0 ELSE Max(ChildStmts(its, c))
ParentOf(its, i) == LET S == {c \in 1..(i - 1) : /\ its[c].d + 1 = its[i].d
                                                 /\ \A m \in (c + 1)..(i - 1) : its[m].d > its[c].d}
                    IN IF S = {} THEN 0 ELSE Max(S)

\* The string statement that documents attribute item i according to the contract (PEP 257 "attribute
\* docstring": the string literal immediately following the assignment, in the same block).
RefDocItem(its, i) ==
  LET j == NextStmt(its, i) IN IF j # 0 /\ K(its[j]) = "str" THEN j ELSE 0
\* ... and according to handle_attribute: ast_next(node) = next child of node.parent; the children of
\* an If/For node are test, body..., orelse...: the last statement of the body is followed by the
\* first statement of the else block.
ImplDocItem(its, i) ==
  LET j == NextStmt(its, i)
      c == ParentOf(its, i)
      e == IF c = 0 THEN 0 ELSE NextStmt(its, c)
      x == IF c # 0 /\ e # 0 /\ Crosses(its[c], its[e]) THEN FirstChild(its, e) ELSE 0
  IN IF j # 0 THEN (IF K(its[j]) = "str" THEN j ELSE 0)
     ELSE IF x # 0 /\ K(its[x]) = "str" THEN x ELSE 0

\* ---- object tables ---------------------------------------------------------------------------
Collected(its, ps, i) ==
  \/ /\ ps[i].sk \in {"module", "class"}
     /\ K(its[i]) \in {"func", "class", "attr", "import", "star"} /\ its[i].f \notin SelfForms
  \/ ps[i].sk = "init" /\ its[i].f \in SelfForms

Shift(sp, at) == [s \in 1..Len(sp) |-> <<at + sp[s][1], at + sp[s][2]>>]
LitSpan(its, ps, j) ==     \* lines of the string literal of string statement j
  <<ps[j].kw + FT(its[j].f).dpre, ps[j].kw + FT(its[j].f).dpre + FT(its[j].f).dlit - 1>>
Broken(bk, hi) == \E b \in bk : b <= hi
Tx(bk, hi) == IF hi # 0 /\ Broken(bk, hi) THEN "shifted" ELSE "exact"

\* One record per object: it/nm identify it (item, 1st or 2nd name), p = items of the enclosing classes.
Obj(i, nm, p, k, file, lo, hi, dfile, dlo, dhi, ds, tx, dtx) ==
  [it |-> i, nm |-> nm, p |-> p, k |-> k, file |-> file, lo |-> lo, hi |-> hi,
   dfile |-> dfile, dlo |-> dlo, dhi |-> dhi, ds |-> ds, tx |-> tx, dtx |-> dtx]

ModuleObj(hd) ==
  LET lo == IF hd[2] = 0 THEN 0 ELSE 1 + (IF hd[1] = "cmt" THEN 1 ELSE 0)
  IN Obj(0, 1, <<>>, "module", IF Twin THEN "py" ELSE "m", 0, 0, IF Twin THEN "stub" ELSE "m",
         lo, IF lo = 0 THEN 0 ELSE lo + hd[2] - 1, <<>>, "exact", "exact")

ObjsOf(its, ps, bk, i, isRef) ==
  LET it == its[i]   F == FT(it.f)   D == DT(it.dc)   k == F.k
      S == ps[i]                                   \* placement in the (stub) file
      T == ps[i].t                                 \* placement in the twin
      inTwin == Twin /\ ps[i].py
      P == IF inTwin THEN T ELSE S                 \* the placement the location must come from
      file == IF ~Twin THEN "m" ELSE IF ps[i].py THEN "py" ELSE IF isRef THEN "stub" ELSE "py"
      \* docstring of a def/class: the twin's own when it kept one, else the stub's
      ownDoc == inTwin /\ it.pd /\ F.dst > 0
      dsrc == IF ownDoc THEN T ELSE S
      dfile == IF ~Twin THEN "m" ELSE IF ownDoc THEN "py"
               ELSE IF ps[i].py \/ isRef THEN "stub" ELSE "py"
      tx(hi) == IF Twin THEN (IF file = "py" /\ ~ps[i].py THEN "foreign" ELSE "exact") ELSE
                IF isRef THEN "exact" ELSE Tx(bk, hi)
      dtx(hi) == IF Twin THEN (IF dfile = "py" /\ ~ps[i].py THEN "foreign" ELSE "exact") ELSE
                 IF isRef THEN "exact" ELSE Tx(bk, hi)
  IN
  IF ~Collected(its, ps, i) THEN {}
  ELSE IF k \in {"func", "class"} THEN
    LET lo == IF isRef \/ it.dc = "none" THEN P.at
              ELSE IF D.prop THEN P.kw ELSE P.dx      \* decorator_list[0].lineno; property: node.lineno
        kind == IF k = "class" THEN "class" ELSE IF D.prop THEN "attribute" ELSE "function"
    IN {Obj(i, 1, S.p, kind, file, lo, P.last, dfile, dsrc.dlo, dsrc.dhi,
            IF D.prop THEN <<>> ELSE Shift(D.sp, P.at), tx(P.last), dtx(dsrc.dhi))}
  ELSE IF k = "attr" THEN
    LET j == IF isRef THEN RefDocItem(its, i) ELSE ImplDocItem(its, i)
        lit == IF j = 0 THEN <<0, 0>> ELSE LitSpan(its, ps, j)
        \* `a = 1; b = 2` - the string documents the last assignment of the line only
        last2 == it.f \in {"semi", "semis2"}
    IN {Obj(i, nm, S.p, "attribute", file,
            P.kw + (IF nm = 1 THEN F.a ELSE F.b)[1], P.kw + (IF nm = 1 THEN F.a ELSE F.b)[2],
            dfile, IF last2 /\ nm = 1 THEN 0 ELSE lit[1], IF last2 /\ nm = 1 THEN 0 ELSE lit[2], <<>>,
            tx(P.kw + (IF nm = 1 THEN F.a ELSE F.b)[2]),
            dtx(IF last2 /\ nm = 1 THEN 0 ELSE lit[2])) : nm \in 1..F.n}
  ELSE \* import / star: alias_lineno .. alias_endlineno = the statement
    {Obj(i, nm, S.p, "alias", file, P.kw, P.hend, dfile, 0, 0, <<>>, tx(P.hend), "exact") : nm \in 1..F.n}

Objs(hd, its, ps, bk, isRef) ==
  {ModuleObj(hd)} \cup UNION {ObjsOf(its, ps, bk, i, isRef) : i \in 1..Len(its)}

\* ---- the only action: write one more item at the end of the file ------------------------------
Write(f, dc, d, py, pd) ==
  LET n == Len(items) + 1
      F == FT(f)
      ctx == CtxAt(d)
      epy == ctx.py /\ py
      it == [f |-> f, dc |-> dc, d |-> d, py |-> epy, pd |-> pd]
      S == Place(cur, f, dc, TRUE)
      T == IF Twin /\ epy THEN Place(cur2, f, dc, pd) ELSE NoPlace
      anc == {stack[s].i : s \in 1..d}
      stmt == F.k # "filler"
      newp == S @@ [sk |-> ctx.sk, p |-> ctx.p, py |-> epy, has |-> FALSE, t |-> T]
      pl1 == [j \in 1..n |->
                IF j = n THEN newp
                ELSE IF stmt /\ j \in anc
                     THEN [pl[j] EXCEPT !.last = S.end, !.has = TRUE,
                                        !.t = IF Twin /\ epy THEN [@ EXCEPT !.last = T.end] ELSE @]
                     ELSE pl[j]]
      its1 == Append(items, it)
      bk1 == brk \cup (IF F.sbo > 0 THEN {S.kw + F.sbo - 1} ELSE {})
  IN
  /\ n <= MaxLen /\ d <= MaxDepth /\ d <= Len(stack)
  \* a block that is being closed must contain a statement
  /\ \A s \in (d + 1)..Len(stack) : IsBlock(items[stack[s].i]) => pl[stack[s].i].has
  /\ (F.k = "cont") => (Len(stack) > d /\ ContOK(f, items[stack[d + 1].i]))
  \* a `try` block can only be closed by its `except` / `finally`
  /\ \A s \in (d + 1)..Len(stack) : items[stack[s].i].f = "try" => (s = d + 1 /\ f \in {"exc", "fin"})
  /\ (dc # "none") => Decorable(f)
  /\ DT(dc).prop => (F.k = "func" /\ F.body /\ ctx.sk = "class")
  /\ (f = "init") => (ctx.sk = "class" /\ ~\E j \in 1..Len(items) : items[j].f = "init" /\ pl[j].p = ctx.p)
  /\ (f \in SelfForms) => ctx.sk = "init"
  /\ (f = "star") => (ctx.sk = "module" /\ ~\E j \in 1..Len(items) : items[j].f = "star")
  /\ (F.k = "str" /\ ~AllowLeak) => ~(d > 0 /\ items[stack[d].i].f \in {"else", "fin"} /\ ~pl[stack[d].i].has)
  \* the twin: only objects can be stub-only, and everything below a stub-only object is stub-only
  /\ (~py) => (Twin /\ F.k \in {"func", "class", "attr"})
  /\ (~pd) => (Twin /\ epy /\ F.dst > 0)
  /\ items' = its1 /\ pl' = pl1 /\ brk' = bk1
  /\ cur' = S.end + 1
  /\ cur2' = IF Twin /\ epy THEN T.end + 1 ELSE cur2
  /\ stack' = SubSeq(stack, 1, d) \o (IF F.body THEN <<[i |-> n, c |-> ChildCtx(ctx, f, n, epy)]>> ELSE <<>>)
  /\ ref' = Objs(head, its1, pl1, bk1, TRUE)
  /\ impl' = Objs(head, its1, pl1, bk1, FALSE)
  /\ UNCHANGED <<dom, head>>

Next == \E f \in Forms, dc \in Decos, d \in 0..MaxDepth, py \in InPy, pd \in BOOLEAN : Write(f, dc, d, py, pd)
Spec == Init /\ [][Next]_vars

\* A layout is a file when no open block is still empty.
Complete == \A s \in 1..Len(stack) : /\ IsBlock(items[stack[s].i]) => pl[stack[s].i].has
                                      /\ items[stack[s].i].f # "try"

\* ---- the clauses -----------------------------------------------------------------------------
Same(r, m) == r.it = m.it /\ r.nm = m.nm
Pairs == {<<r, m>> \in ref \X impl : Same(r, m)}
\* S1 same objects, same kinds, same files
Membership == /\ {<<r.it, r.nm, r.k>> : r \in ref} = {<<m.it, m.nm, m.k>> : m \in impl}
FileExact == \A q \in Pairs : q[1].file = q[2].file /\ q[1].dfile = q[2].dfile
\* S2 lineno / endlineno (alias_lineno / alias_endlineno for aliases), decorator spans
SpanExact == \A q \in Pairs : q[1].lo = q[2].lo /\ q[1].hi = q[2].hi /\ q[1].ds = q[2].ds
\* S3 docstring ownership and span
DocExact == \A q \in Pairs : q[1].dlo = q[2].dlo /\ q[1].dhi = q[2].dhi
\* S4 slicing the stored lines by the span yields exactly the lines CPython numbers that way
TextExact == \A m \in impl : m.tx = "exact" /\ m.dtx = "exact"
\* S5 the file loads at all (CPython accepts a UTF-8 BOM)
Loadable == Lead # "bom"
\* well-formedness of the reference itself: children lie inside their class, docstrings inside their
\* def/class and after their attribute, objects of one scope do not overlap unless they share a line
RefNested ==
  \A r \in ref : r.it # 0 =>
     /\ r.lo >= 1 /\ r.lo <= r.hi /\ r.hi < (IF r.file = "py" /\ Twin THEN cur2 ELSE cur)
     /\ (r.dlo # 0 => r.dlo <= r.dhi)
     /\ (r.dlo # 0 /\ r.k \in {"function", "class"} /\ r.dfile = r.file => r.lo < r.dlo /\ r.dhi <= r.hi)
     /\ (r.dlo # 0 /\ r.k = "attribute" /\ K(items[r.it]) = "attr" => r.dlo > r.hi)
     /\ \A c \in ref : (c.it # 0 /\ Len(c.p) > 0 /\ c.p[Len(c.p)] = r.it /\ c.file = r.file)
                          => (r.lo < c.lo /\ c.hi <= r.hi)
\* what a run checks: in every domain the transcription may break only the clauses listed in `may`
Holds(c, P) == (c \notin Dm.may) => P
ClauseSpan == Holds("span", SpanExact)
ClauseDoc == Holds("doc", DocExact)
ClauseText == Holds("text", TextExact)
ClauseFile == Holds("file", FileExact)
ClauseLoad == Holds("load", Loadable)

RefDisjoint ==
  \A r, c \in ref : (r.it # 0 /\ c.it # 0 /\ r.it < c.it /\ r.p = c.p /\ r.file = c.file
                     /\ pl[r.it].sk = pl[c.it].sk) => r.hi < c.lo

EmitCase ==
  (Emit /\ Complete /\ items # <<>>) =>
     PrintT(<<"CASE", ToJson([dom |-> dom, head |-> head, items |-> items, ref |-> ref, implx |-> impl \ ref,
                              brk |-> brk, lines |-> cur - 1, lines2 |-> cur2 - 1, twin |-> Twin])>>)
=============================================================================
