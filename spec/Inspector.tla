----------------------------- MODULE Inspector -----------------------------
(***************************************************************************)
(* C17 - static and dynamic analysis agree on the API skeleton.            *)
(*                                                                         *)
(* Shape A built as a small state machine.  A *program* is the main module *)
(* of a three-level package  pkg/{__init__, sub, other}.py,                *)
(* pkg/mid/{__init__, other}.py, pkg/mid/deep/{__init__, leaf, other}.py   *)
(* (the main module is one of the __init__ files, sub.py or leaf.py; every *)
(* other.py is fixed: class OK, function og, value ov; relative imports    *)
(* carry 1..3 dots).  The program is built one statement per step; every step *)
(* advances three transcriptions at once:                                  *)
(*                                                                         *)
(*   Visit...   what _griffe.agents.visitor.Visitor does with the          *)
(*              statement (visit_classdef / handle_function /              *)
(*              handle_attribute / visit_importfrom / visit_import with    *)
(*              the `current` pointer = the stack of open classes)         *)
(*   Exec...    what CPython does with it: the abstract runtime object     *)
(*              graph (heap of objects with type, wrapper, __module__,     *)
(*              __qualname__, __doc__, __bases__, signature, vars)         *)
(*                                                                         *)
(* and `Finish` runs the transcription of the dynamic agent on the object  *)
(* graph: ObjectNode.children/_pick_member, the ObjectNode.kind ladder in  *)
(* code order, ObjectNode.alias_target_path, Inspector.generic_inspect     *)
(* (with the module-is-own-submodule skip), inspect_class,                 *)
(* handle_function/_convert_parameter, handle_attribute.                   *)
(*                                                                         *)
(* Skel projects either tree onto the skeleton the property names and      *)
(* removes exactly the exempted differences.  TLC decides, for every       *)
(* program within the bounds,                                              *)
(*      SkeletonsAgree   Skel(static) = Skel(dynamic)       (clean domain) *)
(*      DiffsExplained   every difference has one of the recorded root     *)
(*                       causes                              (full domain) *)
(*      No<Cause>        one invariant per recorded root cause, refuted by *)
(*                       TLC on a small domain (cfg/Inspector_defect.cfg): *)
(*                       the counterexample is the defect's witness        *)
(* and prints every program with both predicted skeletons; the driver      *)
(* gverif/props/c17.py writes each program to disk, loads it with both     *)
(* real agents and compares (real static, real dynamic, CPython's real     *)
(* object graph) with (skS, skD, xdump).                                   *)
(*                                                                         *)
(* Domains are chosen by the constants (cfg/Inspector_<domain>_<tier>.cfg: *)
(* clean, clean2, sigdoc, cprop = no statement behind a recorded defect;   *)
(* full, deffull, nestfull = everything).  Fields called "ghost" below     *)
(* (origin, val, dshape, at, bscope, bat) exist only to name the root      *)
(* cause of a difference; neither agent's transcription reads them.        *)
(***************************************************************************)
EXTENDS Naturals, Sequences, FiniteSets, TLC, Json

CONSTANTS MainIns,     \* subset of {"init", "sub"}: where the program lives
          Names,       \* names bound by def / class / assignments
          MaxStmts,    \* total number of statements (a class header counts one)
          MaxNest,     \* 1: classes at module level only, 2: one level of nested classes
          Stmts,       \* subset of {"def","class","assign","ann","annonly","from","import","ref"}
          Decos,       \* subset of {"none","static","class","prop","cprop"}
          Asyncs,      \* subset of BOOLEAN
          Sigs,        \* subset of {"s0","s1","s2","s3"}
          Docs,        \* docstring shapes of defs and classes
          ModDocs,     \* docstring shapes of the main module
          Vals,        \* subset of {"lit","none"}
          Imports,     \* subset of {"OK","og","ov","other","ext","cp","top"}   (top: `from other import TK`, absolute)
          Levels,      \* subset of 1..3: number of leading dots of the relative imports
          Chains,      \* subset of {"-","other.OK","pkg.other.OK"}: base classes written as dotted chains ("-" = a bare name)
          AsNames,     \* subset of Names \cup {"-"}   ("-" = no `as` clause)
          AllowInst,   \* `def __init__(self): self.<x> = 1` allowed in classes
          InstNames,   \* the names x such an __init__ may assign (subset of Names \cup {"q"})
          AllowRebind, \* FALSE: forbid statements that change what a base-class name resolves to afterwards
          Emit

\* ------------------------------------------------------------------------------------------
\* fixed universe
\* ------------------------------------------------------------------------------------------
\* the package on disk:  pkg/{__init__, sub, other}.py  pkg/mid/{__init__, other}.py  pkg/mid/deep/{__init__, leaf, other}.py
\* every other.py defines class OK, def og(u), ov = 3; the main module is one of __init__ (3 depths), sub, leaf
NoneId == 1   LitId == 2   PkgId == 3   SubId == 4   MidId == 5   DeepId == 6   LeafId == 7
ExtId == 8    CpId == 9
OtherId(d) == 9 + d     \* module other of the package at depth d (1: pkg, 2: pkg.mid, 3: pkg.mid.deep)
OKId(d) == 12 + d       OgId(d) == 15 + d
TopId == 19            \* class TK of the TOP-LEVEL module other.py that sits next to the package (same name as pkg/other.py)
FirstFree == 20
PkgPath(d) == SubSeq(<<"pkg", "mid", "deep">>, 1, d)
PkgModId(d) == CASE d = 1 -> PkgId [] d = 2 -> MidId [] d = 3 -> DeepId

Front(s) == SubSeq(s, 1, Len(s) - 1)
Last(s) == s[Len(s)]
IsPrefix(p, q) == Len(p) <= Len(q) /\ SubSeq(q, 1, Len(p)) = p
Min(S) == CHOOSE x \in S : \A y \in S : x <= y
Max(S) == CHOOSE x \in S : \A y \in S : x >= y
Bind(v, n, i) == [x \in (DOMAIN v) \cup {n} |-> IF x = n THEN i ELSE v[x]]

\* interpreter-provided dunders (exempted by the property); the model keeps one per scope kind
InterpDunders == {"__module__", "__name__", "__doc__", "__dict__", "__weakref__", "__annotations__",
                  "__file__", "__path__", "__package__", "__cached__"}
ExcludeSpecials == {"__builtins__", "__loader__", "__spec__"}

\* ---- docstrings: a raw docstring is a sequence of lines [ind, txt]; txt = "" is a whitespace-only line
L(i, t) == [ind |-> i, txt |-> t]
DocLines(d) ==
  CASE d = "none"   -> <<>>
    [] d = "one"    -> <<L(0, "S")>>
    [] d = "std"    -> <<L(0, "S"), L(0, ""), L(4, "B"), L(4, "")>>
    [] d = "nl"     -> <<L(0, ""), L(4, "S"), L(4, "B"), L(4, "")>>
    [] d = "deep"   -> <<L(0, ""), L(4, "S"), L(6, "B"), L(4, "")>>
    [] d = "ragged" -> <<L(0, "S"), L(4, "B"), L(6, "C")>>
AllDocShapes == {"one", "std", "nl", "deep", "ragged"}

\* str.rstrip() on the whole value: trailing whitespace-only lines disappear
Rstrip(d) ==
  LET keep == {i \in 1..Len(d) : d[i].txt # ""}
  IN IF keep = {} THEN <<>> ELSE SubSeq(d, 1, Max(keep))

\* inspect.cleandoc (CPython 3.12), statement by statement
Cleandoc(d) ==
  IF d = <<>> THEN <<>> ELSE
  LET body == {i \in 2..Len(d) : d[i].txt # ""}
      hasMargin == body # {}
      margin == IF hasMargin THEN Min({d[i].ind : i \in body}) ELSE 0
      ls == [i \in 1..Len(d) |->
               IF i = 1 THEN L(0, d[1].txt)                       \* lines[0].lstrip()
               ELSE IF ~hasMargin THEN d[i]
               ELSE L(IF d[i].ind > margin THEN d[i].ind - margin ELSE 0, d[i].txt)]   \* line[margin:]
      nonempty == {i \in 1..Len(d) : ~(ls[i].txt = "" /\ ls[i].ind = 0)}
  IN IF nonempty = {} THEN <<>> ELSE SubSeq(ls, Min(nonempty), Max(nonempty))

\* Docstring.__init__: self.value = inspect.cleandoc(value.rstrip())
DocstringValue(raw) == Cleandoc(Rstrip(raw))
\* visitor: Docstring(ast constant value)
StaticDoc(shape) == DocstringValue(DocLines(shape))
\* inspector: _get_docstring hands the raw obj.__doc__ (None -> no docstring) to Docstring(...), which cleans it once
DynDoc(raw) == IF raw = <<>> THEN <<>> ELSE DocstringValue(raw)

\* ---- signatures --------------------------------------------------------------------------------
PS(n, k, d) == [name |-> n, kind |-> k, dflt |-> d]         \* source form: has a default?
SigParams(s) ==
  CASE s = "s0" -> <<>>
    [] s = "s1" -> <<PS("p", "positional-only", FALSE), PS("x", "positional or keyword", FALSE),
                     PS("y", "positional or keyword", TRUE)>>
    [] s = "s2" -> <<PS("va", "variadic positional", FALSE), PS("k", "keyword-only", FALSE),
                     PS("kd", "keyword-only", TRUE), PS("kw", "variadic keyword", FALSE)>>
    \* `*, kd=2, k, ko=3`: keyword-only parameters with mixed defaults (optional before required)
    [] s = "s3" -> <<PS("kd", "keyword-only", TRUE), PS("k", "keyword-only", FALSE), PS("ko", "keyword-only", TRUE)>>
\* the implicit first parameter; in shape s1 the `/` marker makes it positional-only as well
FirstParam(inClass, deco, s) ==
  LET k == IF s = "s1" THEN "positional-only" ELSE "positional or keyword"
  IN IF ~inClass \/ deco = "static" THEN <<>>
     ELSE IF deco = "class" THEN <<PS("cls", k, FALSE)>>
     ELSE <<PS("self", k, FALSE)>>
FullParams(inClass, deco, s) == FirstParam(inClass, deco, s) \o SigParams(s)
Variadic(k) == k \in {"variadic positional", "variadic keyword"}

PP(n, k, r) == [name |-> n, kind |-> k, req |-> r]
\* visitor: get_parameters gives *args the default "()" and **kwargs "{}"; Parameter.required == default is None
StaticParams(ps) == [i \in 1..Len(ps) |-> PP(ps[i].name, ps[i].kind, ~ps[i].dflt /\ ~Variadic(ps[i].kind))]
\* inspector: _convert_parameter: kind through _kind_map; *args / **kwargs get the defaults "()" / "{}" like the
\* visitor's, otherwise default None iff parameter.default is empty
KindMap(k) == k
DynParams(ps) == [i \in 1..Len(ps) |-> PP(ps[i].name, KindMap(ps[i].kind), ~ps[i].dflt /\ ~Variadic(ps[i].kind))]
\* CPython: a parameter must be supplied iff it has no default and is not variadic
PyParams(ps) == [i \in 1..Len(ps) |-> PP(ps[i].name, ps[i].kind, ~ps[i].dflt /\ ~Variadic(ps[i].kind))]

\* ---- import targets (the relative ones depend on where the main module is: see below) ----------
FromName(w) == CASE w = "ext" -> "StringIO" [] w = "cp" -> "cached_property" [] w = "top" -> "TK" [] OTHER -> w
\* what the loaded package contains outside the main module (for final targets of aliases)
OutsidePaths == {PkgPath(d) : d \in 1..3} \cup {PkgPath(d) \o <<"other">> : d \in 1..3}
                  \cup {PkgPath(d) \o <<"other", x>> : d \in 1..3, x \in {"OK", "og", "ov"}}
Outside == [p \in OutsidePaths |->
              IF p[Len(p)] = "OK" THEN "class" ELSE IF p[Len(p)] = "og" THEN "function"
              ELSE IF p[Len(p)] = "ov" THEN "attribute" ELSE "module"]

VARIABLES main, mdoc, prog, nst,      \* the case: where the program lives, module docstring, tokens, statement count
          st,                         \* static tree: [relative path -> static node]  (visitor state; `current` = Scope)
          heap, nid, frames,          \* runtime: objects, next id, stack of open class bodies
          pc, dy, skS, skD, diffs, xdump
vars == <<main, mdoc, prog, nst, st, heap, nid, frames, pc, dy, skS, skD, diffs, xdump>>

MainPath == CASE main = "init" -> <<"pkg">> [] main = "sub" -> <<"pkg", "sub">> [] main = "mid" -> <<"pkg", "mid">>
              [] main = "deep" -> <<"pkg", "mid", "deep">> [] main = "leaf" -> <<"pkg", "mid", "deep", "leaf">>
MainId == CASE main = "init" -> PkgId [] main = "sub" -> SubId [] main = "mid" -> MidId [] main = "deep" -> DeepId
            [] main = "leaf" -> LeafId
IsInit == main \in {"init", "mid", "deep"}                     \* Module.is_init_module
MainPkg == IF IsInit THEN MainPath ELSE Front(MainPath)        \* CPython: __package__ of the main module
\* CPython: `from <lvl dots>[other] import ...` starts at __package__ and climbs lvl - 1 packages
RtDepth(lvl) == Len(MainPkg) - (lvl - 1)
FromId(w, lvl) == CASE w = "OK" -> OKId(RtDepth(lvl)) [] w = "og" -> OgId(RtDepth(lvl)) [] w = "ov" -> LitId
                    [] w = "other" -> OtherId(RtDepth(lvl)) [] w = "ext" -> ExtId [] w = "cp" -> CpId [] w = "top" -> TopId
\* visitor: nodes.imports.relative_to_absolute - one level is discounted in a package / subpackage __init__, then
\* the module's parents are climbed (stopping at the top), then node.module and the name are appended
Climb(path, n) == SubSeq(path, 1, IF Len(path) - n < 1 THEN 1 ELSE Len(path) - n)
RelBase(lvl) == Climb(MainPath, IF IsInit THEN lvl - 1 ELSE lvl)
FromTarget(w, lvl) ==
  CASE w = "other" -> RelBase(lvl) \o <<"other">>
    [] w = "ext" -> <<"io", "StringIO">>    [] w = "cp" -> <<"functools", "cached_property">>
    [] w = "top" -> <<"other", "TK">>       \* absolute: the top-level module, whatever sits inside the package under that name
    [] OTHER -> RelBase(lvl) \o <<"other", w>>
Scope == [i \in 1..Len(frames) |-> frames[i].name]      \* Visitor.current / Inspector.current as a relative path
InClass == frames # <<>>
\* ghost: which binding the lookup of name n finds right now: <<scope it lives in, index in prog of the binding statement>>
RtBinder(n) ==
  IF InClass /\ (IF InClass THEN n \in DOMAIN frames[Len(frames)].vars ELSE FALSE) THEN <<Scope, frames[Len(frames)].at[n]>>
  ELSE <<<<>>, IF n \in DOMAIN heap[MainId].at THEN heap[MainId].at[n] ELSE 0>>     \* 0: bound by the import system only

Tok(t, n, deco, asy, sig, doc, val, what, as, base, inst) ==
  [t |-> t, n |-> n, deco |-> deco, async |-> asy, sig |-> sig, doc |-> doc, val |-> val, what |-> what,
   as |-> as, base |-> base, inst |-> inst, lvl |-> 0, chain |-> "-"]
\* a dotted base expression head.rest: the head is a name looked up in scope, the rest are attribute accesses
ChainHead(c) == IF c = "other.OK" THEN "other" ELSE "pkg"
ChainRest(c) == IF c = "other.OK" THEN <<"OK">> ELSE <<"other", "OK">>

\* ------------------------------------------------------------------------------------------
\* static tree (Griffe objects built by the visitor)
\* ------------------------------------------------------------------------------------------
\* (ghost fields, used only to classify differences: origin/val/dshape = the statement that created the node,
\*  at = its index in prog, bscope/bat = which binding CPython used for the base name when the class statement ran)
SNode(kind, params, bname, doc, target, labels, origin, val, dshape) ==
  [kind |-> kind, params |-> params, bname |-> bname, brest |-> <<>>, bscope |-> <<>>, bat |-> 0, at |-> Len(prog) + 1, doc |-> doc,
   target |-> target, labels |-> labels, origin |-> origin, val |-> val, dshape |-> dshape]

\* SetMembersMixin.set_member with a one-part key: plain replacement (the old sub-tree goes away)
SetMember(t, path, node) ==
  LET keep == {q \in DOMAIN t : ~IsPrefix(path, q)}
  IN [q \in keep \cup {path} |-> IF q = path THEN node ELSE t[q]]

\* Object.resolve(name) from the object at relative path `scope` (<<>> = the main module), on tree t:
\* FindMember = the node the walk stops at (<<>> = NameResolutionError), ResolveIn = the path it returns
RECURSIVE FindMember(_, _, _)
FindMember(t, scope, name) ==
  IF (scope \o <<name>>) \in DOMAIN t THEN scope \o <<name>>               \* name in self.members
  ELSE IF scope = <<>> THEN <<>>                                            \* up to the package root: not found
  ELSE IF Len(scope) >= 2 /\ name = scope[Len(scope) - 1] THEN Front(scope)   \* name == self.parent.name (a class)
  ELSE FindMember(t, Front(scope), name)
\* (resolution is lazy: it runs on the loaded package, where the loader has set every submodule of an __init__ as member
\*  under its name - replacing whatever the __init__ bound there, cf. LoaderReplaces)
LoaderModule(t, scope, name) == IsInit /\ name = "other" /\ FindMember(t, scope, name) \in {<<>>, <<"other">>}
ResolveIn(t, scope, name) ==
  LET q == FindMember(t, scope, name)
  IN IF LoaderModule(t, scope, name) THEN MainPath \o <<"other">>
     ELSE IF q = <<>> THEN <<name>>                                         \* ExprName.canonical_path: the bare name
     ELSE IF t[q].kind = "alias" THEN t[q].target ELSE MainPath \o q

\* the canonical path of every class's base expression, resolved lazily on the final tree (ExprName.canonical_path)
\* ExprAttribute.canonical_path: every appended name hangs off the previous one, so a.b.C = canonical(a) + b + C
LazyBase(t, p) == IF t[p].bname = "-" THEN <<>> ELSE <<ResolveIn(t, Front(p), t[p].bname) \o t[p].brest>>
\* ghost: does that lazy resolution stop at the very binding CPython used when the class statement ran?
StaticBinder(t, p) ==
  LET q == FindMember(t, Front(p), t[p].bname) IN IF q = <<>> THEN <<<<>>, 0>> ELSE <<Front(q), t[q].at>>
Rebound(t, p) == /\ t[p].kind = "class" /\ t[p].bname # "-" /\ ~LoaderModule(t, Front(p), t[p].bname)
                 /\ StaticBinder(t, p) # <<t[p].bscope, t[p].bat>>
Bvia(t, p) ==
  IF t[p].kind # "class" \/ t[p].bname = "-" THEN "-"
  ELSE LET q == FindMember(t, Front(p), t[p].bname) IN IF q = <<>> THEN "-" ELSE t[q].origin
BasesStable(t) == \A p \in DOMAIN t : ~Rebound(t, p)

DecoLabels(deco, asy) ==
  (CASE deco = "static" -> {"staticmethod"} [] deco = "class" -> {"classmethod"} [] deco = "prop" -> {"property"}
     [] deco = "cprop" -> {"cached", "property"} [] OTHER -> {})
  \cup (IF asy THEN {"async"} ELSE {})

\* Visitor.handle_function (+ the generic_visit of an __init__ body: `self.x = 1` -> handle_attribute with parent = the class:
\* an Attribute labelled instance-attribute that also takes over the labels of an existing member x of the class and replaces it)
VisitDef(t, k) ==
  LET labels == DecoLabels(k.deco, k.async)
      node == IF "property" \in labels
              THEN SNode("attribute", <<>>, "-", StaticDoc(k.doc), <<>>, labels, "def", "-", k.doc)
              ELSE SNode("function", StaticParams(FullParams(InClass, k.deco, k.sig)), "-", StaticDoc(k.doc),
                         <<>>, labels, "def", "-", k.doc)
      t1 == SetMember(t, Scope \o <<k.n>>, node)
      ip == Scope \o <<k.what>>
      old == IF ip \in DOMAIN t1 THEN (IF t1[ip].kind # "alias" THEN t1[ip].labels ELSE {}) ELSE {}
  IN IF k.inst
     THEN SetMember(t1, ip, SNode("attribute", <<>>, "-", <<>>, <<>>, old \cup {"instance-attribute"}, "inst", "lit", "none"))
     ELSE t1

\* handle_function for `@n.setter def n(self, v)`: get_base_property - when the member n of the current class carries the
\* label "property" the function becomes its setter (label writable), otherwise it is an ordinary function that replaces n
VisitSetter(t, k) ==
  LET p == Scope \o <<k.n>>
      isprop == IF p \in DOMAIN t THEN (t[p].kind # "alias" /\ "property" \in t[p].labels) ELSE FALSE
  IN IF isprop THEN [t EXCEPT ![p].labels = @ \cup {"writable"}]
     ELSE SetMember(t, p, SNode("function", StaticParams(<<PS("self", "positional or keyword", FALSE), PS("v", "positional or keyword", FALSE)>>),
                                "-", <<>>, <<>>, {}, "setter", "-", "none"))

\* Visitor.visit_classdef: bases are expressions, kept by name; current := the class
VisitClass(t, k) ==
  SetMember(t, Scope \o <<k.n>>,
            [SNode("class", <<>>, k.base, StaticDoc(k.doc), <<>>, {}, "class", "-", k.doc)
               EXCEPT !.brest = IF k.chain = "-" THEN <<>> ELSE ChainRest(k.chain),
                      !.bscope = IF k.base = "-" THEN <<>> ELSE RtBinder(k.base)[1],
                      !.bat = IF k.base = "-" THEN 0 ELSE RtBinder(k.base)[2]])

\* Visitor.handle_attribute (module / class scope): one Attribute per target name, whatever the statement
\* (labels of an existing non-alias member of that name are merged into the new attribute's: labels |= existing.labels)
VisitAttr(t, k) ==
  LET p == Scope \o <<k.n>>
      old == IF p \in DOMAIN t THEN (IF t[p].kind # "alias" THEN t[p].labels ELSE {}) ELSE {}
      own == IF ~InClass THEN {"module-attribute"}
             ELSE IF k.t = "annonly" THEN {"instance-attribute"} ELSE {"class-attribute", "instance-attribute"}
  IN SetMember(t, p, SNode("attribute", <<>>, "-", <<>>, <<>>, old \cup own, k.t, k.val, "none"))

\* Visitor.visit_importfrom
VisitFrom(t, k) ==
  LET name == IF k.as = "-" THEN FromName(k.what) ELSE k.as
  IN IF k.what = "other" /\ k.lvl = 1 /\ k.as = "-" /\ ~InClass /\ IsInit
     THEN t          \* `from . import other` at module level of an __init__ module: skipped (self.current.is_module)
     ELSE SetMember(t, Scope \o <<name>>, SNode("alias", <<>>, "-", <<>>, FromTarget(k.what, k.lvl), {}, "from", k.val, "none"))

\* Visitor.visit_import for `import pkg.other [as x]`: without asname alias_path = alias_name = "pkg" (first component),
\* with asname the alias x points at the full dotted path
VisitImport(t, k) ==
  IF k.as = "-"
  THEN SetMember(t, Scope \o <<"pkg">>, SNode("alias", <<>>, "-", <<>>, <<"pkg">>, {}, "import", "-", "none"))
  ELSE SetMember(t, Scope \o <<k.as>>, SNode("alias", <<>>, "-", <<>>, <<"pkg", "other">>, {}, "import", "-", "none"))

\* ------------------------------------------------------------------------------------------
\* runtime object graph (CPython)
\* ------------------------------------------------------------------------------------------
\* (at: ghost, for namespaces: name -> index in prog of the statement that made the current binding)
Obj(ty, wr, mod, qn, doc, bases, sig, vs) ==
  [type |-> ty, wrap |-> wr, mod |-> mod, qn |-> qn, doc |-> doc, bases |-> bases, sig |-> sig, vars |-> vs, at |-> <<>>]
Value(ty) == Obj(ty, "none", <<>>, <<>>, <<>>, <<>>, <<>>, <<>>)
ModuleObj(path, vs) == Obj("module", "none", path, <<>>, <<>>, <<>>, <<>>, vs)

InitHeap(m, md) ==
  [i \in 1..(FirstFree - 1) |->
     CASE i = NoneId -> Value("none")
       [] i = LitId -> Value("value")
       [] i \in {PkgId, SubId, MidId, DeepId, LeafId} ->
            LET path == CASE i = PkgId -> <<"pkg">> [] i = SubId -> <<"pkg", "sub">> [] i = MidId -> <<"pkg", "mid">>
                          [] i = DeepId -> <<"pkg", "mid", "deep">> [] i = LeafId -> <<"pkg", "mid", "deep", "leaf">>
                mine == CASE m = "init" -> PkgId [] m = "sub" -> SubId [] m = "mid" -> MidId [] m = "deep" -> DeepId [] m = "leaf" -> LeafId
            IN [ModuleObj(path, [x \in {"__name__"} |-> LitId]) EXCEPT !.doc = IF i = mine THEN DocLines(md) ELSE <<>>]
       [] i \in {OtherId(d) : d \in 1..3} ->
            LET d == i - 9 IN ModuleObj(PkgPath(d) \o <<"other">>,
                                        [x \in {"OK", "og", "ov"} |-> CASE x = "OK" -> OKId(d) [] x = "og" -> OgId(d) [] OTHER -> LitId])
       [] i \in {OKId(d) : d \in 1..3} ->
            Obj("class", "none", PkgPath(i - 12) \o <<"other">>, <<"OK">>, <<>>, <<>>, <<>>, [x \in {"__module__"} |-> LitId])
       [] i \in {OgId(d) : d \in 1..3} ->
            Obj("function", "none", PkgPath(i - 15) \o <<"other">>, <<"og">>, <<>>, <<>>, <<PS("u", "positional or keyword", FALSE)>>, <<>>)
       [] i = ExtId -> Obj("class", "none", <<"_io">>, <<"StringIO">>, <<>>, <<>>, <<>>, <<>>)
       [] i = CpId -> Obj("class", "none", <<"functools">>, <<"cached_property">>, <<>>, <<>>, <<>>, <<>>)
       [] i = TopId -> Obj("class", "none", <<"other">>, <<"TK">>, <<>>, <<>>, <<>>, <<>>)]

CurVars == IF InClass THEN Last(frames).vars ELSE heap[MainId].vars
\* name lookup while a module / class body runs: the body's own namespace, then the module globals
RtLookup(n) ==
  IF n \in DOMAIN CurVars THEN CurVars[n]
  ELSE IF n \in DOMAIN heap[MainId].vars THEN heap[MainId].vars[n] ELSE 0

\* bind a name in the running body; h is the heap to update (objects may have been allocated first)
BindIn(h, fr, n, i, idx) ==
  IF fr # <<>>
  THEN <<h, [fr EXCEPT ![Len(fr)].vars = Bind(@, n, i), ![Len(fr)].at = Bind(@, n, idx)]>>
  ELSE <<[h EXCEPT ![MainId].vars = Bind(@, n, i), ![MainId].at = Bind(@, n, idx)], fr>>
\* importing pkg.other (whoever does it) makes `other` an attribute of the package module
\* (only the first import of the submodule does that: afterwards it is found in sys.modules; ghost flag in the module's `at`)
WithSubmoduleAttr(h, d) ==
  IF "imported" \in DOMAIN h[OtherId(d)].at THEN h
  ELSE [h EXCEPT ![PkgModId(d)].vars = Bind(@, "other", OtherId(d)), ![OtherId(d)].at = Bind(@, "imported", 1)]
Alloc(h, o) == [i \in 1..(Len(h) + 1) |-> IF i <= Len(h) THEN h[i] ELSE o]

\* ------------------------------------------------------------------------------------------
\* statements
\* ------------------------------------------------------------------------------------------
\* Replay of one stored program: a module extending this one overrides ForcedProg (cfg: ForcedProg <- ...)
ForcedProg == <<>>
Allowed(k) == ForcedProg = <<>> \/ (IF Len(prog) < Len(ForcedProg) THEN ForcedProg[Len(prog) + 1] = k ELSE FALSE)
Budget == pc = "build" /\ nst < MaxStmts
Push(k) == /\ Allowed(k) /\ prog' = Append(prog, k) /\ nst' = nst + 1
Same == UNCHANGED <<main, mdoc, pc, dy, skS, skD, diffs, xdump>>
RebindOk(t) == AllowRebind \/ BasesStable(t)

StmtDef ==
  /\ Budget /\ "def" \in Stmts
  /\ \E n \in Names \cup (IF InClass /\ AllowInst THEN {"__init__"} ELSE {}),
        deco \in (IF InClass THEN Decos ELSE {"none"}), asy \in Asyncs, sig \in Sigs, doc \in Docs, tgt \in InstNames \cup {"-"} :
       /\ (n = "__init__") => (deco = "none" /\ ~asy)
       /\ (tgt # "-") => n = "__init__"
       /\ deco = "cprop" => RtLookup("cached_property") = CpId      \* the decorator name must be bound to functools'
       /\ LET inst == tgt # "-"
              k == Tok("def", n, deco, asy, sig, doc, "-", tgt, "-", "-", inst)
              o == Obj(IF asy THEN "coroutine" ELSE "function", deco, MainPath, Scope \o <<n>>, DocLines(doc), <<>>,
                       FullParams(InClass, deco, sig), <<>>)
              b == BindIn(Alloc(heap, o), frames, n, nid, Len(prog) + 1)
          IN /\ RebindOk(VisitDef(st, k))
             /\ st' = VisitDef(st, k) /\ heap' = b[1] /\ frames' = b[2] /\ nid' = nid + 1 /\ Push(k)
  /\ Same

\* `@n.setter def n(self, v)` in a class body whose n is a property object: property.setter returns a new property (same fget)
StmtSetter ==
  /\ Budget /\ "setter" \in Stmts /\ InClass
  /\ \E n \in Names :
       /\ IF n \in DOMAIN Last(frames).vars THEN heap[Last(frames).vars[n]].wrap = "prop" ELSE FALSE
       /\ LET k == Tok("setter", n, "-", FALSE, "-", "-", "-", "-", "-", "-", FALSE)
              b == BindIn(Alloc(heap, heap[Last(frames).vars[n]]), frames, n, nid, Len(prog) + 1)
          IN /\ st' = VisitSetter(st, k) /\ heap' = b[1] /\ frames' = b[2] /\ nid' = nid + 1 /\ Push(k)
  /\ Same

\* CPython evaluates the base expression: name lookup, then one getattr per further part; 0 = does not evaluate to a class
RECURSIVE RtAttrs(_, _)
RtAttrs(id, parts) ==
  IF id = 0 \/ parts = <<>> THEN id
  ELSE IF Head(parts) \in DOMAIN heap[id].vars THEN RtAttrs(heap[id].vars[Head(parts)], Tail(parts)) ELSE 0
RtBase(base, chain) ==
  LET id == RtAttrs(RtLookup(base), IF chain = "-" THEN <<>> ELSE ChainRest(chain))
  IN IF id = 0 THEN 0 ELSE IF heap[id].type = "class" THEN id ELSE 0

StmtClass ==
  /\ Budget /\ "class" \in Stmts /\ Len(frames) < MaxNest
  /\ \E n \in Names, base \in Names \cup {"OK", "-", "other", "pkg"}, chain \in Chains, doc \in Docs :
       /\ (chain = "-") <=> (base \notin {"other", "pkg"})
       /\ (chain # "-") => base = ChainHead(chain)
       /\ base = "-" \/ (IF base = "-" THEN FALSE ELSE RtBase(base, chain) # 0)         \* executable: evaluates to a class
       /\ LET k == [Tok("class", n, "-", FALSE, "-", doc, "-", "-", "-", base, FALSE) EXCEPT !.chain = chain]
          IN /\ st' = VisitClass(st, k)
             /\ frames' = Append(frames, [name |-> n, base |-> IF base = "-" THEN 0 ELSE RtBase(base, chain), doc |-> doc,
                                          vars |-> [x \in {"__module__"} |-> LitId], at |-> <<>>, hdr |-> Len(prog) + 1])
             /\ Push(k)
  /\ UNCHANGED <<heap, nid>> /\ Same

\* end of a class body: type(name, bases, namespace) and the binding in the enclosing body
StmtEnd ==
  /\ pc = "build" /\ InClass
  /\ LET f == Last(frames)
         o == Obj("class", "none", MainPath, Scope, DocLines(f.doc), IF f.base = 0 THEN <<>> ELSE <<f.base>>, <<>>, f.vars)
         b == BindIn(Alloc(heap, o), Front(frames), f.name, nid, f.hdr)
         t1 == st
     IN /\ RebindOk(t1)
        /\ heap' = b[1] /\ frames' = b[2] /\ nid' = nid + 1
        /\ Allowed(Tok("end", "-", "-", FALSE, "-", "-", "-", "-", "-", "-", FALSE))
        /\ prog' = Append(prog, Tok("end", "-", "-", FALSE, "-", "-", "-", "-", "-", "-", FALSE))
  /\ UNCHANGED <<st, nst>> /\ Same

StmtAssign ==
  /\ Budget
  /\ \E ty \in {"assign", "ann"} \cap Stmts, n \in Names, v \in Vals :
       LET k == Tok(ty, n, "-", FALSE, "-", "-", v, "-", "-", "-", FALSE)
           b == BindIn(heap, frames, n, IF v = "none" THEN NoneId ELSE LitId, Len(prog) + 1)
       IN /\ RebindOk(VisitAttr(st, k))
          /\ st' = VisitAttr(st, k) /\ heap' = b[1] /\ frames' = b[2] /\ Push(k)
  /\ UNCHANGED nid /\ Same

\* `x: int` binds nothing at run time (it only records an annotation)
StmtAnnOnly ==
  /\ Budget /\ "annonly" \in Stmts
  /\ \E n \in Names :
       LET k == Tok("annonly", n, "-", FALSE, "-", "-", "-", "-", "-", "-", FALSE)
       IN /\ RebindOk(VisitAttr(st, k)) /\ st' = VisitAttr(st, k) /\ Push(k)
  /\ UNCHANGED <<heap, nid, frames>> /\ Same

StmtFrom ==
  /\ Budget /\ "from" \in Stmts
  /\ \E w \in Imports, as \in AsNames, lvl \in Levels :
       /\ lvl <= Len(MainPkg)                  \* executable: no relative import beyond the top-level package
       /\ (w \in {"ext", "cp", "top"}) => lvl = 1     \* absolute imports carry no dots (lvl is then unused)
       /\ LET relative == w \in {"OK", "og", "ov", "other"}
              \* `from <package> import other`: CPython's _handle_fromlist takes an existing attribute `other` of the package
              \* module (e.g. a global the running __init__ bound before) and imports the submodule only when there is none
              pm == PkgModId(RtDepth(lvl))
              hasAttr == w = "other" /\ (IF w = "other" THEN "other" \in DOMAIN heap[pm].vars ELSE FALSE)
              shadow == hasAttr /\ (IF hasAttr THEN heap[pm].vars["other"] # OtherId(RtDepth(lvl)) ELSE FALSE)
              k == [Tok("from", "-", "-", FALSE, "-", "-", IF shadow THEN "attr-shadow" ELSE "-", w, as, "-", FALSE)
                      EXCEPT !.lvl = IF relative THEN lvl ELSE 0]
              name == IF as = "-" THEN FromName(w) ELSE as
              h1 == IF relative /\ ~hasAttr THEN WithSubmoduleAttr(heap, RtDepth(lvl)) ELSE heap
              b == BindIn(h1, frames, name, IF hasAttr THEN heap[pm].vars["other"] ELSE FromId(w, lvl), Len(prog) + 1)
          IN /\ AllowRebind \/ ~shadow
             /\ RebindOk(VisitFrom(st, k))
             /\ st' = VisitFrom(st, k) /\ heap' = b[1] /\ frames' = b[2] /\ Push(k)
  /\ UNCHANGED nid /\ Same

StmtImport ==
  /\ Budget /\ "import" \in Stmts
  /\ \E as \in AsNames :
       LET k == Tok("import", "-", "-", FALSE, "-", "-", "-", "-", as, "-", FALSE)
           \* `import pkg.other` binds the top package, `import pkg.other as x` binds the submodule itself
           b == IF as = "-" THEN BindIn(WithSubmoduleAttr(heap, 1), frames, "pkg", PkgId, Len(prog) + 1)
                ELSE BindIn(WithSubmoduleAttr(heap, 1), frames, as, OtherId(1), Len(prog) + 1)
       IN /\ RebindOk(VisitImport(st, k))
          /\ st' = VisitImport(st, k) /\ heap' = b[1] /\ frames' = b[2] /\ Push(k)
  /\ UNCHANGED nid /\ Same

\* `n = src` where src is bound (in this body or globally): the same object under a second name
StmtRef ==
  /\ Budget /\ "ref" \in Stmts
  /\ \E n \in Names, src \in Names \cup {"OK", "og"} :
       /\ n # src /\ RtLookup(src) # 0
       /\ LET k == Tok("ref", n, "-", FALSE, "-", "-", IF RtLookup(src) = NoneId THEN "none" ELSE "-", src, "-", "-", FALSE)
              b == BindIn(heap, frames, n, RtLookup(src), Len(prog) + 1)
          IN /\ RebindOk(VisitAttr(st, k))
             /\ st' = VisitAttr(st, k) /\ heap' = b[1] /\ frames' = b[2] /\ Push(k)
  /\ UNCHANGED nid /\ Same

\* ------------------------------------------------------------------------------------------
\* the dynamic agent on the final object graph
\* ------------------------------------------------------------------------------------------
DNode(kind, params, bases, doc, target, labels) ==
  [kind |-> kind, params |-> params, bases |-> bases, doc |-> doc, target |-> target, labels |-> labels]

\* ObjectNode(getattr(parent.obj, n), n, parent) after __init__'s unwrapping (inspect.unwrap, cached_property.func)
View(parent, n) ==
  LET id == heap[parent].vars[n]
      raw == heap[id]
      pic == heap[parent].type = "class"
      bound == pic /\ raw.wrap = "class"              \* classmethod.__get__ -> bound method
  IN [id |-> id, raw |-> raw, pic |-> pic,
      type |-> IF bound THEN "boundmethod" ELSE IF pic /\ raw.wrap = "prop" THEN "property" ELSE raw.type,
      cached |-> pic /\ raw.wrap = "cprop",
      sig |-> IF bound THEN Tail(raw.sig) ELSE raw.sig]       \* inspect.signature(obj) drops the bound first parameter
                                                              \* (handle_function reads obj.__func__ = raw.sig for class methods)

\* ObjectNode.kind: the ladder in code order
Ladder(v) ==
  IF v.type = "module" THEN "module"                                              \* is_module
  ELSE IF v.type = "class" THEN "class"                                           \* is_class
  ELSE IF v.pic /\ v.raw.wrap = "static" THEN "staticmethod"                      \* is_staticmethod (parent __dict__)
  ELSE IF v.pic /\ v.raw.wrap = "class" THEN "classmethod"                        \* is_classmethod
  ELSE IF v.cached THEN "cached_property"                                         \* is_cached_property
  ELSE IF v.pic /\ v.type \in {"function", "coroutine"} THEN "method"             \* is_method: FunctionType in a class
  ELSE IF FALSE THEN "builtin_method"                                             \* is_builtin_method: not in the domain
  ELSE IF v.raw.type = "coroutine" /\ v.type # "property" THEN "coroutine"        \* is_coroutine
  ELSE IF FALSE THEN "builtin_function"
  ELSE IF FALSE THEN "method_descriptor"
  ELSE IF v.type \in {"function", "coroutine", "boundmethod"} THEN "function"     \* is_function (callable, not a class)
  ELSE IF FALSE THEN "getset_descriptor"
  ELSE IF v.type = "property" THEN "property"                                     \* is_property
  ELSE "attribute"

\* ObjectNode.module_path: obj.__module__, else the module the node lives in
ModulePathOf(v, nodeModule) ==
  IF v.type \in {"class", "function", "coroutine", "boundmethod"} THEN v.raw.mod
  ELSE IF v.type = "module" THEN v.raw.mod
  ELSE nodeModule
ParentModulePath(o) == heap[o].mod        \* module: __spec__.name; class: __module__

Lstrip(c) == IF c = "_io" THEN "io" ELSE c                       \* the only underscored component of the universe
SameComponents(a, b) == [i \in 1..Len(a) |-> Lstrip(a[i])] = [i \in 1..Len(b) |-> Lstrip(b[i])]
BuiltinStripped == {<<"io">>, <<"functools">>}                  \* {m.lstrip("_") for m in sys.builtin_module_names}
StripAll(p) == IF p = <<"_io">> THEN <<"io">> ELSE p

\* ObjectNode.alias_target_path   (<<>> = None)
AliasTarget(v, kind, parent) ==
  IF kind = "attribute" THEN <<>>                                   \* "we can't ever know if an attribute was imported"
  ELSE LET cmp == ModulePathOf(v, MainPath)
           pmp == ParentModulePath(parent)
       IN IF SameComponents(pmp, cmp) THEN <<>>
          ELSE LET c2 == IF StripAll(cmp) \in BuiltinStripped THEN StripAll(cmp) ELSE cmp
               IN IF v.type = "module" THEN c2 ELSE c2 \o v.raw.qn

\* inspect.getmembers lists dir(obj) - for a class that includes inherited names; _pick_member filters
Candidates(o) ==
  (DOMAIN heap[o].vars) \cup
  (IF heap[o].type = "class" THEN UNION {DOMAIN heap[heap[o].bases[i]].vars : i \in 1..Len(heap[o].bases)} ELSE {})
Pick(o, ids, n) ==
  /\ n \notin ExcludeSpecials
  /\ n \in DOMAIN heap[o].vars                                      \* name in vars(self.obj)
  /\ IF n \in DOMAIN heap[o].vars THEN heap[o].vars[n] \notin ids ELSE FALSE      \* id(member) not in self._ids

\* inspect_class: base.__module__ with the same builtin-underscore stripping as alias_target_path
BaseModule(m) == IF StripAll(m) \in BuiltinStripped THEN StripAll(m) ELSE m
FunctionKinds == {"staticmethod", "classmethod", "cached_property", "method", "coroutine", "function", "property"}
KindLabels(k) ==
  CASE k = "staticmethod" -> {"staticmethod"} [] k = "classmethod" -> {"classmethod"}
    [] k = "cached_property" -> {"cached", "property"} [] k = "property" -> {"property"}
    [] k = "coroutine" -> {"async"} [] OTHER -> {}

\* Inspector.generic_inspect over node.children; returns a set of <<relative path, node>>
RECURSIVE InspScope(_, _, _, _)
InspChild(o, ids, rel, n, fuel) ==
  LET v == View(o, n)
      k == Ladder(v)
      tgt == AliasTarget(v, k, o)
      p == rel \o <<n>>
  IN IF tgt # <<>>
     THEN (IF v.type = "module" /\ tgt = MainPath \o p
           THEN {}                                                   \* own submodule with a __file__: the loader finds it
           ELSE {<<p, DNode("alias", <<>>, <<>>, <<>>, tgt, {})>>})
     ELSE IF k = "class"                                             \* inspect_class
     THEN {<<p, DNode("class", <<>>, [i \in 1..Len(v.raw.bases) |-> BaseModule(heap[v.raw.bases[i]].mod) \o heap[v.raw.bases[i]].qn],
                      DynDoc(v.raw.doc), <<>>, {})>>}
          \cup (IF fuel = 0 THEN {} ELSE InspScope(v.id, ids \cup {v.id}, p, fuel - 1))
     ELSE IF k = "module" THEN {}
     ELSE IF k \in FunctionKinds                                     \* handle_function
     THEN (IF "property" \in KindLabels(k)
           THEN {<<p, DNode("attribute", <<>>, <<>>, DynDoc(v.raw.doc), <<>>, KindLabels(k))>>}
           ELSE {<<p, DNode("function", DynParams(IF k = "classmethod" THEN v.raw.sig ELSE v.sig), <<>>, DynDoc(v.raw.doc), <<>>, KindLabels(k))>>})
     ELSE {<<p, DNode("attribute", <<>>, <<>>, <<>>, <<>>, {})>>}      \* handle_attribute
InspScope(o, ids, rel, fuel) ==
  UNION {InspChild(o, ids, rel, n, fuel) : n \in {m \in Candidates(o) : Pick(o, ids, m)}}

\* Inspector.get_module: ancestors of a submodule are placeholder nodes ObjectNode(None, part)
\* ObjectNode._ids: a node whose obj is None (placeholder) contributes no id
RootIds == {MainId} \cup {}
InspectMain ==
  LET S == InspScope(MainId, RootIds, <<>>, 3)
  IN [p \in {x[1] : x \in S} |-> (CHOOSE x \in S : x[1] = p)[2]]

\* ------------------------------------------------------------------------------------------
\* the skeleton and the exempted differences
\* ------------------------------------------------------------------------------------------
SK(kind, params, bases, doc, target, tkind) ==
  [kind |-> kind, params |-> params, bases |-> bases, doc |-> doc, target |-> target, tkind |-> tkind]
FinalKind(target) == IF target \in DOMAIN Outside THEN Outside[target] ELSE "unresolved"

SkelOf(kind, params, bases, doc, target, labels) ==
  CASE kind = "alias" ->
         (IF FinalKind(target) = "attribute"
          THEN SK("attribute", <<>>, <<>>, <<>>, <<>>, "-")              \* origin of imported plain values: exempt
          ELSE SK("alias", <<>>, <<>>, <<>>, target, FinalKind(target)))
    [] kind = "function" -> SK("function", params, <<>>, doc, <<>>, "-")
    [] kind = "class" -> SK("class", <<>>, bases, doc, <<>>, "-")
    [] OTHER -> SK("attribute", <<>>, <<>>, <<>>, <<>>, "-")   \* attribute docstrings (properties are attributes): exempt

\* GriffeLoader._load_submodules (both agents): after the package __init__ was visited / inspected, every submodule found
\* on disk is set as member under its name - whatever the __init__ bound to that name is replaced by the module
LoaderReplaces(p) == IsInit /\ p[1] = "other"
Exempt(p) == Last(p) \in InterpDunders \/ LoaderReplaces(p)
SkelStatic(t) ==
  \* instance attributes assigned in __init__: exempt - unless the assignment took over a class-level member (its labels show it)
  LET keep == {p \in DOMAIN t : ~Exempt(p) /\ ~(t[p].origin = "inst" /\ t[p].labels = {"instance-attribute"})}
  IN [p \in keep \cup {<<>>} |->
        IF p = <<>> THEN SK("module", <<>>, <<>>, StaticDoc(mdoc), <<>>, "-")
        ELSE SkelOf(t[p].kind, t[p].params, LazyBase(t, p), t[p].doc, t[p].target, t[p].labels)]
SkelDynamic(t) ==
  LET keep == {p \in DOMAIN t : ~Exempt(p)}
  IN [p \in keep \cup {<<>>} |->
        IF p = <<>> THEN SK("module", <<>>, <<>>, DynDoc(heap[MainId].doc), <<>>, "-")
        ELSE SkelOf(t[p].kind, t[p].params, t[p].bases, t[p].doc, t[p].target, t[p].labels)]

\* differences, topmost first: a path is compared only when all its ancestors exist with equal kinds on both sides
Comparable(a, b, p) ==
  \A i \in 0..(Len(p) - 1) : LET q == SubSeq(p, 1, i) IN q \in DOMAIN a /\ q \in DOMAIN b /\ a[q].kind = b[q].kind
NamesKinds(ps) == [i \in 1..Len(ps) |-> <<ps[i].name, ps[i].kind>>]
Clauses(a, b, p) ==
  IF p \notin DOMAIN a \/ p \notin DOMAIN b THEN {"members"}
  ELSE IF a[p].kind # b[p].kind THEN {"kind"}
  ELSE (IF NamesKinds(a[p].params) # NamesKinds(b[p].params) THEN {"params"}
        ELSE IF a[p].params # b[p].params THEN {"required"} ELSE {})
       \cup (IF a[p].bases # b[p].bases THEN {"bases"} ELSE {})
       \cup (IF a[p].doc # b[p].doc THEN {"doc"} ELSE {})
       \cup (IF a[p].target # b[p].target \/ a[p].tkind # b[p].tkind THEN {"target"} ELSE {})

\* root causes recorded as known findings (findings.d/C17.json); "none" = unexplained
Cause(t, d, p, clause) ==
  LET hasS == p \in DOMAIN t   hasD == p \in DOMAIN d
      o == IF hasS THEN t[p].origin ELSE "absent"
  IN IF o = "annonly" /\ clause \in {"members", "kind"} THEN "annonly"
     ELSE IF o = "ref" /\ clause = "kind" THEN "ref"
     ELSE IF clause \in {"members", "kind"} /\ o = "inst" THEN "init-assign-replaces-member"
     ELSE IF clause = "members" /\ o = "import" /\ ~hasD /\ main = "init" THEN "import-self"
     ELSE IF clause \in {"target", "kind"} /\ o = "from" /\ t[p].val = "attr-shadow" THEN "from-package-attribute"
     ELSE IF clause = "bases" /\ hasS /\ Bvia(t, p) = "annonly" THEN "annonly"
     ELSE IF clause = "bases" /\ hasS /\ Rebound(t, p) THEN "base-rebound"
     ELSE IF clause = "bases" /\ hasS /\ Bvia(t, p) = "ref" THEN "ref"
     ELSE "none"

DiffsOf(t, d, a, b) ==
  {[path |-> p, clause |-> c, cause |-> Cause(t, d, p, c)] :
     <<p, c>> \in UNION {{<<p, c>> : c \in Clauses(a, b, p)} : p \in {q \in (DOMAIN a) \cup (DOMAIN b) : Comparable(a, b, q)}}}

\* what the harness reads back from the real interpreter (validates Exec): every reachable module/class scope
RECURSIVE DumpScope(_, _, _)
DumpScope(o, rel, fuel) ==
  UNION {LET id == heap[o].vars[n]  x == heap[id]
         IN {[path |-> rel \o <<n>>, type |-> x.type, wrap |-> x.wrap, mod |-> x.mod, qn |-> x.qn, doc |-> x.doc,
              bases |-> [i \in 1..Len(x.bases) |-> heap[x.bases[i]].mod \o heap[x.bases[i]].qn],
              sig |-> PyParams(x.sig)]}
            \cup (IF x.type = "class" /\ fuel > 0 /\ x.mod = MainPath THEN DumpScope(id, rel \o <<n>>, fuel - 1) ELSE {})
         : n \in (DOMAIN heap[o].vars) \ InterpDunders}

Finish ==
  /\ pc = "build" /\ ~InClass /\ (ForcedProg = <<>> \/ prog = ForcedProg)
  /\ LET d == InspectMain
         a == SkelStatic(st)
         b == SkelDynamic(d)
     IN /\ dy' = d /\ skS' = a /\ skD' = b /\ diffs' = DiffsOf(st, d, a, b)
        /\ xdump' = DumpScope(MainId, <<>>, 3)
  /\ pc' = "done"
  /\ UNCHANGED <<main, mdoc, prog, nst, st, heap, nid, frames>>

Init ==
  /\ main \in MainIns /\ mdoc \in ModDocs
  /\ prog = <<>> /\ nst = 0 /\ st = <<>>
  /\ heap = InitHeap(main, mdoc) /\ nid = FirstFree /\ frames = <<>>
  /\ pc = "build" /\ dy = <<>> /\ skS = <<>> /\ skD = <<>> /\ diffs = {} /\ xdump = {}

Next == StmtDef \/ StmtSetter \/ StmtClass \/ StmtEnd \/ StmtAssign \/ StmtAnnOnly \/ StmtFrom \/ StmtImport \/ StmtRef \/ Finish
Spec == Init /\ [][Next]_vars

\* ------------------------------------------------------------------------------------------
\* properties
\* ------------------------------------------------------------------------------------------
Done == pc = "done"
\* C17 itself: the two agents yield the same skeleton
SkeletonsAgree == Done => skS = skD
\* on the unrestricted domain: nothing differs except through one of the recorded root causes
DiffsExplained == Done => \A x \in diffs : x.cause # "none"
\* and the difference list is complete (skS = skD exactly when it is empty)
DiffsComplete == Done => ((diffs = {}) <=> (skS = skD))
\* one invariant per recorded root cause: TLC's counterexample is the defect's witness program
NoAnnOnly == Done => \A x \in diffs : x.cause # "annonly"
NoFromPackageAttribute == Done => \A x \in diffs : x.cause # "from-package-attribute"
NoInitAssignReplacesMember == Done => \A x \in diffs : x.cause # "init-assign-replaces-member"
NoImportSelf == Done => \A x \in diffs : x.cause # "import-self"
NoBaseRebound == Done => \A x \in diffs : x.cause # "base-rebound"
NoRef == Done => \A x \in diffs : x.cause # "ref"
\* functions: the static signature is CPython's own (the dynamic one is checked against it through skS = skD)
TreeSeq(t) == {[path |-> p, node |-> t[p]] : p \in DOMAIN t}
StaticMeta == {[path |-> p, origin |-> st[p].origin, val |-> st[p].val, dshape |-> st[p].dshape, labels |-> st[p].labels, bvia |-> Bvia(st, p),
                rebound |-> Rebound(st, p)] : p \in DOMAIN st}
DynMeta == {[path |-> p, labels |-> dy[p].labels] : p \in {q \in DOMAIN dy : dy[q].labels # {}}}
\* the dynamic skeleton is printed as its difference from the static one (most entries are equal)
SkDelta == {[path |-> p, node |-> skD[p]] : p \in {q \in DOMAIN skD : IF q \in DOMAIN skS THEN skS[q] # skD[q] ELSE TRUE}}
SkMissing == (DOMAIN skS) \ (DOMAIN skD)

EmitCase ==
  (Emit /\ Done) =>
     PrintT(<<"CASE", ToJson([main |-> main, mdoc |-> mdoc, prog |-> prog, skS |-> TreeSeq(skS), skDd |-> SkDelta, skDm |-> SkMissing,
                              diffs |-> diffs, xdump |-> xdump, smeta |-> StaticMeta, dmeta |-> DynMeta])>>)

\* the docstring table (validated against the real inspect.cleandoc by the driver)
DocTable == {[shape |-> s, raw |-> DocLines(s), once |-> StaticDoc(s), dyn |-> DynDoc(DocLines(s))] : s \in AllDocShapes}
ASSUME PrintT(<<"NOTE", ToJson([doctable |-> DocTable])>>)
=============================================================================
