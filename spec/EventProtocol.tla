--------------------------- MODULE EventProtocol ---------------------------
(***************************************************************************)
(* C01, last clause - "every object placed in the tree is announced to     *)
(* extensions exactly once, parent before members, with the                *)
(* members-complete event fired after its last member" - as an acceptor of *)
(* event sequences.  An event is [e, o, p, c]: the hook (inst = on_instance,*)
(* alias = on_alias, members = on_members), the identity of the object,    *)
(* the identity of its parent at that moment (NoObj for the module) and    *)
(* whether the object is of a kind that has members (module, class).       *)
(* After the visit one pseudo-event [e |-> "intree", o] per object of the  *)
(* returned tree closes the sequence ("placed in the tree" => announced).  *)
(*                                                                         *)
(* Used twice: Visitor.tla proves that every event sequence its visitor    *)
(* actions can produce is accepted (EventsAccepted), VisitorTrace.tla      *)
(* feeds it the sequences recorded from real executions.                   *)
(***************************************************************************)
EXTENDS Naturals, FiniteSets

NoObj == 0
Start == [ann |-> {}, conts |-> {}, closed |-> {}, n |-> 0, verdict |-> "ok"]
Reject(st, why) == [st EXCEPT !.verdict = why]

Step(st, ev) ==
  IF st.verdict # "ok" THEN st
  ELSE IF ev.e \in {"inst", "alias"} THEN
         IF ev.o \in st.ann THEN Reject(st, "events-once")                                  \* announced twice
         ELSE IF ev.p # NoObj /\ ev.p \notin st.ann THEN Reject(st, "events-parent-first")  \* before its parent
         ELSE IF ev.p # NoObj /\ ev.p \in st.closed THEN Reject(st, "events-members-last")  \* after on_members(parent)
         ELSE IF ev.p # NoObj /\ ev.p \notin st.conts THEN Reject(st, "member-of-function") \* parent never gets on_members
         ELSE [st EXCEPT !.ann = @ \cup {ev.o}, !.conts = IF ev.c THEN @ \cup {ev.o} ELSE @, !.n = @ + 1]
  ELSE IF ev.e = "intree" THEN       \* after the visit: the object hangs in the returned tree (members, overloads, accessors)
         IF ev.o \notin st.ann THEN Reject(st, "events-once") ELSE st                       \* placed but never announced
  ELSE   IF ev.o \notin st.conts THEN Reject(st, "events-once")                             \* on_members of something never announced
         ELSE IF ev.o \in st.closed THEN Reject(st, "events-members-last")                  \* on_members twice
         ELSE [st EXCEPT !.closed = @ \cup {ev.o}, !.n = @ + 1]
\* at the end every object that can have members got its members-complete event
Final(st) == IF st.verdict # "ok" THEN st.verdict ELSE IF st.conts \subseteq st.closed THEN "ok" ELSE "events-members-last"
=============================================================================
