---- MODULE C3_TTrace_1791142712 ----
EXTENDS C3, Sequences, TLCExt, Toolbox, Naturals, TLC

_expression ==
    LET C3_TEExpression == INSTANCE C3_TEExpression
    IN C3_TEExpression!expression
----

_trace ==
    LET C3_TETrace == INSTANCE C3_TETrace
    IN C3_TETrace!trace
----

_inv ==
    ~(
        TLCGet("level") = Len(_TETrace)
        /\
        allm = (<<[m1 |-> 0], [m1 |-> 0], [m1 |-> 0]>>)
        /\
        rev = (<<>>)
        /\
        inh = (<<[m1 |-> [owner |-> 0, parent |-> 0, inherited |-> FALSE]], [m1 |-> [owner |-> 0, parent |-> 0, inherited |-> FALSE]], [m1 |-> [owner |-> 0, parent |-> 0, inherited |-> FALSE]]>>)
        /\
        stack = (<<[i |-> 1, bs |-> <<1>>, seen |-> <<2>>, cls |-> 2, phase |-> "recurse", lins |-> <<>>, lists |-> <<>>, result |-> <<>>], [i |-> 1, bs |-> <<>>, seen |-> <<2>>, cls |-> 1, phase |-> "enter", lins |-> <<>>, lists |-> <<>>, result |-> <<>>]>>)
        /\
        cut = (0)
        /\
        folding = (FALSE)
        /\
        refext = (<<TRUE, TRUE, TRUE>>)
        /\
        mro = (<<[ok |-> TRUE, order |-> <<>>, why |-> "none"], [ok |-> FALSE, order |-> <<>>, why |-> "pending"], [ok |-> FALSE, order |-> <<>>, why |-> "pending"]>>)
        /\
        steps = (8)
        /\
        refattr = (<<[m1 |-> 0], [m1 |-> 0], [m1 |-> 0]>>)
        /\
        refmro = (<<[ok |-> TRUE, order |-> <<1>>], [ok |-> TRUE, order |-> <<2, 1>>], [ok |-> TRUE, order |-> <<3>>]>>)
        /\
        layout = ("one")
        /\
        bases = (<<<<>>, <<1>>, <<>>>>)
        /\
        exc = ("none")
        /\
        pc = ("mro")
        /\
        root = (2)
        /\
        ic = (1)
        /\
        has = (<<{}, {}, {}>>)
        /\
        refcyc = (<<FALSE, FALSE, FALSE>>)
    )
----

_init ==
    /\ refmro = _TETrace[1].refmro
    /\ mro = _TETrace[1].mro
    /\ refattr = _TETrace[1].refattr
    /\ steps = _TETrace[1].steps
    /\ root = _TETrace[1].root
    /\ folding = _TETrace[1].folding
    /\ has = _TETrace[1].has
    /\ cut = _TETrace[1].cut
    /\ pc = _TETrace[1].pc
    /\ exc = _TETrace[1].exc
    /\ refext = _TETrace[1].refext
    /\ refcyc = _TETrace[1].refcyc
    /\ rev = _TETrace[1].rev
    /\ layout = _TETrace[1].layout
    /\ inh = _TETrace[1].inh
    /\ bases = _TETrace[1].bases
    /\ ic = _TETrace[1].ic
    /\ stack = _TETrace[1].stack
    /\ allm = _TETrace[1].allm
----

_next ==
    /\ \E i,j \in DOMAIN _TETrace:
        /\ \/ /\ j = i + 1
              /\ i = TLCGet("level")
        /\ refmro  = _TETrace[i].refmro
        /\ refmro' = _TETrace[j].refmro
        /\ mro  = _TETrace[i].mro
        /\ mro' = _TETrace[j].mro
        /\ refattr  = _TETrace[i].refattr
        /\ refattr' = _TETrace[j].refattr
        /\ steps  = _TETrace[i].steps
        /\ steps' = _TETrace[j].steps
        /\ root  = _TETrace[i].root
        /\ root' = _TETrace[j].root
        /\ folding  = _TETrace[i].folding
        /\ folding' = _TETrace[j].folding
        /\ has  = _TETrace[i].has
        /\ has' = _TETrace[j].has
        /\ cut  = _TETrace[i].cut
        /\ cut' = _TETrace[j].cut
        /\ pc  = _TETrace[i].pc
        /\ pc' = _TETrace[j].pc
        /\ exc  = _TETrace[i].exc
        /\ exc' = _TETrace[j].exc
        /\ refext  = _TETrace[i].refext
        /\ refext' = _TETrace[j].refext
        /\ refcyc  = _TETrace[i].refcyc
        /\ refcyc' = _TETrace[j].refcyc
        /\ rev  = _TETrace[i].rev
        /\ rev' = _TETrace[j].rev
        /\ layout  = _TETrace[i].layout
        /\ layout' = _TETrace[j].layout
        /\ inh  = _TETrace[i].inh
        /\ inh' = _TETrace[j].inh
        /\ bases  = _TETrace[i].bases
        /\ bases' = _TETrace[j].bases
        /\ ic  = _TETrace[i].ic
        /\ ic' = _TETrace[j].ic
        /\ stack  = _TETrace[i].stack
        /\ stack' = _TETrace[j].stack
        /\ allm  = _TETrace[i].allm
        /\ allm' = _TETrace[j].allm

\* Uncomment the ASSUME below to write the states of the error trace
\* to the given file in Json format. Note that you can pass any tuple
\* to `JsonSerialize`. For example, a sub-sequence of _TETrace.
    \* ASSUME
    \*     LET J == INSTANCE Json
    \*         IN J!JsonSerialize("C3_TTrace_1791142712.json", _TETrace)

=============================================================================

 Note that you can extract this module `C3_TEExpression`
  to a dedicated file to reuse `expression` (the module in the 
  dedicated `C3_TEExpression.tla` file takes precedence 
  over the module `C3_TEExpression` below).

---- MODULE C3_TEExpression ----
EXTENDS C3, Sequences, TLCExt, Toolbox, Naturals, TLC

expression == 
    [
        \* To hide variables of the `C3` spec from the error trace,
        \* remove the variables below.  The trace will be written in the order
        \* of the fields of this record.
        refmro |-> refmro
        ,mro |-> mro
        ,refattr |-> refattr
        ,steps |-> steps
        ,root |-> root
        ,folding |-> folding
        ,has |-> has
        ,cut |-> cut
        ,pc |-> pc
        ,exc |-> exc
        ,refext |-> refext
        ,refcyc |-> refcyc
        ,rev |-> rev
        ,layout |-> layout
        ,inh |-> inh
        ,bases |-> bases
        ,ic |-> ic
        ,stack |-> stack
        ,allm |-> allm
        
        \* Put additional constant-, state-, and action-level expressions here:
        \* ,_stateNumber |-> _TEPosition
        \* ,_refmroUnchanged |-> refmro = refmro'
        
        \* Format the `refmro` variable as Json value.
        \* ,_refmroJson |->
        \*     LET J == INSTANCE Json
        \*     IN J!ToJson(refmro)
        
        \* Lastly, you may build expressions over arbitrary sets of states by
        \* leveraging the _TETrace operator.  For example, this is how to
        \* count the number of times a spec variable changed up to the current
        \* state in the trace.
        \* ,_refmroModCount |->
        \*     LET F[s \in DOMAIN _TETrace] ==
        \*         IF s = 1 THEN 0
        \*         ELSE IF _TETrace[s].refmro # _TETrace[s-1].refmro
        \*             THEN 1 + F[s-1] ELSE F[s-1]
        \*     IN F[_TEPosition - 1]
    ]

=============================================================================



Parsing and semantic processing can take forever if the trace below is long.
 In this case, it is advised to uncomment the module below to deserialize the
 trace from a generated binary file.

\*
\*---- MODULE C3_TETrace ----
\*EXTENDS C3, IOUtils, TLC
\*
\*trace == IODeserialize("C3_TTrace_1791142712.bin", TRUE)
\*
\*=============================================================================
\*

---- MODULE C3_TETrace ----
EXTENDS C3, TLC

trace == 
    <<
    ([allm |-> <<[m1 |-> 0], [m1 |-> 0], [m1 |-> 0]>>,rev |-> <<>>,inh |-> <<[m1 |-> [owner |-> 0, parent |-> 0, inherited |-> FALSE]], [m1 |-> [owner |-> 0, parent |-> 0, inherited |-> FALSE]], [m1 |-> [owner |-> 0, parent |-> 0, inherited |-> FALSE]]>>,stack |-> <<>>,cut |-> 0,folding |-> FALSE,refext |-> <<FALSE, FALSE, FALSE>>,mro |-> <<[ok |-> FALSE, order |-> <<>>, why |-> "pending"], [ok |-> FALSE, order |-> <<>>, why |-> "pending"], [ok |-> FALSE, order |-> <<>>, why |-> "pending"]>>,steps |-> 0,refattr |-> <<[m1 |-> 0], [m1 |-> 0], [m1 |-> 0]>>,refmro |-> <<[ok |-> FALSE, order |-> <<>>], [ok |-> FALSE, order |-> <<>>], [ok |-> FALSE, order |-> <<>>]>>,layout |-> "one",bases |-> <<<<>>, <<1>>, <<>>>>,exc |-> "none",pc |-> "ref",root |-> 1,ic |-> 1,has |-> <<{}, {}, {}>>,refcyc |-> <<FALSE, FALSE, FALSE>>]),
    ([allm |-> <<[m1 |-> 0], [m1 |-> 0], [m1 |-> 0]>>,rev |-> <<>>,inh |-> <<[m1 |-> [owner |-> 0, parent |-> 0, inherited |-> FALSE]], [m1 |-> [owner |-> 0, parent |-> 0, inherited |-> FALSE]], [m1 |-> [owner |-> 0, parent |-> 0, inherited |-> FALSE]]>>,stack |-> <<>>,cut |-> 0,folding |-> FALSE,refext |-> <<FALSE, FALSE, FALSE>>,mro |-> <<[ok |-> FALSE, order |-> <<>>, why |-> "pending"], [ok |-> FALSE, order |-> <<>>, why |-> "pending"], [ok |-> FALSE, order |-> <<>>, why |-> "pending"]>>,steps |-> 1,refattr |-> <<[m1 |-> 0], [m1 |-> 0], [m1 |-> 0]>>,refmro |-> <<[ok |-> TRUE, order |-> <<1>>], [ok |-> TRUE, order |-> <<2, 1>>], [ok |-> TRUE, order |-> <<3>>]>>,layout |-> "one",bases |-> <<<<>>, <<1>>, <<>>>>,exc |-> "none",pc |-> "ext",root |-> 1,ic |-> 1,has |-> <<{}, {}, {}>>,refcyc |-> <<FALSE, FALSE, FALSE>>]),
    ([allm |-> <<[m1 |-> 0], [m1 |-> 0], [m1 |-> 0]>>,rev |-> <<>>,inh |-> <<[m1 |-> [owner |-> 0, parent |-> 0, inherited |-> FALSE]], [m1 |-> [owner |-> 0, parent |-> 0, inherited |-> FALSE]], [m1 |-> [owner |-> 0, parent |-> 0, inherited |-> FALSE]]>>,stack |-> <<>>,cut |-> 0,folding |-> FALSE,refext |-> <<TRUE, TRUE, TRUE>>,mro |-> <<[ok |-> FALSE, order |-> <<>>, why |-> "pending"], [ok |-> FALSE, order |-> <<>>, why |-> "pending"], [ok |-> FALSE, order |-> <<>>, why |-> "pending"]>>,steps |-> 2,refattr |-> <<[m1 |-> 0], [m1 |-> 0], [m1 |-> 0]>>,refmro |-> <<[ok |-> TRUE, order |-> <<1>>], [ok |-> TRUE, order |-> <<2, 1>>], [ok |-> TRUE, order |-> <<3>>]>>,layout |-> "one",bases |-> <<<<>>, <<1>>, <<>>>>,exc |-> "none",pc |-> "mro",root |-> 1,ic |-> 1,has |-> <<{}, {}, {}>>,refcyc |-> <<FALSE, FALSE, FALSE>>]),
    ([allm |-> <<[m1 |-> 0], [m1 |-> 0], [m1 |-> 0]>>,rev |-> <<>>,inh |-> <<[m1 |-> [owner |-> 0, parent |-> 0, inherited |-> FALSE]], [m1 |-> [owner |-> 0, parent |-> 0, inherited |-> FALSE]], [m1 |-> [owner |-> 0, parent |-> 0, inherited |-> FALSE]]>>,stack |-> <<[i |-> 1, bs |-> <<>>, seen |-> <<>>, cls |-> 1, phase |-> "enter", lins |-> <<>>, lists |-> <<>>, result |-> <<>>]>>,cut |-> 0,folding |-> FALSE,refext |-> <<TRUE, TRUE, TRUE>>,mro |-> <<[ok |-> FALSE, order |-> <<>>, why |-> "pending"], [ok |-> FALSE, order |-> <<>>, why |-> "pending"], [ok |-> FALSE, order |-> <<>>, why |-> "pending"]>>,steps |-> 3,refattr |-> <<[m1 |-> 0], [m1 |-> 0], [m1 |-> 0]>>,refmro |-> <<[ok |-> TRUE, order |-> <<1>>], [ok |-> TRUE, order |-> <<2, 1>>], [ok |-> TRUE, order |-> <<3>>]>>,layout |-> "one",bases |-> <<<<>>, <<1>>, <<>>>>,exc |-> "none",pc |-> "mro",root |-> 1,ic |-> 1,has |-> <<{}, {}, {}>>,refcyc |-> <<FALSE, FALSE, FALSE>>]),
    ([allm |-> <<[m1 |-> 0], [m1 |-> 0], [m1 |-> 0]>>,rev |-> <<>>,inh |-> <<[m1 |-> [owner |-> 0, parent |-> 0, inherited |-> FALSE]], [m1 |-> [owner |-> 0, parent |-> 0, inherited |-> FALSE]], [m1 |-> [owner |-> 0, parent |-> 0, inherited |-> FALSE]]>>,stack |-> <<>>,cut |-> 0,folding |-> FALSE,refext |-> <<TRUE, TRUE, TRUE>>,mro |-> <<[ok |-> TRUE, order |-> <<>>, why |-> "none"], [ok |-> FALSE, order |-> <<>>, why |-> "pending"], [ok |-> FALSE, order |-> <<>>, why |-> "pending"]>>,steps |-> 4,refattr |-> <<[m1 |-> 0], [m1 |-> 0], [m1 |-> 0]>>,refmro |-> <<[ok |-> TRUE, order |-> <<1>>], [ok |-> TRUE, order |-> <<2, 1>>], [ok |-> TRUE, order |-> <<3>>]>>,layout |-> "one",bases |-> <<<<>>, <<1>>, <<>>>>,exc |-> "none",pc |-> "mro",root |-> 2,ic |-> 1,has |-> <<{}, {}, {}>>,refcyc |-> <<FALSE, FALSE, FALSE>>]),
    ([allm |-> <<[m1 |-> 0], [m1 |-> 0], [m1 |-> 0]>>,rev |-> <<>>,inh |-> <<[m1 |-> [owner |-> 0, parent |-> 0, inherited |-> FALSE]], [m1 |-> [owner |-> 0, parent |-> 0, inherited |-> FALSE]], [m1 |-> [owner |-> 0, parent |-> 0, inherited |-> FALSE]]>>,stack |-> <<[i |-> 1, bs |-> <<>>, seen |-> <<>>, cls |-> 2, phase |-> "enter", lins |-> <<>>, lists |-> <<>>, result |-> <<>>]>>,cut |-> 0,folding |-> FALSE,refext |-> <<TRUE, TRUE, TRUE>>,mro |-> <<[ok |-> TRUE, order |-> <<>>, why |-> "none"], [ok |-> FALSE, order |-> <<>>, why |-> "pending"], [ok |-> FALSE, order |-> <<>>, why |-> "pending"]>>,steps |-> 5,refattr |-> <<[m1 |-> 0], [m1 |-> 0], [m1 |-> 0]>>,refmro |-> <<[ok |-> TRUE, order |-> <<1>>], [ok |-> TRUE, order |-> <<2, 1>>], [ok |-> TRUE, order |-> <<3>>]>>,layout |-> "one",bases |-> <<<<>>, <<1>>, <<>>>>,exc |-> "none",pc |-> "mro",root |-> 2,ic |-> 1,has |-> <<{}, {}, {}>>,refcyc |-> <<FALSE, FALSE, FALSE>>]),
    ([allm |-> <<[m1 |-> 0], [m1 |-> 0], [m1 |-> 0]>>,rev |-> <<>>,inh |-> <<[m1 |-> [owner |-> 0, parent |-> 0, inherited |-> FALSE]], [m1 |-> [owner |-> 0, parent |-> 0, inherited |-> FALSE]], [m1 |-> [owner |-> 0, parent |-> 0, inherited |-> FALSE]]>>,stack |-> <<[i |-> 1, bs |-> <<1>>, seen |-> <<2>>, cls |-> 2, phase |-> "cycle", lins |-> <<>>, lists |-> <<>>, result |-> <<>>]>>,cut |-> 0,folding |-> FALSE,refext |-> <<TRUE, TRUE, TRUE>>,mro |-> <<[ok |-> TRUE, order |-> <<>>, why |-> "none"], [ok |-> FALSE, order |-> <<>>, why |-> "pending"], [ok |-> FALSE, order |-> <<>>, why |-> "pending"]>>,steps |-> 6,refattr |-> <<[m1 |-> 0], [m1 |-> 0], [m1 |-> 0]>>,refmro |-> <<[ok |-> TRUE, order |-> <<1>>], [ok |-> TRUE, order |-> <<2, 1>>], [ok |-> TRUE, order |-> <<3>>]>>,layout |-> "one",bases |-> <<<<>>, <<1>>, <<>>>>,exc |-> "none",pc |-> "mro",root |-> 2,ic |-> 1,has |-> <<{}, {}, {}>>,refcyc |-> <<FALSE, FALSE, FALSE>>]),
    ([allm |-> <<[m1 |-> 0], [m1 |-> 0], [m1 |-> 0]>>,rev |-> <<>>,inh |-> <<[m1 |-> [owner |-> 0, parent |-> 0, inherited |-> FALSE]], [m1 |-> [owner |-> 0, parent |-> 0, inherited |-> FALSE]], [m1 |-> [owner |-> 0, parent |-> 0, inherited |-> FALSE]]>>,stack |-> <<[i |-> 1, bs |-> <<1>>, seen |-> <<2>>, cls |-> 2, phase |-> "recurse", lins |-> <<>>, lists |-> <<>>, result |-> <<>>]>>,cut |-> 0,folding |-> FALSE,refext |-> <<TRUE, TRUE, TRUE>>,mro |-> <<[ok |-> TRUE, order |-> <<>>, why |-> "none"], [ok |-> FALSE, order |-> <<>>, why |-> "pending"], [ok |-> FALSE, order |-> <<>>, why |-> "pending"]>>,steps |-> 7,refattr |-> <<[m1 |-> 0], [m1 |-> 0], [m1 |-> 0]>>,refmro |-> <<[ok |-> TRUE, order |-> <<1>>], [ok |-> TRUE, order |-> <<2, 1>>], [ok |-> TRUE, order |-> <<3>>]>>,layout |-> "one",bases |-> <<<<>>, <<1>>, <<>>>>,exc |-> "none",pc |-> "mro",root |-> 2,ic |-> 1,has |-> <<{}, {}, {}>>,refcyc |-> <<FALSE, FALSE, FALSE>>]),
    ([allm |-> <<[m1 |-> 0], [m1 |-> 0], [m1 |-> 0]>>,rev |-> <<>>,inh |-> <<[m1 |-> [owner |-> 0, parent |-> 0, inherited |-> FALSE]], [m1 |-> [owner |-> 0, parent |-> 0, inherited |-> FALSE]], [m1 |-> [owner |-> 0, parent |-> 0, inherited |-> FALSE]]>>,stack |-> <<[i |-> 1, bs |-> <<1>>, seen |-> <<2>>, cls |-> 2, phase |-> "recurse", lins |-> <<>>, lists |-> <<>>, result |-> <<>>], [i |-> 1, bs |-> <<>>, seen |-> <<2>>, cls |-> 1, phase |-> "enter", lins |-> <<>>, lists |-> <<>>, result |-> <<>>]>>,cut |-> 0,folding |-> FALSE,refext |-> <<TRUE, TRUE, TRUE>>,mro |-> <<[ok |-> TRUE, order |-> <<>>, why |-> "none"], [ok |-> FALSE, order |-> <<>>, why |-> "pending"], [ok |-> FALSE, order |-> <<>>, why |-> "pending"]>>,steps |-> 8,refattr |-> <<[m1 |-> 0], [m1 |-> 0], [m1 |-> 0]>>,refmro |-> <<[ok |-> TRUE, order |-> <<1>>], [ok |-> TRUE, order |-> <<2, 1>>], [ok |-> TRUE, order |-> <<3>>]>>,layout |-> "one",bases |-> <<<<>>, <<1>>, <<>>>>,exc |-> "none",pc |-> "mro",root |-> 2,ic |-> 1,has |-> <<{}, {}, {}>>,refcyc |-> <<FALSE, FALSE, FALSE>>])
    >>
----


=============================================================================

---- CONFIG C3_TTrace_1791142712 ----
CONSTANTS
    N = 3
    MaxBases = 3
    Domain = "dag"
    Mem = { "m1" }
    Layouts = { "one" }
    StepBound = 2000
    Emit = FALSE

INVARIANT
    _inv

CHECK_DEADLOCK
    \* CHECK_DEADLOCK off because of PROPERTY or INVARIANT above.
    FALSE

INIT
    _init

NEXT
    _next

CONSTANT
    _TETrace <- _trace

ALIAS
    _expression
=============================================================================
\* Generated on Sun Oct 04 19:38:33 UTC 2026