---------------------------- MODULE VisitorTrace ----------------------------
(***************************************************************************)
(* C01 - trace validation (code -> spec).  The harness visits real Python  *)
(* files with a passive recording Extension and writes one line of ndjson  *)
(* per file: [id, ev: <<[e, o, p, c], ...>>].  This module replays every   *)
(* recorded sequence through the acceptor of EventProtocol.tla, one state  *)
(* per recorded event, and prints the verdict per trace (accepted, or the  *)
(* clause that rejects it and the number of events accepted before).       *)
(***************************************************************************)
EXTENDS Naturals, Sequences, TLC, Json, IOUtils, EventProtocol

Traces == ndJsonDeserialize(IOEnv.C01_TRACES)

VARIABLES tid, pos, st
vars == <<tid, pos, st>>

Init == tid = 1 /\ pos = 1 /\ st = Start
Consume ==
  /\ tid <= Len(Traces) /\ pos <= Len(Traces[tid].ev)
  /\ st' = Step(st, Traces[tid].ev[pos]) /\ pos' = pos + 1 /\ tid' = tid
EndOfTrace ==
  /\ tid <= Len(Traces) /\ pos > Len(Traces[tid].ev)
  /\ PrintT(<<"CASE", ToJson([id |-> Traces[tid].id, verdict |-> Final(st), accepted |-> st.n, events |-> Len(Traces[tid].ev)])>>)
  /\ tid' = tid + 1 /\ pos' = 1 /\ st' = Start
Next == Consume \/ EndOfTrace
Spec == Init /\ [][Next]_vars
\* the acceptor state stays well-formed: closed objects were announced as containers
Sane == st.closed \subseteq st.conts /\ st.conts \subseteq st.ann
=============================================================================
