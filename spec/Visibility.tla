----------------------------- MODULE Visibility -----------------------------
(***************************************************************************)
(* C01, last-but-one clause - "visibility predicates (public, private,     *)
(* special, imported, exported) follow the documented decision table".     *)
(*                                                                         *)
(* Shape T (decision table).  A *row* is the abstract situation of one     *)
(* object: the `public` field, what it is, the class of its name, what its *)
(* parent is, what the parent's `exports` looks like, whether the parent   *)
(* imported the name, the runtime flag.  Impl... transcribes               *)
(* _griffe/mixins.py (ObjectAliasMixin.is_* properties) statement by       *)
(* statement (parent-less objects included); Doc... is                     *)
(* the procedure as documented (docstrings of the properties,              *)
(* docs/guide/users/navigating.md "Object visibility", and the comments    *)
(* stating the intent of the module special case).  TLC enumerates every   *)
(* row, checks Impl = Doc on every row, and prints every row               *)
(* for the harness, which builds the situation with real objects.          *)
(***************************************************************************)
EXTENDS Naturals, Sequences, FiniteSets, TLC, Json

CONSTANTS Emit

Publics == {"none", "true", "false"}
Kinds == {"module", "class", "function", "attribute", "alias"}
NameClasses == {"plain", "_x", "__x", "__x__", "_x__"}      \* _x__: one leading underscore, dunder tail - private, not special
ParentKinds == {"none", "module", "class"}
\* parent.exports: None / [] / a list containing the name / a non-empty list without it
Exports == {"none", "empty", "lists", "omits"}

VARIABLES public, kind, nameclass, parent, exports, imported, runtime, pc, impl, doc
rowvars == <<public, kind, nameclass, parent, exports, imported, runtime>>
vars == <<rowvars, pc, impl, doc>>

Under == nameclass # "plain"     \* name.startswith("_")
IsAlias == kind = "alias"
IsModule == kind = "module"
ParentIsModule == parent = "module"
Listed == exports = "lists"      \* name in parent.exports

B2S(b) == IF b THEN "true" ELSE "false"
\* ---- transcription of mixins.py ------------------------------------------------------------------
ImplSpecial == nameclass = "__x__"                                   \* startswith("__") and endswith("__")
ImplPrivate == Under /\ ~ImplSpecial
ImplClassPrivate == parent # "none" /\ parent = "class" /\ nameclass = "__x"      \* self.parent and self.parent.is_class and ...
ImplImported == parent # "none" /\ imported                           \* self.parent and self.name in self.parent.imports
ImplExported ==                 \* bool(self.parent and self.parent.is_module and self.parent.exports and name in exports)
  B2S(parent # "none" /\ ParentIsModule /\ (exports \in {"lists", "omits"}) /\ Listed)
ImplWildcard ==
  IF ~runtime THEN "false"                                             \* `not self.runtime or not self.parent or ...`
  ELSE IF parent = "none" THEN "false"
  ELSE IF ~ParentIsModule THEN "false"                                 \* ... `not self.parent.is_module`
  ELSE IF exports # "none" THEN B2S(Listed)                            \* `exports is not None`
  ELSE IF Under THEN "false"
  ELSE B2S(IsAlias \/ ~IsModule \/ ImplImported)
ImplPublic ==
  IF public # "none" THEN public = "true"
  ELSE IF ~IsAlias /\ IsModule /\ ~Under THEN TRUE
  ELSE IF parent # "none" /\ ParentIsModule /\ exports # "none" THEN Listed                   \* self.parent.exports is not None
  ELSE IF ImplPrivate THEN FALSE
  ELSE IF ImplImported THEN FALSE
  ELSE TRUE
\* results are "true" / "false" / "AttributeError" (TLC cannot compare a boolean with a string)
S(b) == IF b THEN "true" ELSE "false"
Impl == [public |-> S(ImplPublic), private |-> S(ImplPrivate), special |-> S(ImplSpecial), class_private |-> S(ImplClassPrivate),
         imported |-> S(ImplImported), exported |-> ImplExported, wildcard |-> ImplWildcard]

\* ---- the documented table -------------------------------------------------------------------------
DefinesAll == ParentIsModule /\ exports # "none"        \* "the parent (module) defines __all__"
DocSpecial == nameclass = "__x__"                       \* "special name like __special__"
DocPrivate == nameclass \in {"_x", "__x", "_x__"}                \* "_private or __private, but not __special__"
DocClassPrivate == parent = "class" /\ nameclass = "__x" \* "class-private name like __private and is a member of a class"
DocImported == parent # "none" /\ imported               \* "was imported from another module" (name in parent's imports)
DocExported == ParentIsModule /\ Listed                  \* "exported (listed in __all__)"
DocWildcard ==     \* available at runtime; module as parent; listed in __all__ if defined, else not underscore-prefixed;
                   \* a submodule only if its parent imports it
  /\ runtime /\ ParentIsModule
  /\ IF DefinesAll THEN Listed
     ELSE ~Under /\ (IsAlias \/ ~IsModule \/ DocImported)
DocPublic ==       \* is_public docstring, in order; modules follow the underscore convention only (comment in the code)
  IF public # "none" THEN public = "true"
  ELSE IF ~IsAlias /\ IsModule /\ ~Under THEN TRUE
  ELSE IF ParentIsModule /\ Listed THEN TRUE             \* listed in its parent's (a module) __all__
  ELSE IF DefinesAll THEN FALSE                          \* parent defines __all__ and the object is not listed in
  ELSE IF DocPrivate THEN FALSE
  ELSE IF DocImported THEN FALSE
  ELSE TRUE
Doc == [public |-> S(DocPublic), private |-> S(DocPrivate), special |-> S(DocSpecial), class_private |-> S(DocClassPrivate),
        imported |-> S(DocImported), exported |-> S(DocExported), wildcard |-> S(DocWildcard)]

\* ---- rows ------------------------------------------------------------------------------------------
Init ==
  /\ public \in Publics /\ kind \in Kinds /\ nameclass \in NameClasses /\ parent \in ParentKinds
  /\ exports \in Exports /\ imported \in BOOLEAN /\ runtime \in BOOLEAN
  /\ (parent = "none" => kind = "module" /\ ~imported)     \* top-level modules; detached objects are not in a tree
  /\ (parent = "class" => kind # "module")
  /\ (parent # "module" => exports = "none")                \* only modules have __all__
  /\ pc = "row" /\ impl = <<>> /\ doc = <<>>
Evaluate == pc = "row" /\ pc' = "done" /\ impl' = Impl /\ doc' = Doc /\ UNCHANGED rowvars
Next == Evaluate
Spec == Init /\ [][Next]_vars

\* ---- the clause, per predicate (no known deviation is left: `__all__ = []` and parent-less objects were fixed) ----
Done == pc = "done"
PublicAsDocumented == Done => impl.public = doc.public
ExportedAsDocumented == Done => impl.exported = doc.exported
WildcardAsDocumented == Done => impl.wildcard = doc.wildcard
NamePredicatesAsDocumented ==
  Done => /\ impl.private = doc.private /\ impl.special = doc.special
          /\ impl.class_private = doc.class_private /\ impl.imported = doc.imported
\* private and special are mutually exclusive name classes; "special objects are always considered public" by name
Exclusive == Done => ~(impl.private = "true" /\ impl.special = "true")

EmitRow ==
  (Emit /\ Done) =>
    PrintT(<<"CASE", ToJson([public |-> public, kind |-> kind, nameclass |-> nameclass, parent |-> parent, exports |-> exports,
                             imported |-> imported, runtime |-> runtime, impl |-> impl, doc |-> doc,
                             class |-> (IF ParentIsModule /\ exports = "empty" THEN {"empty-all"} ELSE {}) \cup (IF parent = "none" THEN {"no-parent"} ELSE {})])>>)
=============================================================================
