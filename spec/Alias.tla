------------------------------- MODULE Alias -------------------------------
(***************************************************************************)
(* The alias graph of Griffe and Alias.resolve_target / final_target /     *)
(* members / get_member as an explicit CALL-STACK MACHINE (C05, C06).      *)
(*                                                                         *)
(* State (one record S so that a step is a pure operator S -> S):          *)
(*   coll     ModulesCollection.members: loaded top-level packages, in     *)
(*            loading order                                                *)
(*   mem      [module -> ordered dict  name -> object id]                  *)
(*   al       [alias id -> [tp: Alias.target_path, tgt: Alias._target,     *)
(*                          passed: Alias._passed_through, par: parent]]   *)
(*   brefs    [object id -> ordered dict  path -> alias]  (Object.aliases) *)
(*   exports  Module.exports   imports  Module.imports (key set)           *)
(*   stack    frames of the functions that are running; exc / ret: the     *)
(*            pending exception class / return value seen by the caller    *)
(*   nt       number of transient aliases created so far by Alias.members  *)
(*                                                                         *)
(* Frames of this module (one micro step = one statement group of the      *)
(* code; the statement is quoted next to each step):                       *)
(*   RT  Alias.resolve_target + _resolve_target   (_griffe/models.py)      *)
(*   FT  Alias.final_target  (loop with paths_seen; `sup`: the caller      *)
(*       swallows AliasResolutionError/CyclicAliasError: Alias.kind,       *)
(*       _update_target_aliases)                                           *)
(*   LK  ModulesCollection.get_member(path): walks members, crossing an    *)
(*       alias goes through Alias.members                                  *)
(*   MB  Alias.members: final_target, then one fresh Alias per member of   *)
(*       the target whose constructor dereferences the member              *)
(* Exception classes: "KEY" KeyError, "ARE" AliasResolutionError, "CYC"    *)
(* CyclicAliasError, "OTHER" anything else (must be unreachable).          *)
(***************************************************************************)
EXTENDS PkgUniverse

CONSTANTS TraceOn,    \* TRUE: S.hist records every call of a tapped function (trace validation)
          Old         \* model-only regression switch: names of FIXED defects whose old behaviour is transcribed instead of the
                      \* current code ({}: the current code).  "bindfirst": _resolve_target bound _target before registering on
                      \* the final target.  (Loader.tla: "starpath", "expwild", "sideload", "wildcycle")

\* ---- ordered dictionaries (sequences of [n, o]) -----------------------------------------------------
Has(mm, n) == \E k \in 1..Len(mm) : mm[k].n = n
Get(mm, n) == mm[CHOOSE k \in 1..Len(mm) : mm[k].n = n].o
Put(mm, n, o) ==        \* d[n] = o : an existing key keeps its position
  IF Has(mm, n) THEN [k \in 1..Len(mm) |-> IF mm[k].n = n THEN [n |-> n, o |-> o] ELSE mm[k]]
  ELSE Append(mm, [n |-> n, o |-> o])
Del(mm, n) == SelectSeq(mm, LAMBDA e : e.n # n)

IsAl(S, o) == o \in DOMAIN S.al
MembersOf(S, o) == IF IsModId(o) THEN S.mem[o.m] ELSE <<>>       \* Object.members (functions/attributes: empty)
NameOf(o) == IF IsModId(o) THEN Leaf(o.m) ELSE o.n
\* lineno / alias_lineno (None -> 0).  Aliases built by expand_wildcards carry line + 100 in their identity so that they
\* never coincide with the visitor's alias of the same name and line (a star import can bring in a member that is
\* named like the star's own pseudo member)
ObjLine(o) == IF IsModId(o) \/ IsTrans(o) \/ o = Nil THEN 0 ELSE o.l % 100

RECURSIVE PathOfF(_, _, _)
PathOfF(S, o, fuel) ==       \* Object.path / Alias.path
  IF IsModId(o) THEN PP(o.m)
  ELSE IF IsTrans(o) THEN (IF fuel = 0 THEN <<"?">> ELSE PathOfF(S, S.al[o].par, fuel - 1) \o <<o.n>>)
  ELSE PP(o.m) \o <<o.n>>
PathOf(S, o) == PathOfF(S, o, 4)

\* final target along already-bound links only (no side effect): Nil when a link is unbound or the chain loops
RECURSIVE FinalOfF(_, _, _)
FinalOfF(S, o, fuel) ==
  IF o = Nil THEN Nil
  ELSE IF ~IsAl(S, o) THEN o
  ELSE IF fuel = 0 THEN Nil ELSE FinalOfF(S, S.al[o].tgt, fuel - 1)
FinalOf(S, o) == FinalOfF(S, o, 8)
\* does the chain of bound links starting at o stop at an UNBOUND alias?  (a fully bound loop does not: dereferencing it
\* reports CyclicAliasError, which the property allows)
RECURSIVE HitsUnboundF(_, _, _)
HitsUnboundF(S, o, fuel) ==
  IF o = Nil THEN TRUE
  ELSE IF ~IsAl(S, o) THEN FALSE
  ELSE IF fuel = 0 THEN FALSE ELSE HitsUnboundF(S, S.al[o].tgt, fuel - 1)
HitsUnbound(S, o) == HitsUnboundF(S, o, 10)

NewAlias(tp, par) == [tp |-> tp, tgt |-> Nil, passed |-> FALSE, par |-> par]

\* ---- frames ------------------------------------------------------------------------------------------
Fr(f, a) == [f |-> f, a |-> a, st |-> "enter", i |-> 1, j |-> 1, cur |-> Nil, x |-> Nil, q |-> <<>>, r |-> <<>>, set |-> {}, sup |-> FALSE,
             ext |-> FALSE]      \* ext: the `external` argument of expand_wildcards (TRUE: load unknown packages)
FrSup(f, a) == [Fr(f, a) EXCEPT !.sup = TRUE]
FrLK(parts) == [Fr("LK", Nil) EXCEPT !.q = parts]

TopF(S) == S.stack[Len(S.stack)]
Popped(S) == SubSeq(S.stack, 1, Len(S.stack) - 1)
ReplLast(s, v) == [s EXCEPT ![Len(s)] = v]
Return(S, v) == [S EXCEPT !.stack = Popped(S), !.ret = v, !.exc = ""]
Throw(S, e) ==      \* raise e out of the top frame (a `sup` frame's caller swallows the two alias errors)
  IF TopF(S).sup /\ e \in {"ARE", "CYC"}
  THEN [S EXCEPT !.stack = Popped(S), !.ret = Nil, !.exc = ""]
  ELSE [S EXCEPT !.stack = Popped(S), !.ret = Nil, !.exc = e]
SetTop(S, fr) == [S EXCEPT !.stack = ReplLast(S.stack, fr), !.exc = "", !.ret = Nil]
Tapped == {"EE", "EW", "RM", "RT", "RA", "LD"}
CallF(S, fr, callee) ==
  [S EXCEPT !.stack = Append(ReplLast(S.stack, fr), callee), !.exc = "", !.ret = Nil,
            !.hist = IF TraceOn /\ S.log /\ callee.f \in Tapped THEN Append(@, <<callee.f, PathOfF(S, callee.a, 4)>>) ELSE @]

\* target.aliases[alias.path] = alias
AddRef(S, o, a) ==
  LET p == PathOf(S, a)
      cur == IF o \in DOMAIN S.brefs THEN S.brefs[o] ELSE <<>>
      new == IF \E k \in 1..Len(cur) : cur[k].p = p
             THEN [k \in 1..Len(cur) |-> IF cur[k].p = p THEN [p |-> p, a |-> a] ELSE cur[k]]
             ELSE Append(cur, [p |-> p, a |-> a])
  IN [S EXCEPT !.brefs = Upd(@, o, new)]
RefsOf(S, o) == IF o \in DOMAIN S.brefs THEN S.brefs[o] ELSE <<>>

\* ---- RT: Alias.resolve_target / _resolve_target ---------------------------------------------------------
RTBind(S, t, r) ==
  \* current code:   if self.parent is not None: resolved.aliases[self.path] = self     (aliases of an Alias = those of its final
  \*                 self._target = resolved                                             target: walks the chain, may raise)
  \* "bindfirst":    self._target = resolved ; if self.parent is not None: self._target.aliases[self.path] = self
  LET S1 == IF "bindfirst" \in Old THEN [S EXCEPT !.al[t.a].tgt = r] ELSE S IN
  IF IsAl(S, r) THEN CallF(S1, [t EXCEPT !.st = "bound", !.cur = r], Fr("FT", r))
  ELSE Return([AddRef(S1, r, t.a) EXCEPT !.al[t.a].passed = FALSE, !.al[t.a].tgt = r], Nil)

StepRT(S, t) ==
  LET a == t.a
      Clear(S1) == [S1 EXCEPT !.al[a].passed = FALSE]            \* finally: self._passed_through = False
  IN
  CASE t.st = "enter" ->
         \*   if self._passed_through: raise CyclicAliasError([self.target_path])
         \*   self._passed_through = True ; try: self._resolve_target()
         \*   resolved = self.modules_collection.get_member(self.target_path)
         IF S.al[a].passed THEN Throw(S, "CYC")
         ELSE CallF([S EXCEPT !.al[a].passed = TRUE], [t EXCEPT !.st = "lk"], FrLK(S.al[a].tp))
    [] t.st = "lk" ->
         \*   except KeyError as error: raise AliasResolutionError(self) from error
         IF S.exc = "KEY" THEN Throw([Clear(S) EXCEPT !.erra = a], "ARE")        \* error.alias = self
         ELSE IF S.exc # "" THEN Throw(Clear(S), S.exc)
         ELSE LET r == S.ret IN
              \*   if resolved is self: raise CyclicAliasError([self.target_path])
              IF r = a THEN Throw(Clear(S), "CYC")
              \*   if resolved.is_alias and not resolved.resolved: resolved.resolve_target()
              ELSE IF IsAl(S, r) /\ S.al[r].tgt = Nil THEN CallF(S, [t EXCEPT !.st = "rec", !.cur = r], Fr("RT", r))
              ELSE RTBind(S, t, r)
    [] t.st = "rec" ->
         \*   except CyclicAliasError as error: raise CyclicAliasError([self.target_path, *error.chain])
         IF S.exc # "" THEN Throw(Clear(S), S.exc) ELSE RTBind(S, t, t.cur)
    [] t.st = "bound" ->
         \* the back-reference lives on the FINAL target.  Current code: an error here leaves the alias unresolved;
         \* "bindfirst": self._target was already set
         IF S.exc # "" THEN Throw(Clear(S), S.exc)
         ELSE Return(Clear([AddRef(S, S.ret, a) EXCEPT !.al[a].tgt = t.cur]), Nil)
    [] OTHER -> Throw(S, "OTHER")

\* ---- FT: Alias.final_target ------------------------------------------------------------------------------
FTLoop(S, t) ==
  \*   while target.is_alias:
  \*       if target.path in paths_seen: raise CyclicAliasError([*paths_seen, target.path])
  \*       paths_seen[target.path] = None
  \*       target = target.target            (Alias.target: `if not self.resolved: self.resolve_target()`)
  LET c == t.cur IN
  IF ~IsAl(S, c) THEN Return(S, c)
  ELSE IF PathOf(S, c) \in t.set THEN Throw(S, "CYC")
  ELSE LET t1 == [t EXCEPT !.set = @ \cup {PathOf(S, c)}] IN
       IF S.al[c].tgt = Nil THEN CallF(S, [t1 EXCEPT !.st = "wait"], Fr("RT", c))
       ELSE SetTop(S, [t1 EXCEPT !.st = "loop", !.cur = S.al[c].tgt])

StepFT(S, t) ==
  CASE t.st = "enter" -> FTLoop(S, [t EXCEPT !.cur = t.a])
    [] t.st = "loop" -> FTLoop(S, t)
    [] t.st = "wait" -> IF S.exc # "" THEN Throw(S, S.exc)
                        ELSE SetTop(S, [t EXCEPT !.st = "loop", !.cur = S.al[t.cur].tgt])
    [] OTHER -> Throw(S, "OTHER")

\* ---- MB: Alias.members -----------------------------------------------------------------------------------
\*   final_target = self.final_target
\*   return {name: Alias(name, target=member, parent=self) for name, member in final_target.members.items()}
\* Alias.__init__ with an object target calls _update_target_aliases():
\*   with suppress(AttributeError, AliasResolutionError, CyclicAliasError): self._target.aliases[self.path] = self
\* which, for a member that is itself an alias, walks that member's final_target (resolving it).
NextAliasIdx(S, mm, i) ==
  LET c == {k \in i..Len(mm) : IsAl(S, mm[k].o)} IN IF c = {} THEN 0 ELSE CHOOSE k \in c : \A j \in c : k <= j

StepMB(S, t) ==
  CASE t.st = "enter" -> CallF(S, [t EXCEPT !.st = "ft"], Fr("FT", t.a))
    [] t.st = "ft" -> IF S.exc # "" THEN Throw(S, S.exc) ELSE SetTop(S, [t EXCEPT !.st = "sib", !.cur = S.ret, !.i = 1])
    [] t.st = "sib" ->
         IF S.exc # "" THEN Throw(S, S.exc)
         ELSE LET mm == MembersOf(S, t.cur)
                  k == NextAliasIdx(S, mm, t.i)
              IN IF k = 0 THEN Return(S, t.cur)
                 ELSE CallF(S, [t EXCEPT !.i = k + 1], FrSup("FT", mm[k].o))
    [] OTHER -> Throw(S, "OTHER")

\* ---- LK: ModulesCollection.get_member(parts) -----------------------------------------------------------------
\*   parts = _get_parts(key) ; if len(parts) == 1: return self.members[parts[0]]
\*   return self.members[parts[0]].get_member(parts[1:])
StepLK(S, t) ==
  LET parts == t.q IN
  CASE t.st = "enter" ->
         IF \E k \in 1..Len(S.coll) : S.coll[k] = parts[1]
         THEN SetTop(S, [t EXCEPT !.st = "walk", !.cur = ModId(parts[1]), !.i = 2])
         ELSE Throw(S, "KEY")
    [] t.st = "walk" ->
         IF t.i > Len(parts) THEN Return(S, t.cur)
         ELSE LET c == t.cur  nm == parts[t.i] IN
              IF IsAl(S, c) THEN CallF(S, [t EXCEPT !.st = "mb"], Fr("MB", c))
              ELSE IF IsModId(c) /\ Has(S.mem[c.m], nm) THEN SetTop(S, [t EXCEPT !.cur = Get(S.mem[c.m], nm), !.i = @ + 1])
              ELSE Throw(S, "KEY")
    [] t.st = "mb" ->
         IF S.exc # "" THEN Throw(S, S.exc)
         ELSE LET nm == parts[t.i]  mm == MembersOf(S, S.ret) IN
              IF Has(mm, nm)
              THEN LET T == [m |-> "~", n |-> nm, l |-> S.nt + 1]
                       tg == Get(mm, nm)
                   IN SetTop([S EXCEPT !.nt = @ + 1,
                                       !.al = Upd(@, T, [tp |-> PathOf(S, tg), tgt |-> tg, passed |-> FALSE, par |-> t.cur])],
                             [t EXCEPT !.st = "walk", !.cur = T, !.i = @ + 1])
              ELSE Throw(S, "KEY")
    [] OTHER -> Throw(S, "OTHER")

AliasStep(S, t) ==
  CASE t.f = "RT" -> StepRT(S, t)
    [] t.f = "FT" -> StepFT(S, t)
    [] t.f = "MB" -> StepMB(S, t)
    [] t.f = "LK" -> StepLK(S, t)
    [] OTHER -> Throw(S, "OTHER")

\* ---- invariants of the machine (C06) ---------------------------------------------------------------------
\* _passed_through is TRUE exactly for the aliases whose resolve_target frame is on the stack past its entry
\* (so: stack empty => no flag left set, whatever exception unwound the stack)
PassedIffOnStack(S) ==
  \A a \in DOMAIN S.al :
    S.al[a].passed <=> \E k \in 1..Len(S.stack) : S.stack[k].f = "RT" /\ S.stack[k].a = a /\ S.stack[k].st # "enter"
\* one resolve_target activation per alias at a time: the recursion depth is bounded by the number of aliases
NoReentrantRT(S) ==
  \A k1, k2 \in 1..Len(S.stack) :
    (k1 # k2 /\ S.stack[k1].f = "RT" /\ S.stack[k2].f = "RT" /\ S.stack[k1].st # "enter" /\ S.stack[k2].st # "enter")
      => S.stack[k1].a # S.stack[k2].a
=============================================================================
