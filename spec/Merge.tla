-------------------------------- MODULE Merge --------------------------------
(***************************************************************************)
(* C19 - merging stubs loses nothing and prefers stub types.               *)
(*                                                                         *)
(* Shape T + P.  A *case* is a pair of module trees (runtime R, stubs S)   *)
(* over the names a, b (classes carry the inner names u, v), described by  *)
(* two *cells* and the module docstring mode.  For every case the machine  *)
(* below is run once per (placement, discovery order, request form) - 17 in *)
(* behaviour - and follows the code statement by statement:                *)
(*   finder.find_spec (stubs package lookup)     FindSpec                  *)
(*   loader._load_module_path / _load_submodule  LoadFirst, LoadSecond     *)
(*   mixins.set_member (implicit merge)          CatchSet                  *)
(*   loader._load_package (explicit merge)       MergeTop, CatchTop        *)
(*   merger._merge_module_stubs/_class_stubs     MergeScope                *)
(*   merger._merge_stubs_docstring               Doc                       *)
(*   merger._merge_stubs_overloads               Ovl, OvlItem              *)
(*   merger._merge_stubs_members                 Mem, MemItem              *)
(*   merger._merge_function_stubs/_attribute_    Fun, Attr                 *)
(*   `with suppress(AliasResolutionError, ..)`   Catch                     *)
(* Objects live in a heap (identity matters: a stub-only member is MOVED   *)
(* into the runtime tree, the second merge pass of _load_package then      *)
(* merges it with itself).  Every place where the code touches an Alias in *)
(* a way that calls resolve_target is an explicit dereference with outcome *)
(* (variable derefs).  RefTree is the declarative reading of the property; *)
(* the clauses are evaluated per run when the run is projected.            *)
(***************************************************************************)
EXTENDS Naturals, Sequences, FiniteSets, TLC, Json

CONSTANTS Dom,      \* which slice of the case space Init enumerates
          Guard,    \* TRUE: clauses are asserted on clean cases only (defect classes documented apart)
          Only,     \* "" or a defect tag: Init keeps only cases carrying that tag (defect configs)
          Legacy,   \* subset of {"kindderef","ovlset","nofunovl","selfmerge"}: statements of merger.py BEFORE the four fix
                    \* commits, re-enabled in the model only (regression config Merge_defect.cfg); {} = the code as it is
          Emit

B == BOOLEAN
Nil == <<"nil">>
Top == <<"a", "b">>
Inner == <<"u", "v">>
MemNames == {"a", "b", "u", "v"}

\* ---- object identities -----------------------------------------------------------------------
\* <<tree, top, inner>>: <<"R","","">> the runtime module, <<"S","a","u">> the stub member a.u,
\* <<"T","fn_a","">> ... the objects of the already loaded module `tgt` aliases may point to.
ModR == <<"R", "", "">>
ModS == <<"S", "", "">>
Child(id, n) == IF id[2] = "" THEN <<id[1], n, "">> ELSE <<id[1], id[2], n>>
TNames == {"fn_a", "fn_b", "Kl_a", "Kl_b", "at_a", "at_b"}
Ids == {<<t, "", "">> : t \in {"R", "S"}}
         \cup {<<t, n, "">> : t \in {"R", "S"}, n \in {"a", "b"}}
         \cup {<<t, n, i>> : t \in {"R", "S"}, n \in {"a", "b"}, i \in {"u", "v"}}
         \cup {<<"T", n, "">> : n \in TNames}
         \cup {<<"T", n, i>> : n \in {"Kl_a", "Kl_b"}, i \in {"u", "v"}}

\* target paths of aliases -> object (the modules collection lookup of Alias._resolve_target)
TgtId == [tp \in {"tgt.fn_a", "tgt.fn_b", "tgt.Kl_a", "tgt.Kl_b", "tgt.at_a", "tgt.at_b"} |->
            CASE tp = "tgt.fn_a" -> <<"T", "fn_a", "">> [] tp = "tgt.fn_b" -> <<"T", "fn_b", "">>
              [] tp = "tgt.Kl_a" -> <<"T", "Kl_a", "">> [] tp = "tgt.Kl_b" -> <<"T", "Kl_b", "">>
              [] tp = "tgt.at_a" -> <<"T", "at_a", "">> [] OTHER -> <<"T", "at_b", "">>]
Resolvable(tp) == tp \in DOMAIN TgtId
FnPath == [a |-> "tgt.fn_a", b |-> "tgt.fn_b"]
KlPath == [a |-> "tgt.Kl_a", b |-> "tgt.Kl_b"]
AtPath == [a |-> "tgt.at_a", b |-> "tgt.at_b"]

\* ---- objects ---------------------------------------------------------------------------------
NoPar == [p |-> "absent", q |-> "absent", r |-> "absent"]
NoMem == [n \in MemNames |-> Nil]
NoOvd == [n \in MemNames |-> <<>>]
Blank == [k |-> "absent", rt |-> TRUE, doc |-> "none", ann |-> "none", par |-> NoPar, ret |-> "none",
          ovl |-> <<>>, mem |-> NoMem, ord |-> <<>>, ovd |-> NoOvd, tp |-> "", tgt |-> "nil"]
Fn(doc, a, ret, ovl, shape) ==      \* shape: parameters (p, q) / (p, r) / none at all
  [Blank EXCEPT !.k = "function", !.doc = doc, !.ret = ret, !.ovl = ovl,
                !.par = CASE shape = "pq" -> [p |-> a, q |-> a, r |-> "absent"]
                          [] shape = "pr" -> [p |-> a, q |-> "absent", r |-> a]
                          [] OTHER -> NoPar]
At(doc, a) == [Blank EXCEPT !.k = "attribute", !.doc = doc, !.ann = a]
Al(tp) == [Blank EXCEPT !.k = "alias", !.tp = tp]
Tag(bit, t) == IF bit THEN t ELSE "none"
OV == <<"O1", "O2">>     \* the two @overload signatures of a stub function
QV == <<"Q1", "Q2">>     \* the two @overload signatures of a runtime function

\* ---- cells -----------------------------------------------------------------------------------
RDef == [rk |-> "abs", rdoc |-> TRUE, rann |-> TRUE, rpar |-> "two", rov |-> FALSE, irk |-> "abs", ibare |-> FALSE,
         rtg |-> FALSE]     \* rtg: declared under `if TYPE_CHECKING:` in the runtime module (visitor: runtime = FALSE)
SDef == [sk |-> "abs", sdoc |-> TRUE, sann |-> TRUE, sret |-> TRUE, spar |-> "same", sov |-> FALSE, isk |-> "abs"]
IRK == {"abs", "fun", "att", "cls", "al_ext", "al_fun"}
ISK == {"abs", "fun", "att", "cls", "al", "al_fun", "ovo"}   \* al: import from a module that is not loaded; al_fun: from `tgt`
RSide ==
  {RDef}
  \cup {[RDef EXCEPT !.rk = "cls", !.rdoc = d, !.irk = i, !.ibare = x] :
           d \in B, i \in IRK, x \in B}
  \cup {[RDef EXCEPT !.rk = "fun", !.rdoc = d, !.rann = a, !.rov = o, !.rpar = n] :
           d \in B, a \in B, o \in B, n \in {"two", "none"}}
  \cup {[RDef EXCEPT !.rk = "att", !.rdoc = d, !.rann = a] : d \in B, a \in B}
  \cup {[RDef EXCEPT !.rk = k] : k \in {"al_ext", "al_fun", "al_cls", "al_att"}}
  \cup {[RDef EXCEPT !.rk = "cls", !.irk = i, !.rtg = TRUE] : i \in IRK}       \* type-guarded runtime members
  \cup {[RDef EXCEPT !.rk = k, !.rtg = TRUE] : k \in {"fun", "att"}}
SSide ==
  {SDef}
  \cup {[SDef EXCEPT !.sk = "cls", !.sdoc = d, !.isk = i] : d \in B, i \in ISK}
  \cup {[SDef EXCEPT !.sk = "fun", !.sdoc = d, !.sann = a, !.sret = r, !.spar = p, !.sov = o] :
           d \in B, a \in B, r \in B, p \in {"same", "diff", "none"}, o \in B}
  \cup {[SDef EXCEPT !.sk = "att", !.sdoc = d, !.sann = a] : d \in B, a \in B}
  \cup {[SDef EXCEPT !.sk = k] : k \in {"al", "al_fun", "ovo"}}
RIsDef(r) == r = [RDef EXCEPT !.rk = r.rk]
SIsDef(s) == s = [SDef EXCEPT !.sk = s.sk]
Interacts(rk, sk) ==
  \/ rk = "abs" /\ sk # "abs"
  \/ sk = "abs" /\ rk # "abs"
  \/ rk \in {"fun", "al_fun"} /\ sk \in {"fun", "ovo"}
  \/ rk \in {"att", "al_att"} /\ sk = "att"
  \/ rk \in {"cls", "al_cls"} /\ sk = "cls"
Mk(r, s) == [rk |-> r.rk, rtg |-> r.rtg, rdoc |-> r.rdoc, rann |-> r.rann, rpar |-> r.rpar, rov |-> r.rov, irk |-> r.irk, ibare |-> r.ibare,
             sk |-> s.sk, sdoc |-> s.sdoc, sann |-> s.sann, sret |-> s.sret, spar |-> s.spar, sov |-> s.sov, isk |-> s.isk]
\* canonical cells: bits that cannot matter are pinned to their defaults
Canon(r, s) ==
  /\ (r.ibare => r.irk \in {"fun", "att", "cls"})
  /\ (~Interacts(r.rk, s.sk) => RIsDef(r) /\ SIsDef(s))
FullCells == {Mk(rs[1], rs[2]) : rs \in {x \in RSide \X SSide : Canon(x[1], x[2])}}
KindCells == {c \in FullCells : /\ ~c.rtg /\ c.rdoc /\ c.rann /\ c.rpar = "two" /\ ~c.rov /\ ~c.ibare
                                /\ c.sdoc /\ c.sann /\ c.sret /\ c.spar = "same" /\ ~c.sov}
AbsCell == Mk(RDef, SDef)

\* ---- the two trees of a case (what the visitor builds from the rendered files) ----------------
RInnerU(c) ==      \* runtime a.u / b.u
  LET bare == c.ibare IN
  CASE c.irk = "fun" -> Fn(Tag(~bare, "R"), Tag(~bare, "R"), Tag(~bare, "R"), <<>>, "pq")
    [] c.irk = "att" -> At(Tag(~bare, "R"), Tag(~bare, "R"))
    [] c.irk = "cls" -> [Blank EXCEPT !.k = "class", !.doc = Tag(~bare, "R")]
    [] c.irk = "al_ext" -> Al("nowhere.zz")
    [] OTHER -> Blank
SInnerU(c) ==
  CASE c.isk = "fun" -> Fn("S", "S", "S", <<>>, "pq")
    [] c.isk = "att" -> At("S", "S")
    [] c.isk = "cls" -> [Blank EXCEPT !.k = "class", !.doc = "S"]
    [] c.isk = "al" -> Al("elsewhere.yy")
    [] OTHER -> Blank                                  \* abs, ovo: no member u
ClassMem(id, hasU) == [NoMem EXCEPT !["u"] = IF hasU THEN Child(id, "u") ELSE Nil, !["v"] = Child(id, "v")]
ClassOrd(hasU) == IF hasU THEN <<"u", "v">> ELSE <<"v">>

RObj(c, n) ==
  LET id == <<"R", n, "">> IN
  CASE c.rk = "cls" -> [Blank EXCEPT !.k = "class", !.doc = Tag(c.rdoc, "R"),
                          !.mem = ClassMem(id, c.irk # "abs"), !.ord = ClassOrd(c.irk # "abs")]
    [] c.rk = "fun" -> Fn(Tag(c.rdoc, "R"), Tag(c.rann, "R"), Tag(c.rann, "R"), IF c.rov THEN QV ELSE <<>>, IF c.rpar = "two" THEN "pq" ELSE "none")
    [] c.rk = "att" -> At(Tag(c.rdoc, "R"), Tag(c.rann, "R"))
    [] c.rk = "al_ext" -> Al("nowhere.zz")
    [] c.rk = "al_fun" -> Al(FnPath[n])
    [] c.rk = "al_cls" -> Al(KlPath[n])
    [] c.rk = "al_att" -> Al(AtPath[n])
    [] OTHER -> Blank
SObj(c, n) ==
  LET id == <<"S", n, "">>
      hasU == c.isk \notin {"abs", "ovo"} IN
  CASE c.sk = "cls" -> [Blank EXCEPT !.k = "class", !.doc = Tag(c.sdoc, "S"),
                          !.mem = ClassMem(id, hasU), !.ord = ClassOrd(hasU),
                          !.ovd = IF c.isk = "ovo" THEN [NoOvd EXCEPT !["u"] = OV] ELSE NoOvd]
    [] c.sk = "fun" -> Fn(Tag(c.sdoc, "S"), Tag(c.sann, "S"), Tag(c.sret, "S"), IF c.sov THEN OV ELSE <<>>,
                         CASE c.spar = "same" -> "pq" [] c.spar = "diff" -> "pr" [] OTHER -> "none")
    [] c.sk = "att" -> At(Tag(c.sdoc, "S"), Tag(c.sann, "S"))
    [] c.sk = "al" -> Al("elsewhere.yy")
    [] c.sk = "al_fun" -> Al(FnPath[n])               \* stub-side import of an object of the already loaded `tgt`
    [] OTHER -> Blank                                  \* abs, ovo
RHas(c) == c.rk # "abs"
SHas(c) == c.sk \notin {"abs", "ovo"}

ModObj(tree, has, doc, ovd) ==
  [Blank EXCEPT !.k = "module", !.doc = doc, !.ovd = ovd,
     !.mem = [NoMem EXCEPT !["a"] = IF has[1] THEN <<tree, "a", "">> ELSE Nil,
                           !["b"] = IF has[2] THEN <<tree, "b", "">> ELSE Nil],
     !.ord = (IF has[1] THEN <<"a">> ELSE <<>>) \o (IF has[2] THEN <<"b">> ELSE <<>>)]

TObj(id) ==
  CASE id[3] # "" -> Fn("T", "T", "T", <<>>, "pq")
    [] id[2] \in {"fn_a", "fn_b"} -> Fn("T", "T", "T", <<>>, "pq")
    [] id[2] \in {"at_a", "at_b"} -> At("T", "T")
    [] OTHER -> [Blank EXCEPT !.k = "class", !.doc = "T", !.mem = ClassMem(id, TRUE), !.ord = <<"u", "v">>]

\* everything a runtime module declares under `if TYPE_CHECKING:` is built with runtime = FALSE by the visitor
TG(c, o) == IF c.rtg /\ o.k # "absent" THEN [o EXCEPT !.rt = FALSE] ELSE o
InitHeap(ca, cb, md) ==
  [id \in Ids |->
     LET c == IF id[2] = "b" THEN cb ELSE ca IN
     CASE id[1] = "T" -> TObj(id)
       [] id = ModR -> ModObj("R", <<RHas(ca), RHas(cb)>>, Tag(md \in {"both", "rt"}, "R"), NoOvd)
       [] id = ModS -> ModObj("S", <<SHas(ca), SHas(cb)>>, Tag(md \in {"both", "st"}, "S"),
                              [NoOvd EXCEPT !["a"] = IF ca.sk = "ovo" THEN OV ELSE <<>>,
                                            !["b"] = IF cb.sk = "ovo" THEN OV ELSE <<>>])
       [] id[1] = "R" /\ id[3] = "" -> TG(c, RObj(c, id[2]))
       [] id[1] = "S" /\ id[3] = "" -> SObj(c, id[2])
       [] id[1] = "R" /\ id[3] = "u" -> IF c.rk = "cls" THEN TG(c, IF c.irk = "al_fun" THEN Al(FnPath[id[2]]) ELSE RInnerU(c)) ELSE Blank
       [] id[1] = "S" /\ id[3] = "u" -> IF c.sk = "cls" THEN (IF c.isk = "al_fun" THEN Al(FnPath[id[2]]) ELSE SInnerU(c)) ELSE Blank
       [] id[1] = "R" -> IF c.rk = "cls" THEN TG(c, Fn("R", "R", "R", <<>>, "pq")) ELSE Blank   \* v
       [] OTHER -> IF c.sk = "cls" THEN Fn("S", "S", "S", <<>>, "pq") ELSE Blank]          \* v

\* ---- the runs ----------------------------------------------------------------------------------
Places == <<"sub", "top", "init", "spkg", "ssub">>
Orders == <<"rt", "st">>
\* request form of griffe.load(objspec): the top-level name, the dotted path to the module, the dotted path to an
\* object in it (for a top-level module the first two coincide)
Forms(p) == IF p \in {"sub", "ssub"} THEN <<"top", "mod", "obj">> ELSE <<"top", "obj">>
\* both listing orders for the top-level request; the dotted forms (resolved by find_spec before any directory is
\* listed) with the .py-first order
RunsOf(p) == <<[p |-> p, o |-> "rt", r |-> "top"], [p |-> p, o |-> "st", r |-> "top"]>>
               \o [i \in 1..(Len(Forms(p)) - 1) |-> [p |-> p, o |-> "rt", r |-> Forms(p)[i + 1]]]
RunTable == RunsOf("sub") \o RunsOf("top") \o RunsOf("init") \o RunsOf("spkg") \o RunsOf("ssub")
NRuns == Len(RunTable)           \* 17 runs per case
PlaceOf(i) == RunTable[i].p
OrderOf(i) == RunTable[i].o
ReqOf(i) == RunTable[i].r
ModPath(p) == IF p \in {"sub", "ssub"} THEN <<"pkg", "mod">> ELSE <<"mod">>
StubsDir(p) == CASE p = "spkg" -> <<"mod", "-stubs">> [] p = "ssub" -> <<"pkg", "-stubs">> [] OTHER -> <<>>

VARIABLES cellA, cellB, mdoc,          \* the case
          run, heap, slot, ag, exc, err, raised, derefs, tr,   \* the current run (tr: merge steps entered, in order)
          results, pc
casevars == <<cellA, cellB, mdoc>>
vars == <<casevars, run, heap, slot, ag, exc, err, raised, derefs, tr, results, pc>>

Step(op, o, s, n) == [op |-> op, o |-> o, s |-> s, n |-> n]
Plain(op) == Step(op, Nil, Nil, "")
RunAgenda(i) ==
  <<Plain("FindSpec"), Plain("LoadFirst"), Plain("LoadSecond")>>
    \o (IF PlaceOf(i) = "sub" THEN <<>> ELSE <<Plain("MergeTop")>>)
    \o <<Plain("Project")>>
Head1 == ag[1]
Rest == Tail(ag)
At1(op) == pc = "run" /\ ag # <<>> /\ Head1.op = op
IsCatch(st) == st.op \in {"Catch", "CatchSet", "CatchTop"}
\* an exception propagates to the nearest enclosing handler (the agenda is the call stack, flattened)
RECURSIVE Unwind(_)
Unwind(a) == IF a = <<>> \/ IsCatch(a[1]) THEN a ELSE Unwind(Tail(a))

\* ---- projection (never dereferences an alias) ---------------------------------------------------
P(h, id) == LET o == h[id] IN
  [k |-> o.k, rt |-> o.rt, doc |-> o.doc, ann |-> o.ann, par |-> o.par, ret |-> o.ret, ovl |-> o.ovl,
   ovd |-> o.ovd, ord |-> o.ord, tp |-> o.tp, tgt |-> o.tgt]
PA == [k |-> "absent", rt |-> TRUE, doc |-> "none", ann |-> "none", par |-> NoPar, ret |-> "none", ovl |-> <<>>,
       ovd |-> NoOvd, ord |-> <<>>, tp |-> "", tgt |-> "nil"]
Leaf(h, m) == IF m = Nil THEN PA ELSE P(h, m)
Sub(h, m) == IF m = Nil THEN [self |-> PA, u |-> PA, v |-> PA]
             ELSE [self |-> P(h, m), u |-> Leaf(h, h[m].mem["u"]), v |-> Leaf(h, h[m].mem["v"])]
TreeOf(h, root) == [self |-> P(h, root), a |-> Sub(h, h[root].mem["a"]), b |-> Sub(h, h[root].mem["b"])]
EmptyTree == [self |-> PA, a |-> Sub(<<>>, Nil), b |-> Sub(<<>>, Nil)]
TgtOf(h) == [n \in TNames |-> Sub(h, <<"T", n, "">>)]

\* ---- reference: the merged tree the property demands (a function of the two trees only) ---------
Range(s) == {s[i] : i \in 1..Len(s)}
DocRule(r, s) == IF r.doc = "none" THEN s.doc ELSE r.doc          \* runtime docstring kept unless missing
ParOne(r, s, x) == IF r.par[x] # "absent" /\ s.par[x] # "absent" THEN s.par[x] ELSE r.par[x]
ParRule(r, s) == [p |-> ParOne(r, s, "p"), q |-> ParOne(r, s, "q"), r |-> ParOne(r, s, "r")]
MergeOrd(ro, so) == ro \o SelectSeq(so, LAMBDA n : n \notin Range(ro))   \* runtime members first, stub-only appended
RefLeaf(r, s, pend) ==      \* pend: the @overload signatures the stub scope holds for a name it does not define
  IF r.k = "absent" THEN (IF s.k = "absent" THEN PA ELSE [s EXCEPT !.rt = FALSE])
  ELSE IF r.k = "function" /\ s.k = "function"
    THEN [r EXCEPT !.doc = DocRule(r, s), !.par = ParRule(r, s), !.ret = s.ret,
                   !.ovl = IF s.ovl # <<>> THEN s.ovl ELSE r.ovl]
  ELSE IF r.k = "function" /\ s.k = "absent" /\ pend # <<>> THEN [r EXCEPT !.ovl = pend]
  ELSE IF r.k = "attribute" /\ s.k = "attribute" THEN [r EXCEPT !.doc = DocRule(r, s), !.ann = s.ann]
  ELSE IF r.k = "class" /\ s.k = "class" THEN [r EXCEPT !.doc = DocRule(r, s), !.ord = MergeOrd(r.ord, s.ord)]
  ELSE r                                                           \* kind mismatch / alias: untouched
RefSub(r, s, pend) ==
  IF r.self.k = "class" /\ s.self.k = "class"
    THEN [self |-> RefLeaf(r.self, s.self, pend),
          u |-> RefLeaf(r.u, s.u, s.self.ovd["u"]), v |-> RefLeaf(r.v, s.v, s.self.ovd["v"])]
  ELSE IF r.self.k = "absent" THEN [self |-> RefLeaf(r.self, s.self, pend), u |-> s.u, v |-> s.v]
  ELSE [self |-> RefLeaf(r.self, s.self, pend), u |-> r.u, v |-> r.v]
RefTree(pr, ps) ==
  [self |-> [pr.self EXCEPT !.doc = DocRule(pr.self, ps.self), !.ord = MergeOrd(pr.self.ord, ps.self.ord)],
   a |-> RefSub(pr.a, ps.a, ps.self.ovd["a"]), b |-> RefSub(pr.b, ps.b, ps.self.ovd["b"])]

VARIABLES preR, preS, ref, tgt0         \* computed once per case (TLC does not memoise operators)
allvars == <<vars, preR, preS, ref, tgt0>>

\* ---- clauses of the property, per run ------------------------------------------------------------
Coords == {<<n, f>> : n \in {"a", "b"}, f \in {"self", "u", "v"}}
N(t, c) == t[c[1]][c[2]]
Class(c) ==      \* how the two sides relate at a node
  LET n == c[1]  f == c[2]
      up == f # "self"
      pr == N(preR, c)  ps == N(preS, c)
      pend == IF up THEN preS[n].self.ovd[f] ELSE preS.self.ovd[n] IN
  IF up /\ preR[n].self.k = "absent" THEN (IF ps.k = "absent" THEN "absent" ELSE "moved")
  ELSE IF up /\ ~(preR[n].self.k = "class" /\ preS[n].self.k = "class") THEN (IF pr.k = "absent" THEN "absent" ELSE "other")
  ELSE IF pr.k = "absent" THEN (IF ps.k = "absent" THEN "absent" ELSE "stubonly")
  ELSE IF pr.k = ps.k /\ pr.k \in {"function", "attribute", "class"} THEN "same"
  ELSE IF pr.k = "function" /\ ps.k = "absent" /\ pend # <<>> THEN "same"
  ELSE "other"
Types(x) == <<x.par, x.ret, x.ann, x.ovl>>
Clauses(t, file, tg, er, rs, dr) ==
  [keep   |-> file = "R" /\ \A c \in Coords : N(preR, c).k # "absent" => N(t, c).k = N(preR, c).k,
   types  |-> \A c \in Coords : Class(c) = "same" => Types(N(t, c)) = Types(N(ref, c)),
   doc    |-> t.self.doc = ref.self.doc /\ \A c \in Coords : Class(c) = "same" => N(t, c).doc = N(ref, c).doc,
   added  |-> \A c \in Coords : Class(c) \in {"stubonly", "moved"} => N(t, c) = N(ref, c),
   untouched |-> \A c \in Coords : Class(c) = "other" => N(t, c) = N(preR, c),
   noresolve |-> /\ \A c \in Coords : N(t, c).tgt = N(ref, c).tgt
                 /\ tg = tgt0 /\ \A d \in dr : ~d.ok,
   noraise |-> er = "none" /\ ~rs,
   eqref  |-> t = ref /\ tg = tgt0]

\* ---- the machine ---------------------------------------------------------------------------------
UCx == UNCHANGED <<casevars, preR, preS, ref, tgt0, results, pc, run>>
UC == UCx /\ UNCHANGED tr
Enter(op, s) == tr' = Append(tr, [op |-> op, n |-> s[2], i |-> s[3]])   \* the merger function called, on which stub object
Keep(vs) == UNCHANGED vs

\* the objspec of this run: names, split on "."
ReqPath(i) ==
  CASE ReqOf(i) = "top" -> <<ModPath(PlaceOf(i))[1]>>
    [] ReqOf(i) = "mod" -> ModPath(PlaceOf(i))
    [] OTHER -> ModPath(PlaceOf(i)) \o (IF ref.self.ord = <<>> THEN <<>> ELSE <<ref.self.ord[1]>>)
FindSpec ==       \* ModuleFinder.find_spec: top_module_name = module.split(".", 1)[0]; with find_stubs_package (the
  /\ At1("FindSpec")   \* -stubs placements) stubs = find_package(top_module_name + "-stubs"), whatever the request form
  /\ LET wanted == PlaceOf(run) \in {"spkg", "ssub"}
         found == <<ReqPath(run)[1], "-stubs">> = StubsDir(PlaceOf(run)) IN
       ag' = IF wanted /\ ~found THEN <<Plain("LoadFirst"), Plain("Project")>> ELSE Rest   \* no stubs: runtime package only
  /\ UC /\ Keep(<<heap, slot, exc, err, raised, derefs>>)

LoadFirst ==      \* _load_module_path of the file met first (only a sub-module listing can meet the .pyi first)
  /\ At1("LoadFirst")
  /\ slot' = (IF PlaceOf(run) = "sub" /\ OrderOf(run) = "st" THEN "S" ELSE "R")
  /\ ag' = Rest /\ UC /\ Keep(<<heap, exc, err, raised, derefs>>)

LoadSecond ==     \* the other file: set_member on the parent / the collection finds a module already there
  /\ At1("LoadSecond")
  /\ IF PlaceOf(run) = "ssub"
       THEN ag' = Rest           \* pkg-stubs/mod.pyi becomes a member of the stubs top module: nothing to merge yet
       ELSE ag' = <<Step("MergeScope", ModR, ModS, ""), Step("CatchSet", Nil, Nil, IF slot = "R" THEN "S" ELSE "R")>> \o Rest
  /\ UC /\ Keep(<<heap, slot, exc, err, raised, derefs>>)

CatchSet ==       \* set_member: `with suppress(AliasResolutionError, ...)`: value = merge_stubs(member, value)
  /\ At1("CatchSet")
  /\ slot' = (IF exc THEN Head1.n ELSE "R")      \* merge raised: the value (second file) replaces the member
  /\ raised' = (raised \/ exc) /\ exc' = FALSE
  /\ ag' = Rest /\ UC /\ Keep(<<heap, err, derefs>>)

MergeTop ==       \* _load_package: return merge_stubs(top_module, stubs)
  /\ At1("MergeTop")
  /\ ag' = <<Step("MergeScope", ModR, ModS, ""),
             IF PlaceOf(run) = "ssub" THEN Plain("Catch") ELSE Plain("CatchTop")>> \o Rest
       \* ssub: the pair is reached as member `mod` of the two top modules, inside the member-level suppress
  /\ UC /\ Keep(<<heap, slot, exc, err, raised, derefs>>)

CatchTop ==       \* nothing catches around _load_package: load() raises
  /\ At1("CatchTop")
  /\ IF exc THEN err' = "AliasResolutionError" /\ ag' = <<Plain("Project")>> ELSE err' = err /\ ag' = Rest
  /\ raised' = (raised \/ exc) /\ exc' = FALSE
  /\ UC /\ Keep(<<heap, slot, derefs>>)

Catch ==          \* _merge_stubs_members: `with suppress(AliasResolutionError, CyclicAliasError)`
  /\ At1("Catch")
  /\ exc' = FALSE /\ ag' = Rest /\ UC /\ Keep(<<heap, slot, err, raised, derefs>>)

MergeScope ==     \* _merge_module_stubs / _merge_class_stubs
  /\ At1("MergeScope")
  /\ LET o == Head1.o  s == Head1.s IN
       /\ ag' = <<Step("Doc", o, s, ""), Step("Ovl", o, s, ""), Step("Mem", o, s, "")>> \o Rest
       /\ Enter(IF s[2] = "" THEN "module" ELSE "class", s)
  /\ UCx /\ Keep(<<heap, slot, exc, err, raised, derefs>>)

DocOf(o, s) == IF heap[o].doc = "none" /\ heap[s].doc # "none" THEN heap[s].doc ELSE heap[o].doc
Doc ==            \* _merge_stubs_docstring
  /\ At1("Doc")
  /\ heap' = [heap EXCEPT ![Head1.o].doc = DocOf(Head1.o, Head1.s)]
  /\ ag' = Rest /\ UC /\ Keep(<<slot, exc, err, raised, derefs>>)

ScopeNames(s) == IF s[2] = "" THEN Top ELSE Inner
Ovl ==            \* _merge_stubs_overloads: for function_name, overloads in list(stubs.overloads.items())
  /\ At1("Ovl")
  /\ LET o == Head1.o  s == Head1.s
         ns == SelectSeq(ScopeNames(s), LAMBDA n : heap[s].ovd[n] # <<>>) IN
       ag' = [i \in 1..Len(ns) |-> Step("OvlItem", o, s, ns[i])] \o Rest
  /\ UC /\ Keep(<<heap, slot, exc, err, raised, derefs>>)

Old(x) == x \in Legacy
OvlItem ==        \* member = obj.get_member(name); if (not alias or resolved) and kind is FUNCTION: member.overloads = ...
  /\ At1("OvlItem")               \* then del stubs.overloads[name]    (legacy "ovlset": assigned to whatever member there is)
  /\ LET o == Head1.o  s == Head1.s  n == Head1.n
         m == heap[o].mem[n]
         isal == IF m = Nil THEN FALSE ELSE heap[m].k = "alias"
         unres == isal /\ heap[m].tgt = "nil"
         ok == IF isal THEN Resolvable(heap[m].tp) ELSE TRUE
         legacy == Old("ovlset")
         e == IF isal /\ ok THEN TgtId[heap[m].tp] ELSE m IN
     /\ derefs' = IF legacy /\ unres THEN derefs \cup {[alias |-> n, site |-> "ovl", ok |-> ok]} ELSE derefs
     /\ IF m = Nil                       \* KeyError suppressed
          THEN heap' = [heap EXCEPT ![s].ovd[n] = <<>>] /\ ag' = Rest /\ exc' = exc
        ELSE IF ~legacy                  \* never dereferences, never raises, only functions receive overloads
          THEN /\ heap' = IF ~unres /\ heap[e].k = "function"
                            THEN [heap EXCEPT ![e].ovl = heap[s].ovd[n], ![s].ovd[n] = <<>>]
                            ELSE [heap EXCEPT ![s].ovd[n] = <<>>]
               /\ ag' = Rest /\ exc' = exc
        ELSE IF ~ok                      \* legacy: Alias.overloads setter -> final_target -> AliasResolutionError, not caught
          THEN heap' = heap /\ exc' = TRUE /\ ag' = Unwind(Rest)
        ELSE LET h1 == IF isal THEN [heap EXCEPT ![m].tgt = heap[m].tp] ELSE heap IN
             /\ heap' = [h1 EXCEPT ![e].ovl = heap[s].ovd[n], ![s].ovd[n] = <<>>]   \* legacy: whatever kind e has
             /\ ag' = Rest /\ exc' = exc
  /\ UC /\ Keep(<<slot, err, raised>>)

Mem ==            \* _merge_stubs_members: for member_name, stub_member in stubs.members.items()
  /\ At1("Mem")
  /\ LET o == Head1.o  s == Head1.s  ord == heap[s].ord IN
       ag' = [i \in 1..Len(ord) |-> Step("MemItem", o, s, ord[i])] \o Rest
  /\ UC /\ Keep(<<heap, slot, exc, err, raised, derefs>>)

MemItem ==
  /\ At1("MemItem")
  /\ LET o == Head1.o  s == Head1.s  n == Head1.n
         sm == heap[s].mem[n]
         om == heap[o].mem[n]
         isal == IF om = Nil THEN FALSE ELSE heap[om].k = "alias"
         unres == isal /\ heap[om].tgt = "nil"
         ok == IF isal THEN Resolvable(heap[om].tp) ELSE TRUE
         \* `if obj_member.is_alias and not obj_member.resolved: continue` comes first (fix d01b2c6): the kind test
         \* `obj_member.kind is not stub_member.kind` is only evaluated on objects and on already resolved aliases
         \* `if obj_member is stub_member: continue` (moved by a previous pass) comes before both
         tested == /\ om # Nil /\ heap[sm].k # "alias"
                   /\ (Old("selfmerge") \/ om # sm)
                   /\ (Old("kindderef") \/ ~unres)
         e == IF isal /\ ok THEN TgtId[heap[om].tp] ELSE om IN
     /\ derefs' = IF tested /\ unres THEN derefs \cup {[alias |-> n, site |-> "kind", ok |-> ok]} ELSE derefs
     /\ IF om = Nil                      \* stub-only: stub_member.runtime = False; obj.set_member(name, stub_member)
          THEN /\ heap' = [heap EXCEPT ![sm].rt = FALSE, ![o].mem[n] = sm, ![o].ord = Append(@, n)]
               /\ ag' = Rest
        ELSE IF ~tested \/ ~ok            \* imported stub object / moved member / unresolved runtime alias: continue
          THEN heap' = heap /\ ag' = Rest
        ELSE LET h1 == IF unres THEN [heap EXCEPT ![om].tgt = heap[om].tp] ELSE heap IN
             /\ heap' = h1
             /\ ag' = (IF heap[e].k # heap[sm].k THEN <<>>
                       ELSE IF heap[e].k = "class" THEN <<Step("MergeScope", e, sm, ""), Plain("Catch")>>
                       ELSE IF heap[e].k = "function" THEN <<Step("Fun", e, sm, "")>>
                       ELSE IF heap[e].k = "attribute" THEN <<Step("Attr", e, sm, "")>>
                       ELSE <<>>) \o Rest
  /\ UC /\ Keep(<<slot, exc, err, raised>>)

Fun ==            \* _merge_function_stubs
  /\ At1("Fun")
  /\ LET o == Head1.o  s == Head1.s
         one(x) == IF heap[s].par[x] # "absent" /\ heap[o].par[x] # "absent" THEN heap[s].par[x] ELSE heap[o].par[x] IN
       heap' = [heap EXCEPT ![o].doc = DocOf(o, s), ![o].par = [p |-> one("p"), q |-> one("q"), r |-> one("r")],
                            ![o].ret = heap[s].ret,
                            \* `if stubs.overloads: function.overloads = stubs.overloads` (absent in legacy "nofunovl")
                            ![o].ovl = IF heap[s].ovl # <<>> /\ ~Old("nofunovl") THEN heap[s].ovl ELSE heap[o].ovl]
  /\ Enter("fun", Head1.s)
  /\ ag' = Rest /\ UCx /\ Keep(<<slot, exc, err, raised, derefs>>)

Attr ==           \* _merge_attribute_stubs
  /\ At1("Attr")
  /\ heap' = [heap EXCEPT ![Head1.o].doc = DocOf(Head1.o, Head1.s), ![Head1.o].ann = heap[Head1.s].ann]
  /\ Enter("attr", Head1.s)
  /\ ag' = Rest /\ UCx /\ Keep(<<slot, exc, err, raised, derefs>>)

Project ==        \* end of griffe.load(): observe, then start the next (placement, order) from the same case
  /\ At1("Project")
  /\ LET t == IF err = "none" THEN TreeOf(heap, <<slot, "", "">>) ELSE EmptyTree
         tg == TgtOf(heap)
         cl == Clauses(t, slot, tg, err, raised, derefs) IN
       results' = Append(results, [place |-> PlaceOf(run), order |-> OrderOf(run), req |-> ReqOf(run), file |-> slot, err |-> err,
                                   raised |-> raised, derefs |-> derefs, cl |-> cl, trace |-> tr,
                                   tree |-> IF t = ref THEN <<>> ELSE <<t>>,      \* <<>>: equal to the reference
                                   tgt |-> IF tg = tgt0 THEN <<>> ELSE <<tg>>])
  /\ IF run < NRuns
       THEN /\ run' = run + 1 /\ pc' = pc /\ ag' = RunAgenda(run + 1)
            /\ heap' = InitHeap(cellA, cellB, mdoc)
       ELSE /\ run' = run /\ pc' = "done" /\ ag' = <<>> /\ heap' = heap
  /\ slot' = "nil" /\ exc' = FALSE /\ err' = "none" /\ raised' = FALSE /\ derefs' = {} /\ tr' = <<>>
  /\ UNCHANGED <<casevars, preR, preS, ref, tgt0>>

Next == \/ FindSpec \/ LoadFirst \/ LoadSecond \/ CatchSet \/ MergeTop \/ CatchTop \/ Catch \/ MergeScope
        \/ Doc \/ Ovl \/ OvlItem \/ Mem \/ MemItem \/ Fun \/ Attr \/ Project

\* ---- case space ----------------------------------------------------------------------------------
\* classes of cells on which the unchanged code is known to break a clause (documented, kept out of
\* the clean domain): see findings.d/C19.json
CellTags(c) ==       \* all empty for Legacy = {}: the four fix commits closed every class
  LET both == c.rk = "cls" /\ c.sk = "cls"
      live == {"cls", "fun", "att"} IN
  (IF Old("kindderef") /\ ((c.rk \in {"al_fun", "al_cls", "al_att"} /\ c.sk \in live) \/ (both /\ c.irk = "al_fun" /\ c.isk \in live))
     THEN {"alias"} ELSE {})         \* `obj_member.kind` on an unresolved runtime alias
  \cup (IF Old("ovlset") /\ ((c.rk \in {"al_fun", "al_cls", "al_att"} /\ c.sk = "ovo") \/ (both /\ c.irk = "al_fun" /\ c.isk = "ovo"))
          THEN {"aliaso"} ELSE {})    \* Alias.overloads setter on a resolvable alias
  \cup (IF Old("ovlset") /\ ((c.rk = "al_ext" /\ c.sk = "ovo") \/ (both /\ c.irk = "al_ext" /\ c.isk = "ovo")) THEN {"raise"} ELSE {})
  \cup (IF Old("nofunovl") /\ c.rk = "fun" /\ c.sk = "fun" /\ c.sov THEN {"sov"} ELSE {})
  \cup (IF Old("ovlset") /\ ((c.sk = "ovo" /\ c.rk \in {"cls", "att"}) \/ (both /\ c.isk = "ovo" /\ c.irk \in {"cls", "att"}))
          THEN {"ovomis"} ELSE {})
  \cup (IF Old("selfmerge") /\ c.rk = "abs" /\ c.sk = "cls" /\ c.isk = "ovo" THEN {"ovoself"} ELSE {})
Tags == CellTags(cellA) \cup CellTags(cellB)
CleanCase == Tags = {}

CtxCells == {c \in KindCells :
   \/ c.rk = "abs" /\ c.sk = "abs"
   \/ c.rk = "fun" /\ c.sk = "fun"
   \/ c.rk = "al_ext" /\ c.sk = "ovo"
   \/ c.rk = "abs" /\ c.sk = "cls" /\ c.isk = "fun"
   \/ c.rk = "cls" /\ c.sk = "cls" /\ c.irk = "fun" /\ c.isk = "fun"
   \/ c.rk = "fun" /\ c.sk = "ovo"
   \/ c.rk = "al_fun" /\ c.sk = "fun"}
Ctx4 == {c \in CtxCells : c.rk \in {"fun", "al_ext"} \/ (c.rk = "abs" /\ c.sk = "cls")}
Ctx6 == {c \in CtxCells : c.rk # "al_fun"}
TopKinds == {c \in KindCells : c.irk = "abs" /\ c.isk = "abs"}
\* the two names of a scope are declared a then b: every (cell, context) pair is taken in BOTH orders
BothOrders(X, Y) == (cellA \in X /\ cellB \in Y) \/ (cellA \in Y /\ cellB \in X)
FunFun == CHOOSE c \in KindCells : c.rk = "fun" /\ c.sk = "fun"
\* quick tier: the four groups of presence bits are varied one group at a time
Groups(c) == (IF c.rtg THEN 1 ELSE 0) + (IF ~c.rdoc \/ ~c.sdoc THEN 1 ELSE 0) + (IF ~c.rann \/ ~c.sann \/ ~c.sret \/ c.spar # "same" \/ c.rpar # "two" THEN 1 ELSE 0)
             + (IF c.rov \/ c.sov THEN 1 ELSE 0) + (IF c.irk # "abs" \/ c.isk # "abs" \/ c.ibare THEN 1 ELSE 0)
QuickCells == {c \in FullCells : Groups(c) <= 1}

Init ==
  /\ CASE Dom = "single" -> cellA \in FullCells /\ cellB = AbsCell /\ mdoc = "both"
       [] Dom = "defects" -> /\ cellA \in {CHOOSE c \in FullCells : CellTags(c) = {t} /\ c.rk # "cls" :
                                               t \in {"alias", "aliaso", "raise", "sov", "ovomis", "ovoself"}}
                             /\ cellB = AbsCell /\ mdoc = "both"
       [] Dom = "pair"   -> BothOrders(KindCells, CtxCells) /\ mdoc = "both"
       [] Dom = "mdoc"   -> cellA = FunFun /\ cellB \in {AbsCell, FunFun} /\ mdoc \in {"both", "rt", "st", "none"}
       [] Dom = "quick"  -> \/ cellA \in QuickCells /\ cellB = AbsCell /\ mdoc = "both"
                            \/ BothOrders(TopKinds, Ctx4) /\ mdoc = "both"
                            \/ cellA \in KindCells \ TopKinds /\ cellB \in Ctx4 /\ mdoc = "both"
                            \/ cellA = FunFun /\ cellB = AbsCell /\ mdoc \in {"rt", "st", "none"}
       [] Dom = "wide"   -> \/ cellA \in FullCells /\ cellB \in Ctx4 \cup {AbsCell} /\ mdoc = "both"
                            \/ BothOrders(KindCells, Ctx6) /\ mdoc = "both"
                            \/ cellA = FunFun /\ cellB \in Ctx6 /\ mdoc \in {"rt", "st", "none"}
       [] OTHER          -> cellA \in KindCells /\ cellB \in KindCells /\ mdoc = "both"    \* "kinds"
  /\ (Only # "" => Only \in Tags)
  /\ preR = TreeOf(InitHeap(cellA, cellB, mdoc), ModR)
  /\ preS = TreeOf(InitHeap(cellA, cellB, mdoc), ModS)
  /\ ref = RefTree(preR, preS)
  /\ tgt0 = TgtOf(InitHeap(cellA, cellB, mdoc))
  /\ run = 1 /\ heap = InitHeap(cellA, cellB, mdoc) /\ slot = "nil" /\ ag = RunAgenda(1)
  /\ exc = FALSE /\ err = "none" /\ raised = FALSE /\ derefs = {} /\ tr = <<>> /\ results = <<>> /\ pc = "run"

Spec == Init /\ [][Next]_allvars

\* ---- properties (the clauses of C19) -------------------------------------------------------------
Done == pc = "done"
Asserted == Guard => CleanCase
All(f) == Done /\ Asserted => \A i \in 1..Len(results) : results[i].cl[f]
KeepsRuntimeMembers == All("keep")
PrefersStubTypes    == All("types")
KeepsRuntimeDoc     == All("doc")
AddsStubOnly        == All("added")
MismatchUntouched   == All("untouched")
NeverResolves       == All("noresolve")
NeverRaises         == All("noraise")
EqualsReference     == All("eqref")
SameForAllOrdersAndPlacements ==
  Done /\ Asserted => \A i, j \in 1..Len(results) :
     /\ results[i].tree = results[j].tree /\ results[i].tgt = results[j].tgt /\ results[i].err = results[j].err
\* within one run exceptions never escape the handlers the agenda holds
\* regression config (Merge_defect.cfg: Legacy = all four, guard off, -continue): with the statements of merger.py from
\* before the fix commits the model must exhibit each old defect, i.e. TLC must REPORT these "invariants" violated
Shows(tag, f) == ~(Done /\ Tags = {tag} /\ \E i \in 1..Len(results) : ~results[i].cl[f])
DefectAliasResolved     == Shows("alias", "noresolve")
DefectOverloadsResolveAlias == Shows("aliaso", "noresolve")
DefectRaises            == Shows("raise", "noraise")
DefectStubOverloadsLost == Shows("sov", "types")
DefectOverloadsOnNonFunction == Shows("ovomis", "untouched")
DefectPlacementDependent ==
  ~(Done /\ Tags = {"ovoself"} /\ \E i, j \in 1..Len(results) : results[i].tree # results[j].tree)
NoLostException == (pc = "run" /\ exc) => (ag # <<>> /\ IsCatch(ag[1]))

ClassMap == [n \in {"a", "b"} |-> [f \in {"self", "u", "v"} |-> Class(<<n, f>>)]]
EmitCase ==
  (Emit /\ Done) =>
     PrintT(<<"CASE", ToJson([a |-> cellA, b |-> cellB, mdoc |-> mdoc, tags |-> Tags, ref |-> ref,
                              preR |-> preR, preS |-> preS, class |-> ClassMap, results |-> results])>>)
=============================================================================
