------------------------------ MODULE CliCheck ------------------------------
(***************************************************************************)
(* X06 - the command flow of `griffe check` (src/_griffe/cli.py: check).   *)
(*                                                                         *)
(* WHAT is compared is DiffTree.tla / DiffSig.tla (C10, C11); how a        *)
(* reference is checked out and cleaned up is GitWorktree.tla (C20).  This *)
(* module specifies the flow around them: which two versions are loaded    *)
(* for which argv (-a / latest tag; -b / working tree), how the breakages  *)
(* are rendered (-f beats -v; --color / --no-color beat FORCE_COLOR beat   *)
(* the tty test), where they go (stderr, never stdout) and the exit status *)
(* (0 no breakage, 1 breakages or extensions not loadable, 2 usage errors, *)
(* among them "no tag to compare against").                                *)
(* World (gverif/props/x06_world.py): a repository with package pk in a    *)
(* src layout, versions v1 < v2 < working tree whose public API shrinks;   *)
(* "notags": same history, branches instead of tags; "nogit": no repo.     *)
(***************************************************************************)
EXTENDS Naturals, Sequences, FiniteSets, TLC, Json

CONSTANTS Jobs

Default == [worlds |-> {"tags"}, againsts |-> {"v1"}, bases |-> {"unset"}, styles |-> {"unset"}, vs |-> {FALSE}, colors |-> {"unset"},
            fcs |-> {"unset"}, es |-> {"none"}, Ls |-> {"unset"}]
With(r, f, v) == [r EXCEPT ![f] = v]
AllStyles == {"unset", "oneline", "verbose", "markdown", "github", "bad"}
AllColors == {"unset", "color", "nocolor", "color.nocolor", "nocolor.color"}
JobOf(n) ==
  CASE n = "refs" ->   With(With(With(With(Default, "worlds", {"tags", "notags", "nogit"}), "againsts", {"unset", "v1", "v2", "bad"}),
                            "bases", {"unset", "v1", "v2", "bad"}), "es", {"none", "missing"})
    [] n = "style" ->  With(With(With(With(Default, "styles", AllStyles), "vs", BOOLEAN), "colors", AllColors), "fcs", {"unset", "1", "0"})
    [] n = "style2" -> With(With(With(With(With(With(Default, "againsts", {"v1", "v2"}), "bases", {"unset", "v2"}), "styles", AllStyles), "vs", BOOLEAN),
                            "colors", AllColors), "fcs", {"unset", "1", "0", "yes", "x"})
    [] n = "misc" ->   With(With(With(With(Default, "againsts", {"unset", "v1"}), "es", {"none", "file", "missing"}), "Ls", {"unset", "ERROR", "bad"}), "styles", {"unset", "bad", "github"})
    [] n = "full" ->   [worlds |-> {"tags", "notags", "nogit"}, againsts |-> {"unset", "v1", "v2", "bad"}, bases |-> {"unset", "v1", "v2", "bad"}, styles |-> AllStyles,
                        vs |-> BOOLEAN, colors |-> AllColors, fcs |-> {"unset", "1", "0", "yes", "x"}, es |-> {"none", "file", "missing"}, Ls |-> {"unset", "ERROR", "bad"}]
    [] OTHER -> Default

VARIABLES job, c,     \* the case: job name, abstract argv + situation
          pc,         \* next statement of check()
          old, new,   \* the versions loaded so far ("" = not yet)
          nb,         \* number of breakages found
          out,        \* [style, ansi, lines] of what was printed on stderr
          st,         \* [status, exit]
          ref
vars == <<job, c, pc, old, new, nb, out, st, ref>>

\* public API of pk per version: number of breakages find_breaking_changes reports from one to the other
\*   v1 {f(a, b), g, h}   v2 {f(a), g, h}   WT {f(a), h}
NB(o, n) == CASE o = n -> 0
              [] o = "v1" /\ n = "v2" -> 1     \* parameter b removed
              [] o = "v1" /\ n = "WT" -> 2     \* + g removed
              [] o = "v2" /\ n = "WT" -> 1
              [] o = "v2" /\ n = "v1" -> 1     \* parameter b added as required
              [] OTHER -> 0
HasTags == c.world = "tags"
LatestTag == "v2"
UsageError == c.style = "bad" \/ c.L = "bad"

\* ---- the reference ----------------------------------------------------------------------------------------------
RefOld == IF c.against = "unset" THEN (IF HasTags THEN LatestTag ELSE "none") ELSE c.against
RefNew == IF c.base = "unset" THEN "WT" ELSE c.base
RefStyle == IF c.style # "unset" THEN c.style ELSE IF c.v THEN "verbose" ELSE "oneline"
RefColor == CASE c.color \in {"color", "nocolor.color"} -> TRUE
              [] c.color \in {"nocolor", "color.nocolor"} -> FALSE
              [] c.fc \in {"1", "yes"} -> TRUE           \* FORCE_COLOR in {1, true, y, yes, on}
              [] OTHER -> FALSE                           \* FORCE_COLOR set to something else, or unset and stderr is no tty
\* outcomes the documentation leaves open: an unknown reference / no repository with an explicit -a.  Demanded only:
\* a non-zero status and nothing on stdout
Unspecified == ~UsageError /\ RefOld # "none" /\ c.e # "missing" /\ (c.world = "nogit" \/ RefOld = "bad" \/ RefNew = "bad")
UnspecifiedEarly == ~UsageError /\ RefOld # "none" /\ c.world = "nogit"          \* (before extensions are looked at)
RefExit == CASE UsageError -> 2
             [] RefOld = "none" -> 2                      \* nothing to compare against: "griffe: error: ..." like argparse
             [] UnspecifiedEarly -> 3                     \* 3 = any non-zero status
             [] c.e = "missing" -> 1
             [] Unspecified -> 3
             [] NB(RefOld, RefNew) > 0 -> 1
             [] OTHER -> 0
RefNb == IF RefExit \in {0, 1} /\ c.e # "missing" THEN NB(RefOld, RefNew) ELSE 0
RefOut == [style |-> RefStyle, ansi |-> RefColor /\ RefNb > 0 /\ RefStyle \in {"oneline", "verbose"}, n |-> RefNb]

\* ---- the Impl lane ------------------------------------------------------------------------------------------------
End(status, code) == st' = [status |-> status, exit |-> code] /\ pc' = "judge"
Init ==
  /\ job \in Jobs
  /\ \E w \in JobOf(job).worlds, ag \in JobOf(job).againsts, b \in JobOf(job).bases, s \in JobOf(job).styles, v \in JobOf(job).vs,
        col \in JobOf(job).colors, fc \in JobOf(job).fcs, e \in JobOf(job).es, L \in JobOf(job).Ls :
       c = [world |-> w, against |-> ag, base |-> b, style |-> s, v |-> v, color |-> col, fc |-> fc, e |-> e, L |-> L]
  /\ pc = "parse" /\ old = "" /\ new = "" /\ nb = 0 /\ out = [style |-> "", ansi |-> FALSE, n |-> 0] /\ st = [status |-> "", exit |-> 99] /\ ref = [exit |-> 99]

Parse ==          \* argparse: -f takes one of the ExplanationStyle values, -L one of the level names
  /\ pc = "parse"
  /\ IF UsageError THEN End("sysexit", 2) ELSE pc' = "tag" /\ UNCHANGED st
  /\ UNCHANGED <<job, c, old, new, nb, out, ref>>

Tag ==            \* against = against or get_latest_tag(package): GitError -> "griffe: error: ..." on stderr, return 2
  /\ pc = "tag"
  /\ IF c.against # "unset" THEN old' = c.against /\ pc' = "root" /\ UNCHANGED st
     ELSE IF HasTags THEN old' = LatestTag /\ pc' = "root" /\ UNCHANGED st
     ELSE old' = "none" /\ End("return", 2)
  /\ UNCHANGED <<job, c, new, nb, out, ref>>

Root ==           \* get_repo_root(against_path): `git rev-parse` fails outside a repository, the error is not caught
  /\ pc = "root"
  /\ IF c.world = "nogit" THEN End("exc", 1) ELSE pc' = "extensions" /\ UNCHANGED st
  /\ UNCHANGED <<job, c, old, new, nb, out, ref>>

Extensions ==     \* load_extensions: ExtensionError -> logged, return 1
  /\ pc = "extensions"
  /\ IF c.e = "missing" THEN End("return", 1) ELSE pc' = "loadold" /\ UNCHANGED st
  /\ UNCHANGED <<job, c, old, new, nb, out, ref>>

LoadOld ==        \* load_git(against_path, ref=against, ...): an unknown reference raises
  /\ pc = "loadold"
  /\ IF old = "bad" THEN End("exc", 1) ELSE pc' = "loadnew" /\ UNCHANGED st
  /\ UNCHANGED <<job, c, old, new, nb, out, ref>>

LoadNew ==        \* base_ref ? load_git(package, ref=base_ref) : load(package, try_relative_path=True)
  /\ pc = "loadnew"
  /\ new' = IF c.base = "unset" THEN "WT" ELSE c.base
  /\ IF c.base = "bad" THEN End("exc", 1) ELSE pc' = "diff" /\ UNCHANGED st
  /\ UNCHANGED <<job, c, old, nb, out, ref>>

Diff ==           \* breakages = list(find_breaking_changes(old_package, new_package))
  /\ pc = "diff"
  /\ nb' = NB(old, new) /\ pc' = "print"
  /\ UNCHANGED <<job, c, old, new, out, st, ref>>

Render ==        \* colour decision, style decision, one explain() per breakage on stderr, exit status
  /\ pc = "print"
  /\ LET color == IF c.color \in {"color", "nocolor.color"} THEN "on" ELSE IF c.color \in {"nocolor", "color.nocolor"} THEN "off"
                  ELSE IF c.fc = "unset" THEN "tty" ELSE IF c.fc \in {"1", "yes"} THEN "on" ELSE "off"
         style == IF c.style = "unset" THEN (IF c.v THEN "verbose" ELSE "oneline") ELSE c.style
     IN out' = [style |-> style, ansi |-> color = "on" /\ nb > 0 /\ style \in {"oneline", "verbose"}, n |-> nb]    \* "tty": captured stderr, stripped
  /\ End("return", IF nb > 0 THEN 1 ELSE 0)
  /\ UNCHANGED <<job, c, old, new, nb, ref>>

Judge ==
  /\ pc = "judge"
  /\ ref' = [exit |-> RefExit, old |-> RefOld, new |-> RefNew, out |-> RefOut, color |-> RefColor, unspecified |-> (RefExit = 3)]
  /\ pc' = "done"
  /\ UNCHANGED <<job, c, old, new, nb, out, st>>

Next == Parse \/ Tag \/ Root \/ Extensions \/ LoadOld \/ LoadNew \/ Diff \/ Render \/ Judge
Spec == Init /\ [][Next]_vars

\* ---- clauses ------------------------------------------------------------------------------------------------------
Done == pc = "done"
K_ExitStatus == Done => IF ref.exit = 3 THEN st.exit # 0 ELSE st.exit = ref.exit        \* (K1)
K_NoEscape == (Done /\ ref.exit # 3) => st.status # "exc"                              \* (K2)
K_Versions == (Done /\ ref.exit \in {0, 1} /\ c.e # "missing") => (old = ref.old /\ new = ref.new)   \* (K3) which two versions are compared
K_Rendering == (Done /\ ref.exit \in {0, 1} /\ c.e # "missing") => out = ref.out                           \* (K4) style, colour, one entry per breakage
K_Types == pc \in {"parse", "tag", "root", "extensions", "loadold", "loadnew", "diff", "print", "judge", "done"}
Emit == Done => PrintT(<<"CASE", ToJson([job |-> job, c |-> c, impl |-> [status |-> st.status, exit |-> st.exit, old |-> old, new |-> new, out |-> out], ref |-> ref])>>)
=============================================================================
