------------------------------- MODULE Serde -------------------------------
(***************************************************************************)
(* C08 / C09 - the JSON encoder and decoder of Griffe as decision tables   *)
(* over SHAPE DESCRIPTORS (shape T/A).                                     *)
(*                                                                         *)
(* A descriptor is a chain  root module -> [host class | submodule] ->     *)
(* focus object  whose optional fields take the alternatives the two       *)
(* agents can actually produce (line numbers int/None, docstring           *)
(* absent/with/without line numbers, module filepath Path/list/None,       *)
(* bases str/Expr, parameters with/without annotation/default/docstring,   *)
(* returns, value, annotation, alias line numbers, member names) plus an   *)
(* abstract EXPRESSION TREE in one or more slots.                          *)
(*                                                                         *)
(*   Encode(chain, full)   transcribes the as_dict methods of models.py,   *)
(*                         docstrings/models.py and expressions.py: which  *)
(*                         key is emitted under which condition and with   *)
(*                         which JSON type  -> an ABSTRACT JSON document   *)
(*   Decode(j)             transcribes encoders.json_decoder: the dispatch *)
(*                         on the keys "cls" / "kind" applied to EVERY     *)
(*                         JSON object bottom-up, the _load_xxx functions  *)
(*                         (which keys are INDEXED obj_dict["k"], which    *)
(*                         use .get), _load_expression (re-linking of      *)
(*                         attribute chains) and _attach_parent_to_exprs   *)
(*                         (which slots of which kinds are visited and     *)
(*                         that the walk covers the FIRST LAYER of         *)
(*                         iterate(flat=False) only)                       *)
(*                                                                         *)
(* The clauses of the property are the invariants at the end of the        *)
(* module.  Domain = "clean" restricts the descriptors to the declarative  *)
(* predicate Clean (where the property must hold), "defect" to its         *)
(* complement (where the model exhibits the recorded defects), "all" checks*)
(* the characterisation  clause holds <=> its Clean-predicate  together    *)
(* with the clauses restricted to the clean part (Clean_<clause>).  The    *)
(* run is Build, AsJson, FromJson, AsJsonAgain, Observe; Observe stores    *)
(* what the invariants read in `obs` (TLC does not memoise operators).     *)
(* Every descriptor is printed as a CASE and replayed on the real code     *)
(* (gverif/props/c08.py, c09.py; SerdeSchema.tla adds the schema step).    *)
(***************************************************************************)
EXTENDS Naturals, Sequences, FiniteSets, TLC, Json

CONSTANTS Parts,      \* subset of {"shape", "expr", "doc"}: the parts of the case space explored by this run
          DocOrigins, \* doc part: the origins explored
          Domain,     \* "clean" | "defect" | "all"
          Origins,    \* subset of {"static","inspect_src","inspect_nosrc","builtin","namespace"}
          Lattice,    \* "small" | "large" : size of the parameter / expression-alternative lattice
          MaxSpine,   \* expr part: maximal number of spine steps
          FullDepth,  \* expr part: spines up to this length range over AllSteps, longer ones over CoreSteps
          SlotSet,    \* expr part: the slots explored
          SpineSlots, \* expr part: slots explored with the full MaxSpine (others get spines of length <= 1)
          DeepLeaves, \* expr part: leaves used below spines of length >= 2
          ReloadCleans, \* FALSE is the code: _load_docstring restores the serialised value after Docstring() cleaned it again;
                      \* TRUE: the decoder before commit 6630405 (model-only regression domain, Serde_regress_cleandoc.cfg)
          MemberLoaders, \* kinds whose _load_xxx loads `members`: {"module", "class", "function"} is the code; without
                      \* "function" the model is the decoder before "fix: reload the members of functions from JSON"
                      \* (model-only regression domain, spec/cfg/Serde_regress_members.cfg)
          Emit

\* =================================================================================================
\* 1. Abstract JSON
\* =================================================================================================
JNull == [t |-> "null"]
JStr  == [t |-> "string"]
JInt  == [t |-> "integer"]
JBool == [t |-> "boolean"]
JConst(v) == [t |-> "string", v |-> v]           \* a string whose value matters (kind, cls)
JArr(items) == [t |-> "array", items |-> items]
JObj(f) == [t |-> "object", f |-> f]
JShallow(ty) == [t |-> ty, shallow |-> TRUE]     \* a value of which only the JSON type is tracked
JIntAfter == [t |-> "integer", v |-> "after"]    \* an end line number greater than the start line number
JRaise(exc, key) == [t |-> "raise", exc |-> exc, key |-> key]
\* Module._filepath of a namespace package: one directory per portion, in SEARCH-PATH order.  "list" = one portion,
\* "list2" = two portions whose search-path order is not the lexicographic one (the second sorts first), "list2s" = the
\* same two in sorted order.  In the JSON the directories are tracked by their rank in sorted order.
IsList(fp) == fp \in {"list", "list2", "list2s"}
DirsJSON(fp) == JArr(IF fp = "list2" THEN <<JConst("dir2"), JConst("dir1")>> ELSE IF fp = "list2s" THEN <<JConst("dir1"), JConst("dir2")>> ELSE <<JStr>>)
NoKV == <<>>
Opt(cond, k, v) == IF cond THEN k :> v ELSE NoKV
Keys(j) == DOMAIN j.f
IsRaise(j) == j.t = "raise"

\* =================================================================================================
\* 2. Expression trees  (expressions.py)
\* =================================================================================================
\* node = [c: class name or @-scalar, a: field -> node | Seq(node), par: parent class of an ExprName]
\*   par \in {"scope","prev","str","none"}: ExprName.parent is a Module/Class/Function object, the
\*   previous ExprName of an attribute chain, the literal "str", or None.
N(c, a) == [c |-> c, a |-> a, par |-> "na"]
S == N("@str", <<>>)              \* a str value (constants are stored as their repr)
NoneN == N("@none", <<>>)
BoolN == N("@bool", <<>>)
StrsN == N("@strs", <<>>)         \* list[str] (ExprCompare.operators)
PK(repr, kind) == N(IF repr = "enum" THEN (IF kind = "poskw" THEN "@pk:enum:poskw" ELSE "@pk:enum:posonly")
                                   ELSE (IF kind = "poskw" THEN "@pk:str:poskw" ELSE "@pk:str:posonly"), <<>>)
Nm(p) == [c |-> "ExprName", a |-> [name |-> S], par |-> p]
IsScalar(n) == n.c \in {"@str", "@none", "@bool", "@strs", "@pk:enum:poskw", "@pk:enum:posonly", "@pk:str:poskw", "@pk:str:posonly"}
IsExpr(n) == ~IsScalar(n)

\* dataclass fields, sorted by name as _expr_as_dict sorts them ("parent" is never serialised)
AllFields == <<"annotation", "arguments", "body", "comparators", "conditions", "conversion", "default", "element",
               "elements", "format_spec", "function", "generators", "implicit", "is_async", "iterable", "key", "keys", "kind", "left",
               "lower", "name", "operator", "operators", "orelse", "parameters", "right", "slice", "step",
               "target", "test", "upper", "value", "values">>
ListFields == {"arguments", "comparators", "conditions", "elements", "generators", "keys", "parameters", "values"}
FieldsOf(n) == SelectSeq(AllFields, LAMBDA f : f \in DOMAIN n.a)

RECURSIVE Concat(_)
Concat(ss) == IF ss = <<>> THEN <<>> ELSE Head(ss) \o Concat(Tail(ss))

KidsOfField(n, f) == IF f \in ListFields THEN n.a[f] ELSE <<n.a[f]>>

\* ---- the builders of expressions.py, as templates: Wrap(step, x) is the node the visitor builds for the
\* ---- source template of `step` with the sub-expression x in the hole; all other fields hold constants
\* ---- (str) or the names the template needs.  Fused steps ("A.f/B.g") build two levels.
Cmp(iter, conds) == N("ExprComprehension", [conditions |-> conds, is_async |-> BoolN, iterable |-> iter, target |-> Nm("scope")])
Fmt(v, conv, spec) == N("ExprFormatted", [conversion |-> conv, format_spec |-> spec, value |-> v])
Wrap(step, x) ==
  CASE step = "Attribute.first"    -> N("ExprAttribute", [values |-> <<x, Nm("none")>>])
    [] step = "BinOp.left"         -> N("ExprBinOp", [left |-> x, operator |-> S, right |-> S])
    [] step = "BinOp.right"        -> N("ExprBinOp", [left |-> S, operator |-> S, right |-> x])
    [] step = "BoolOp.values"      -> N("ExprBoolOp", [operator |-> S, values |-> <<x, S>>])
    [] step = "Call.function"      -> N("ExprCall", [arguments |-> <<>>, function |-> x])
    [] step = "Call.function+kw"   -> N("ExprCall", [arguments |-> <<N("ExprKeyword", [function |-> x, name |-> S, value |-> S])>>, function |-> x])
    [] step = "Call.arguments"     -> N("ExprCall", [arguments |-> <<x>>, function |-> Nm("scope")])
    [] step = "Call.arguments/Keyword.value" ->
         N("ExprCall", [arguments |-> <<N("ExprKeyword", [function |-> Nm("scope"), name |-> S, value |-> x])>>, function |-> Nm("scope")])
    [] step = "Call.arguments/VarPositional.value" ->
         N("ExprCall", [arguments |-> <<N("ExprVarPositional", [value |-> x])>>, function |-> Nm("scope")])
    [] step = "Call.arguments/VarKeyword.value" ->
         N("ExprCall", [arguments |-> <<N("ExprVarKeyword", [value |-> x])>>, function |-> Nm("scope")])
    [] step = "Compare.left"       -> N("ExprCompare", [comparators |-> <<S>>, left |-> x, operators |-> StrsN])
    [] step = "Compare.comparators" -> N("ExprCompare", [comparators |-> <<x>>, left |-> S, operators |-> StrsN])
    [] step = "Dict.keys"          -> N("ExprDict", [keys |-> <<x>>, values |-> <<S>>])
    [] step = "Dict.values"        -> N("ExprDict", [keys |-> <<S>>, values |-> <<x>>])
    \* `{**x}`: a None among the keys marks the unpacked mapping
    [] step = "Dict.values+unpack" -> N("ExprDict", [keys |-> <<NoneN>>, values |-> <<x>>])
    [] step = "DictComp.key"       -> N("ExprDictComp", [generators |-> <<Cmp(S, <<>>)>>, key |-> x, value |-> S])
    [] step = "DictComp.value"     -> N("ExprDictComp", [generators |-> <<Cmp(S, <<>>)>>, key |-> S, value |-> x])
    [] step = "DictComp.generators/Comprehension.iterable" -> N("ExprDictComp", [generators |-> <<Cmp(x, <<>>)>>, key |-> S, value |-> S])
    [] step = "GeneratorExp.element" -> N("ExprGeneratorExp", [element |-> x, generators |-> <<Cmp(S, <<>>)>>])
    [] step = "GeneratorExp.generators/Comprehension.conditions" -> N("ExprGeneratorExp", [element |-> S, generators |-> <<Cmp(S, <<x>>)>>])
    [] step = "IfExp.body"         -> N("ExprIfExp", [body |-> x, orelse |-> S, test |-> S])
    [] step = "IfExp.test"         -> N("ExprIfExp", [body |-> S, orelse |-> S, test |-> x])
    [] step = "IfExp.orelse"       -> N("ExprIfExp", [body |-> S, orelse |-> x, test |-> S])
    [] step = "JoinedStr.values/Formatted.value" -> N("ExprJoinedStr", [values |-> <<Fmt(x, NoneN, NoneN)>>])
    [] step = "JoinedStr.values/Formatted.value+conversion" -> N("ExprJoinedStr", [values |-> <<Fmt(x, S, NoneN)>>])
    \* f'{1:{X}}' : the format spec is itself a joined string
    [] step = "JoinedStr.values/Formatted.format_spec" ->
         N("ExprJoinedStr", [values |-> <<Fmt(S, NoneN, N("ExprJoinedStr", [values |-> <<Fmt(x, NoneN, NoneN), S>>]))>>])   \* (CPython 3.12 ends the spec with an empty constant)
    [] step = "Lambda.body"        -> N("ExprLambda", [body |-> x, parameters |-> <<>>])
    [] step = "Lambda.parameters/Parameter.default" ->
         N("ExprLambda", [body |-> S, parameters |-> <<N("ExprParameter", [annotation |-> NoneN, default |-> x, kind |-> PK("enum", "poskw"), name |-> S])>>])
    [] step = "Lambda.parameters/Parameter.default+posonly" ->
         N("ExprLambda", [body |-> S, parameters |-> <<N("ExprParameter", [annotation |-> NoneN, default |-> x, kind |-> PK("enum", "posonly"), name |-> S])>>])
    [] step = "List.elements"      -> N("ExprList", [elements |-> <<x>>])
    [] step = "List.elements/VarPositional.value" -> N("ExprList", [elements |-> <<N("ExprVarPositional", [value |-> x])>>])
    [] step = "ListComp.element"   -> N("ExprListComp", [element |-> x, generators |-> <<Cmp(S, <<>>)>>])
    [] step = "ListComp.generators/Comprehension.iterable" -> N("ExprListComp", [element |-> S, generators |-> <<Cmp(x, <<>>)>>])
    [] step = "NamedExpr.value"    -> N("ExprNamedExpr", [target |-> Nm("scope"), value |-> x])
    [] step = "Set.elements"       -> N("ExprSet", [elements |-> <<x>>])
    [] step = "SetComp.element"    -> N("ExprSetComp", [element |-> x, generators |-> <<Cmp(S, <<>>)>>])
    [] step = "Subscript.left"     -> N("ExprSubscript", [left |-> x, slice |-> S])
    [] step = "Subscript.slice"    -> N("ExprSubscript", [left |-> S, slice |-> x])
    [] step = "Subscript.slice/Slice.lower" -> N("ExprSubscript", [left |-> S, slice |-> N("ExprSlice", [lower |-> x, step |-> NoneN, upper |-> NoneN])])
    [] step = "Subscript.slice/Slice.upper" -> N("ExprSubscript", [left |-> S, slice |-> N("ExprSlice", [lower |-> NoneN, step |-> NoneN, upper |-> x])])
    [] step = "Subscript.slice/Slice.step"  -> N("ExprSubscript", [left |-> S, slice |-> N("ExprSlice", [lower |-> NoneN, step |-> x, upper |-> NoneN])])
    [] step = "Subscript.slice/Tuple.elements" -> N("ExprSubscript", [left |-> S, slice |-> N("ExprTuple", [elements |-> <<x, S>>, implicit |-> BoolN])])
    [] step = "Tuple.elements"     -> N("ExprTuple", [elements |-> <<x, S>>, implicit |-> BoolN])
    [] step = "UnaryOp.value"      -> N("ExprUnaryOp", [operator |-> S, value |-> x])
    [] step = "Yield.value"        -> N("ExprYield", [value |-> x])
    [] step = "YieldFrom.value"    -> N("ExprYieldFrom", [value |-> x])

AllSteps == {"Attribute.first", "BinOp.left", "BinOp.right", "BoolOp.values", "Call.function", "Call.function+kw",
             "Call.arguments", "Call.arguments/Keyword.value", "Call.arguments/VarPositional.value",
             "Call.arguments/VarKeyword.value", "Compare.left", "Compare.comparators", "Dict.keys", "Dict.values", "Dict.values+unpack",
             "DictComp.key", "DictComp.value", "DictComp.generators/Comprehension.iterable", "GeneratorExp.element",
             "GeneratorExp.generators/Comprehension.conditions", "IfExp.body", "IfExp.test", "IfExp.orelse",
             "JoinedStr.values/Formatted.value", "JoinedStr.values/Formatted.value+conversion",
             "JoinedStr.values/Formatted.format_spec", "Lambda.body", "Lambda.parameters/Parameter.default",
             "Lambda.parameters/Parameter.default+posonly", "List.elements", "List.elements/VarPositional.value",
             "ListComp.element", "ListComp.generators/Comprehension.iterable", "NamedExpr.value", "Set.elements",
             "SetComp.element", "Subscript.left", "Subscript.slice", "Subscript.slice/Slice.lower",
             "Subscript.slice/Slice.upper", "Subscript.slice/Slice.step", "Subscript.slice/Tuple.elements",
             "Tuple.elements", "UnaryOp.value", "Yield.value", "YieldFrom.value"}
\* one representative per iteration pattern, used for the deepest spines
CoreSteps == {"JoinedStr.values/Formatted.format_spec", "Attribute.first", "BinOp.left", "Call.function+kw", "Call.arguments", "Call.arguments/Keyword.value",
              "Lambda.parameters/Parameter.default+posonly", "List.elements", "Subscript.left", "Subscript.slice",
              "Subscript.slice/Tuple.elements", "DictComp.generators/Comprehension.iterable", "Yield.value"}

\* leaves, with the parents _build_name / _build_attribute give to the names
Leaf(l) ==
  CASE l = "name"    -> Nm("scope")
    [] l = "attr2"   -> N("ExprAttribute", [values |-> <<Nm("scope"), Nm("prev")>>])
    [] l = "attr3"   -> N("ExprAttribute", [values |-> <<Nm("scope"), Nm("prev"), Nm("prev")>>])
    [] l = "strattr" -> N("ExprAttribute", [values |-> <<S, Nm("str")>>])
    [] l = "str"     -> S
    [] l = "none"    -> NoneN
AllLeaves == {"name", "attr2", "attr3", "strattr", "str"}

RECURSIVE MkFrom(_, _, _)
MkFrom(spine, leaf, i) == IF i > Len(spine) THEN Leaf(leaf) ELSE Wrap(spine[i], MkFrom(spine, leaf, i + 1))
MkExpr(spine, leaf) == MkFrom(spine, leaf, 1)

\* `(X).zz` only is a level of its own when X is neither a name, an attribute nor a constant
SpineOK(spine, leaf) ==
  /\ \A i \in 1..Len(spine) : spine[i] = "Attribute.first" => (i < Len(spine) /\ spine[i + 1] # "Attribute.first")
  \* `1()` as a base class or decorator crashes the LOADER (ExprCall.canonical_path of a str) - not a serialisation case
  /\ (Len(spine) > 0 /\ spine[Len(spine)] \in {"Call.function", "Call.function+kw"} => leaf # "str")

\* ---- names of a tree, in pre-order over the sorted fields (the order of the harness projection) ----------
RECURSIVE NamePars(_)
NamePars(n) ==
  IF IsScalar(n) THEN <<>>
  ELSE IF n.c = "ExprName" THEN <<n.par>>
  ELSE LET fs == FieldsOf(n)
       IN Concat([i \in 1..Len(fs) |->
                    LET ks == KidsOfField(n, fs[i]) IN Concat([k \in 1..Len(ks) |-> NamePars(ks[k])])])

\* ---- what rendering (iterate / str) depends on: the tree without the parents; a parameter kind that
\* ---- lost its enum identity still renders the same unless it needs a marker (/ or *)
RECURSIVE Render(_)
Render(n) ==
  IF n.c \in {"@pk:enum:poskw", "@pk:str:poskw"} THEN N("@pk:poskw", <<>>)
  ELSE IF IsScalar(n) THEN n
  ELSE [c |-> n.c, par |-> "na",
        a |-> [f \in DOMAIN n.a |-> IF f \in ListFields THEN [i \in 1..Len(n.a[f]) |-> Render(n.a[f][i])]
                                    ELSE Render(n.a[f])]]

\* ---- _expr_as_dict --------------------------------------------------------------------------------------
RECURSIVE ExprJSON(_)
ExprJSON(n) ==
  CASE n.c = "@str"  -> JStr
    [] n.c = "@none" -> JNull
    [] n.c = "@bool" -> JBool
    [] n.c = "@strs" -> JArr(<<JStr>>)
    [] n.c \in {"@pk:enum:poskw", "@pk:str:poskw"} -> JConst("positional or keyword")
    [] n.c \in {"@pk:enum:posonly", "@pk:str:posonly"} -> JConst("positional-only")
    [] OTHER -> JObj([k \in DOMAIN n.a \cup {"cls"} |->
                        IF k = "cls" THEN JConst(n.c)
                        ELSE IF k \in ListFields THEN JArr([i \in 1..Len(n.a[k]) |-> ExprJSON(n.a[k][i])])
                        ELSE ExprJSON(n.a[k])])

\* ---- _load_expression (json_decoder is bottom-up: children first) ---------------------------------------
\* cls(**expression): every ExprName is created with parent=None; for ExprAttribute the names after the
\* first ExprName are linked to the previous one; when the first part is a str (a literal), the name after it gets
\* the parent "str" as the builder gives it.
LinkChain(n) ==
  LET vs == n.a.values
      strFirst == vs[1].c = "@str"
      SeenName(i) == \E j \in 1..(i - 1) : vs[j].c = "ExprName"
  IN [n EXCEPT !.a.values = [i \in 1..Len(vs) |->
        IF vs[i].c # "ExprName" THEN vs[i]
        ELSE IF SeenName(i) THEN [vs[i] EXCEPT !.par = "prev"]
        ELSE IF strFirst /\ i > 1 THEN [vs[i] EXCEPT !.par = "str"]
        ELSE vs[i]]]

RECURSIVE LoadExpr(_, _)
LoadExpr(key, j) ==
  CASE j.t = "null"    -> NoneN
    [] j.t = "boolean" -> BoolN
    \* (ExprParameter: expression["kind"] = ParameterKind(expression["kind"]) - the enum is restored)
    [] j.t = "string"  -> IF key = "kind"
                          THEN (IF j.v = "positional-only" THEN PK("enum", "posonly") ELSE PK("enum", "poskw"))
                          ELSE S
    [] j.t = "array"   -> IF key = "operators" THEN StrsN ELSE NoneN     \* (list fields are handled by the caller)
    [] j.t = "object"  ->
         LET cls == j.f["cls"].v
             a == [k \in DOMAIN j.f \ {"cls"} |->
                     IF k \in ListFields THEN [i \in 1..Len(j.f[k].items) |-> LoadExpr(k, j.f[k].items[i])]
                     ELSE LoadExpr(k, j.f[k])]
             n == IF cls = "ExprName" THEN [c |-> cls, a |-> a, par |-> "none"] ELSE N(cls, a)
         IN IF cls = "ExprAttribute" THEN LinkChain(n) ELSE n

\* ---- _attach_parent_to_expr: a walk over the WHOLE tree along the dataclass fields (lists included, also the
\* ---- fields iterate() does not yield: ExprKeyword.function, the ExprParameters of a lambda).  A name gets the scope
\* ---- object; of an attribute chain only the first part is visited (the other names stay linked to each other).
RECURSIVE AttachParent(_)
AttachParent(n) ==
  IF IsScalar(n) THEN n                               \* not isinstance(expr, Expr): return
  ELSE IF n.c = "ExprName" THEN [n EXCEPT !.par = "scope"]
  ELSE IF n.c = "ExprAttribute" THEN [n EXCEPT !.a.values[1] = AttachParent(@)]
  ELSE [n EXCEPT !.a = [f \in DOMAIN n.a |->
          IF f \in ListFields THEN [i \in 1..Len(n.a[f]) |-> AttachParent(n.a[f][i])] ELSE AttachParent(n.a[f])]]

\* an expression value in a slot of an object: the tree and the object its scope-names resolve in
EV(e, scope) == [e |-> e, scope |-> scope]
NoEV == EV(NoneN, "na")
StrEV == EV(S, "na")

\* =================================================================================================
\* 3. Objects (models.py) : descriptors
\* =================================================================================================
\* Docstring.value = inspect.cleandoc(text.rstrip()).  cleandoc strips the first line completely but dedents the others
\* by their common margin, so it is NOT idempotent: after a blank first line followed by a first content line indented
\* deeper than the rest, the once-cleaned value still starts with blanks and a second cleandoc changes it.  `val` says
\* whether the value is a fixpoint of cleandoc ("fix") or would change when cleaned again ("again").
DocTexts == {"single", "flush", "deepfirst", "trailing", "tabs"}     \* shapes of the source text
CleanedOnce(text) == IF text = "deepfirst" THEN "again" ELSE "fix"    \* cross-checked with CPython's inspect.cleandoc
CleanAgain(val) == "fix"
NoDoc == [present |-> FALSE, lineno |-> "none", endlineno |-> "none", parser |-> "none", section |-> "text", val |-> "fix"]
DocT(lines, parser, section, text) ==
  [present |-> TRUE, lineno |-> IF lines THEN "int" ELSE "none", endlineno |-> IF lines THEN "int" ELSE "none",
   parser |-> parser, section |-> section, val |-> CleanedOnce(text)]
Doc(lines, parser, section) == DocT(lines, parser, section, "single")

Obj(kind, name) ==
  [kind |-> kind, name |-> name, lineno |-> "none", endlineno |-> "none", doc |-> NoDoc, labels |-> "empty",
   filepath |-> "na", bases |-> <<>>, decorators |-> <<>>, params |-> <<>>, returns |-> NoEV, value |-> NoEV,
   annotation |-> NoEV, alineno |-> "none", aendlineno |-> "none", resolved |-> FALSE,
   runtime |-> TRUE]          \* Object.runtime: not serialised by as_dict, the loaders leave the default (True)
Dec(ev, ln) == [value |-> ev, lineno |-> ln, endlineno |-> ln]
Par(ann, def, doc) == [annotation |-> ann, default |-> def, doc |-> doc, kind |-> "poskw"]
ParK(ann, def, doc, k) == [annotation |-> ann, default |-> def, doc |-> doc, kind |-> k]

\* section kinds of docstrings/models.py with the JSON type of DocstringSection.as_dict()["value"]
SectionKinds == {"text", "parameters", "other parameters", "raises", "warns", "returns", "yields", "receives",
                 "examples", "attributes", "functions", "classes", "modules", "deprecated", "admonition"}
SectionValueType(s) == IF s = "text" THEN "string" ELSE IF s \in {"deprecated", "admonition"} THEN "object" ELSE "array"
\* Docstring.parsed: with no parser the whole text is one text section; the parser is NOT serialised
Parsed(doc) == IF doc.parser = "none" \/ doc.section = "text" THEN <<"text">> ELSE <<"text", doc.section>>

\* =================================================================================================
\* 4. Encode : the as_dict methods
\* =================================================================================================
LN(v) == IF v = "int" THEN JInt ELSE JNull
EVJSON(ev) == ExprJSON(ev.e)

\* Docstring.as_dict
DocJSON(doc, full) ==
  JObj(("value" :> JConst(doc.val)) @@ ("lineno" :> LN(doc.lineno)) @@ ("endlineno" :> LN(doc.endlineno))
       @@ Opt(full, "parsed", JArr([i \in 1..Len(Parsed(doc)) |->
                JObj(("kind" :> JConst(Parsed(doc)[i])) @@ ("value" :> JShallow(SectionValueType(Parsed(doc)[i])))
                     @@ Opt(Parsed(doc)[i] = "admonition", "title", JStr))])))      \* `if self.title:` - admonitions carry one
\* Decorator.as_dict
DecJSON(dec) == JObj(("value" :> EVJSON(dec.value)) @@ ("lineno" :> LN(dec.lineno)) @@ ("endlineno" :> LN(dec.endlineno)))
\* Parameter.as_dict
ParJSON(p, full) ==
  JObj(("name" :> JStr) @@ ("annotation" :> EVJSON(p.annotation))
       @@ ("kind" :> JConst(IF p.kind = "kwonly" THEN "keyword-only" ELSE "positional or keyword"))
       @@ ("default" :> EVJSON(p.default)) @@ Opt(p.doc.present, "docstring", DocJSON(p.doc, full)))

\* Alias.as_dict (a resolved alias still is an alias record; `if self.alias_lineno:` is a truth test)
AliasJSON(o, full) ==
  JObj(("kind" :> JConst("alias")) @@ ("name" :> JStr) @@ ("target_path" :> JStr)
       @@ Opt(full, "path", JStr) @@ Opt(o.alineno = "int", "lineno", JInt)
       @@ Opt(o.aendlineno # "none", "endlineno", IF o.aendlineno = "int+" THEN JIntAfter ELSE JInt))

\* what the properties of Object used by as_dict(full=True) do for the module `m` the object lives in
\*   filepath: BuiltinModuleError when the module has no file; relative_filepath: ValueError when the module
\*   is a namespace package none of whose directories is below the current directory
FullRaises(m, cwdrel) ==
  IF m.filepath = "none" THEN JRaise("BuiltinModuleError", "filepath")
  ELSE IF IsList(m.filepath) /\ ~cwdrel THEN JRaise("ValueError", "relative_filepath")
  ELSE JNull

\* Object.as_dict + Module/Class/Function/Attribute.as_dict.  `members` is the already encoded members
\* object, `m` the module the object belongs to.
ObjJSON(o, m, cwdrel, full, members) ==
  IF o.kind = "alias" THEN AliasJSON(o, full)
  ELSE IF full /\ IsRaise(FullRaises(m, cwdrel)) THEN FullRaises(m, cwdrel)
  ELSE JObj(
      ("kind" :> JConst(o.kind)) @@ ("name" :> JStr)
   @@ Opt(full, "path", JStr)
   @@ Opt(full /\ o.kind # "module", "filepath", IF IsList(m.filepath) THEN DirsJSON(m.filepath) ELSE JStr)
   @@ Opt(full, "relative_filepath", JStr)
   @@ Opt(full, "relative_package_filepath", JStr)
   @@ Opt(o.lineno # "none", "lineno", JInt)
   @@ Opt(o.endlineno # "none", "endlineno", JInt)
   @@ Opt(o.doc.present, "docstring", DocJSON(o.doc, full))
   @@ ("labels" :> JArr(IF o.labels = "some" THEN <<JStr>> ELSE <<>>))
   @@ ("members" :> members)
   \* Module.as_dict: the key is always there (even in minimal form)
   @@ Opt(o.kind = "module", "filepath",
          IF IsList(o.filepath) THEN DirsJSON(o.filepath) ELSE IF o.filepath = "path" THEN JStr ELSE JNull)
   \* Class.as_dict
   @@ Opt(o.kind = "class", "bases", JArr([i \in 1..Len(o.bases) |-> EVJSON(o.bases[i])]))
   @@ Opt(o.kind \in {"class", "function"}, "decorators", JArr([i \in 1..Len(o.decorators) |-> DecJSON(o.decorators[i])]))
   \* Function.as_dict
   @@ Opt(o.kind = "function", "parameters", JArr([i \in 1..Len(o.params) |-> ParJSON(o.params[i], full)]))
   @@ Opt(o.kind = "function", "returns", EVJSON(o.returns))
   \* Attribute.as_dict
   @@ Opt(o.kind = "attribute" /\ o.value.e # NoneN, "value", EVJSON(o.value))
   @@ Opt(o.kind = "attribute" /\ o.annotation.e # NoneN, "annotation", EVJSON(o.annotation)))

\* the module an object of the chain lives in: the nearest module at or above position i
RECURSIVE ModuleOf(_, _)
ModuleOf(chain, i) == IF chain[i].kind = "module" THEN chain[i] ELSE ModuleOf(chain, i - 1)

RECURSIVE EncodeFrom(_, _, _, _)
EncodeFrom(chain, i, cwdrel, full) ==
  LET members == IF i = Len(chain) THEN JObj(NoKV)
                 ELSE LET sub == EncodeFrom(chain, i + 1, cwdrel, full)
                      IN IF IsRaise(sub) THEN sub ELSE JObj(chain[i + 1].name :> sub)
  IN IF IsRaise(members) THEN members
     ELSE ObjJSON(chain[i], ModuleOf(chain, i), cwdrel, full, members)
\* Python evaluates the dict of the outer object first: path/filepath properties of the root raise before
\* the members are visited; both orders give "raise" here and the harness only compares the exception.
Encode(chain, cwdrel, full) == EncodeFrom(chain, 1, cwdrel, full)

\* =================================================================================================
\* 5. Decode : json_decoder as object_hook, bottom-up
\* =================================================================================================
KindValues == {"module", "class", "function", "attribute", "alias"}
Ty(j) == IF j.t = "integer" THEN "int" ELSE "none"
TyRel(j) == IF j.t # "integer" THEN "none" ELSE IF "v" \in DOMAIN j THEN "int+" ELSE "int"   \* (see JIntAfter)
Get(j, k) == IF k \in Keys(j) THEN j.f[k] ELSE JNull          \* obj_dict.get(k)

\* _load_docstring: Docstring(**obj_dict["docstring"]) - an unexpected key is a TypeError
LoadDoc(j) ==
  IF "docstring" \notin Keys(j) THEN NoDoc
  ELSE LET dj == j.f["docstring"]
       \* Docstring(**dict) cleans the value again; _load_docstring then puts the serialised value back
       IN [present |-> TRUE, lineno |-> Ty(Get(dj, "lineno")), endlineno |-> Ty(Get(dj, "endlineno")),
           parser |-> "none", section |-> "text",
           val |-> IF ReloadCleans THEN CleanAgain(dj.f["value"].v) ELSE dj.f["value"].v]
DocLoadable(j) == "docstring" \in Keys(j) => Keys(j.f["docstring"]) \subseteq {"value", "lineno", "endlineno"}

\* a slot value: None, str, or a dict with "cls" that the hook already turned into an expression
LoadEV(j) == EV(LoadExpr("", j), "na")
LoadDecs(j) == IF "decorators" \notin Keys(j) THEN <<>>
               ELSE [i \in 1..Len(j.f["decorators"].items) |->
                       LET dj == j.f["decorators"].items[i]
                       IN [value |-> LoadEV(dj.f["value"]), lineno |-> Ty(dj.f["lineno"]), endlineno |-> Ty(dj.f["endlineno"])]]
\* _load_parameter: name, annotation, kind, default are INDEXED
LoadPar(pj) == [annotation |-> LoadEV(pj.f["annotation"]), default |-> LoadEV(pj.f["default"]), doc |-> LoadDoc(pj),
                kind |-> IF pj.f["kind"].v = "keyword-only" THEN "kwonly" ELSE "poskw"]     \* ParameterKind(obj_dict["kind"])

\* keys each loader INDEXES (obj_dict["k"]) in evaluation order; everything else goes through .get
Indexed(kind) ==
  CASE kind = "module"    -> <<"name", "filepath">>
    [] kind = "class"     -> <<"name", "bases">>                   \* lineno: obj_dict.get("lineno")
    [] kind = "function"  -> <<"name", "parameters", "returns">>
    [] kind = "attribute" -> <<"name">>
    [] kind = "alias"     -> <<"name", "target_path">>
FirstMissing(j, ks) == LET miss == {i \in 1..Len(ks) : ks[i] \notin Keys(j)}
                       IN IF miss = {} THEN "" ELSE ks[CHOOSE i \in miss : \A k \in miss : i <= k]

\* _attach_parent_to_exprs(obj, parent): WHICH slots of WHICH kinds are visited.
\*   Class: docstring value (a str: no-op), decorators, bases
\*   Function: decorators, parameter annotations and defaults, returns
\*   Attribute: value, annotation
AttachEV(ev) == IF IsScalar(ev.e) THEN ev ELSE EV(AttachParent(ev.e), "container")
AttachObj(o) ==
  CASE o.kind = "class" ->
         [o EXCEPT !.decorators = [i \in 1..Len(o.decorators) |-> [o.decorators[i] EXCEPT !.value = AttachEV(@)]],
                   !.bases = [i \in 1..Len(o.bases) |-> AttachEV(o.bases[i])]]
    [] o.kind = "function" ->
         [o EXCEPT !.decorators = [i \in 1..Len(o.decorators) |-> [o.decorators[i] EXCEPT !.value = AttachEV(@)]],
                   !.params = [i \in 1..Len(o.params) |-> [o.params[i] EXCEPT !.annotation = AttachEV(@), !.default = AttachEV(@)]],
                   !.returns = AttachEV(@)]
    [] o.kind = "attribute" -> [o EXCEPT !.value = AttachEV(@), !.annotation = AttachEV(@)]
    [] OTHER -> o                                    \* Module and Alias members: nothing

\* the hook on one JSON object whose nested objects are decoded already.  `sub` is the decoded chain below
\* (a sequence of objects, possibly empty), `memberkey` the key of the members dict it sits under.
\* Result: [ok |-> TRUE, chain |-> ...] or [ok |-> FALSE, exc |-> ..., key |-> ..., kind |-> ...].
Fail(exc, key, kind) == [ok |-> FALSE, exc |-> exc, key |-> key, kind |-> kind, chain |-> <<>>]
Okay(chain) == [ok |-> TRUE, exc |-> "", key |-> "", kind |-> "", chain |-> chain]

\* json_decoder on the MEMBERS dict {name: decoded member}: it is an ordinary JSON object for the hook.  The
\* dispatch is `isinstance(obj_dict.get("cls"), str)` / `isinstance(obj_dict.get("kind"), str)`: the values of a
\* members dict are objects, never str, so it is returned as is whatever the members are called.
\* (In an expression dict "cls" is tested BEFORE "kind": ExprParameter has both keys and is an expression.)
HookMembers(names) == Okay(<<>>)

HookObject(j, sub) ==
  LET kind == j.f["kind"].v
      miss == FirstMissing(j, Indexed(kind))
  IN IF miss # "" THEN Fail("KeyError", miss, kind)
     \* (only the FULL form has `parsed`: its section dicts {"kind": "text", ...} reach the hook first, "kind" is a str
     \*  that is no Kind -> _load_parameter -> KeyError('name'); Docstring(**dict) would reject `parsed` anyway)
     ELSE IF ~DocLoadable(j) THEN Fail("KeyError", "name", "section")
     ELSE IF kind = "function" /\ \E i \in 1..Len(j.f["parameters"].items) : ~DocLoadable(j.f["parameters"].items[i])
          THEN Fail("KeyError", "name", "section")
     ELSE
       LET base == [Obj(kind, "") EXCEPT
                      !.doc = IF kind = "alias" THEN NoDoc ELSE LoadDoc(j),
                      !.labels = IF kind = "alias" THEN "empty" ELSE IF Len(Get(j, "labels").items) > 0 THEN "some" ELSE "empty"]
           \* _load_module: list -> [Path, ...] (namespace package), None (built-in module), else Path
           o == CASE kind = "module" -> [base EXCEPT !.filepath = IF j.f["filepath"].t = "array"
                                                                  \* [Path(path) for path in filepath]: the order is kept
                                                                  THEN (IF j.f["filepath"] = DirsJSON("list2") THEN "list2"
                                                                        ELSE IF j.f["filepath"] = DirsJSON("list2s") THEN "list2s" ELSE "list")
                                                                  ELSE IF j.f["filepath"].t = "null" THEN "none" ELSE "path"]
                  [] kind = "class" ->
                       [base EXCEPT !.lineno = Ty(Get(j, "lineno")), !.endlineno = Ty(Get(j, "endlineno")),
                                    !.decorators = LoadDecs(j),
                                    !.bases = [i \in 1..Len(j.f["bases"].items) |-> LoadEV(j.f["bases"].items[i])]]
                  [] kind = "function" ->
                       [base EXCEPT !.lineno = Ty(Get(j, "lineno")), !.endlineno = Ty(Get(j, "endlineno")),
                                    !.decorators = LoadDecs(j),
                                    !.params = [i \in 1..Len(j.f["parameters"].items) |-> LoadPar(j.f["parameters"].items[i])],
                                    !.returns = LoadEV(j.f["returns"])]
                  [] kind = "attribute" ->
                       [base EXCEPT !.lineno = Ty(Get(j, "lineno")), !.endlineno = Ty(Get(j, "endlineno")),
                                    !.value = LoadEV(Get(j, "value")), !.annotation = LoadEV(Get(j, "annotation"))]
                  [] kind = "alias" ->
                       [base EXCEPT !.alineno = Ty(Get(j, "lineno")), !.aendlineno = TyRel(Get(j, "endlineno"))]
           \* members are set and their expressions re-attached by _load_module, _load_class and _load_function
           \* (a class additionally attaches its own expressions to itself; its container overrides that)
           kids == IF kind \in MemberLoaders /\ Len(sub) > 0
                   THEN <<AttachObj(sub[1])>> \o Tail(sub) ELSE <<>>
       IN Okay(<<o>> \o kids)

RECURSIVE DecodeFrom(_)
DecodeFrom(j) ==
  \* json.loads completes the innermost objects first
  LET mj == j.f["members"]
      names == IF "members" \in Keys(j) THEN Keys(mj) ELSE {}
      inner == IF names = {} THEN Okay(<<>>)
               ELSE LET nm == CHOOSE n \in names : TRUE
                        r == DecodeFrom(mj.f[nm])
                    IN IF ~r.ok THEN r
                       ELSE IF ~HookMembers(names).ok THEN HookMembers(names)
                       ELSE Okay(<<[r.chain[1] EXCEPT !.name = nm]>> \o Tail(r.chain))
  IN IF ~inner.ok THEN inner ELSE HookObject(j, inner.chain)

Decode(j) == LET r == DecodeFrom(j) IN IF r.ok THEN Okay(<<[r.chain[1] EXCEPT !.name = "pkg"]>> \o Tail(r.chain)) ELSE r

\* =================================================================================================
\* 6. The case space
\* =================================================================================================
VARIABLES nsparts,                                                \* namespace origin: "one" portion | "two" portions on two search paths given in non-sorted order | "na"
          dtext,                                                  \* shape of the docstring text (DocTexts) or "na"
          guard,                                                  \* "none" | "typecheck" (defined under `if TYPE_CHECKING:`) | "stub" (exists in the merged .pyi only)
          dfield,                                                 \* field of a dataclass host: "na" | "plain" | "kw_true" | "kw_expr"
          part,                                                   \* "shape" | "expr" | "doc"
          origin, kind, host, mname, doc, cwdrel,                 \* object level
          bases, deco, pann, pdef, pdoc, ret, val, ann, where,    \* kind specific alternatives
          alno, resolved,
          slot, spine, leaf,                                      \* expr part
          section,                                                \* doc part
          pc, chain, enc, dec, reenc, obs                         \* the run
casevars == <<nsparts, dtext, guard, dfield, part, origin, kind, host, mname, doc, cwdrel, bases, deco, pann, pdef, pdoc, ret, val, ann, where,
              alno, resolved, slot, spine, leaf, section>>
vars == <<casevars, pc, chain, enc, dec, reenc, obs>>

Inspected(o) == o \in {"inspect_src", "inspect_nosrc", "builtin"}
\* expression alternatives of the shape part
AltExpr(alt) ==
  CASE alt = "none" -> NoEV
    [] alt = "str"  -> StrEV
    [] alt = "name" -> EV(Leaf("name"), "container")
    [] alt = "attr" -> EV(Leaf("attr2"), "container")
    [] alt = "sub"  -> EV(MkExpr(<<"Subscript.slice">>, "name"), "container")
    [] alt = "deep" -> EV(MkExpr(<<"Subscript.slice", "Tuple.elements">>, "name"), "container")
    [] alt = "call" -> EV(MkExpr(<<"Call.arguments">>, "name"), "container")
ExprAlts == IF Lattice = "small" THEN {"none", "name", "deep"} ELSE {"none", "name", "attr", "sub", "deep"}
DefAlts  == IF Lattice = "small" THEN {"none", "str", "attr"} ELSE {"none", "str", "name", "attr", "deep"}
ValAlts  == IF Lattice = "small" THEN {"none", "str", "name"} ELSE {"none", "str", "name", "attr", "sub", "deep"}
DecoAlts == IF Lattice = "small" THEN {"none", "call"} ELSE {"none", "name", "call"}

Slots == {"class.bases", "class.decorator", "function.decorator", "function.param.annotation",
          "function.param.default", "function.returns", "attribute.value", "attribute.annotation"}
SlotKind(s) == IF s \in {"class.bases", "class.decorator"} THEN "class"
               ELSE IF s \in {"attribute.value", "attribute.annotation"} THEN "attribute" ELSE "function"

NA == "na"
CaseChoice ==
     IF part = "shape" THEN
       /\ nsparts \in IF origin = "namespace" THEN {"one", "two"} ELSE {NA}
       /\ kind \in (IF origin = "namespace" THEN {"root", "module", "function"}
                    ELSE IF origin = "builtin" THEN {"root", "class", "function", "attribute"}
                    ELSE {"root", "module", "class", "function", "attribute", "alias"})
       \* host "dataclass": the focus is the __init__ the dataclasses extension synthesises from one field
       /\ host \in IF kind \in {"root", "module"} \/ origin \in {"namespace", "builtin"} THEN {"none"}
                    \* host "init": the focus is a class or function DEFINED INSIDE the __init__ of the host class - the visitor
                    \* makes it a member of that function
                    ELSE IF kind = "function" /\ origin = "static" THEN {"none", "class", "dataclass", "init"}
                    ELSE IF kind = "class" /\ origin = "static" THEN {"none", "class", "init"} ELSE {"none", "class"}
       /\ dfield \in IF host = "dataclass" THEN {"plain", "kw_true", "kw_expr"} ELSE {NA}
       \* (the members of CPython's built-in modules have the names they have)
       /\ mname \in IF kind = "root" THEN {"pkg"} ELSE IF host = "dataclass" THEN {"__init__"}
                     ELSE IF origin = "builtin" THEN {"x"} ELSE {"x", "kind", "cls"}
       /\ doc \in IF kind = "alias" \/ (origin = "namespace" /\ kind = "root") \/ host = "dataclass" THEN {"absent"}
                   ELSE IF origin = "builtin" /\ kind # "root" THEN {"plain"} ELSE {"absent", "plain"}
       /\ bases \in IF kind # "class" THEN {NA} ELSE IF Inspected(origin) THEN {"none", "str"} ELSE ExprAlts
       /\ deco \in IF kind \notin {"class", "function"} THEN {NA}
                    ELSE IF Inspected(origin) \/ origin = "namespace" \/ host = "dataclass" THEN {"none"} ELSE DecoAlts
       /\ pann \in IF kind # "function" THEN {NA} ELSE IF host = "dataclass" THEN {"name"} ELSE IF origin = "namespace" THEN {"nopar"}
                    ELSE IF origin = "builtin" THEN {"nopar", "none"}
                    ELSE IF Inspected(origin) THEN {"nopar", "none", "name"} ELSE ExprAlts \cup {"nopar"}
       /\ pdef \in IF kind # "function" \/ pann = "nopar" THEN {NA} ELSE IF host = "dataclass" THEN {"str"}
                    ELSE IF Inspected(origin) THEN {"none", "str"} ELSE DefAlts
       /\ pdoc \in IF kind # "function" \/ pann = "nopar" \/ Inspected(origin) THEN {FALSE} ELSE BOOLEAN
       /\ ret \in IF kind # "function" THEN {NA} ELSE IF host = "dataclass" THEN {"str"} ELSE IF origin = "builtin" THEN {"none"}
                   ELSE IF Inspected(origin) \/ origin = "namespace" THEN {"none", "name"} ELSE ExprAlts
       /\ val \in IF kind # "attribute" THEN {NA} ELSE IF Inspected(origin) THEN {"str"} ELSE ValAlts
       /\ ann \in IF kind # "attribute" THEN {NA} ELSE IF Inspected(origin) THEN {"none"} ELSE ExprAlts
       /\ (kind = "attribute" => ~(val = "none" /\ ann = "none"))       \* `x` alone is no attribute
       \* where the names of the focus resolve: "init" = an attribute assigned in __init__ (scope = that function);
       \* "shadowed" = a class whose BODY defines members named like the names used in its own header (bases, decorators):
       \* the header still resolves in the container, and must do so after reload (_load_class attaches the class's
       \* expressions to the class itself first, the container's loader then re-attaches them to the container)
       /\ where \in IF kind = "attribute" /\ host = "class" /\ origin = "static" /\ val # "none" THEN {"container", "init"}
                     ELSE IF kind = "class" /\ origin = "static" /\ (bases \notin {"none", "str"} \/ deco # "none") THEN {"container", "shadowed"}
                     ELSE {"container"}
       \* how the alias came to be: single-line import, multi-line import (endlineno > lineno), expansion of a wildcard
       \* import (a new name / overwriting a member defined above it: expand_wildcards), inspection (no line numbers)
       /\ alno \in IF kind # "alias" THEN {NA} ELSE IF Inspected(origin) THEN {"none"}
                    ELSE IF host = "class" THEN {"int", "span"} ELSE {"int", "span", "wild", "over"}
       /\ resolved \in IF kind = "alias" /\ origin = "static" /\ alno \in {"int", "span"} THEN BOOLEAN ELSE {FALSE}
       /\ slot = NA /\ spine = <<>> /\ leaf = NA /\ section = NA
       /\ (host = "init" => (mname = "x" /\ doc = "absent" /\ deco = "none" /\ pdef \in {NA, "none"} /\ pdoc = FALSE))
       \* objects not available at runtime: defined under `if TYPE_CHECKING:`, or present in the sibling stub file only
       \* (the merger adds them); stub-only members are explored with constant-only fields
       /\ guard \in IF origin = "static" /\ kind \in {"class", "function", "attribute"} /\ mname = "x" /\ host \notin {"dataclass", "init"} /\ where = "container"
                     THEN (IF host = "none" /\ bases \in {NA, "none"} /\ deco \in {NA, "none"} /\ pann \in {NA, "nopar"}
                              /\ ret \in {NA, "none"} /\ val \in {NA, "str"} /\ ann \in {NA, "none"}
                           THEN {"none", "typecheck", "stub"}
                           \* "stubsig": a function that exists at runtime with a bare signature `(p)` while the sibling stub spells
                           \* `(p: T, q: T = ...) -> T`: merger._merge_function_stubs takes the annotations of the parameters the
                           \* runtime signature HAS and the return annotation; a parameter only the stub knows is not added
                           ELSE IF kind = "function" /\ host = "none" /\ deco = "none" /\ pann = "none" /\ pdef = "none" /\ ~pdoc /\ ret = "none"
                           THEN {"none", "typecheck", "stubsig"} ELSE {"none", "typecheck"})
                     ELSE {"none"}
       \* the docstring text shapes, on otherwise plain objects of every kind and origin
       \* (the docstring of an inspected attribute is that of the type of its value, not a text of the module)
       /\ dtext \in IF doc = "plain" /\ origin # "builtin" /\ ~(Inspected(origin) /\ kind = "attribute") /\ mname \in {"x", "pkg"} /\ host \in {"none", "class"} /\ guard = "none"
                       /\ bases \in {NA, "none"} /\ deco \in {NA, "none"} /\ pann \in {NA, "nopar"} /\ ret \in {NA, "none"}
                       /\ val \in {NA, "str"} /\ ann \in {NA, "none"} /\ where = "container"
                     THEN DocTexts ELSE {NA}
     ELSE IF part = "expr" THEN
       /\ origin = "static" /\ dtext = NA /\ nsparts = NA
       /\ slot \in SlotSet /\ kind = SlotKind(slot)
       /\ host = "none" /\ mname = "x" /\ doc = "absent" /\ dfield = NA /\ guard = "none"
       /\ spine \in UNION {[1..n -> IF n > FullDepth THEN CoreSteps ELSE AllSteps] : n \in 0..(IF slot \in SpineSlots THEN MaxSpine ELSE 1)}
       /\ leaf \in IF Len(spine) >= 2 THEN DeepLeaves ELSE AllLeaves
       /\ SpineOK(spine, leaf)
       /\ bases = NA /\ deco = NA /\ pann = NA /\ pdef = NA /\ pdoc = FALSE /\ ret = NA /\ val = NA /\ ann = NA
       /\ where = "container" /\ alno = NA /\ resolved = FALSE /\ section = NA
     ELSE \* "doc": docstrings with a docstring parser configured, one section kind each
       /\ origin \in DocOrigins
       /\ kind \in IF origin = "static" THEN {"root", "class", "function", "attribute"} ELSE {"root", "class", "function"}
       /\ section \in SectionKinds
       /\ host = "none" /\ mname = (IF kind = "root" THEN "pkg" ELSE "x") /\ doc = "google" /\ dfield = NA /\ guard = "none" /\ dtext = NA /\ nsparts = NA
       /\ bases = (IF kind = "class" THEN "none" ELSE NA) /\ deco = (IF kind \in {"class", "function"} THEN "none" ELSE NA)
       /\ pann = (IF kind = "function" THEN "nopar" ELSE NA) /\ pdef = NA /\ pdoc = FALSE
       /\ ret = (IF kind = "function" THEN "none" ELSE NA)
       /\ val = (IF kind = "attribute" THEN "str" ELSE NA) /\ ann = (IF kind = "attribute" THEN "none" ELSE NA)
       /\ where = "container" /\ alno = NA /\ resolved = FALSE /\ slot = NA /\ spine = <<>> /\ leaf = NA

\* ---- the descriptor chain of a case: what the agent `origin` produces -----------------------------------
HasLines(o, k) == o = "static" \/ (o = "inspect_src" /\ k \in {"class", "function"}) \/ (o = "namespace" /\ k # "module")
DocOf(o) == IF doc = "absent" THEN NoDoc
            ELSE DocT(o \in {"static", "namespace"}, IF doc = "google" THEN "google" ELSE "none", IF doc = "google" THEN section ELSE "text",
                      IF dtext = NA THEN "single" ELSE dtext)
LineOf(o, k) == IF HasLines(o, k) THEN "int" ELSE "none"
SlotEV == EV(MkExpr(spine, leaf), IF IsScalar(MkExpr(spine, leaf)) THEN "na" ELSE "container")

Root == [Obj("module", "pkg") EXCEPT
           !.filepath = IF origin = "builtin" THEN "none" ELSE IF origin = "namespace" THEN (IF nsparts = "two" THEN "list2" ELSE "list") ELSE "path",
           \* (every built-in module used as a witness has a docstring)
           !.doc = IF kind = "root" THEN DocOf(origin) ELSE IF origin = "builtin" THEN Doc(FALSE, "none", "text") ELSE NoDoc]
Host == [Obj("class", "H") EXCEPT !.lineno = LineOf(origin, "class"), !.endlineno = LineOf(origin, "class")]
\* `def __init__(self):` of the host class, holding the focus as a member
InitFn == [Obj("function", "__init__") EXCEPT !.lineno = "int", !.endlineno = "int", !.params = <<Par(NoEV, NoEV, NoDoc)>>]
\* `@dataclass class H:` - decorated, labelled {"dataclass"}
DataHost == [Host EXCEPT !.decorators = <<Dec(EV(Leaf("name"), "container"), "int")>>, !.labels = "some"]
SubMod == [Obj("module", "sub") EXCEPT !.filepath = "path"]

Focus ==
  LET k == kind
      b == [Obj(k, mname) EXCEPT !.runtime = (guard \in {"none", "stubsig"}), !.doc = DocOf(origin), !.lineno = LineOf(origin, k), !.endlineno = LineOf(origin, k)]
      scopeOf(ev) == IF where = "init" /\ ~IsScalar(ev.e) THEN EV(ev.e, "init") ELSE ev
  IN CASE k = "module" -> [b EXCEPT !.filepath = "path", !.lineno = "none", !.endlineno = "none"]
       [] k = "class" ->
            [b EXCEPT !.bases = IF part = "expr" THEN (IF slot = "class.bases" THEN <<SlotEV>> ELSE <<>>)
                                ELSE IF bases = "none" THEN <<>> ELSE <<AltExpr(bases)>>,
                      !.decorators = IF part = "expr" THEN (IF slot = "class.decorator" THEN <<Dec(SlotEV, "int")>> ELSE <<>>)
                                     ELSE IF deco = "none" THEN <<>> ELSE <<Dec(AltExpr(deco), "int")>>]
       [] k = "function" ->
            [b EXCEPT !.labels = IF origin = "builtin" THEN "some" ELSE "empty",      \* {"builtin"}
                      !.decorators = IF part = "expr" THEN (IF slot = "function.decorator" THEN <<Dec(SlotEV, "int")>> ELSE <<>>)
                                     ELSE IF deco = "none" THEN <<>> ELSE <<Dec(AltExpr(deco), "int")>>,
                      !.params = IF part = "expr"
                                 THEN (IF slot = "function.param.annotation" THEN <<Par(SlotEV, NoEV, NoDoc)>>
                                       ELSE IF slot = "function.param.default" THEN <<Par(NoEV, SlotEV, NoDoc)>> ELSE <<>>)
                                 ELSE IF pann = "nopar" THEN <<>>
                                 ELSE IF host = "dataclass"
                                 \* _set_dataclass_init: self, then one parameter per field: annotation, default and docstring of the
                                 \* attribute; keyword-only iff the field says kw_only=True LITERALLY
                                 THEN <<Par(NoEV, NoEV, NoDoc),
                                        ParK(AltExpr(pann), AltExpr(pdef), IF pdoc THEN Doc(TRUE, "none", "text") ELSE NoDoc,
                                             IF dfield = "kw_true" THEN "kwonly" ELSE "poskw")>>
                                 ELSE IF guard = "stubsig" THEN <<Par(StrEV, NoEV, NoDoc)>>       \* annotation merged from the stub
                                 ELSE <<Par(AltExpr(pann), AltExpr(pdef), IF pdoc THEN Doc(TRUE, "none", "text") ELSE NoDoc)>>,
                      !.returns = IF part = "expr" THEN (IF slot = "function.returns" THEN SlotEV ELSE NoEV)
                                  ELSE IF guard = "stubsig" THEN StrEV ELSE AltExpr(ret)]
       [] k = "attribute" ->
            [b EXCEPT !.labels = "some",
                      !.value = IF part = "expr" THEN (IF slot = "attribute.value" THEN SlotEV ELSE IF slot = "attribute.annotation" THEN NoEV ELSE StrEV)
                                ELSE scopeOf(AltExpr(val)),
                      !.annotation = IF part = "expr" THEN (IF slot = "attribute.annotation" THEN SlotEV ELSE NoEV) ELSE scopeOf(AltExpr(ann))]
       [] k = "alias" ->
            [b EXCEPT !.lineno = "none", !.endlineno = "none",
                      !.alineno = IF alno = "none" THEN "none" ELSE "int",
                      !.aendlineno = IF alno = "none" THEN "none" ELSE IF alno = "span" THEN "int+" ELSE "int",
                      !.resolved = resolved \/ alno \in {"wild", "over"}]

MkChain ==
  IF kind = "root" THEN <<Root>>
  ELSE IF origin = "namespace" /\ kind # "module" THEN <<Root, SubMod, Focus>>
  ELSE IF host = "class" THEN <<Root, Host, Focus>>
  ELSE IF host = "dataclass" THEN <<Root, DataHost, Focus>>
  ELSE IF host = "init" THEN <<Root, Host, InitFn, Focus>>
  ELSE <<Root, Focus>>

\* =================================================================================================
\* 7. The run: as_json (both forms), from_json of the MINIMAL form, as_json again (both forms)
\* =================================================================================================
Build == /\ pc = "case" /\ chain' = MkChain /\ pc' = "loaded" /\ UNCHANGED <<casevars, enc, dec, reenc, obs>>
AsJson ==
  /\ pc = "loaded"
  /\ enc' = [min |-> Encode(chain, cwdrel, FALSE), full |-> Encode(chain, cwdrel, TRUE)]
  /\ pc' = "encoded" /\ UNCHANGED <<casevars, chain, dec, reenc, obs>>
FromJson ==
  /\ pc = "encoded"
  /\ dec' = IF IsRaise(enc.min) THEN Fail("encode", "", "") ELSE Decode(enc.min)
  /\ pc' = "decoded" /\ UNCHANGED <<casevars, chain, enc, reenc, obs>>
AsJsonAgain ==
  /\ pc = "decoded"
  /\ reenc' = IF dec.ok THEN [min |-> Encode(dec.chain, cwdrel, FALSE), full |-> Encode(dec.chain, cwdrel, TRUE)]
              ELSE [min |-> JNull, full |-> JNull]
  /\ pc' = "reencoded" /\ UNCHANGED <<casevars, chain, enc, dec, obs>>
Done == pc = "done"

\* ---- observations on the final state ---------------------------------------------------------------------
\* the expression slots of an object, in a fixed order
SlotsOf(o) ==
  [i \in 1..Len(o.bases) |-> [slot |-> "bases", ev |-> o.bases[i]]]
  \o [i \in 1..Len(o.decorators) |-> [slot |-> "decorator", ev |-> o.decorators[i].value]]
  \o Concat([i \in 1..Len(o.params) |-> <<[slot |-> "param.annotation", ev |-> o.params[i].annotation],
                                          [slot |-> "param.default", ev |-> o.params[i].default]>>])
  \o (IF o.kind = "function" THEN <<[slot |-> "returns", ev |-> o.returns]>> ELSE <<>>)
  \o (IF o.kind = "attribute" THEN <<[slot |-> "value", ev |-> o.value], [slot |-> "annotation", ev |-> o.annotation]>> ELSE <<>>)
\* per slot: the parents of the names (pre-order) and the scope object
NamesOf(o) == [i \in 1..Len(SlotsOf(o)) |->
                 [slot |-> SlotsOf(o)[i].slot, pars |-> NamePars(SlotsOf(o)[i].ev.e),
                  scope |-> IF \E k \in 1..Len(NamePars(SlotsOf(o)[i].ev.e)) : NamePars(SlotsOf(o)[i].ev.e)[k] = "scope"
                            THEN SlotsOf(o)[i].ev.scope ELSE "na"]]
RendersOf(o) == [i \in 1..Len(SlotsOf(o)) |-> Render(SlotsOf(o)[i].ev.e)]
FocusOf(ch) == ch[Len(ch)]
\* the serialised state of an object (what "equivalent tree" compares); resolution state and the docstring
\* parser are loader state, not serialised, and not compared here
Serialised(o) == [kind |-> o.kind, name |-> o.name, lineno |-> o.lineno, endlineno |-> o.endlineno,
                  doc |-> [present |-> o.doc.present, lineno |-> o.doc.lineno, endlineno |-> o.doc.endlineno, val |-> o.doc.val],
                  labels |-> o.labels, filepath |-> o.filepath, alineno |-> o.alineno, aendlineno |-> o.aendlineno,
                  nbases |-> Len(o.bases), decs |-> [i \in 1..Len(o.decorators) |-> <<o.decorators[i].lineno, o.decorators[i].endlineno>>],
                  pdocs |-> [i \in 1..Len(o.params) |-> o.params[i].doc.present],
                  pkinds |-> [i \in 1..Len(o.params) |-> o.params[i].kind]]

\* =================================================================================================
\* 8. The clauses of C08 (invariants) and their declarative Clean-predicates
\* =================================================================================================
\* (TLC does not memoise operators: everything the clauses read is computed once, by the action Observe
\*  below, into the variable `obs`)
\* "Serialising a loaded tree never fails"
EncodeTotal == Done => obs.enc_min_ok /\ obs.enc_full_ok
\* "loading it back": Decode(Encode(d, minimal)) is defined
DecodeDefined == (Done /\ obs.enc_min_ok) => obs.dec_ok
\* "serialises to the identical JSON, in both minimal and full form"
RoundTripMinimal == (Done /\ obs.dec_ok) => obs.same_min
RoundTripFull == (Done /\ obs.dec_ok /\ obs.enc_full_ok) => obs.same_full
\* "an equivalent tree (same kinds, names, line spans, docstrings, labels, signatures ...)"
TreeEquivalent == (Done /\ obs.dec_ok) => obs.tree_eq
\* "names in reloaded expressions resolve as before"
NamesResolveAsBefore == (Done /\ obs.dec_ok) => obs.names_after = obs.names_before
\* "same ... expressions": they render the same
ExpressionsSame == (Done /\ obs.dec_ok) => obs.render_eq

\* ---- declarative characterisation of where each clause holds (the recorded defects are the complements)
CleanEncode == \A i \in 1..Len(MkChain) : MkChain[i].kind = "module" =>
                  /\ MkChain[i].filepath # "none"                          \* built-in module: full form raises
                  /\ (IsList(MkChain[i].filepath) => cwdrel)              \* namespace package seen from elsewhere
\* (since the decoder reads lineno with .get, builds the file path by type and dispatches on str values only,
\*  every document Encode produces in minimal form is decodable)
CleanDecode == TRUE
\* Declaratively: the walk gives every name the parent class the builder gave it (scope for a name, prev / str /
\* none inside attribute chains); what can still differ is the scope OBJECT: the value and annotation of an attribute
\* assigned in __init__ were built in the scope of the function and come back attached to the class.
\* a loader that does not load `members` drops what the agent stored below such an object (_load_attribute; attributes
\* never have members)
\* a value that cleandoc would change again survives the reload only because the decoder does not keep the re-cleaned one
CleanDocText == ~ReloadCleans \/ \A i \in 1..Len(MkChain) : MkChain[i].doc.val = "fix"
CleanMembers == \A i \in 1..(Len(MkChain) - 1) : MkChain[i].kind \in MemberLoaders
CleanNames == LET o == FocusOf(MkChain)
              IN CleanMembers /\ \A i \in 1..Len(SlotsOf(o)) :
                   (\E k \in 1..Len(NamePars(SlotsOf(o)[i].ev.e)) : NamePars(SlotsOf(o)[i].ev.e)[k] = "scope")
                     => SlotsOf(o)[i].ev.scope = "container"
\* (the enum of lambda parameter kinds is restored on load: every expression renders as before)
CleanRender == CleanMembers          \* (a dropped object has no expressions to render)
CleanFull == CleanMembers /\ \A i \in 1..Len(MkChain) : Parsed(MkChain[i].doc) = <<"text">>

\* the full form can be loaded back exactly when it contains no docstring (no `parsed` sections)
CleanFullReload == \A i \in 1..Len(MkChain) : ~MkChain[i].doc.present /\ \A k \in 1..Len(MkChain[i].params) : ~MkChain[i].params[k].doc.present
Clean == CleanDocText /\ CleanMembers /\ CleanEncode /\ CleanDecode /\ CleanNames /\ CleanRender /\ CleanFull

InDomain == CASE Domain = "clean" -> Clean [] Domain = "defect" -> ~Clean [] OTHER -> TRUE
Init ==
  /\ part \in Parts
  /\ origin \in Origins
  /\ cwdrel \in IF origin = "namespace" THEN BOOLEAN ELSE {TRUE}
  /\ pc = "case" /\ chain = <<>> /\ enc = <<>> /\ dec = <<>> /\ reenc = <<>> /\ obs = <<>>
  /\ CaseChoice
  /\ InDomain

Observe ==
  /\ pc = "reencoded"
  /\ obs' = [enc_min_ok |-> ~IsRaise(enc.min), enc_full_ok |-> ~IsRaise(enc.full), dec_ok |-> dec.ok,
             same_min |-> dec.ok /\ reenc.min = enc.min, same_full |-> dec.ok /\ reenc.full = enc.full,
             tree_eq |-> dec.ok /\ Len(dec.chain) = Len(chain) /\ \A i \in 1..Len(chain) : Serialised(dec.chain[i]) = Serialised(chain[i]),
             \* loading the FULL form back (documented as unsupported: the full form is meant for other tools)
             decfull_ok |-> IF IsRaise(enc.full) THEN TRUE ELSE Decode(enc.full).ok,
             names_before |-> NamesOf(FocusOf(chain)),
             names_after |-> IF dec.ok /\ Len(dec.chain) = Len(chain) THEN NamesOf(FocusOf(dec.chain)) ELSE <<[slot |-> "focus lost", pars |-> <<>>, scope |-> "na"]>>,
             render_eq |-> dec.ok /\ Len(dec.chain) = Len(chain) /\ RendersOf(FocusOf(dec.chain)) = RendersOf(FocusOf(chain)),
             clean |-> [encode |-> CleanEncode, decode |-> CleanDecode, names |-> CleanNames, render |-> CleanRender, full |-> CleanFull,
                       members |-> CleanMembers, doctext |-> CleanDocText]]
  /\ pc' = "done" /\ UNCHANGED <<casevars, chain, enc, dec, reenc>>
Next == Build \/ AsJson \/ FromJson \/ AsJsonAgain \/ Observe
Spec == Init /\ [][Next]_vars

\* Domain = "all": each clause fails exactly on the complement of its Clean-predicate
Characterisation ==
  Done => /\ (obs.enc_full_ok <=> obs.clean.encode) /\ obs.enc_min_ok
          /\ (obs.dec_ok <=> obs.clean.decode)
          /\ (obs.enc_full_ok => (obs.decfull_ok <=> CleanFullReload))
          /\ (obs.dec_ok => ((obs.same_min /\ obs.tree_eq) <=> (obs.clean.members /\ obs.clean.doctext)))
          /\ ((obs.dec_ok /\ obs.enc_full_ok) => (obs.same_full <=> obs.clean.full))
          /\ (obs.dec_ok => ((obs.names_after = obs.names_before) <=> obs.clean.names))
          /\ (obs.dec_ok => (obs.render_eq <=> obs.clean.render))

\* Domain = "all": the literal clauses on the clean part of the space, in the same run
IsClean == Done /\ obs.clean.doctext /\ obs.clean.members /\ obs.clean.encode /\ obs.clean.decode /\ obs.clean.names /\ obs.clean.render /\ obs.clean.full
Clean_EncodeTotal == IsClean => EncodeTotal
Clean_DecodeDefined == IsClean => DecodeDefined
Clean_RoundTripMinimal == IsClean => RoundTripMinimal
Clean_RoundTripFull == IsClean => RoundTripFull
Clean_TreeEquivalent == IsClean => TreeEquivalent
Clean_NamesResolveAsBefore == IsClean => NamesResolveAsBefore
Clean_ExpressionsSame == IsClean => ExpressionsSame

\* =================================================================================================
\* 9. Case emission
\* =================================================================================================
CaseRec ==
  [nsparts |-> nsparts, dtext |-> dtext, guard |-> guard, dfield |-> dfield, part |-> part, origin |-> origin, kind |-> kind, host |-> host, mname |-> mname, doc |-> doc, cwdrel |-> cwdrel,
   bases |-> bases, deco |-> deco, pann |-> pann, pdef |-> pdef, pdoc |-> pdoc, ret |-> ret, val |-> val, ann |-> ann,
   where |-> where, alno |-> alno, resolved |-> resolved, slot |-> slot, spine |-> spine, leaf |-> leaf, section |-> section,
   clean |-> obs.clean,
   enc |-> enc,
   dec |-> [ok |-> dec.ok, exc |-> dec.exc, key |-> dec.key, kind |-> dec.kind],
   same |-> [min |-> obs.same_min, full |-> obs.same_full],
   names |-> [before |-> obs.names_before, after |-> obs.names_after],
   render |-> obs.render_eq, decfull |-> obs.decfull_ok,
   tree |-> IF part = "expr" THEN MkExpr(spine, leaf) ELSE NoneN]
EmitCase == (Emit /\ Done) => PrintT(<<"CASE", ToJson(CaseRec)>>)
=============================================================================
