---------------------------- MODULE SerdeSchema ----------------------------
(***************************************************************************)
(* C09 - full JSON dumps conform to the published schema.                  *)
(*                                                                         *)
(* Gen_Schema.tla is GENERATED at check time from docs/schema.json (one    *)
(* normal-form record per schema node).  Errs is the evaluator of that     *)
(* normal form (the draft-07 subset the schema uses) on the abstract JSON  *)
(* documents Serde!Encode(d, TRUE) produces; SchemaOK(j) == Errs(...) = {} *)
(*                                                                         *)
(* The run of Serde (as_json / from_json / as_json) is extended by one     *)
(* step, Validate.  With Probe = TRUE the document is first mutated (one   *)
(* key dropped, re-typed or added at one level): those synthetic documents *)
(* are concretised by the driver and given to the real jsonschema; the two *)
(* verdicts must agree (validation of generator + evaluator).              *)
(***************************************************************************)
EXTENDS Serde, Gen_Schema

CONSTANTS SDomain,    \* "clean" | "defect" | "all"   (with respect to CleanSchema)
          Probe       \* TRUE: enumerate mutated documents of a few base descriptors

VARIABLES mut, sch
svars == <<vars, mut, sch>>

\* ---- evaluator of the generated normal form ----------------------------------------------------------------
E(ctx, key, rule, got) == [ctx |-> ctx, key |-> key, rule |-> rule, got |-> got]
HasV(j) == "v" \in DOMAIN j
Deep(j) == "shallow" \notin DOMAIN j
KeysOf(j) == IF Deep(j) THEN DOMAIN j.f ELSE {}
ItemsOf(j) == IF Deep(j) THEN j.items ELSE <<>>
TypeOK(s, j) == s.types = {} \/ j.t \in s.types \/ (j.t = "integer" /\ "number" \in s.types)
\* errors are attributed to (kind of the enclosing Griffe object, key); sub-records that are no Griffe object
\* (docstring, decorators, parameters, parsed) are named by the key they sit under
CtxOf(j, key) == IF "kind" \in KeysOf(j) /\ HasV(j.f["kind"]) /\ j.f["kind"].v \in KindValues THEN j.f["kind"].v ELSE key

RECURSIVE Errs(_, _, _, _)
Errs(s0, j, ctx, key) ==
  IF s0.any THEN {}
  ELSE LET s == IF s0.ref # "" THEN Resolve(s0.ref) ELSE s0 IN
  IF s.any THEN {}
  ELSE
      (IF TypeOK(s, j) THEN {} ELSE {E(ctx, key, "type", j.t)})
    \cup (IF s.hasconst /\ ~(HasV(j) /\ j.v = s.const) THEN {E(ctx, key, "const", IF HasV(j) THEN j.v ELSE j.t)} ELSE {})
    \cup (IF s.enum # {} /\ ~(HasV(j) /\ j.v \in s.enum) THEN {E(ctx, key, "enum", IF HasV(j) THEN j.v ELSE j.t)} ELSE {})
    \cup (IF j.t = "object"
          THEN LET c == CtxOf(j, key)
               IN {E(c, k, "required", "missing") : k \in s.required \ KeysOf(j)}
                  \cup UNION {Errs(s.props[k], j.f[k], c, k) : k \in KeysOf(j) \cap DOMAIN s.props}
                  \cup (IF s.addl = "none" THEN {E(c, k, "additional", j.f[k].t) : k \in KeysOf(j) \ DOMAIN s.props} ELSE {})
                  \cup (IF s.addl = "schema" THEN UNION {Errs(s.addls, j.f[k], c, k) : k \in KeysOf(j) \ DOMAIN s.props} ELSE {})
          ELSE {})
    \cup (IF j.t = "array" THEN UNION {Errs(s.items, ItemsOf(j)[i], ctx, key) : i \in 1..Len(ItemsOf(j))} ELSE {})
    \cup (IF Len(s.oneOf) = 0 THEN {}
          ELSE LET P == {<<i, Errs(s.oneOf[i], j, ctx, key)>> : i \in 1..Len(s.oneOf)}
                   ok == {p \in P : p[2] = {}}
               IN IF Cardinality(ok) = 1 THEN {}
                  ELSE IF Cardinality(ok) > 1 THEN {E(ctx, key, "oneOf", "multiple")}
                  ELSE \* no alternative matches: the errors of the closest one (fewest errors, then first)
                       (CHOOSE p \in P : \A q \in P : Cardinality(p[2]) < Cardinality(q[2])
                                                      \/ (Cardinality(p[2]) = Cardinality(q[2]) /\ p[1] <= q[1]))[2])
    \cup UNION {Errs(s.allOf[i], j, ctx, key) : i \in 1..Len(s.allOf)}
    \cup (IF s.hasif /\ Errs(s.ifs, j, ctx, key) = {} THEN Errs(s.thens, j, ctx, key) ELSE {})

SchemaErrs(j) == Errs(SchemaRoot, j, "", "")
SchemaOK(j) == SchemaErrs(j) = {}

\* ---- mutations (Probe) ---------------------------------------------------------------------------------------
NoMut == [lvl |-> "none", op |-> "none", key |-> "", ty |-> ""]
MutKeys == {"kind", "name", "path", "filepath", "relative_filepath", "relative_package_filepath", "lineno", "endlineno",
            "docstring", "labels", "members", "bases", "decorators", "parameters", "returns", "value", "annotation",
            "target_path", "parsed", "default"}
MutTypes == {"null", "string", "integer", "array", "object", "boolean"}
MutLevels == {"root", "focus", "docstring", "decorator", "parameter", "section"}
MutSet == {NoMut}
          \cup {[lvl |-> l, op |-> "drop", key |-> k, ty |-> ""] : l \in MutLevels, k \in MutKeys}
          \cup {[lvl |-> l, op |-> "retype", key |-> k, ty |-> t] : l \in MutLevels, k \in MutKeys, t \in MutTypes}
          \cup {[lvl |-> l, op |-> "add", key |-> "zzz", ty |-> ""] : l \in MutLevels}

ApplyMut(j, m) ==
  IF j.t # "object" \/ ~Deep(j) THEN j
  ELSE CASE m.op = "drop"   -> JObj([k \in DOMAIN j.f \ {m.key} |-> j.f[k]])
         [] m.op = "retype" -> IF m.key \in DOMAIN j.f THEN [j EXCEPT !.f[m.key] = JShallow(m.ty)] ELSE j
         [] m.op = "add"    -> JObj(j.f @@ (m.key :> JStr))
         [] OTHER -> j
KeyStep(k) == [k |-> k]
IdxStep(i) == [i |-> i]
RECURSIVE MutAt(_, _, _)
MutAt(j, path, m) ==
  IF path = <<>> THEN ApplyMut(j, m)
  ELSE LET st == Head(path)
       IN IF "k" \in DOMAIN st
          THEN (IF j.t = "object" /\ Deep(j) /\ st.k \in DOMAIN j.f THEN [j EXCEPT !.f[st.k] = MutAt(@, Tail(path), m)] ELSE j)
          ELSE (IF j.t = "array" /\ Deep(j) /\ st.i <= Len(j.items) THEN [j EXCEPT !.items[st.i] = MutAt(@, Tail(path), m)] ELSE j)
FocusPath == Concat([i \in 1..(Len(chain) - 1) |-> <<KeyStep("members"), KeyStep(chain[i + 1].name)>>])
PathOf(lvl) ==
  CASE lvl = "root"      -> <<>>
    [] lvl = "focus"     -> FocusPath
    [] lvl = "docstring" -> FocusPath \o <<KeyStep("docstring")>>
    [] lvl = "decorator" -> FocusPath \o <<KeyStep("decorators"), IdxStep(1)>>
    [] lvl = "parameter" -> FocusPath \o <<KeyStep("parameters"), IdxStep(1)>>
    [] lvl = "section"   -> FocusPath \o <<KeyStep("docstring"), KeyStep("parsed"), IdxStep(2)>>
    [] OTHER -> <<>>
Mutated(j, m) == IF m.lvl = "none" THEN j ELSE MutAt(j, PathOf(m.lvl), m)

\* ---- the property --------------------------------------------------------------------------------------------
OnDisk == origin # "builtin"
\* declaratively: the shapes the published schema admits.  Since the schema was brought in line with the dumps
\* (docstring.lineno integer|null, filepath string|array|null, alias lineno optional, all section kinds, object
\* section values) every document Encode produces conforms; what remains is that the full dump must EXIST.
CleanSchema == CleanEncode
SInDomain == CASE SDomain = "clean" -> CleanSchema [] SDomain = "defect" -> ~CleanSchema [] OTHER -> TRUE

\* a handful of base documents for the probes: one per kind, every optional sub-record present
ProbeBase ==
  IF part = "shape"
  THEN /\ origin = "static" /\ host = "none" /\ mname \in {"x", "pkg"} /\ doc = (IF kind = "alias" THEN "absent" ELSE "plain")
       /\ pdoc = FALSE /\ deco \in {NA, "call"} /\ pann \in {NA, "name"} /\ pdef \in {NA, "str"} /\ ret \in {NA, "name"}
       /\ bases \in {NA, "name"} /\ val \in {NA, "str"} /\ ann \in {NA, "name"} /\ resolved = FALSE /\ where = "container" /\ guard = "none"
  ELSE part = "doc" /\ origin = "static" /\ kind = "function" /\ section \in {"parameters", "admonition"}

InitS ==
  /\ Init
  /\ OnDisk
  /\ SInDomain
  /\ (Probe => ProbeBase)
  /\ mut = NoMut
  /\ sch = <<>>
\* the mutation is chosen here (the run up to "done" is shared by all mutants of a base document); mutations that
\* do not change the document are not enabled
Validate ==
  /\ pc = "done" /\ pc' = "validated"
  /\ \E m \in (IF Probe /\ ~IsRaise(enc.full) THEN MutSet ELSE {NoMut}) :
       LET docm == IF IsRaise(enc.full) THEN JNull ELSE Mutated(enc.full, m)
       IN /\ (m = NoMut \/ docm # enc.full)
          /\ mut' = m
          /\ sch' = IF IsRaise(enc.full) THEN [raised |-> TRUE, noop |-> FALSE, doc |-> JNull, errs |-> {}]
                    ELSE [raised |-> FALSE, noop |-> FALSE, doc |-> docm, errs |-> SchemaErrs(docm)]
  /\ UNCHANGED <<casevars, chain, enc, dec, reenc, obs>>
NextS == (Next /\ UNCHANGED <<mut, sch>>) \/ Validate
SpecS == InitS /\ [][NextS]_svars
Validated == pc = "validated"

\* "the full JSON dump of any package loaded from files on disk validates against the schema"
SchemaConforms == (Validated /\ mut = NoMut /\ ~sch.raised) => sch.errs = {}
\* and the dump can be produced at all (shared with C08's EncodeTotal)
FullDumpExists == (Validated /\ mut = NoMut) => ~sch.raised
Clean_SchemaConforms == CleanSchema => (SchemaConforms /\ FullDumpExists)
SchemaCharacterisation == (Validated /\ mut = NoMut) => ((~sch.raised /\ sch.errs = {}) <=> CleanSchema)

EmitSchemaCase ==
  (Emit /\ Validated /\ ~sch.noop) =>
     PrintT(<<"CASE", ToJson([nsparts |-> nsparts, dtext |-> dtext, guard |-> guard, dfield |-> dfield, part |-> part, origin |-> origin, kind |-> kind, host |-> host, mname |-> mname, doc |-> doc,
                              cwdrel |-> cwdrel, bases |-> bases, deco |-> deco, pann |-> pann, pdef |-> pdef, pdoc |-> pdoc,
                              ret |-> ret, val |-> val, ann |-> ann, where |-> where, alno |-> alno, resolved |-> resolved,
                              slot |-> slot, spine |-> spine, leaf |-> leaf, section |-> section,
                              cleanschema |-> CleanSchema, mut |-> mut, raised |-> sch.raised,
                              full |-> IF Probe THEN JNull ELSE enc.full,
                              doc2 |-> IF Probe THEN sch.doc ELSE JNull,
                              errs |-> sch.errs])>>)
=============================================================================
