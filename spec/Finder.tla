------------------------------- MODULE Finder -------------------------------
(***************************************************************************)
(* C14 - module discovery matches the import system, independent of the    *)
(* order in which the operating system lists directory entries.            *)
(*                                                                         *)
(* Shape A + P.  A *case* is a file layout over search paths 1, 2 (and 3,  *)
(* reachable only through a .pth file), and - chosen by TLC, directory by  *)
(* directory (action ListDir) - the ORDER in which os.walk reports the     *)
(* files and the sub-directories of every directory (variable `listing`),  *)
(* and the request form (chosen by action FindSpec).  Family "stubs" runs  *)
(* the same machine with find_stubs_package=True over layouts that also    *)
(* hold stubs-only packages `pkg-stubs`.                                   *)
(*                                                                         *)
(* Impl side: a statement-by-statement transcription of                    *)
(*   ModuleFinder.__init__/_extend_from_pth_files, find_spec,              *)
(*   find_package (path loop x choice loop, namespace accumulation),       *)
(*   iter_submodules (`seen`/`skip` across namespace portions),            *)
(*   submodules (stable sort by depth), GriffeLoader._load_submodule,      *)
(*   _get_or_create_parent_module, set_member (stub merge / replace),      *)
(*   find_spec(find_stubs_package=True), _load_package + merge_stubs       *)
(*   (stubs inside the package and in a stubs-only package).               *)
(* Reference side: CPython's PathFinder/FileFinder precedence (PyScan),    *)
(* pkgutil.extend_path for pkgutil-style packages, pkgutil.walk_packages   *)
(* (PyWalk).  The clauses of the property are the operators V_* at the     *)
(* end; invariants say that they hold in the clean domain.                 *)
(*                                                                         *)
(* File ids are <<search path index, relative path>>, a relative path is   *)
(* a sequence of abstract names (tokens).  Tokens that are not literal     *)
(* file names: "X.so" (a compiled-extension file name for this             *)
(* interpreter), "__init__.py!" (an __init__.py whose body is the          *)
(* pkgutil.extend_path idiom), "c14.pth" (names search path 3).            *)
(***************************************************************************)
EXTENDS Naturals, Sequences, FiniteSets, TLC, Json, SequencesExt

CONSTANTS Family,     \* "top" | "sub" | "ns" | "stubs" : which family of layouts Init enumerates
                      \* (family "stubs" is loaded with find_stubs_package=True)
          Domain,     \* "clean" | "defect" | "all" : layouts without / with / regardless of a known cause
          MaxFiles,   \* bound on the number of children chosen per package directory (sub, ns)
          Permute,    \* TRUE: every listing order is explored; FALSE: only the canonical one
          TopKinds,   \* top family: kinds of the entry for "pkg" in search paths 1 and 2
          P3Kinds,    \* top family: kinds of the entry in search path 3 (when a .pth file names it)
          PthForms,   \* subset of {"abs", "rel"}
          Drop,       \* sub, ns: file names removed from the universe of children (quick tier)
          Emit

VARIABLES files, pth, pthform,                 \* the case: layout
          given,                               \* the case: which of the paths 1, 2 the user passes as search_paths
                                               \* ("both"; "only1"/"only2": the other one is reached only through
                                               \* a request by the path of its package directory)
          request,                             \* the case: request form (chosen by FindSpec)
          listing,                             \* the case: what os.walk reports, directory by directory
          pc,
          py, causes, canon,                   \* computed once per layout: CPython reference, cause classes, run under canonical order
          spaths, topname,                     \* ModuleFinder.search_paths, top module name (find_spec)
          fpi, found, nsdirs,                  \* find_package loop state
          sfound, snsdirs,                     \* find_package("pkg-stubs") (find_stubs_package=True)
          tree, outcome,                       \* the loaded tree (set of nodes), "ok" | "ModuleNotFoundError"
          portions, pti, seen, subs,           \* iter_submodules: portions to scan, index, `seen`, yielded items
          idx                                  \* _load_submodules loop index
casevars == <<files, pth, pthform, given, request>>
stubvars == <<sfound, snsdirs>>
vars == <<files, pth, pthform, given, request, listing, pc, py, causes, canon, spaths, topname, fpi, found, nsdirs, sfound, snsdirs,
          tree, outcome, portions, pti, seen, subs, idx>>

Pkg == "pkg"
Stubs == "pkg-stubs"                 \* PEP 561 stubs-only package of Pkg
FindStubs == Family = "stubs"        \* load(..., find_stubs_package=True)
Inspect == Family = "ext"            \* family "ext" is loaded with allow_inspection=True: a *real* compiled module
                                     \* (token "__init__.so" in directory "_bisect": a copy of the stdlib extension) is
                                     \* imported and inspected; fake compiled files still fail to import and are skipped
DotDir == "d.x"                      \* a directory with a dot in its name (.ipynb_checkpoints, foo.egg-info, ...)
NoFile == <<0, <<>>>>
Accepted == {".py", ".pyc", ".pyo", ".pyd", ".pyi", ".so"}     \* ModuleFinder.extensions_set

\* ---- token tables ---------------------------------------------------------------------------------
PyToks  == {"pkg.py", "__init__.py", "__init__.py!", "m.py", "m.x.py", "x.py", "y.py", "z.py", "n.py", "a.py", "b.py", "c.py"}
PyiToks == {"pkg.pyi", "__init__.pyi", "m.pyi", "x.pyi", "n.pyi"}
SoToks  == {"pkg.so", "m.so", "__init__.so"}
Ext(t) == IF t \in PyToks THEN ".py" ELSE IF t \in PyiToks THEN ".pyi" ELSE IF t \in SoToks THEN ".so"
          ELSE IF t = "m.pyc" THEN ".pyc" ELSE IF t = "data.txt" THEN ".txt" ELSE ".pth"
\* iter_submodules: Path.stem, then split(".", 1)[0] for everything that is not a .py file
GStem(t) == CASE t \in {"pkg.py", "pkg.pyi", "pkg.so"} -> "pkg"
              [] t \in {"__init__.py", "__init__.py!", "__init__.pyi", "__init__.so"} -> "__init__"
              [] t \in {"m.py", "m.pyi", "m.so", "m.pyc"} -> "m"
              [] t = "m.x.py" -> "m.x"
              [] t \in {"x.py", "x.pyi"} -> "x"
              [] t = "y.py" -> "y" [] t = "z.py" -> "z" [] t \in {"n.py", "n.pyi"} -> "n"
              [] t = "a.py" -> "a" [] t = "b.py" -> "b" [] t = "c.py" -> "c"
              [] OTHER -> "-"
IsDottedName(s) == s = "m.x"
\* CPython: the module files FileFinder tries for a name, in loader order (extension modules, then source)
SoTok(n) == CASE n = "pkg" -> "pkg.so" [] n = "m" -> "m.so" [] OTHER -> "-"
PyTok(n) == CASE n = "pkg" -> "pkg.py" [] n = "m" -> "m.py" [] n = "x" -> "x.py" [] n = "y" -> "y.py" [] n = "z" -> "z.py"
              [] n = "n" -> "n.py" [] n = "a" -> "a.py" [] n = "b" -> "b.py" [] n = "c" -> "c.py" [] OTHER -> "-"
PyiTok(n) == CASE n = "m" -> "m.pyi" [] n = "x" -> "x.pyi" [] n = "n" -> "n.pyi" [] OTHER -> "-"
PycTok(n) == CASE n = "m" -> "m.pyc" [] OTHER -> "-"      \* sourceless bytecode next to (not under) __pycache__ rules
CandNames == {"m", "n", "s", "t", "x", "y", "z", "a", "b", "c", "_bisect"}

\* ---- the file system ------------------------------------------------------------------------------
Prefix(s, n) == SubSeq(s, 1, n)
FrontOf(s) == SubSeq(s, 1, Len(s) - 1)
LastOf(s) == s[Len(s)]
FilesOf(p) == {f[2] : f \in {g \in files : g[1] = p}}
IsFile(p, rel) == <<p, rel>> \in files
IsDir(p, d) == \E r \in FilesOf(p) : Len(r) > Len(d) /\ Prefix(r, Len(d)) = d
FileNames(p, d) == {r[Len(d) + 1] : r \in {q \in FilesOf(p) : Len(q) = Len(d) + 1 /\ Prefix(q, Len(d)) = d}}
DirNames(p, d) == {r[Len(d) + 1] : r \in {q \in FilesOf(p) : Len(q) > Len(d) + 1 /\ Prefix(q, Len(d)) = d}}
HasInitPy(p, d) == "__init__.py" \in FileNames(p, d) \/ "__init__.py!" \in FileNames(p, d)
\* the directories os.walk can reach: everything at or below a top-level "pkg" (or "pkg-stubs") directory
WalkDirs == UNION {{<<f[1], Prefix(f[2], k)>> : k \in 1..(Len(f[2]) - 1)} : f \in {g \in files : g[2][1] \in {Pkg, Stubs}}}
InSeq(e, s) == \E i \in 1..Len(s) : s[i] = e

\* ====================================================================================================
\* Reference: what CPython does
\* ====================================================================================================
PyNone == [kind |-> "none", file |-> NoFile, locs |-> <<>>, ext |-> FALSE]
\* site.addsitedir: .pth lines are relative to the site dir.  A package requested by the path of its directory whose
\* parent is not a search path is the package CPython imports with that parent first on sys.path.
ExtPath == IF given = "only1" THEN 2 ELSE 1                    \* the path that is not passed as a search path
PySysPath == IF given = "only1" THEN <<2, 1>> ELSE IF pth # 0 THEN <<1, 2, 3>> ELSE <<1, 2>>
SysRoots == [i \in 1..Len(PySysPath) |-> <<PySysPath[i], <<>>>>]

\* PathFinder._get_spec + FileFinder.find_spec over the directories `dirs`, from index i
RECURSIVE PyScan(_, _, _, _)
PyScan(dirs, i, name, nsacc) ==
  IF i > Len(dirs)
  THEN IF nsacc = <<>> THEN PyNone ELSE [kind |-> "namespace", file |-> NoFile, locs |-> nsacc, ext |-> FALSE]
  ELSE LET p == dirs[i][1]
           d == dirs[i][2]
           sub == Append(d, name)
       IN IF IsDir(p, sub) /\ "__init__.so" \in FileNames(p, sub)                  \* regular package, compiled __init__ (first loader)
          THEN [kind |-> "package", file |-> <<p, Append(sub, "__init__.so")>>, locs |-> << <<p, sub>> >>, ext |-> FALSE]
          ELSE IF IsDir(p, sub) /\ HasInitPy(p, sub)                              \* regular package
          THEN [kind |-> "package", file |-> <<p, Append(sub, "__init__.py")>>, locs |-> << <<p, sub>> >>,
                ext |-> "__init__.py!" \in FileNames(p, sub)]
          ELSE IF SoTok(name) \in FileNames(p, d)                                 \* extension module
          THEN [kind |-> "module", file |-> <<p, Append(d, SoTok(name))>>, locs |-> <<>>, ext |-> FALSE]
          ELSE IF PyTok(name) \in FileNames(p, d)                                 \* source module
          THEN [kind |-> "module", file |-> <<p, Append(d, PyTok(name))>>, locs |-> <<>>, ext |-> FALSE]
          ELSE IF PycTok(name) \in FileNames(p, d)                                \* sourceless module (any directory,
          THEN [kind |-> "module", file |-> <<p, Append(d, PycTok(name))>>, locs |-> <<>>, ext |-> FALSE]   \* even one named __pycache__)
          ELSE PyScan(dirs, i + 1, name, IF IsDir(p, sub) THEN Append(nsacc, <<p, sub>>) ELSE nsacc)

\* pkgutil.extend_path as executed by a pkgutil-style __init__.py: own directory, then every portion
\* FileFinder reports for the name in sys.path order
ExtPortion(p) == LET one == PyScan(<< <<p, <<>>>> >>, 1, Pkg, <<>>) IN one.locs
ExtendedPath(own) ==
  LET all == FlattenSeq([i \in 1..Len(PySysPath) |-> ExtPortion(PySysPath[i])])
  IN <<own>> \o SelectSeq(all, LAMBDA x : x # own)

RECURSIVE PyResolve(_)
PyResolve(parts) ==
  IF Len(parts) = 1
  THEN LET r == PyScan(SysRoots, 1, parts[1], <<>>)
       IN IF r.kind = "package" /\ r.ext THEN [r EXCEPT !.locs = ExtendedPath(r.locs[1])] ELSE r
  ELSE LET par == PyResolve(FrontOf(parts))
       IN IF par.kind \in {"package", "namespace"} THEN PyScan(par.locs, 1, LastOf(parts), <<>>) ELSE PyNone

\* pkgutil.walk_packages(path, prefix): iter_modules yields a name for the first portion holding a regular
\* package or a module file of that name; packages are imported and walked recursively
RECURSIVE PyWalk(_, _, _)
PyWalk(locs, prefix, fuel) ==
  IF fuel = 0 THEN {} ELSE
  UNION {LET r == PyScan(locs, 1, n, <<>>)
         IN IF r.kind = "module" THEN {[path |-> Append(prefix, n), ispkg |-> FALSE]}
            ELSE IF r.kind = "package" THEN {[path |-> Append(prefix, n), ispkg |-> TRUE]} \cup PyWalk(r.locs, Append(prefix, n), fuel - 1)
            ELSE {} : n \in CandNames}

\* dotted names worth asking the import system about: every directory / module stem below a "pkg" entry
CandOf(rel) ==
  LET n == Len(rel)
      stem == GStem(rel[n])
  IN IF \E k \in 1..n : rel[k] = DotDir THEN {}              \* "pkg.d.x" is not a dotted module name one can ask for
     ELSE {<<Pkg>> \o SubSeq(rel, 2, k) : k \in 1..(n - 1)} \cup
          (IF stem \in CandNames THEN {<<Pkg>> \o SubSeq(rel, 2, n - 1) \o <<stem>>} ELSE {})
CandPaths == {<<Pkg>>} \cup UNION {CandOf(f[2]) : f \in {g \in files : g[2][1] = Pkg /\ Len(g[2]) > 1}}

PyReference ==
  LET top == PyResolve(<<Pkg>>)
  IN [syspath |-> PySysPath, top |-> top,
      walk |-> IF top.kind \in {"package", "namespace"} THEN PyWalk(top.locs, <<Pkg>>, 3) ELSE {},
      imp |-> {[path |-> c, r |-> PyResolve(c)] : c \in CandPaths}]

\* ====================================================================================================
\* Impl: transcription of _griffe.finder / _griffe.loader
\* ====================================================================================================
\* ModuleFinder.__init__: search_paths, then _extend_from_pth_files -> _handle_pth_file:
\*   `if line and not line.startswith("#") and os.path.exists(line)`  (relative lines: relative to the cwd)
ImplSearchPaths == IF given = "only1" THEN <<1>> ELSE IF given = "only2" THEN <<2>>
                   ELSE IF pth # 0 /\ pthform = "abs" THEN <<1, 2, 3>> ELSE <<1, 2>>

\* find_spec(Path(dir)): _module_name_path gives (dir name, init module or dir); _top_module_name returns the
\* first part below the first search path the directory is relative to, else inserts the parent at position 0
TopModuleName(sp, req) ==
  IF req \in {"name", "dotted"} THEN [name |-> Pkg, sp |-> sp]      \* Path("pkg") does not exist: FileNotFoundError branch
  ELSE LET i == IF req = "path1" THEN 1 ELSE IF req = "path2" THEN 2 ELSE 3
       IN IF InSeq(i, sp) THEN [name |-> Pkg, sp |-> sp] ELSE [name |-> Pkg, sp |-> <<i>> \o sp]

\* the search paths after find_spec: unchanged, except for the only request possible when a path is not given
ForcedRequest == IF given = "both" THEN "name" ELSE IF given = "only1" THEN "path2" ELSE "path1"
EffectivePaths == TopModuleName(ImplSearchPaths, ForcedRequest).sp
\* what the property demands of them: the given search paths, preceded by the parent of an outside directory
ExpectedPaths == IF given = "both" THEN ImplSearchPaths ELSE PySysPath

\* one iteration of `for path in self.search_paths:` in find_package(dn); acc = [found, ns]
\* dn = "pkg" or "pkg-stubs" (real_module_name = dn without "-stubs": a Package is always named "pkg")
NotFound == [k |-> "none", file |-> NoFile, stubs |-> NoFile]
ModFileOf(dn) == IF dn = Pkg THEN "pkg.py" ELSE "-"           \* "pkg-stubs.py": not in the universe
StubFileOf(dn) == IF dn = Pkg THEN "pkg.pyi" ELSE "-"
FindInPathN(dn, p, acc) ==
  IF acc.found # NotFound THEN acc
  ELSE IF FilesOf(p) = {} THEN acc                                        \* `if path_contents:`
  ELSE LET d == <<dn>>
           names == FileNames(p, d)
           \* choice Path(module_name): the directory
           r1 == IF ~IsDir(p, d) THEN acc
                 ELSE IF "__init__.py" \in names                           \* exists and not _is_pkg_style_namespace
                 THEN [found |-> [k |-> "package", file |-> <<p, <<dn, "__init__.py">>>>,
                                  stubs |-> IF "__init__.pyi" \in names THEN <<p, <<dn, "__init__.pyi">>>> ELSE NoFile], ns |-> acc.ns]
                 ELSE IF "__init__.pyi" \in names                          \* "Stubs package."
                 THEN [found |-> [k |-> "package", file |-> <<p, <<dn, "__init__.pyi">>>>, stubs |-> NoFile], ns |-> acc.ns]
                 ELSE [found |-> NotFound, ns |-> Append(acc.ns, <<p, d>>)]
       IN IF r1.found # NotFound THEN r1
          \* choice Path(module_name + ".py")
          ELSE IF IsFile(p, <<ModFileOf(dn)>>)
          THEN [found |-> [k |-> "package", file |-> <<p, <<ModFileOf(dn)>>>>,
                           stubs |-> IF IsFile(p, <<StubFileOf(dn)>>) THEN <<p, <<StubFileOf(dn)>>>> ELSE NoFile], ns |-> r1.ns]
          ELSE r1
FindInPath(p, acc) == FindInPathN(Pkg, p, acc)

\* _filter_py_modules: os.walk(topdown) in the order given by L, __pycache__ pruned, accepted extensions only
RECURSIVE WalkDir(_, _, _)
WalkDir(L, p, d) ==
  LET ent == L[<<p, d>>]
      fs == SelectSeq(ent.files, LAMBDA n : Ext(n) \in Accepted)
      ds == SelectSeq(ent.dirs, LAMBDA n : n # "__pycache__")
  IN [i \in 1..Len(fs) |-> Append(d, fs[i])] \o FlattenSeq([i \in 1..Len(ds) |-> WalkDir(L, p, Append(d, ds[i]))])

\* iter_submodules(path_elem, seen) for one portion: `skip` is a snapshot of `seen` taken when the portion starts
RECURSIVE IterFold(_, _, _, _, _, _)
IterFold(w, i, p, root, skip, acc) ==
  IF i > Len(w) THEN acc
  ELSE LET sub == w[i]
           rel == SubSeq(sub, Len(root) + 1, Len(sub))
           par == FrontOf(rel)
           stem == GStem(LastOf(rel))
           nxt == IF par \in skip THEN acc                                                  \* "another module took precedence"
                  ELSE IF stem = "__init__"
                  THEN IF Len(rel) = 1 THEN acc
                       ELSE [items |-> Append(acc.items, [parts |-> par, file |-> <<p, sub>>, root |-> root]),
                             seen |-> IF acc.islist THEN acc.seen \cup {par} ELSE acc.seen, islist |-> acc.islist]
                  ELSE [items |-> Append(acc.items, [parts |-> Append(par, stem), file |-> <<p, sub>>, root |-> root]),
                        seen |-> acc.seen, islist |-> acc.islist]
       IN IterFold(w, i + 1, p, root, skip, nxt)
IterPortion(L, portion, sn, islist) ==
  IterFold(WalkDir(L, portion[1], portion[2]), 1, portion[1], portion[2], sn, [items |-> <<>>, seen |-> sn, islist |-> islist])

\* submodules(): sorted(..., key=_module_depth) - stable
SortByDepth(items) == FlattenSeq([k \in 1..4 |-> SelectSeq(items, LAMBDA it : Len(it.parts) = k)])

\* ---- the object tree: set of nodes [path, files, ns, contrib] keyed by dotted path -----------------------
Has(T, path) == \E n \in T : n.path = path
NodeAt(T, path) == CHOOSE n \in T : n.path = path
IsPyi(f) == Ext(LastOf(f[2])) = ".pyi"
IsSo(f) == Ext(LastOf(f[2])) = ".so"
IsInitFile(f) == GStem(LastOf(f[2])) = "__init__"
DirOfFile(f) == <<f[1], FrontOf(f[2])>>
\* Module.is_namespace_package / is_namespace_subpackage
RECURSIVE IsNs(_, _)
IsNs(T, n) == n.ns /\ (Len(n.path) = 1 \/ (Has(T, FrontOf(n.path)) /\ IsNs(T, NodeAt(T, FrontOf(n.path)))))
DropSubtree(T, path) == {n \in T : ~(Len(n.path) >= Len(path) /\ Prefix(n.path, Len(path)) = path)}

\* _get_or_create_parent_module
RECURSIVE GetOrCreate(_, _, _, _, _)
GetOrCreate(T, cur, parts, j, it) ==
  IF j > Len(parts) - 1 THEN [ok |-> TRUE, T |-> T]
  ELSE LET child == Append(cur, parts[j])
           mfp == <<it.file[1], it.root \o SubSeq(parts, 1, j)>>          \* module_filepath = parents[len(subparts) - offset]
       IN IF Has(T, child)                                                 \* parent_module.get_member(parent_part)
          THEN LET ch == NodeAt(T, child)
                   T2 == IF IsNs(T, ch) /\ ~InSeq(mfp, ch.files)
                         THEN (T \ {ch}) \cup {[ch EXCEPT !.files = Append(@, mfp)]} ELSE T
               IN GetOrCreate(T2, child, parts, j + 1, it)
          ELSE IF IsNs(T, NodeAt(T, cur))
          THEN GetOrCreate(T \cup {[path |-> child, files |-> <<mfp>>, ns |-> TRUE, contrib |-> {}]}, child, parts, j + 1, it)
          ELSE [ok |-> FALSE, T |-> T]                                     \* UnimportableModuleError

\* parent_module.set_member(name, submodule): implicit stub merge, else replacement
SetMember(T, path, file) ==
  LET new == [path |-> path, files |-> <<file>>, ns |-> FALSE, contrib |-> IF IsSo(file) THEN {} ELSE {file}]
  IN IF ~Has(T, path) THEN T \cup {new}
     ELSE LET old == NodeAt(T, path)
          IN IF ~IsNs(T, old) /\ ~old.ns /\ old.files # new.files
             THEN IF IsPyi(old.files[1])                                   \* merge_stubs: mod1 is the stubs, value = new module
                  THEN (T \ {old}) \cup {[new EXCEPT !.contrib = @ \cup old.contrib]}
                  ELSE IF IsPyi(file)                                       \* mod2 is the stubs, value = existing module
                  THEN (T \ {old}) \cup {[old EXCEPT !.contrib = @ \cup {file}]}
                  ELSE DropSubtree(T, path) \cup {new}                      \* ValueError suppressed: plain replacement
             ELSE DropSubtree(T, path) \cup {new}

\* _load_submodule(module, subparts, subpath)
LoadOne(T, it) ==
  IF \E i \in 1..Len(it.parts) : IsDottedName(it.parts[i]) THEN T          \* "dots in filenames are not supported"
  ELSE LET res == GetOrCreate(T, <<Pkg>>, it.parts, 1, it)
       IN IF ~res.ok THEN T
          ELSE IF Ext(LastOf(it.file[2])) \notin {".py", ".pyi"} /\ ~(Inspect /\ LastOf(it.file[2]) = "__init__.so")
          THEN res.T                       \* LoadingError: compiled module without inspection, or ImportError (fake file)
          ELSE SetMember(res.T, <<Pkg>> \o it.parts, it.file)

RECURSIVE LoadFold(_, _, _)
LoadFold(T, items, i) == IF i > Len(items) THEN T ELSE LoadFold(LoadOne(T, items[i]), items, i + 1)

RECURSIVE FindFoldN(_, _, _, _)
FindFoldN(dn, sp, i, acc) == IF i > Len(sp) THEN acc ELSE FindFoldN(dn, sp, i + 1, FindInPathN(dn, sp[i], acc))
FindFold(sp, i, acc) == FindFoldN(Pkg, sp, i, acc)

\* find_spec(find_stubs_package=True): package and stubs-only package are searched separately, then assembled:
\*   Package + Package           -> package.stubs = stubs.path   (replaces stubs found inside the package)
\*   Namespace + Namespace       -> package.path += stubs.path
\*   mixed                       -> the package alone
\*   only one of them            -> that one (a stubs-only *namespace* package keeps the name "pkg-stubs")
Nothing(fp) == fp.found = NotFound /\ fp.ns = <<>>
Assemble(pk, st) ==
  IF ~FindStubs \/ Nothing(st) THEN [found |-> pk.found, ns |-> pk.ns, misnamed |-> FALSE]
  ELSE IF Nothing(pk) THEN [found |-> st.found, ns |-> st.ns, misnamed |-> st.found = NotFound]
  ELSE IF pk.found # NotFound /\ st.found # NotFound THEN [found |-> [pk.found EXCEPT !.stubs = st.found.file], ns |-> pk.ns, misnamed |-> FALSE]
  ELSE IF pk.found = NotFound /\ st.found = NotFound THEN [found |-> NotFound, ns |-> pk.ns \o st.ns, misnamed |-> FALSE]
  ELSE [found |-> pk.found, ns |-> pk.ns, misnamed |-> FALSE]
FindBoth(sp) == Assemble(FindFoldN(Pkg, sp, 1, [found |-> NotFound, ns |-> <<>>]),
                         IF FindStubs THEN FindFoldN(Stubs, sp, 1, [found |-> NotFound, ns |-> <<>>]) ELSE [found |-> NotFound, ns |-> <<>>])

RECURSIVE IterAll(_, _, _, _, _)
IterAll(L, ps, i, acc, islist) ==
  IF i > Len(ps) THEN acc.items
  ELSE LET r == IterPortion(L, ps[i], acc.seen, islist)
       IN IterAll(L, ps, i + 1, [items |-> acc.items \o r.items, seen |-> r.seen], islist)

\* what _load_package starts from
RootNode(fnd, ns) ==
  IF fnd # NotFound THEN [path |-> <<Pkg>>, files |-> <<fnd.file>>, ns |-> FALSE, contrib |-> {fnd.file}]
  ELSE [path |-> <<Pkg>>, files |-> ns, ns |-> TRUE, contrib |-> {}]
\* iter_submodules(module.filepath): list -> every portion with a shared `seen`; __init__ file -> its directory;
\* any other accepted suffix -> nothing
PortionsOf(fnd, ns) ==
  IF fnd = NotFound THEN ns
  ELSE IF IsInitFile(fnd.file) THEN <<DirOfFile(fnd.file)>> ELSE <<>>
\* _load_package: `if package.stubs:` load the stubs module and merge_stubs(top_module, stubs).  Stubs inside the
\* package: only the __init__ stub is loaded.  Stubs in another package (pkg-stubs): the whole stubs package is loaded
\* (its own walk, in the listing order of its directories), then merged member by member: modules present on both
\* sides are merged (_merge_module_stubs), stub-only modules are moved into the package (set_member).
StubsTree(L, fnd) ==
  LET root == [path |-> <<Pkg>>, files |-> <<fnd.stubs>>, ns |-> FALSE, contrib |-> {fnd.stubs}]
  IN IF DirOfFile(fnd.stubs) = DirOfFile(fnd.file) \/ ~IsInitFile(fnd.stubs) THEN {root}
     ELSE LoadFold({root}, SortByDepth(IterPortion(L, DirOfFile(fnd.stubs), {}, FALSE).items), 1)
MergeTrees(T, S) ==
  {IF Has(S, n.path) THEN [n EXCEPT !.contrib = @ \cup NodeAt(S, n.path).contrib] ELSE n : n \in T}
  \cup {n \in S : ~Has(T, n.path)}
MergeTopStubs(L, T, fnd) ==
  IF fnd # NotFound /\ fnd.stubs # NoFile THEN MergeTrees(T, StubsTree(L, fnd)) ELSE T

\* the whole run as one function of the listing (used for the canonical order; the actions below do the same stepwise)
ImplRun(L) ==
  LET fp == FindBoth(EffectivePaths)
  IN IF fp.found = NotFound /\ fp.ns = <<>> THEN [outcome |-> "ModuleNotFoundError", tree |-> {}]
     ELSE IF fp.misnamed THEN [outcome |-> "KeyError", tree |-> {}]      \* the module is called "pkg-stubs": _post_load fails
     ELSE LET items == IterAll(L, PortionsOf(fp.found, fp.ns), 1, [items |-> <<>>, seen |-> {}], fp.found = NotFound)
              T == LoadFold({RootNode(fp.found, fp.ns)}, SortByDepth(items), 1)
          IN [outcome |-> "ok", tree |-> MergeTopStubs(L, T, fp.found)]

\* classification flags of Module
Cls(T, n) == IF n.ns THEN (IF Len(n.path) = 1 THEN "namespace" ELSE IF IsNs(T, n) THEN "namespace-sub" ELSE "module")
             ELSE IF IsInitFile(n.files[1]) THEN (IF Len(n.path) = 1 THEN "package" ELSE "subpackage")
             ELSE "module"

\* ====================================================================================================
\* The clauses of the property, evaluated on a finished run (out, T) against the CPython reference `py`
\* ====================================================================================================
ImpOf(path) == IF \E e \in py.imp : e.path = path THEN (CHOOSE e \in py.imp : e.path = path).r ELSE PyNone
SeqToSet(s) == {s[i] : i \in 1..Len(s)}

\* normalisation: a compiled file is never loaded without inspection; the source file lying next to it (same
\* directory, same name: mypyc / Cython builds) is what a static loader is expected to read instead
SoSibling(r, f) == r.kind = "module" /\ IsSo(r.file) /\ DirOfFile(r.file) = DirOfFile(f)
\* a stub file is acceptable where CPython would look for that name: next to (or instead of) the runtime module
StubOK(n) ==
  LET f == n.files[1]
      r == ImpOf(n.path)
  IN IF IsInitFile(f)
     THEN (r.kind = "namespace" /\ InSeq(DirOfFile(f), r.locs)) \/ (r.kind = "package" /\ r.locs[1] = DirOfFile(f))
     ELSE LET parentlocs == IF Len(n.path) = 1 THEN SysRoots ELSE ImpOf(FrontOf(n.path)).locs
          IN InSeq(DirOfFile(f), parentlocs) /\ (r.kind = "none" \/ (r.kind = "module" /\ IsSo(r.file)))
\* find_stubs_package=True: files of a stubs-only package "pkg-stubs" are acceptable at the mirrored position
\* (pkg-stubs/x.pyi for pkg.x, pkg-stubs/__init__.pyi for pkg) where CPython has no runtime module; its directories
\* are not portions for CPython and are ignored when portions are compared
UnderStubs(f) == Len(f[2]) >= 1 /\ f[2][1] = Stubs
NonStubs(fs) == SelectSeq(fs, LAMBDA f : ~UnderStubs(f))
StubPkgOK(n) ==
  LET f == n.files[1]
      r == ImpOf(n.path)
      tail == SubSeq(n.path, 2, Len(n.path))
  IN /\ FindStubs /\ IsPyi(f)
     /\ \/ f[2] = <<Stubs>> \o tail \o <<"__init__.pyi">>
        \/ Len(tail) >= 1 /\ f[2] = <<Stubs>> \o FrontOf(tail) \o <<PyiTok(LastOf(tail))>>
     /\ (r.kind = "none" \/ (r.kind = "module" /\ IsSo(r.file)))
NodeOK(n) ==
  LET r == ImpOf(n.path)
  IN IF n.ns THEN r.kind \in {"namespace", "package"} /\ (r.kind = "package" => r.ext) /\ SeqToSet(NonStubs(n.files)) \subseteq SeqToSet(r.locs)
     ELSE IF UnderStubs(n.files[1]) THEN StubPkgOK(n)
     ELSE IF IsPyi(n.files[1]) THEN StubOK(n)
     ELSE r.kind \in {"module", "package"} /\ (r.file = n.files[1] \/ SoSibling(r, n.files[1])) /\ ~(r.kind = "package" /\ r.ext)
\* every loaded module is importable at that name from that file, or is stub-only
\* ... and nothing is loaded out of a bytecode cache directory (PEP 3147: __pycache__ is a cache, not a package,
\* although the import system would accept it as a namespace portion)
V_LoadedImportable(out, T) == \A n \in T : NodeOK(n) /\ ~InSeq("__pycache__", n.path)
\* every module the package walker finds is loaded at the same dotted path (compiled files: skipped without inspection)
V_WalkerLoaded(out, T) ==
  \A w \in py.walk : LET r == ImpOf(w.path)
                     IN IsSo(r.file) \/ (\E n \in T : n.path = w.path /\ ~n.ns /\ n.files[1] = r.file)
\* first matching search path wins as for CPython
V_FirstPathWins(out, T) ==
  LET r == py.top
  IN CASE r.kind = "none" -> (out = "ModuleNotFoundError")
                              \/ (FindStubs /\ out = "ok" /\ LET root == NodeAt(T, <<Pkg>>) IN ~root.ns /\ UnderStubs(root.files[1]))   \* stubs-only package
       [] r.kind = "module" -> IF IsSo(r.file)
                               THEN out = "ModuleNotFoundError" \/ (out = "ok" /\ LET root == NodeAt(T, <<Pkg>>) IN ~root.ns /\ SoSibling(r, root.files[1]))
                               ELSE out = "ok" /\ LET root == NodeAt(T, <<Pkg>>) IN ~root.ns /\ root.files = <<r.file>>
       [] r.kind = "package" -> out = "ok" /\ LET root == NodeAt(T, <<Pkg>>)
                                             IN IF r.ext THEN root.ns /\ SeqToSet(root.files) = SeqToSet(r.locs)      \* pkgutil-style: portions as a set
                                                ELSE ~root.ns /\ root.files = <<r.file>>
       [] r.kind = "namespace" -> out = "ok" /\ LET root == NodeAt(T, <<Pkg>>)
                                               IN IF root.ns THEN NonStubs(root.files) = r.locs
                                                  ELSE IsPyi(root.files[1]) /\ IsInitFile(root.files[1]) /\ InSeq(DirOfFile(root.files[1]), r.locs)
\* package / sub-package / namespace package / plain module as the files dictate
V_Classified(out, T) ==
  \A n \in T : LET r == ImpOf(n.path)
                   c == Cls(T, n)
               IN CASE r.kind = "package" -> IF r.ext THEN c \in {"namespace", "namespace-sub"}
                                             ELSE c = (IF Len(n.path) = 1 THEN "package" ELSE "subpackage")
                    [] r.kind = "namespace" -> c = (IF Len(n.path) = 1 THEN "namespace" ELSE "namespace-sub")
                                               \/ (~n.ns /\ IsPyi(n.files[1]) /\ IsInitFile(n.files[1]))     \* stub-only package
                    [] r.kind = "module" -> c = "module"
                    [] OTHER -> TRUE                                            \* not importable: V_LoadedImportable speaks
V_OrderIndependent(out, T) == out = canon.outcome /\ T = canon.tree

Violated(out, T) ==
  (IF V_LoadedImportable(out, T) THEN {} ELSE {"loaded-importable"}) \cup
  (IF V_WalkerLoaded(out, T) THEN {} ELSE {"walker-loaded"}) \cup
  (IF V_FirstPathWins(out, T) THEN {} ELSE {"first-path-wins"}) \cup
  (IF V_Classified(out, T) THEN {} ELSE {"classified"}) \cup
  (IF V_OrderIndependent(out, T) THEN {} ELSE {"order-independent"})

\* ====================================================================================================
\* Known causes: syntactic classes of layouts on which the unchanged code is known to break a clause.
\* The clean domain is the complement; TLC proves the clauses there.
\* ====================================================================================================
PkgDirs == {k \in WalkDirs : Len(k[2]) = 1 /\ k[2][1] = Pkg}
RelDirs == {k[2] : k \in WalkDirs}
PathsWith(d) == {p \in {1, 2, 3} : IsDir(p, d)}
MinOf(S) == CHOOSE p \in S : \A q \in S : p <= q
GriffeFind == FindFold(EffectivePaths, 1, [found |-> NotFound, ns |-> <<>>])

\* a compiled top-level module (pkg.<abi>.so) is invisible to find_package (the TODO in find_package), so a later
\* entry of the same name is loaded although CPython stops at the compiled module
C_ToplevelSo ==
  py.top.kind = "module" /\ IsSo(py.top.file) /\
  ~((GriffeFind.found = NotFound /\ GriffeFind.ns = <<>>) \/ (GriffeFind.found # NotFound /\ SoSibling(py.top, GriffeFind.found.file)))
\* a relative line of a .pth file is resolved against the cwd, not against the directory of the .pth file
C_PthRelative == pth # 0 /\ pthform = "rel" /\ FilesOf(3) # {}
\* a directory holding __init__.pyi but no __init__.py is a regular (stubs) package for Griffe, a namespace portion for CPython
\* (harmless when that directory is the only provider of its dotted name; "pkg-stubs" directories are stubs packages by design)
C_InitPyi == \E k \in WalkDirs : /\ k[2][1] = Pkg /\ "__init__.pyi" \in FileNames(k[1], k[2]) /\ ~HasInitPy(k[1], k[2])
                                 /\ LET r == PyResolve(k[2]) IN ~(r.kind = "namespace" /\ r.locs = <<k>>)
\* find_stubs_package=True and only a stubs-only *namespace* package exists: find_package names it "pkg-stubs",
\* the module is loaded under that name and load() ends in KeyError: 'pkg'
C_StubsNsMisnamed == FindStubs /\ FindBoth(EffectivePaths).misnamed
\* pkgutil-style package mixed with a regular package / a module file of the same name elsewhere on the path
C_PkgutilRegular == (\E k \in PkgDirs : "__init__.py!" \in FileNames(k[1], k[2])) /\ (\E k \in PkgDirs : "__init__.py" \in FileNames(k[1], k[2]))
C_PkgutilModule == (\E k \in PkgDirs : "__init__.py!" \in FileNames(k[1], k[2])) /\ (\E p \in {1, 2, 3} : IsFile(p, <<"pkg.py">>) \/ IsFile(p, <<"pkg.so">>))
\* the same module file name in the same (namespace) directory of two portions: the last one replaces the first
C_NsDupModule ==
  \E d \in RelDirs, p \in {1, 2, 3}, q \in {1, 2, 3} :
     p < q /\ ~HasInitPy(p, d) /\ ~HasInitPy(q, d) /\
     \E t \in FileNames(p, d) \cap FileNames(q, d) : Ext(t) = ".py" /\ GStem(t) # "__init__"
\* a sub-directory that is a regular package in one portion and also exists in another portion, unless the
\* `seen` set happens to cover it (regular package in the first portion, only direct files elsewhere)
C_SubpackageSplit ==
  \E d \in RelDirs :
     Len(d) >= 2 /\ Cardinality(PathsWith(d)) >= 2 /\ (\E p \in PathsWith(d) : HasInitPy(p, d)) /\
     LET f == MinOf(PathsWith(d)) IN ~(HasInitPy(f, d) /\ \A q \in PathsWith(d) \ {f} : DirNames(q, d) = {})
\* X.py / X.pyi next to a directory X that is not a regular package: the module is used as the parent of X/*
C_FileShadowsDir ==
  \E k \in WalkDirs : \E n \in DirNames(k[1], k[2]) :
     ~HasInitPy(k[1], Append(k[2], n)) /\ (PyTok(n) \in FileNames(k[1], k[2]) \/ PyiTok(n) \in FileNames(k[1], k[2]))
\* X.py next to package X/ that has both __init__.py and __init__.pyi: whether the stub is merged depends on listing order
C_FileAndStubbedPackage ==
  \E k \in WalkDirs : \E n \in DirNames(k[1], k[2]) :
     PyTok(n) \in FileNames(k[1], k[2]) /\ {"__init__.py", "__init__.pyi"} \subseteq FileNames(k[1], Append(k[2], n))

Causes ==
  (IF C_ToplevelSo THEN {"toplevel-so-ignored"} ELSE {}) \cup
  (IF C_PthRelative THEN {"pth-relative-line"} ELSE {}) \cup
  (IF C_InitPyi THEN {"init-pyi-is-package"} ELSE {}) \cup
  (IF C_PkgutilRegular THEN {"pkgutil-mixed-with-regular"} ELSE {}) \cup
  (IF C_PkgutilModule THEN {"pkgutil-mixed-with-module"} ELSE {}) \cup
  (IF C_NsDupModule THEN {"ns-dup-module"} ELSE {}) \cup
  (IF C_SubpackageSplit THEN {"subpackage-split"} ELSE {}) \cup
  (IF C_FileShadowsDir THEN {"file-shadows-dir"} ELSE {}) \cup
  (IF C_FileAndStubbedPackage THEN {"file-and-stubbed-package"} ELSE {}) \cup
  (IF C_StubsNsMisnamed THEN {"stubs-namespace-misnamed"} ELSE {})

\* which clauses a cause class can explain (the same table as the `match` entries of findings.d/C14.json)
Explains(c) ==
  CASE c = "ns-dup-module" -> {"loaded-importable", "walker-loaded", "order-independent"}
    [] c = "subpackage-split" -> {"loaded-importable", "classified", "walker-loaded"}
    [] c = "file-shadows-dir" -> {"loaded-importable", "classified"}
    [] c = "file-and-stubbed-package" -> {"order-independent"}
    [] c = "toplevel-so-ignored" -> {"loaded-importable", "first-path-wins", "classified"}
    [] c = "stubs-namespace-misnamed" -> {"first-path-wins"}
    [] OTHER -> {"loaded-importable", "walker-loaded", "first-path-wins", "classified"}

\* ====================================================================================================
\* Case space
\* ====================================================================================================
UniqueMod(p) == <<"a.py", "b.py", "c.py">>[p]
TopFiles(p, k) ==
  LET u == <<Pkg, UniqueMod(p)>>
      ipy == <<Pkg, "__init__.py">>
      ipyi == <<Pkg, "__init__.pyi">>
  IN CASE k = "absent" -> {}
       [] k = "py" -> {<<"pkg.py">>}
       [] k = "pypyi" -> {<<"pkg.py">>, <<"pkg.pyi">>}
       [] k = "pyi" -> {<<"pkg.pyi">>}
       [] k = "so" -> {<<"pkg.so">>}
       [] k = "sopy" -> {<<"pkg.so">>, <<"pkg.py">>}
       [] k = "ns" -> {u}
       [] k = "init" -> {ipy, u}
       [] k = "initpyi" -> {ipyi, u}
       [] k = "initboth" -> {ipy, ipyi, u}
       [] k = "pkgutil" -> {<<Pkg, "__init__.py!">>, u}
       [] k = "nspy" -> {u, <<"pkg.py">>}
       [] k = "initpy" -> {ipy, u, <<"pkg.py">>}
TopLayouts ==
  {[files |-> {<<1, r>> : r \in TopFiles(1, k1)} \cup {<<2, r>> : r \in TopFiles(2, k2)} \cup {<<3, r>> : r \in TopFiles(3, k3)}
              \cup (IF pt = 0 THEN {} ELSE {<<pt, <<"c14.pth">>>>}),
    pth |-> pt, pthform |-> pf]
   : k1 \in TopKinds, k2 \in TopKinds, k3 \in P3Kinds \cup {"absent"}, pt \in {0, 1, 2}, pf \in PthForms}
TopLayoutsOK == {l \in TopLayouts : (l.pth = 0 => (l.pthform = "abs" /\ ~\E f \in l.files : f[1] = 3))}

SubU == {<<"m.py">>, <<"m.pyi">>, <<"m.so">>, <<"m.x.py">>, <<"__pycache__", "m.pyc">>, <<"data.txt">>,
         <<"m", "__init__.py">>, <<"m", "__init__.pyi">>, <<"m", "x.py">>,
         <<"s", "__init__.py">>, <<"s", "__init__.pyi">>, <<"s", "x.py">>, <<"s", "x.pyi">>,
         <<"s", "t", "__init__.py">>, <<"s", "t", "z.py">>, <<DotDir, "data.txt">>}
SubLayouts ==
  {[files |-> {<<1, <<Pkg, "__init__.py">>>>} \cup {<<1, <<Pkg>> \o r>> : r \in S}, pth |-> 0, pthform |-> "abs"]
   : S \in {X \in SUBSET {r \in SubU : LastOf(r) \notin Drop} : Cardinality(X) <= MaxFiles}}

NsU == {<<"m.py">>, <<"m.pyi">>, <<"n.py">>, <<"s", "__init__.py">>, <<"s", "__init__.pyi">>, <<"s", "x.py">>, <<"s", "y.py">>,
        <<"s", "t", "__init__.py">>, <<"s", "t", "z.py">>, <<"__pycache__", "m.pyc">>, <<DotDir, "data.txt">>}
NsChoices == {X \in SUBSET {r \in NsU : LastOf(r) \notin Drop} : Cardinality(X) <= MaxFiles}
NsLayouts ==
  {[files |-> {<<1, <<Pkg>> \o r>> : r \in S1} \cup {<<2, <<Pkg>> \o r>> : r \in S2}, pth |-> 0, pthform |-> "abs"]
   : S1 \in NsChoices, S2 \in NsChoices \ {{}}}

\* family stubs (find_stubs_package=True): in each of the two search paths an entry for the package (kinds from
\* TopKinds) and optionally a stubs-only package "pkg-stubs" (regular: __init__.pyi, or namespace style) holding
\* <= MaxFiles of {m.pyi, n.pyi}; the package itself holds m.py
StubFamPkg(k) ==
  CASE k = "absent" -> {}
    [] k = "py" -> {<<"pkg.py">>}
    [] k = "init" -> {<<Pkg, "__init__.py">>, <<Pkg, "m.py">>}
    [] k = "initboth" -> {<<Pkg, "__init__.py">>, <<Pkg, "__init__.pyi">>, <<Pkg, "m.py">>}
    [] k = "ns" -> {<<Pkg, "m.py">>}
StubKidSets == {K \in SUBSET {"m.pyi", "n.pyi"} : Cardinality(K) <= MaxFiles}
StubChoices == {{}} \cup {{<<Stubs, "__init__.pyi">>} \cup {<<Stubs, t>> : t \in K} : K \in StubKidSets}
                    \cup {{<<Stubs, t>> : t \in K} : K \in StubKidSets \ {{}}}
StubsLayouts ==
  {[files |-> {<<1, r>> : r \in StubFamPkg(k1) \cup s1} \cup {<<2, r>> : r \in StubFamPkg(k2) \cup s2}, pth |-> 0, pthform |-> "abs"]
   : k1 \in TopKinds, k2 \in TopKinds, s1 \in StubChoices, s2 \in StubChoices}

\* family ext (allow_inspection=True): a regular package with a compiled sub-package (real extension module as
\* __init__.<abi>.so), a module inside it, a source module and a fake compiled module
ExtU == {<<"_bisect", "__init__.so">>, <<"_bisect", "x.py">>, <<"m.py">>, <<"m.so">>, <<"__pycache__", "m.pyc">>}
ExtLayouts ==
  {[files |-> {<<1, <<Pkg, "__init__.py">>>>} \cup {<<1, <<Pkg>> \o r>> : r \in S}, pth |-> 0, pthform |-> "abs"]
   : S \in {X \in SUBSET ExtU : Cardinality(X) <= MaxFiles}}

Layouts == IF Family = "top" THEN TopLayoutsOK ELSE IF Family = "sub" THEN SubLayouts
           ELSE IF Family = "ns" THEN NsLayouts ELSE IF Family = "stubs" THEN StubsLayouts ELSE ExtLayouts

Init ==
  /\ \E l \in Layouts : files = l.files /\ pth = l.pth /\ pthform = l.pthform
  /\ given \in (IF Family = "top" THEN {"both", "only1", "only2"} ELSE {"both"})
  /\ (given # "both" => pth = 0 /\ IsDir(ExtPath, <<Pkg>>))
  /\ request = "-"
  /\ listing = <<>> /\ pc = "reference"
  /\ py = PyNone /\ causes = {} /\ canon = [outcome |-> "-", tree |-> {}]
  /\ spaths = <<>> /\ topname = "-" /\ fpi = 0 /\ found = NotFound /\ nsdirs = <<>> /\ sfound = NotFound /\ snsdirs = <<>>
  /\ tree = {} /\ outcome = "-" /\ portions = <<>> /\ pti = 0 /\ seen = {} /\ subs = <<>> /\ idx = 0

CanonListing == IF WalkDirs = {} THEN <<>> ELSE [k \in WalkDirs |-> [files |-> SetToSeq(FileNames(k[1], k[2])), dirs |-> SetToSeq(DirNames(k[1], k[2]))]]

\* CPython's view, the cause classes and the run under the canonical order: once per layout
Reference ==
  /\ pc = "reference"
  /\ py' = PyReference
  /\ pc' = "causes"
  /\ UNCHANGED <<stubvars, casevars, listing, causes, canon, spaths, topname, fpi, found, nsdirs, tree, outcome, portions, pti, seen, subs, idx>>
Classify ==
  /\ pc = "causes"
  /\ causes' = Causes
  /\ (Domain = "clean" => causes' = {})
  /\ (Domain = "defect" => causes' # {})
  /\ canon' = ImplRun(CanonListing)
  /\ pc' = "listdir"
  /\ UNCHANGED <<stubvars, casevars, listing, py, spaths, topname, fpi, found, nsdirs, tree, outcome, portions, pti, seen, subs, idx>>

\* os.walk reports the entries of one more directory: any order (only the canonical one when not permuting)
ListDir ==
  /\ pc = "listdir"
  /\ LET todo == WalkDirs \ DOMAIN listing
     IN IF todo = {} THEN pc' = "finder_init" /\ listing' = listing
        ELSE LET k == CHOOSE x \in todo : TRUE
                 fsets == IF Permute THEN SetToSeqs(FileNames(k[1], k[2])) ELSE {SetToSeq(FileNames(k[1], k[2]))}
                 dsets == IF Permute THEN SetToSeqs(DirNames(k[1], k[2])) ELSE {SetToSeq(DirNames(k[1], k[2]))}
             IN \E fs \in fsets, ds \in dsets :
                  /\ listing' = [x \in DOMAIN listing \cup {k} |-> IF x = k THEN [files |-> fs, dirs |-> ds] ELSE listing[x]]
                  /\ pc' = "listdir"
  /\ UNCHANGED <<stubvars, casevars, py, causes, canon, spaths, topname, fpi, found, nsdirs, tree, outcome, portions, pti, seen, subs, idx>>

\* ModuleFinder.__init__ (+ _extend_from_pth_files)
FinderInit ==
  /\ pc = "finder_init"
  /\ spaths' = ImplSearchPaths
  /\ pc' = "find_spec"
  /\ UNCHANGED <<stubvars, casevars, listing, py, causes, canon, topname, fpi, found, nsdirs, tree, outcome, portions, pti, seen, subs, idx>>

\* find_spec(request): the package is requested by name, by a dotted member name, or by the path of its top-level
\* directory in one of the search paths.  (The request form cannot influence the walk: the forms other than "name"
\* are explored under the canonical listing only.)
RequestOK(req) ==
  IF given # "both" THEN req = ForcedRequest /\ listing = CanonListing     \* directory outside the search paths
  ELSE
  \/ req = "name"
  \/ req = "dotted" /\ Family = "top" /\ listing = CanonListing
  \/ /\ req \in {"path1", "path2", "path3"} /\ listing = CanonListing
     /\ LET i == IF req = "path1" THEN 1 ELSE IF req = "path2" THEN 2 ELSE 3
        IN /\ IsDir(i, <<Pkg>>) /\ InSeq(i, spaths)
           /\ (Family # "top" => \A j \in 1..(i - 1) : ~IsDir(j, <<Pkg>>))     \* sub, ns: the first such directory only
FindSpec ==
  /\ pc = "find_spec"
  /\ \E req \in {"name", "dotted", "path1", "path2", "path3"} :
       /\ RequestOK(req)
       /\ request' = req
       /\ LET r == TopModuleName(spaths, req) IN topname' = r.name /\ spaths' = r.sp
  /\ fpi' = 1 /\ found' = NotFound /\ nsdirs' = <<>>
  /\ pc' = "find_package"
  /\ UNCHANGED <<stubvars, files, pth, pthform, given, listing, py, causes, canon, tree, outcome, portions, pti, seen, subs, idx>>

\* find_package("pkg"): one search path per step
FindPackage ==
  /\ pc = "find_package"
  /\ IF fpi <= Len(spaths) /\ found = NotFound
     THEN LET r == FindInPathN(Pkg, spaths[fpi], [found |-> found, ns |-> nsdirs])
          IN found' = r.found /\ nsdirs' = r.ns /\ fpi' = fpi + 1 /\ pc' = "find_package"
     ELSE UNCHANGED <<found, nsdirs>> /\ fpi' = 1 /\ pc' = (IF FindStubs THEN "find_stubs_package" ELSE "load_package")
  /\ UNCHANGED <<stubvars, casevars, listing, py, causes, canon, spaths, topname, tree, outcome, portions, pti, seen, subs, idx>>

\* find_package("pkg-stubs"): only with find_stubs_package=True
FindStubsPackage ==
  /\ pc = "find_stubs_package"
  /\ IF fpi <= Len(spaths) /\ sfound = NotFound
     THEN LET r == FindInPathN(Stubs, spaths[fpi], [found |-> sfound, ns |-> snsdirs])
          IN sfound' = r.found /\ snsdirs' = r.ns /\ fpi' = fpi + 1 /\ pc' = "find_stubs_package"
     ELSE UNCHANGED <<sfound, snsdirs, fpi>> /\ pc' = "load_package"
  /\ UNCHANGED <<casevars, listing, py, causes, canon, spaths, topname, found, nsdirs, tree, outcome, portions, pti, seen, subs, idx>>

\* end of find_spec (assembling package and stubs), then _load_package -> _load_module(name, package.path): the top module
LoadPackage ==
  /\ pc = "load_package"
  /\ LET a == Assemble([found |-> found, ns |-> nsdirs], [found |-> sfound, ns |-> snsdirs])
     IN IF Nothing(a)
        THEN outcome' = "ModuleNotFoundError" /\ pc' = "done" /\ UNCHANGED <<found, nsdirs, tree, portions>>
        ELSE IF a.misnamed                  \* NamespacePackage("pkg-stubs"): loaded under that name, _post_load cannot find "pkg"
        THEN outcome' = "KeyError" /\ pc' = "done" /\ UNCHANGED <<found, nsdirs, tree, portions>>
        ELSE /\ found' = a.found /\ nsdirs' = a.ns
             /\ tree' = {RootNode(a.found, a.ns)} /\ portions' = PortionsOf(a.found, a.ns)
             /\ outcome' = "ok" /\ pc' = "iter_submodules"
  /\ pti' = 1 /\ seen' = {} /\ subs' = <<>>
  /\ UNCHANGED <<stubvars, casevars, listing, py, causes, canon, spaths, topname, fpi, idx>>

\* iter_submodules: one portion per step
IterSubmodules ==
  /\ pc = "iter_submodules"
  /\ IF pti <= Len(portions)
     THEN LET r == IterPortion(listing, portions[pti], seen, found = NotFound)
          IN subs' = subs \o r.items /\ seen' = r.seen /\ pti' = pti + 1 /\ pc' = "iter_submodules"
     ELSE pc' = "submodules" /\ UNCHANGED <<subs, seen, pti>>
  /\ UNCHANGED <<stubvars, casevars, listing, py, causes, canon, spaths, topname, fpi, found, nsdirs, tree, outcome, portions, idx>>

Submodules ==
  /\ pc = "submodules"
  /\ subs' = SortByDepth(subs) /\ idx' = 1 /\ pc' = "load_submodule"
  /\ UNCHANGED <<stubvars, casevars, listing, py, causes, canon, spaths, topname, fpi, found, nsdirs, tree, outcome, portions, pti, seen>>

LoadSubmodule ==
  /\ pc = "load_submodule"
  /\ IF idx <= Len(subs)
     THEN tree' = LoadOne(tree, subs[idx]) /\ idx' = idx + 1 /\ pc' = "load_submodule"
     ELSE tree' = MergeTopStubs(listing, tree, found) /\ pc' = "done" /\ UNCHANGED idx
  /\ UNCHANGED <<stubvars, casevars, listing, py, causes, canon, spaths, topname, fpi, found, nsdirs, outcome, portions, pti, seen, subs>>

Next == Reference \/ Classify \/ ListDir \/ FinderInit \/ FindSpec \/ FindPackage \/ FindStubsPackage \/ LoadPackage
        \/ IterSubmodules \/ Submodules \/ LoadSubmodule
Spec == Init /\ [][Next]_vars

\* ---- properties ------------------------------------------------------------------------------------
Done == pc = "done"
Clean == causes = {}
LoadedImportable == (Done /\ Clean) => V_LoadedImportable(outcome, tree)
WalkerLoaded     == (Done /\ Clean) => V_WalkerLoaded(outcome, tree)
FirstPathWins    == (Done /\ Clean) => V_FirstPathWins(outcome, tree)
Classified       == (Done /\ Clean) => V_Classified(outcome, tree)
OrderIndependent == (Done /\ Clean) => V_OrderIndependent(outcome, tree)
\* whatever the request form, find_spec ends with the same top module name and the same search paths
RequestIndependent == pc = "find_package" => topname = Pkg /\ spaths = ExpectedPaths
\* the stepwise actions and the functional composition are the same algorithm
StepwiseIsFunctional == Done => LET r == ImplRun(listing) IN r.outcome = outcome /\ r.tree = tree
\* in the defect domain the model must exhibit the defect: this "invariant" is expected to be violated there
NoViolationAnywhere == Done => Violated(outcome, tree) = {}
\* ... and only those: every clause the model breaks on a layout is one that a cause class of that layout explains
OnlyKnownViolations == Done => Violated(outcome, tree) \subseteq UNION {Explains(c) : c \in causes}

NodeOut(T, n) == [path |-> n.path, files |-> n.files, ns |-> n.ns, contrib |-> n.contrib, cls |-> Cls(T, n)]
EmitCase ==
  (Emit /\ Done) =>
    PrintT(<<"CASE", ToJson([fam |-> Family, stubs |-> FindStubs, inspect |-> Inspect, files |-> files, pth |-> pth, pthform |-> pthform, given |-> given, request |-> request,
                             iscanon |-> (listing = CanonListing),
                             listing |-> {[p |-> k[1], d |-> k[2], files |-> listing[k].files, dirs |-> listing[k].dirs] : k \in DOMAIN listing},
                             impl |-> [outcome |-> outcome, tree |-> {NodeOut(tree, n) : n \in tree}, spaths |-> spaths],
                             \* the reference is the same for every case of a layout: printed once, with the canonical "name" case
                             py |-> IF listing = CanonListing /\ request = ForcedRequest
                                    THEN [syspath |-> py.syspath, top |-> py.top, walk |-> py.walk, imp |-> py.imp]
                                    ELSE [syspath |-> <<>>, top |-> PyNone, walk |-> {}, imp |-> {}],
                             viol |-> Violated(outcome, tree), causes |-> causes])>>)
=============================================================================
