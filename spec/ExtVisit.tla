------------------------------ MODULE ExtVisit ------------------------------
(***************************************************************************)
(* X01 - the node-walking helpers of the Extension base class:             *)
(*   visit(node)          -> visit_<ast kind>(node) when the subclass      *)
(*                           defines it, else nothing (no descent)         *)
(*   generic_visit(node)  -> visit(child) for every child, in field order  *)
(*   inspect / generic_inspect: the same over object nodes, hook           *)
(*                           inspect_<kind>; children that are aliases     *)
(*                           (alias_target_path set) are skipped           *)
(*                                                                         *)
(* A case is a tree (nodes numbered in document order), a kind per node,   *)
(* the aliased nodes, and per kind what the subclass defines:              *)
(*   "none"     no hook          "stop"  hook records the node             *)
(*   "descend"  hook records, then calls generic_visit / generic_inspect   *)
(*   "post"     hook calls generic_* first, then records                   *)
(* The transcription is a stack machine (one frame per Python call); the   *)
(* reference is the structural definition of the walk (what                *)
(* ast.NodeVisitor does) plus declarative clauses.  Replayed on synthetic  *)
(* ast nodes / object nodes by gverif/props/x01_visit.py.                  *)
(***************************************************************************)
EXTENDS Naturals, Sequences, FiniteSets, TLC, Json

CONSTANTS MaxNodes, Kinds, MaxAlias, Emit

Modes == {"none", "stop", "descend", "post"}

VARIABLES n, parent, kind, alias, handlers, agent, entry,   \* the case
          pc, stack, log, ref                                \* the run
casevars == <<n, parent, kind, alias, handlers, agent, entry>>
vars == <<casevars, pc, stack, log, ref>>

\* ---- trees ---------------------------------------------------------------------------------------
RECURSIVE AncOrSelf(_, _, _)
AncOrSelf(a, b, par) == IF a = b THEN TRUE ELSE IF b <= 1 \/ par[b] >= b THEN FALSE ELSE AncOrSelf(a, par[b], par)
\* document-order numbering: the parent of i lies on the path from i-1 to the root
PreOrder(par, m) == par[1] = 0 /\ \A i \in 2..m : par[i] >= 1 /\ par[i] < i /\ AncOrSelf(par[i], i - 1, par)
Children(p) == SelectSeq([i \in 1..n |-> i], LAMBDA i : parent[i] = p)
Skipped(i) == agent = "inspect" /\ i \in alias          \* generic_inspect: if not child.alias_target_path
Mode(i) == handlers[kind[i]]

\* ---- reference: structural definition of the walk ------------------------------------------------
RECURSIVE Walk(_), WalkChildren(_, _)
WalkChildren(ch, k) ==
  IF k > Len(ch) THEN <<>>
  ELSE (IF Skipped(ch[k]) THEN <<>> ELSE Walk(ch[k])) \o WalkChildren(ch, k + 1)
Walk(i) ==
  CASE Mode(i) = "none" -> <<>>
    [] Mode(i) = "stop" -> <<i>>
    [] Mode(i) = "descend" -> <<i>> \o WalkChildren(Children(i), 1)
    [] OTHER -> WalkChildren(Children(i), 1) \o <<i>>
RefLog == IF entry = "node" THEN Walk(1) ELSE WalkChildren(Children(1), 1)

\* declarative characterisation of WHO is called: every node on the way down has a descending hook
RECURSIVE Reached(_)
Reached(i) ==
  IF i = 1 THEN TRUE
  ELSE /\ ~Skipped(i)
       /\ Reached(parent[i])
       /\ (IF parent[i] = 1 /\ entry = "generic" THEN TRUE ELSE Mode(parent[i]) \in {"descend", "post"})
Called == {i \in 1..n : Reached(i) /\ Mode(i) # "none" /\ ~(i = 1 /\ entry = "generic")}

\* ---- case space ----------------------------------------------------------------------------------
Init ==
  /\ n \in 1..MaxNodes
  /\ parent \in [1..n -> 0..(n - 1)] /\ PreOrder(parent, n)
  /\ kind \in [1..n -> Kinds]
  /\ handlers \in [Kinds -> Modes]
  /\ agent \in {"visit", "inspect"}
  /\ alias \in SUBSET (2..n) /\ Cardinality(alias) <= MaxAlias /\ (agent = "visit" => alias = {})
  /\ entry \in {"node", "generic"}
  /\ pc = "init" /\ stack = <<>> /\ log = <<>> /\ ref = <<>>

\* ---- transcription: one frame per Python call ----------------------------------------------------
Frame(op, i, k) == [op |-> op, node |-> i, next |-> k]
Top == stack[Len(stack)]
Pop == SubSeq(stack, 1, Len(stack) - 1)

Begin ==                \* ext.visit(root) | ext.generic_visit(root) | ext.inspect(root) | ext.generic_inspect(root)
  /\ pc = "init" /\ pc' = "run"
  /\ ref' = RefLog
  /\ stack' = <<IF entry = "node" THEN Frame("visit", 1, 0) ELSE Frame("generic", 1, 1)>>
  /\ UNCHANGED <<casevars, log>>

VisitNode ==            \* getattr(self, f"visit_{ast_kind(node)}", lambda _: None)(node)   (inspect_{node.kind})
  /\ stack # <<>> /\ Top.op = "visit"
  /\ LET i == Top.node
     IN CASE Mode(i) = "none" -> stack' = Pop /\ log' = log                         \* the lambda: nothing, no descent
          [] Mode(i) = "stop" -> stack' = Pop /\ log' = Append(log, i)
          [] Mode(i) = "descend" -> stack' = Append(Pop, Frame("generic", i, 1)) /\ log' = Append(log, i)
          [] OTHER -> stack' = Pop \o <<Frame("record", i, 0), Frame("generic", i, 1)>> /\ log' = log
  /\ UNCHANGED <<casevars, pc, ref>>

GenericNext ==          \* for child in ast_children(node): self.visit(child)     (node.children, aliases skipped)
  /\ stack # <<>> /\ Top.op = "generic"
  /\ LET ch == Children(Top.node)
         k == Top.next
     IN IF k > Len(ch) THEN stack' = Pop
        ELSE IF Skipped(ch[k]) THEN stack' = Append(Pop, Frame("generic", Top.node, k + 1))
        ELSE stack' = Pop \o <<Frame("generic", Top.node, k + 1), Frame("visit", ch[k], 0)>>
  /\ UNCHANGED <<casevars, pc, log, ref>>

RecordAfter ==          \* the rest of a "post" hook, after generic_visit returned
  /\ stack # <<>> /\ Top.op = "record"
  /\ log' = Append(log, Top.node) /\ stack' = Pop
  /\ UNCHANGED <<casevars, pc, ref>>

Next == Begin \/ VisitNode \/ GenericNext \/ RecordAfter
Spec == Init /\ [][Next]_vars

\* ---- properties ----------------------------------------------------------------------------------
Done == pc = "run" /\ stack = <<>>
Pos(i) == CHOOSE k \in 1..Len(log) : log[k] = i
\* V1: the hooks run are exactly those of the reachable nodes that have one, each once
WhoIsCalled == Done => /\ {log[k] : k \in 1..Len(log)} = Called
                       /\ Len(log) = Cardinality(Called)
\* V2: the order is the walk order
WalkOrder == Done => log = ref
\* V3: siblings in field order; a pre-order hook before, a post-order hook after everything below it
OrderClauses ==
  Done => \A i, j \in Called :
            /\ (i < j /\ parent[i] = parent[j] => Pos(i) < Pos(j))
            /\ (i # j /\ AncOrSelf(i, j, parent) => IF Mode(i) = "post" THEN Pos(j) < Pos(i) ELSE Pos(i) < Pos(j))
\* V4: nothing below a node without hook, below a "stop" hook or below an aliased object node is touched
NoDescentWithoutHook ==
  \A k \in 1..Len(log) : LET i == log[k] IN
     i # 1 => /\ ~Skipped(i)
              /\ ((parent[i] = 1 /\ entry = "generic") \/ Mode(parent[i]) \in {"descend", "post"})

EmitCase ==
  (Emit /\ Done) =>
     PrintT(<<"CASE", ToJson([n |-> n, parent |-> parent, kind |-> kind, alias |-> alias, handlers |-> handlers,
                              agent |-> agent, entry |-> entry, log |-> log, ref |-> ref])>>)
=============================================================================
