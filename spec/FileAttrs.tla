----------------------------- MODULE FileAttrs -----------------------------
(***************************************************************************)
(* X03 - file-derived attributes of modules, objects and aliases.          *)
(*                                                                         *)
(* Shape A (algorithm vs reference over a finite case space).  A *case* is *)
(* an on-disk layout of one top-level name `pkg` (regular package, stubs   *)
(* package, single-file module, native namespace package over up to three  *)
(* search paths, package + `pkg-stubs`), the way the search paths are      *)
(* handed to the loader (absolute, relative to the cwd, through a symlink, *)
(* through a `.pth` file, or not at all: request by path), and the current *)
(* working directory at observation time; two further families need no     *)
(* disk: `api` (module chains built with the public constructors, every    *)
(* combination of filepath kinds) and `builtin` (filepath None).           *)
(*                                                                         *)
(*   Load      the module table the loader builds for the layout: which    *)
(*             dotted name is which file / which list of directories       *)
(*             (summary of GriffeLoader._load_package/_load_submodule for   *)
(*             the file vocabulary used here; C14/Finder.tla verifies that  *)
(*             pipeline itself, X03 only needs its result).                 *)
(*   Observe   for every module: Impl = transcription of the properties in *)
(*             _griffe/models.py (Module.filepath, Object.relative_filepath,*)
(*             Object.relative_package_filepath, Module.is_* ...), Ref =   *)
(*             what the docstrings / docs/guide/users/navigating.md say,   *)
(*             as a *set of acceptable values* per attribute.              *)
(* Invariants are the clauses  impl.x \in ref.x.  Every case is printed    *)
(* and replayed on the real code by gverif/props/x03.py.                   *)
(*                                                                         *)
(* Paths are sequences of strings; an absolute path starts with "/" (the   *)
(* scratch root of the driver).  Relation to the other modules: none is    *)
(* extended - PkgUniverse.tla fixes a module universe without files and    *)
(* Finder.tla models the search itself (listing orders, shadowing); here   *)
(* layouts are restricted to those on which that search is unambiguous.    *)
(***************************************************************************)
EXTENDS Naturals, Sequences, FiniteSets, TLC, Json, SequencesExt

CONSTANTS Fams,        \* families explored: subset of {"reg","single","ns","stubs","api","builtin"}
          MaxKids,     \* bound on the number of optional files of a directory tree
          NsPortions,  \* sets of search-path indices a namespace package may be spread over
          CwdSet,      \* positions of the current working directory
          FormSet,     \* how sp1/sp2 are passed: "abs", "rel", "sym"
          AgentSet,    \* "visit" (static analysis), "inspect" (force_inspection=True: every module is imported)
          MaxNsKids,   \* ... of one portion of a namespace package
          MaxNsTotal,  \* ... of all portions together
          Emit

\* ---- paths ---------------------------------------------------------------------------------------
Root == <<"/">>
W == <<"/", "w">>
SPN == <<"sp1", "sp2", "sp3">>
SP(i) == W \o <<SPN[i]>>
Other == <<"/", "o">>
Top == "pkg"
StubsDir == "pkg-stubs"

\* (Front, Last come from SequencesExt)
PParent(p) == IF Len(p) <= 1 THEN p ELSE Front(p)         \* Path.parent ("/" is its own parent)
PBelow(b, p) == Len(b) <= Len(p) /\ SubSeq(p, 1, Len(b)) = b   \* p is b or lies below b
PRel(p, b) == SubSeq(p, Len(b) + 1, Len(p))                \* p.relative_to(b) when PBelow(b, p); <<>> is Path(".")
MinOf(S) == CHOOSE x \in S : \A y \in S : x <= y
MaxOf(S) == CHOOSE x \in S : \A y \in S : x >= y

\* ---- values of attributes ------------------------------------------------------------------------
\* t = "path" (v = <<p>>), "list" (v = the directories), "err" (v = << <<exception name>> >>)
Val(t, v) == [t |-> t, v |-> v]
PathVal(p) == Val("path", <<p>>)
Err(e) == Val("err", <<<<e>>>>)
Builtin == Err("BuiltinModuleError")
ValueErr == Err("ValueError")
IsErr(x) == x.t = "err"
B(b) == IF b THEN "T" ELSE "F"                              \* predicates: "T", "F" or an exception name

\* ---- file vocabulary -----------------------------------------------------------------------------
InitNames == {"__init__.py", "__init__.pyi"}
IsInit(base) == base \in InitNames
StubNames == {"__init__.pyi", "a.pyi", "n.pyi", "pkg.pyi"}
IsStub(base) == base \in StubNames
Stem(base) ==
  CASE base \in {"a.py", "a.pyi"} -> "a"   [] base = "c.py" -> "c"   [] base = "d.py" -> "d"
    [] base = "e.py" -> "e"                [] base = "_bisect.so" -> "_bisect"
    [] base = "n.pyi" -> "n"               [] base \in {"pkg.py", "pkg.pyi"} -> "pkg"
    [] base = "m1.py" -> "m1" [] base = "m2.py" -> "m2" [] base = "m3.py" -> "m3"
    [] base = "e1.py" -> "e1" [] base = "e2.py" -> "e2" [] base = "e3.py" -> "e3"
    [] base = "f1.py" -> "f1" [] base = "f2.py" -> "f2" [] base = "f3.py" -> "f3"
    [] OTHER -> "?"
\* Module.is_init_module looks at `filepath.name.split(".", 1)[0]`
FirstDotPart(base) == IF IsInit(base) THEN "__init__" ELSE Stem(base)

MN == <<"m1.py", "m2.py", "m3.py">>   EN == <<"e1.py", "e2.py", "e3.py">>
FN == <<"f1.py", "f2.py", "f3.py">>   RN == <<"r1", "r2", "r3">>

\* optional files of a regular package (relative to the package directory)
RegKids == {"a", "ai", "ii", "s", "sc", "st", "std", "de", "so"}
\* ... of a stubs package (`pkg/__init__.pyi` only)
StubPkgKids == {"a", "ai", "s", "sc"}
\* ... of portion i of a namespace package: names carry the index so that portions never collide
NsKids == {"m", "d", "dd", "r", "rc"}
\* ... of `pkg-stubs`
StubsKids == {"sa", "sn"}
KidFile(kid, i) ==
  CASE kid = "a" -> <<"a.py">>              [] kid = "ai" -> <<"a.pyi">>
    [] kid = "ii" -> <<"__init__.pyi">>     [] kid = "s" -> <<"s", "__init__.py">>
    [] kid = "sc" -> <<"s", "c.py">>        [] kid = "st" -> <<"s", "t", "__init__.py">>
    [] kid = "std" -> <<"s", "t", "d.py">>  [] kid = "de" -> <<"d", "e.py">>
    [] kid = "so" -> <<"_bisect.so">>
    [] kid = "m" -> <<MN[i]>>               [] kid = "d" -> <<"d", EN[i]>>
    [] kid = "dd" -> <<"d", "dd", FN[i]>>   [] kid = "r" -> <<RN[i], "__init__.py">>
    [] kid = "rc" -> <<RN[i], "c.py">>
    [] kid = "sa" -> <<"a.pyi">>            [] kid = "sn" -> <<"n.pyi">>
    [] OTHER -> <<"?">>

\* total order on module names (alias plan, emitted order): position in this table
AllNames == <<
  <<"pkg">>, <<"pkg", "a">>, <<"pkg", "s">>, <<"pkg", "s", "c">>, <<"pkg", "s", "t">>, <<"pkg", "s", "t", "d">>,
  <<"pkg", "_bisect">>, <<"pkg", "n">>,
  <<"pkg", "m1">>, <<"pkg", "m2">>, <<"pkg", "m3">>,
  <<"pkg", "d">>, <<"pkg", "d", "e1">>, <<"pkg", "d", "e2">>, <<"pkg", "d", "e3">>, <<"pkg", "d", "e">>,
  <<"pkg", "d", "dd">>, <<"pkg", "d", "dd", "f1">>, <<"pkg", "d", "dd", "f2">>, <<"pkg", "d", "dd", "f3">>,
  <<"pkg", "r1">>, <<"pkg", "r2">>, <<"pkg", "r3">>,
  <<"pkg", "r1", "c">>, <<"pkg", "r2", "c">>, <<"pkg", "r3", "c">>,
  <<"pkg", "mid">>, <<"pkg", "mid", "leaf">>, <<"itertools">> >>
Rank(nm) == CHOOSE k \in DOMAIN AllNames : AllNames[k] = nm
MA == <<"m01", "m02", "m03", "m04", "m05", "m06", "m07", "m08", "m09", "m10", "m11", "m12", "m13", "m14", "m15",
        "m16", "m17", "m18", "m19", "m20", "m21", "m22", "m23", "m24", "m25", "m26", "m27", "m28", "m29">>
KA == <<"k01", "k02", "k03", "k04", "k05", "k06", "k07", "k08", "k09", "k10", "k11", "k12", "k13", "k14", "k15",
        "k16", "k17", "k18", "k19", "k20", "k21", "k22", "k23", "k24", "k25", "k26", "k27", "k28", "k29">>

\* ---- the case ------------------------------------------------------------------------------------
VARIABLES fam,      \* family
          top,      \* what the name `pkg` is at run time: "regular" "stubpkg" "single" "ns" "none" "api" "builtin"
          kids,     \* portion index (search path i holds an entry `pkg`) -> set of optional files there
          sg,       \* search path holding `pkg-stubs` (0: none);  skids: its optional files
          skids,
          chain,    \* family api: filepath kind of pkg / pkg.mid / pkg.mid.leaf
          form, req, agent,
          pc, nodes, roots, obs, aliases, viol
casevars == <<fam, top, kids, sg, skids, chain, form, req, agent>>
vars == <<casevars, pc, nodes, roots, obs, aliases, viol>>

P == DOMAIN kids                        \* portions of the run-time package
Pth == 3 \in P \/ sg = 3                \* sp3 is only reachable through sp1/x.pth
TopDir(i) == SP(i) \o <<Top>>
StubsTopDir(i) == SP(i) \o <<StubsDir>>

\* positions of the current working directory at observation time (all of them are observed in every case)
HomeDir == IF top = "none" THEN StubsTopDir(sg) ELSE IF P = {} THEN TopDir(1) ELSE TopDir(MinOf(P))
Cwds == IF top = "single" THEN CwdSet \ {"in", "deep"} ELSE CwdSet      \* no directory `pkg` next to pkg.py
CwdPath(c) ==
  CASE c = "root" -> Root  [] c = "w" -> W  [] c = "sp1" -> SP(1)  [] c = "sp2" -> SP(2)  [] c = "other" -> Other
    [] c = "in" -> HomeDir  [] c = "deep" -> HomeDir \o <<"d">>

\* files of the run-time entry, relative to its top directory  [i |-> portion, r |-> path]
InitFile == IF top = "regular" THEN {<<"__init__.py">>} ELSE IF top = "stubpkg" THEN {<<"__init__.pyi">>} ELSE {}
RtFiles == UNION {{[i |-> i, r |-> r] : r \in InitFile \cup {KidFile(k, i) : k \in kids[i]}} : i \in P}
StFiles == IF sg = 0 THEN {} ELSE {[i |-> sg, r |-> r] : r \in {<<"__init__.pyi">>} \cup {KidFile(k, sg) : k \in skids}}
\* everything that has to exist on disk, relative to the search path  (family single: pkg.py [+ pkg.pyi])
Disk ==
  IF top = "single" THEN UNION {{[i |-> i, r |-> <<"pkg.py">>]} \cup {[i |-> i, r |-> <<"pkg.pyi">>] : k \in kids[i]} : i \in P}
  ELSE {[i |-> f.i, r |-> <<Top>> \o f.r] : f \in RtFiles} \cup {[i |-> f.i, r |-> <<StubsDir>> \o f.r] : f \in StFiles}
DiskDirs == IF top = "ns" THEN {[i |-> i, r |-> <<Top>>] : i \in P} ELSE {}

\* ---- Load: the module table ------------------------------------------------------------------------
\* (GriffeLoader._load_package -> _load_module -> finder.submodules sorted by depth -> _load_submodule ->
\*  _get_or_create_parent_module; merge of x.py/x.pyi pairs; merge_stubs of the stubs-only package)
HasInitAt(F, q) == \E f \in F : Front(f.r) = q /\ IsInit(Last(f.r))
NsDir(F, topreg, q) == ~topreg /\ \A j \in 1..Len(q) : ~HasInitAt(F, SubSeq(q, 1, j))
\* a file is loaded iff every directory between the top directory and the file is a regular package, or
\* the whole chain down from a namespace top consists of init-less directories (UnimportableModuleError otherwise)
Loadable(F, topreg, r) ==
  \A k \in 1..(Len(r) - 1) : LET q == SubSeq(r, 1, k) IN HasInitAt(F, q) \/ NsDir(F, topreg, q)
LoadF(F, topreg) == {f \in F : Loadable(F, topreg, f.r)}
ModName(r) == <<Top>> \o Front(r) \o (IF IsInit(Last(r)) THEN <<>> ELSE <<Stem(Last(r))>>)
Depth(r) == IF IsInit(Last(r)) THEN Len(r) - 1 ELSE Len(r)          \* finder._module_depth

Node(nm, k, ps) == [name |-> nm, k |-> k, ps |-> ps]
FileNodes(F, topreg, TD(_)) ==
  LET L == LoadF(F, topreg)
      Primary(nm) == LET c == {f \in L : ModName(f.r) = nm}          \* x.py wins over x.pyi (the stub is merged into it)
                     IN IF \E f \in c : ~IsStub(Last(f.r)) THEN CHOOSE f \in c : ~IsStub(Last(f.r))
                        ELSE CHOOSE f \in c : TRUE
  IN {Node(nm, "path", <<TD(Primary(nm).i) \o Primary(nm).r>>) : nm \in {ModName(f.r) : f \in L}}

\* init-less directories below a namespace top become namespace sub-packages; their `filepath` list is created by
\* the first sub-module met below them and appended to by later ones: portions ordered by (depth of the
\* shallowest module below the directory, search-path index)
NsDirsOf(F, topreg) ==
  {q \in UNION {{SubSeq(f.r, 1, k) : k \in 1..(Len(f.r) - 1)} : f \in LoadF(F, topreg)} : NsDir(F, topreg, q)}
Under(F, topreg, q, i) == {f \in LoadF(F, topreg) : f.i = i /\ Len(f.r) > Len(q) /\ PBelow(q, f.r)}
NsNode(F, topreg, q) ==
  LET ports == {i \in P : Under(F, topreg, q, i) # {}}
      Key(i) == 10 * MinOf({Depth(f.r) : f \in Under(F, topreg, q, i)}) + i
      order == SortSeq(SetToSeq(ports), LAMBDA x, y : Key(x) < Key(y))
  IN Node(<<Top>> \o q, "list", [j \in 1..Len(order) |-> TopDir(order[j]) \o q])
TopNsNode == LET order == SortSeq(SetToSeq(P), LAMBDA x, y : x < y)
             IN Node(<<Top>>, "list", [j \in 1..Len(order) |-> TopDir(order[j])])

ApiPath(level, kind) ==       \* family api: where a node of the chain claims to live
  LET dir(i) == IF level = 1 THEN SP(i) ELSE IF level = 2 THEN TopDir(i) ELSE TopDir(i) \o <<"mid">>
      nm == <<"pkg", "mid", "leaf">>[level]
      pyname == <<"pkg.py", "mid.py", "leaf.py">>[level]
  IN CASE kind = "init" -> <<dir(1) \o <<nm, "__init__.py">>>>
       [] kind = "file" -> <<dir(1) \o <<pyname>>>>
       [] kind = "file2" -> <<dir(2) \o <<pyname>>>>
       [] kind = "list" -> <<dir(1) \o <<nm>>, dir(2) \o <<nm>>>>
       [] OTHER -> <<>>
ApiK(kind) == IF kind = "none" THEN "none" ELSE IF kind = "list" THEN "list" ELSE "path"
ApiNames == <<<<"pkg">>, <<"pkg", "mid">>, <<"pkg", "mid", "leaf">>>>

LoadTree ==
  CASE fam = "api" -> {Node(ApiNames[l], ApiK(chain[l]), ApiPath(l, chain[l])) : l \in 1..3}
    [] fam = "builtin" -> {Node(<<"itertools">>, "none", <<>>)}
    [] top = "single" -> {Node(<<Top>>, "path", <<SP(MinOf(P)) \o <<"pkg.py">>>>)}
    [] top = "ns" -> {TopNsNode} \cup FileNodes(RtFiles, FALSE, TopDir) \cup {NsNode(RtFiles, FALSE, q) : q \in NsDirsOf(RtFiles, FALSE)}
    [] top = "none" -> FileNodes(StFiles, TRUE, StubsTopDir)          \* the stubs-only package is the package
    [] OTHER ->                                                        \* regular / stubpkg [+ pkg-stubs merged into it]
         LET rt == FileNodes(RtFiles, TRUE, TopDir)
             st == FileNodes(StFiles, TRUE, StubsTopDir)
         IN rt \cup {n \in st : ~\E m \in rt : m.name = n.name}
\* "the parent of the top package directory": every search path in which a directory/file for the name was used
LoadRoots ==
  CASE fam = "api" -> IF chain[1] = "list" THEN {SP(1), SP(2)} ELSE IF chain[1] = "none" THEN {} ELSE {SP(1)}
    [] fam = "builtin" -> {}
    [] OTHER -> {SP(i) : i \in P} \cup (IF sg = 0 THEN {} ELSE {SP(sg)})

\* ---- Impl: transcription of _griffe/models.py ------------------------------------------------------
NodeOf(N, nm) == CHOOSE n \in N : n.name = nm
HasParent(n) == Len(n.name) > 1                      \* the loader / set_member attach every sub-module to its parent
ParentNode(N, n) == NodeOf(N, Front(n.name))
PackageNode(N, n) == NodeOf(N, <<n.name[1]>>)        \* Object.package: climb `parent` from `module`

\* Module.filepath: raise BuiltinModuleError when `_filepath is None`
ImplFilepath(n) == IF n.k = "none" THEN Builtin ELSE Val(n.k, n.ps)
\* Object.relative_filepath: list -> first directory relative to the cwd, else ValueError; path -> relative or absolute
ImplRelFilepath(n, C) ==
  IF n.k = "none" THEN Builtin
  ELSE IF n.k = "list"
       THEN LET ok == {j \in DOMAIN n.ps : PBelow(C, n.ps[j])}
            IN IF ok = {} THEN ValueErr ELSE PathVal(PRel(n.ps[MinOf(ok)], C))
       ELSE IF PBelow(C, n.ps[1]) THEN PathVal(PRel(n.ps[1], C)) ELSE PathVal(n.ps[1])
\* the four branches of Object.relative_package_filepath are one loop nest: for base in bases: for self_path in paths
FirstRel(bases, ps) ==
  LET n == Len(ps)
      cand == [c \in 1..(Len(bases) * n) |-> <<bases[((c - 1) \div n) + 1], ps[((c - 1) % n) + 1]>>]
      ok == {c \in DOMAIN cand : PBelow(cand[c][1], cand[c][2])}
  IN IF ok = {} THEN ValueErr ELSE PathVal(PRel(cand[MinOf(ok)][2], cand[MinOf(ok)][1]))
ImplRelPkgFilepath(N, n) ==
  LET t == PackageNode(N, n)
  IN IF t.k = "none" \/ n.k = "none" THEN Builtin
     ELSE FirstRel(IF t.k = "list" THEN [j \in DOMAIN t.ps |-> PParent(t.ps[j])]       \* pkg_path.parent
                   ELSE <<PParent(PParent(t.ps[1]))>>,                                    \* package_path.parent.parent
                   n.ps)
\* Module.is_init_module: `isinstance(self.filepath, list)` sits outside the try block
ImplIsInit(n) ==
  IF n.k = "none" THEN "BuiltinModuleError"
  ELSE IF n.k = "list" THEN "F" ELSE B(FirstDotPart(Last(n.ps[1])) = "__init__")
ImplIsPackage(n) == IF HasParent(n) THEN "F" ELSE ImplIsInit(n)          \* not bool(self.parent) and self.is_init_module
ImplIsSubpackage(n) == IF ~HasParent(n) THEN "F" ELSE ImplIsInit(n)      \* bool(self.parent) and self.is_init_module
ImplIsNs(n) == B(~HasParent(n) /\ n.k = "list")                           \* BuiltinModuleError -> False
RECURSIVE ImplIsNsSubB(_, _)
ImplIsNsSubB(N, n) ==
  IF ~(HasParent(n) /\ n.k = "list") THEN FALSE
  ELSE LET p == ParentNode(N, n) IN (~HasParent(p) /\ p.k = "list") \/ ImplIsNsSubB(N, p)

ImplModule(N, n) ==
  [fp |-> ImplFilepath(n), rf |-> [c \in Cwds |-> ImplRelFilepath(n, CwdPath(c))], rpf |-> ImplRelPkgFilepath(N, n),
   init |-> ImplIsInit(n), package |-> ImplIsPackage(n), subpackage |-> ImplIsSubpackage(n),
   ns |-> ImplIsNs(n), nssub |-> B(ImplIsNsSubB(N, n))]
\* Object.filepath = self.module.filepath, the relative paths are computed from it, Object.is_* return False
ImplObject(N, n) ==
  [ImplModule(N, n) EXCEPT !.init = "F", !.package = "F", !.subpackage = "F", !.ns = "F", !.nssub = "F"]

\* ---- Ref: the documented contract, one set of acceptable values per attribute ------------------------
Perms(s) == {p \in [DOMAIN s -> {s[j] : j \in DOMAIN s}] : \A a, b \in DOMAIN s : a # b => p[a] # p[b]}
\* filepath: the file the module was read from / the directories of the namespace package (any order, each once)
RefFilepath(n) ==
  IF n.k = "none" THEN {Builtin} ELSE IF n.k = "path" THEN {Val("path", n.ps)} ELSE {Val("list", p) : p \in Perms(n.ps)}
\* relative_filepath: relative to the cwd when below it, else absolute; a list has no absolute form: ValueError
RefRelFilepath(n, C) ==
  IF n.k = "none" THEN {Builtin}
  ELSE IF n.k = "path" THEN {IF PBelow(C, n.ps[1]) THEN PathVal(PRel(n.ps[1], C)) ELSE PathVal(n.ps[1])}
  ELSE LET ok == {PathVal(PRel(n.ps[j], C)) : j \in {i \in DOMAIN n.ps : PBelow(C, n.ps[i])}}
       IN IF ok = {} THEN {ValueErr} ELSE ok
\* relative_package_filepath: relative to the parent of the top-level package (docs: `pkg/mod.py`)
RefRelPkgFilepath(n, R) ==
  IF n.k = "none" THEN {Builtin}
  ELSE LET ok == UNION {{PathVal(PRel(n.ps[j], r)) : r \in {x \in R : PBelow(x, n.ps[j])}} : j \in DOMAIN n.ps}
       IN IF ok = {} THEN {ValueErr} ELSE ok
RefIsInit(n) == IF n.k = "path" THEN FirstDotPart(Last(n.ps[1])) = "__init__" ELSE FALSE
RefIsNsSub(N, n) ==        \* a list, and the whole parent chain up to a namespace package is lists
  HasParent(n) /\ n.k = "list" /\ \A k \in 1..(Len(n.name) - 1) : NodeOf(N, SubSeq(n.name, 1, k)).k = "list"
RefModule(N, n, R) ==
  [fp |-> RefFilepath(n), rf |-> [c \in Cwds |-> RefRelFilepath(n, CwdPath(c))], rpf |-> RefRelPkgFilepath(n, R),
   init |-> {B(RefIsInit(n))}, package |-> {B(~HasParent(n) /\ RefIsInit(n))},
   subpackage |-> {B(HasParent(n) /\ RefIsInit(n))}, ns |-> {B(~HasParent(n) /\ n.k = "list")},
   nssub |-> {B(RefIsNsSub(N, n))}]
RefObject(N, n, R) ==
  [RefModule(N, n, R) EXCEPT !.init = {"F"}, !.package = {"F"}, !.subpackage = {"F"}, !.ns = {"F"}, !.nssub = {"F"}]

Fields == {"fp", "rf", "rpf", "init", "package", "subpackage", "ns", "nssub"}
Plain == Fields \ {"rf"}
\* what is printed of a Ref record: only where it says more than "exactly the Impl value" (keeps the cases small)
Sparse(impl, ref) == [f \in {g \in Plain : ref[g] # {impl[g]}} |-> ref[f]]
SparseRf(impl, ref) == [c \in {d \in Cwds : ref.rf[d] # {impl.rf[d]}} |-> ref.rf[c]]
\* ... of an object record: only where it differs from the record of its module
Diff(o, m) == [f \in {g \in Fields : o[g] # m[g]} |-> o[f]]
Bad(impl, ref) == {f \in Plain : impl[f] \notin ref[f]} \cup (IF \E c \in Cwds : impl.rf[c] \notin ref.rf[c] THEN {"rf"} ELSE {})

\* ---- aliases: Alias.<attr> = final_target.<attr>; path is where it is imported, canonical_path where it comes from
\* the first source module imports every other module (`import x.y as mNN`) and the class K of every other
\* source module (`from x.y import K as kNN`); with >= 3 source modules the last one re-imports an alias (chain)
IsSource(n) == n.k = "path" /\ Last(n.ps[1]) # "_bisect.so"
Holders(N) == IF fam = "api" THEN N ELSE {n \in N : IsSource(n)}        \* modules holding class K / able to import
ByRank(S, pick(_)) == CHOOSE n \in S : Rank(n.name) = pick({Rank(m.name) : m \in S})
AliasPlan(N) ==
  LET H == Holders(N) IN
  IF H = {} THEN {}
  ELSE LET a == ByRank(H, MinOf)
           direct == {[at |-> a.name, name |-> MA[Rank(n.name)], tgt |-> n.name, obj |-> "", src |-> <<>>, via |-> ""] : n \in N \ {a}}
                     \cup {[at |-> a.name, name |-> KA[Rank(n.name)], tgt |-> n.name, obj |-> "K", src |-> <<>>, via |-> ""] : n \in H \ {a}}
       IN IF Cardinality(H) < 3 \/ agent = "inspect" THEN direct      \* (a re-import would be a circular import at run time)
          ELSE LET c == ByRank(H, MaxOf)
                   t == ByRank(H \ {a, c}, MinOf)
               IN direct \cup {[at |-> c.name, name |-> "kk", tgt |-> t.name, obj |-> "K", src |-> a.name, via |-> KA[Rank(t.name)]]}

\* a dangling alias (`from nowhere_x03 import zz as zz0` in the importing module): every attribute that goes through
\* the target raises AliasResolutionError, `path` still answers.  Impl: AliasResolutionError.__init__ formats
\* `alias.parent.relative_filepath` and only expects BuiltinModuleError from it.
Dangling(N) ==
  IF Holders(N) = {} \/ agent = "inspect" THEN <<>>           \* (a failing import would abort the inspection)
  ELSE LET h == ByRank(Holders(N), MinOf)
       IN <<[at |-> h.name, name |-> "zz0", target |-> "nowhere_x03.zz", err |-> "AliasResolutionError",
             ierr |-> [c \in Cwds |-> IF ImplRelFilepath(h, CwdPath(c)) = ValueErr THEN "ValueError" ELSE "AliasResolutionError"]]>>
DanglingBad(N) ==
  LET D == {Dangling(N)[j] : j \in DOMAIN Dangling(N)}
  IN {[node |-> d.at, who |-> "alias-dangling", f |-> "error"] : d \in {x \in D : \E c \in Cwds : x.ierr[c] # x.err}}

\* ---- case space -----------------------------------------------------------------------------------
KidSets(U, max) == {K \in SUBSET U : Cardinality(K) <= max}
NoDisk == sg = 0 /\ skids = {} /\ kids = <<>> /\ form = "abs" /\ req = "name"
InitFam ==
  \/ /\ fam = "reg" /\ top \in {"regular", "stubpkg"}
     /\ \E h \in 1..3 : kids \in [{h} -> KidSets(IF top = "regular" THEN RegKids ELSE StubPkgKids, MaxKids)]
     /\ sg = 0 /\ skids = {} /\ chain = <<>>
  \/ /\ fam = "single" /\ top = "single"
     /\ \E h \in 1..3 : kids \in [{h} -> SUBSET {"pi"}]
     /\ sg = 0 /\ skids = {} /\ chain = <<>>
  \/ /\ fam = "ns" /\ top = "ns"
     /\ \E Q \in NsPortions : kids \in [Q -> KidSets(NsKids, MaxNsKids)]
     /\ Cardinality(UNION {{<<i, x>> : x \in kids[i]} : i \in DOMAIN kids}) <= MaxNsTotal
     /\ sg = 0 /\ skids = {} /\ chain = <<>>
  \/ /\ fam = "stubs" /\ top \in {"regular", "none"}
     /\ IF top = "none" THEN kids = <<>> ELSE \E h \in 1..2 : kids \in [{h} -> SUBSET {"a"}]
     /\ sg \in 1..3 /\ skids \in SUBSET StubsKids /\ chain = <<>>
  \/ /\ fam = "api" /\ top = "api"
     /\ chain \in {c \in [1..3 -> {"init", "file", "file2", "list"}] : c[1] # "file2"} \cup {<<"none", "none", "none">>}
     /\ sg = 0 /\ skids = {} /\ kids = <<>>
  \/ /\ fam = "builtin" /\ top = "builtin" /\ chain = <<>> /\ sg = 0 /\ skids = {} /\ kids = <<>>
Init ==
  /\ fam \in Fams
  /\ InitFam
  /\ form \in FormSet /\ req \in {"name", "path"} /\ agent \in AgentSet
  \* the module table and every attribute are the same whichever agent built the tree; stubs cannot be imported
  /\ (agent = "inspect" => top \in {"regular", "ns"} /\ fam \in {"reg", "ns"} /\ form = "abs" /\ req = "name"
                            /\ \A i \in P : kids[i] \cap {"ai", "ii"} = {})
  /\ (fam \in {"api", "builtin"} => form = "abs" /\ req = "name")
  \* request by path: load(Path(<top directory>)) with search paths that do not contain it
  /\ (req = "path" => fam \in {"reg", "ns"} /\ Cardinality(P) = 1 /\ ~Pth /\ form = "abs")
  /\ pc = "case" /\ nodes = {} /\ roots = {} /\ obs = {} /\ aliases = {} /\ viol = {}

Load ==
  /\ pc = "case"
  /\ nodes' = LoadTree /\ roots' = LoadRoots /\ aliases' = AliasPlan(LoadTree)
  /\ pc' = "loaded" /\ UNCHANGED <<casevars, obs, viol>>

ObsOf(n) ==
  LET mi == ImplModule(nodes, n)   mr == RefModule(nodes, n, roots)
      oi == ImplObject(nodes, n)   or == RefObject(nodes, n, roots)
      holder == n.k # "list" \/ fam = "api"                 \* modules that have objects inside
  IN [name |-> n.name, mi |-> mi, mr |-> Sparse(mi, mr), mrf |-> SparseRf(mi, mr),
      oi |-> IF holder THEN Diff(oi, mi) ELSE <<>>, or |-> IF holder THEN Sparse(oi, or) ELSE <<>>,
      orf |-> IF holder THEN SparseRf(oi, or) ELSE <<>>, holder |-> holder,
      mbad |-> Bad(mi, mr), obad |-> Bad(oi, or)]
Observe ==
  /\ pc = "loaded"
  /\ obs' = {ObsOf(n) : n \in nodes}
  /\ viol' = UNION {{[node |-> n.name, who |-> "module", f |-> f] : f \in ObsOf(n).mbad}
                    \cup {[node |-> n.name, who |-> "object", f |-> f] : f \in ObsOf(n).obad} : n \in nodes}
              \cup DanglingBad(nodes)
  /\ pc' = "done" /\ UNCHANGED <<casevars, nodes, roots, aliases>>

Next == Load \/ Observe
Spec == Init /\ [][Next]_vars

\* ---- domains: syntactic layout classes on which the unchanged code is known to break a clause -------
Causes ==
  (IF \E n \in nodes : ~HasParent(n) /\ n.k = "path" /\ ~RefIsInit(n) THEN {"single-file-top"} ELSE {})
  \cup (IF sg # 0 /\ top # "none" /\ sg \notin P
           /\ \E n \in nodes : n.k = "path" /\ PBelow(StubsTopDir(sg), n.ps[1]) THEN {"stubs-elsewhere"} ELSE {})
  \cup (IF \E n \in nodes : n.k = "none" THEN {"builtin-predicates"} ELSE {})
  \cup (IF Holders(nodes) # {} /\ ByRank(Holders(nodes), MinOf).k = "list" THEN {"dangling-in-namespace"} ELSE {})
Explains(c) ==
  CASE c = "single-file-top" -> {"rpf"} [] c = "stubs-elsewhere" -> {"rpf"}
    [] c = "builtin-predicates" -> {"init", "package", "subpackage"}
    [] c = "dangling-in-namespace" -> {"error"} [] OTHER -> {}
Done == pc = "done"
Clean == Causes = {}
Explained == UNION {Explains(c) : c \in Causes}
\* a clause is verified on every case none of whose cause classes concerns it
Holds(f) == (Done /\ f \notin Explained) => ~\E v \in viol : v.f = f

\* ---- the clauses ----------------------------------------------------------------------------------
FilepathIsDefiningFile == Holds("fp")           \* X03.1
RelativeToCwdOrAbsolute == Holds("rf")          \* X03.2
RelativeToPackageParent == Holds("rpf")         \* X03.3
InitModuleIffInitFile == Holds("init")          \* X03.4
PackageIffTopInit == Holds("package")           \* X03.5
SubpackageIffNestedInit == Holds("subpackage")  \* X03.5
NamespaceIffTopList == Holds("ns")              \* X03.6
NamespaceSubIffListChain == Holds("nssub")      \* X03.6
DanglingRaisesResolutionError == Holds("error") \* X03.8
\* exactly one of package / subpackage / namespace package / namespace sub-package / plain module (Ref side)
KindsExclusive ==
  Done => \A o \in obs : LET r == [f \in {"package", "subpackage", "ns", "nssub"} |-> IF f \in DOMAIN o.mr THEN o.mr[f] ELSE {o.mi[f]}]
                         IN Cardinality({f \in DOMAIN r : r[f] = {"T"}}) <= 1
\* the module table is a tree, names are unique, lists are non-empty
TableIsTree ==
  pc # "case" => /\ \A n \in nodes : HasParent(n) => \E m \in nodes : m.name = Front(n.name)
                 /\ \A n, m \in nodes : n.name = m.name => n = m
                 /\ \A n \in nodes : n.k = "list" => Len(n.ps) >= 1
                 /\ \A a \in aliases : (\E n \in nodes : n.name = a.tgt) /\ (\E n \in nodes : n.name = a.at) /\ a.at # a.tgt
\* outside the clean domain only clauses explained by a cause class of the layout break (both configurations)
OnlyKnownViolations == Done => \A v \in viol : v.f \in Explained
\* defect configuration: TLC must report this one violated
NoViolationAnywhere == Done => viol = {}

EmitCase ==
  (Emit /\ Done) =>
    PrintT(<<"CASE", ToJson([fam |-> fam, top |-> top, kids |-> {[i |-> i, ks |-> kids[i]] : i \in P}, sg |-> sg, skids |-> skids,
                             chain |-> chain, cwds |-> [c \in Cwds |-> CwdPath(c)], form |-> form, req |-> req, agent |-> agent, pth |-> Pth,
                             disk |-> Disk, dirs |-> DiskDirs, roots |-> roots, obs |-> obs, aliases |-> aliases,
                             dangling |-> Dangling(nodes),
                             causes |-> Causes, viol |-> viol])>>)
=============================================================================
