----------------------------- MODULE Dataclass -----------------------------
(***************************************************************************)
(* C18 - synthesised dataclass constructors equal the ones CPython         *)
(* generates.  Shape A (algorithm vs reference) over a program that is     *)
(* built step by step.                                                     *)
(*                                                                         *)
(* A behaviour is: the source of a module is written class by class        *)
(* (DefClass, DefField, EndClass: a single-inheritance hierarchy, class i   *)
(* derives from an earlier class chain[i].base: a linear chain or a tree   *)
(* with siblings); at EndClass two things happen, as in reality:           *)
(*   - Griffe's visitor records the members of the class (VisitClass:      *)
(*     transcription of Visitor.handle_attribute / visit_functiondef /     *)
(*     decorators_to_labels as far as the extension looks at them);        *)
(*   - CPython executes the class statement and the decorator              *)
(*     (ProcessClass: transcription of dataclasses._process_class,         *)
(*     _get_field, _fields_in_init_order, _init_fn).                       *)
(* After EndModule the built-in extension runs (on_package_loaded ->       *)
(* _apply_recursively): one ApplyRecursively step per class, in member     *)
(* order, transcribing _set_dataclass_init, _dataclass_parameters (with    *)
(* its functools.cache), _field_arguments, _reorder_parameters and         *)
(* _del_members_annotated_as_initvar statement by statement, including     *)
(* what the code does not do.                                              *)
(*                                                                         *)
(* The invariants are the clauses of the property.  The unchanged code     *)
(* violates them for ten syntactic triggers (Tags).   Allow bounds the     *)
(* domain to programs whose triggers are in Allow; Fix switches on the     *)
(* proposed repair of a trigger inside the transcription.  One invariant   *)
(* family therefore states three results:                                  *)
(*   Allow = all, Fix = {}   : programs without trigger -> Impl = CPython  *)
(*                             (the clean domain is verified, every        *)
(*                             difference is attributed to a trigger);     *)
(*   Allow = all, Fix = all  : the ten repairs make Impl = CPython on      *)
(*                             the whole domain (the list is complete);    *)
(*   Allow = {t}, Strict     : TLC exhibits the defect of trigger t        *)
(*                             (counterexample replayed on the real code). *)
(***************************************************************************)
EXTENDS Naturals, Sequences, FiniteSets, TLC, Json, IOUtils

CONSTANTS Doms,     \* names of the program spaces to explore (see DomOf below); Init picks one per behaviour
          Allow,    \* set of defect triggers (Tags) a program may contain
          Fix,      \* set of triggers whose proposed fix is applied in the Impl transcription
          Emit      \* TRUE: print every finished program as a CASE line

\* ---------------------------------------------------------------------------------------------
\* Vocabulary
\* ---------------------------------------------------------------------------------------------
NameSet == {"a", "b", "c", "d"}
NameSeq == <<"a", "b", "c", "d">>
KW == "_"                       \* name used for the `_: KW_ONLY` sentinel

PK == "positional or keyword"
KO == "keyword-only"
RM == "removed"                 \* tombstone kind, only produced when "noninit" \in Fix

AllTags == {"kwF", "pinitF", "initF", "cvbare", "fempty", "inhdef", "annprop", "noninit", "labelhand", "handassign"}

\* Field forms (one class-body statement each; "annprop" is two statements)
\*   ann        x: int                              annval     x: int = 1
\*   fdef       x: int = field(default=1)           ffac       x: list = field(default_factory=list)
\*   finitF     x: int = field(init=False)          finitFd    x: int = field(init=False, default=1)
\*   fkwT       x: int = field(kw_only=True)        fkwTd      x: int = field(kw_only=True, default=1)
\*   fkwF       x: int = field(kw_only=False)       fkwFd      x: int = field(kw_only=False, default=1)
\*   fempty     x: int = field()                    fother     x: int = field(repr=False)
\*   finitT     x: int = field(init=True)
\*   kwonly     _: KW_ONLY
\*   classvar   x: ClassVar[int] = 1                classvarN  x: ClassVar[int]
\*   classvarB  x: ClassVar = 1   (not subscripted)
\*   initvar    x: InitVar[int]                     initvarD   x: InitVar[int] = 1
\*   prop       @property def x(self) -> int        annprop    x: int  followed by  @property def x(self) -> int
\*   unann      x = 1
FieldCallForms == {"fdef", "ffac", "finitF", "finitFd", "finitT", "fkwT", "fkwTd", "fkwF", "fkwFd", "fempty", "fother"}
AllForms == FieldCallForms \cup {"ann", "annval", "kwonly", "classvar", "classvarN", "classvarB",
                                 "initvar", "initvarD", "prop", "annprop", "unann"}
PlainForms == {"ann", "annval", "unann", "prop"}          \* what a non-dataclass class may contain

\* the annotation as written
AnnOf(f) == CASE f \in {"prop", "unann"} -> "none"
              [] f = "kwonly" -> "kwonly"
              [] f \in {"initvar", "initvarD"} -> "initvar"
              [] f \in {"classvar", "classvarN"} -> "classvar"
              [] f = "classvarB" -> "classvarB"
              [] OTHER -> "plain"
\* the right-hand side as written (of the first statement)
ValOf(f) == CASE f \in FieldCallForms -> "field"
              [] f \in {"annval", "classvar", "classvarB", "initvarD", "unann"} -> "val"
              [] OTHER -> "none"
\* keyword arguments of the field(...) call
FArgs(f) == CASE f = "fdef" -> {"default"}
              [] f = "ffac" -> {"default_factory"}
              [] f = "finitF" -> {"init=False"}
              [] f = "finitFd" -> {"init=False", "default"}
              [] f = "fkwT" -> {"kw_only=True"}
              [] f = "fkwTd" -> {"kw_only=True", "default"}
              [] f = "fkwF" -> {"kw_only=False"}
              [] f = "fkwFd" -> {"kw_only=False", "default"}
              [] f = "fother" -> {"repr=False"}
              [] f = "finitT" -> {"init=True"}
              [] OTHER -> {}

\* class headers: decorated or not, decorator arguments ("u" = not given), hand-written __init__(self, q) whose body
\* is `pass` (assign = FALSE) or assigns the declared fields and one more attribute: `self.x = q ... self.z: int = q`
H(dc, i, k, h) == [dc |-> dc, init |-> i, kw |-> k, hand |-> h, assign |-> FALSE]
HA(dc, i, k) == [dc |-> dc, init |-> i, kw |-> k, hand |-> TRUE, assign |-> TRUE]
Flag == {"u", "T", "F"}
HdrsAll  == {H(TRUE, i, k, h) : i \in Flag, k \in Flag, h \in BOOLEAN} \cup {H(FALSE, "u", "u", h) : h \in BOOLEAN}
              \cup {HA(TRUE, i, k) : i \in Flag, k \in Flag} \cup {HA(FALSE, "u", "u")}
HdrsNoHand == {h \in HdrsAll : ~h.hand}
HdrsSingle == {h \in HdrsAll : ~h.assign} \cup {HA(TRUE, "u", "u")}     \* the body of __init__ only matters to subclasses
HdrsLite == {H(TRUE, "u", "u", FALSE), H(TRUE, "u", "T", FALSE), H(TRUE, "F", "u", FALSE), H(TRUE, "u", "u", TRUE),
             H(FALSE, "u", "u", FALSE), H(FALSE, "u", "u", TRUE), HA(TRUE, "u", "u")}
HdrsKw   == {H(TRUE, "u", k, FALSE) : k \in Flag}

\* ---- program spaces (cfg: Doms = {"single2", ...}) ---------------------------------------------
\* nc: classes in the chain; nf[i]: statements in class i; forms[i]: forms a dataclass at level i may use;
\* hdrs[i]: headers at level i; names[i]: names a field of class i >= 2 may take (class 1 uses a, b, c in order)
N3 == {"a", "b", "c"}
Core == {"ann", "annval", "fkwT", "fkwFd", "finitF", "classvarN", "initvar", "prop", "unann", "kwonly"}
\* bases[i]: classes class i may derive from (0 = no base); Chain = every class derives from the previous one
Chain == <<{0}, {1}, {2}>>
\* loads: how many times the finished module is loaded with the same extension instance (a history of loads)
DB(nc, nf, forms, hdrs, names, bases) == [mode |-> "enum", nc |-> nc, nf |-> nf, forms |-> forms, hdrs |-> hdrs, names |-> names, bases |-> bases, loads |-> 1,
                                          outers |-> {"none"}, splits |-> {0}, links |-> {"import"}]
DL(d, n) == [d EXCEPT !.loads = n]
\* outers: the classes of the program are written at module level ("none") or nested in the body of an outer class that
\*         has no __init__ ("plain") or a hand-written one ("hand"); _apply_recursively has to descend into it
\* splits: 0 = one module; s > 0 = classes 1..s are in a first package, the others in a second package that imports
\*         them; the first package is loaded (and its on_package_loaded event handled) before the second one is
DO(d, o) == [d EXCEPT !.outers = o]
DS(d, sp) == [d EXCEPT !.splits = sp]
\* links: how the second module reaches the classes of the first one: "import" = two packages, `from <A> import K1, ...`,
\*        loaded one after the other; "wildcard" = two submodules a, b of ONE package, b does `from <pkg>.a import *`
\*        (an in-package wildcard import: GriffeLoader._post_load expands it before it fires on_package_loaded)
DK(d, lk) == [d EXCEPT !.links = lk]
D(nc, nf, forms, hdrs, names) == DB(nc, nf, forms, hdrs, names, Chain)
\* -- one class
Dom_single2 == D(1, <<2, 0, 0>>, <<AllForms, {}, {}>>, <<HdrsSingle, {}, {}>>, <<N3, {}, {}>>)
Dom_single3q == D(1, <<3, 0, 0>>, <<{"ann", "annval", "ffac", "fkwT", "fkwF", "fkwFd", "finitF", "kwonly", "classvarN", "initvarD"}, {}, {}>>,
                  <<HdrsKw, {}, {}>>, <<N3, {}, {}>>)
Dom_single3 == D(1, <<3, 0, 0>>, <<AllForms, {}, {}>>, <<HdrsNoHand, {}, {}>>, <<N3, {}, {}>>)
Dom_single4 == D(1, <<4, 0, 0>>, <<{"ann", "annval", "ffac", "fkwT", "fkwF", "fkwFd", "finitF", "kwonly", "classvar", "initvarD", "fempty"}, {}, {}>>,
                  <<HdrsKw, {}, {}>>, <<NameSet, {}, {}>>)
\* -- parent and child
\* (init=False together with a hand-written __init__ is the usual reason to pass init=False)
PairParentHdrs == {H(TRUE, "u", "u", FALSE), H(TRUE, "F", "u", FALSE), H(TRUE, "F", "u", TRUE), H(TRUE, "u", "u", TRUE), H(FALSE, "u", "u", FALSE),
                   HA(TRUE, "u", "u")}
PairChildHdrs  == {H(TRUE, "u", "u", FALSE), H(TRUE, "u", "T", FALSE), H(TRUE, "F", "u", FALSE), H(FALSE, "u", "u", FALSE), H(FALSE, "u", "u", TRUE)}
Dom_pair_w  == D(2, <<1, 1, 0>>, <<Core \ {"kwonly"}, Core, {}>>, <<HdrsLite \cup {H(TRUE, "F", "u", TRUE)}, HdrsLite, {}>>, <<N3, {"a", "b"}, {}>>)   \* witness runs
Dom_pair_q  == D(2, <<2, 1, 0>>, <<{"ann", "annval", "fkwT", "finitF", "classvarN", "initvar"},
                                   {"ann", "annval", "fkwT", "finitF", "classvarN", "initvar", "prop", "unann"}, {}>>,
                 <<PairParentHdrs, PairChildHdrs, {}>>, <<N3, {"a", "c"}, {}>>)
Dom_pair_m  == D(2, <<2, 1, 0>>, <<{"ann", "annval", "fkwT", "prop", "classvarN", "initvarD"}, AllForms, {}>>, <<HdrsLite, HdrsLite, {}>>, <<N3, N3, {}>>)
Dom_pair_t  == D(2, <<2, 2, 0>>, <<{"ann", "annval", "fkwT", "classvarN", "initvar"},
                                   {"ann", "annval", "fkwT", "classvarN", "initvar", "prop", "kwonly"}, {}>>,
                 <<PairParentHdrs, PairChildHdrs, {}>>, <<N3, N3, {}>>)
Dom_pairhdr == D(2, <<1, 1, 0>>, <<{"ann", "annval", "fkwT", "fkwFd", "classvarN", "kwonly"}, {"ann", "annval", "fkwT", "fkwFd", "classvarN", "kwonly"}, {}>>,
                 <<HdrsAll, HdrsAll, {}>>, <<N3, {"a", "b"}, {}>>)
\* -- three levels
TripleHdrs == {H(TRUE, "u", "u", FALSE), H(TRUE, "F", "u", FALSE), H(FALSE, "u", "u", FALSE), H(FALSE, "u", "u", TRUE)}
Dom_triple_q == D(3, <<1, 1, 1>>, <<{"ann", "annval", "fkwT", "classvarN"}, {"ann", "annval", "fkwT", "classvarN"},
                                    {"ann", "annval", "fkwT", "classvarN"}>>,
                  <<TripleHdrs, TripleHdrs, TripleHdrs>>, <<N3, {"a", "b"}, {"a"}>>)
TripleForms == {"ann", "annval", "fkwT", "finitF", "classvarN", "initvar", "prop"}
\* -- a tree: two classes deriving from the same first class (siblings share the ancestor's cached parameters)
Dom_tree_q == DB(3, <<1, 1, 1>>, <<{"ann", "annval", "fkwT"}, {"ann", "annval", "fkwT", "classvarN"}, {"ann", "annval", "fkwT", "classvarN"}>>,
                 <<{H(TRUE, "u", "u", FALSE), H(TRUE, "u", "u", TRUE), H(FALSE, "u", "u", FALSE)},
                   {H(TRUE, "u", "u", FALSE), H(FALSE, "u", "u", FALSE)},
                   {H(TRUE, "u", "u", FALSE), H(FALSE, "u", "u", FALSE), H(FALSE, "u", "u", TRUE)}>>,
                 <<N3, {"a", "b"}, {"a", "b", "c"}>>, <<{0}, {1}, {1}>>)
\* -- histories of loads: the same program loaded twice by one loader / by two loaders sharing the extension instances
ReloadHdrs == {H(TRUE, "u", "u", FALSE), H(TRUE, "u", "u", TRUE), H(FALSE, "u", "u", FALSE), H(FALSE, "u", "u", TRUE)}
Dom_reload_q == DL(D(2, <<1, 1, 0>>, <<{"ann", "annval", "fkwT", "initvar", "classvarN"}, {"ann", "annval", "fkwT", "initvar", "classvarN"}, {}>>,
                     <<ReloadHdrs, ReloadHdrs, {}>>, <<N3, {"a", "b"}, {}>>), 2)
Dom_reload_t == DL(Dom_pair_w, 3)
\* -- nested in an outer class (with / without its own __init__); two packages loaded one after the other
Dom_nested_q == DO(D(2, <<1, 1, 0>>, <<{"ann", "annval", "fkwT", "initvar", "classvarN"}, {"ann", "annval", "fkwT", "initvar", "classvarN"}, {}>>,
                     <<ReloadHdrs, ReloadHdrs, {}>>, <<N3, {"a", "b"}, {}>>), {"plain", "hand"})
SplitHdrs == {H(TRUE, "u", "u", FALSE), H(FALSE, "u", "u", FALSE)}
Dom_split_q == DK(DS(D(3, <<1, 1, 1>>, <<{"ann", "annval", "initvar"}, {"ann", "annval", "initvar"}, {"ann", "annval", "initvar"}>>,
                    <<SplitHdrs, SplitHdrs, SplitHdrs>>, <<N3, {"a", "b"}, {"a", "b"}>>), {1, 2}), {"import", "wildcard"})
Dom_split_t == DK(DS(DL(Dom_pair_w, 2), {0, 1}), {"import", "wildcard"})
Dom_tree_t == DB(3, <<1, 1, 1>>, <<TripleForms, TripleForms, TripleForms \cup {"kwonly"}>>,
                 <<TripleHdrs \cup {HA(TRUE, "u", "u")}, TripleHdrs, TripleHdrs>>, <<N3, {"a", "b"}, {"a", "b", "c"}>>, <<{0}, {1}, {1}>>)
Dom_triple_t == D(3, <<1, 1, 1>>, <<TripleForms, TripleForms, TripleForms \cup {"kwonly"}>>,
                  <<TripleHdrs \cup {HA(TRUE, "u", "u")}, TripleHdrs \cup {HA(TRUE, "u", "u")}, TripleHdrs>>, <<N3, {"a", "b"}, {"a", "b"}>>)
\* "target": the programs are not enumerated but read from the JSON file named by the environment variable
\* C18_TARGETS (a list of chains written by the driver: seeded random programs beyond the enumerated bounds,
\* counterexamples of witness runs, stored replay cases); TLC then only evaluates Impl and the reference on them.
Dom_target  == [mode |-> "target", nc |-> 0, nf |-> <<0, 0, 0>>, forms |-> <<{}, {}, {}>>, hdrs |-> <<{}, {}, {}>>,
                names |-> <<{}, {}, {}>>, bases |-> <<{}, {}, {}>>, loads |-> 2,
                outers |-> {}, splits |-> {}, links |-> {}]
Targets == JsonDeserialize(IOEnv.C18_TARGETS)
DomOf(d) == CASE d = "single2" -> Dom_single2 [] d = "single3q" -> Dom_single3q [] d = "single3" -> Dom_single3
              [] d = "single4" -> Dom_single4 [] d = "pair_w" -> Dom_pair_w [] d = "pair_q" -> Dom_pair_q
              [] d = "pair_m" -> Dom_pair_m [] d = "pair_t" -> Dom_pair_t [] d = "pairhdr" -> Dom_pairhdr
              [] d = "triple_q" -> Dom_triple_q [] d = "triple_t" -> Dom_triple_t [] d = "target" -> Dom_target
              [] d = "tree_q" -> Dom_tree_q [] d = "tree_t" -> Dom_tree_t
              [] d = "reload_q" -> Dom_reload_q [] d = "reload_t" -> Dom_reload_t
              [] d = "nested_q" -> Dom_nested_q [] d = "split_q" -> Dom_split_q [] d = "split_t" -> Dom_split_t

\* ---------------------------------------------------------------------------------------------
\* State
\* ---------------------------------------------------------------------------------------------
VARIABLES chain,     \* the source so far: Seq([hdr, base, fields: Seq([name, form])]) in definition order
          open,      \* the last class statement is still being written
          pc,        \* "build" -> "apply" -> "done"
          wf,        \* FALSE once CPython raised TypeError while creating a class
          py,        \* CPython: per created class [hasfields, fields, attrs, own, init]
          members,   \* Griffe: per class the ordered members dictionary (records, see VisitAttr)
          glabels,   \* Griffe: per class the labels set (only "dataclass" is tracked)
          cache,     \* Griffe: functools.cache of _dataclass_parameters, per class [set, val]
          k,         \* index of the class _apply_recursively reaches next
          tid,       \* target mode: index of the program being written (0 otherwise)
          tags,      \* Tags(chain), kept in a variable (TLC does not memoise operators)
          dom,       \* the program space this behaviour belongs to (an element of Doms)
          load,      \* number of the current load of the module (same extension instances for every load)
          processed, \* Griffe: the `processed` set handed to _apply_recursively (0 = the module, i = class i)
          hist,      \* results of the earlier loads: Seq([impl, mem])
          outer,     \* "none" | "plain" | "hand": the outer class the program is nested in
          split,     \* 0, or the number of classes that live in the first of two packages / submodules (chosen at EndModule)
          link,      \* "import" | "wildcard": how the second module reaches the classes of the first (see DK)
          expanded   \* Griffe: the in-package wildcard imports of the tree of the current load have been expanded
vars == <<chain, open, pc, wf, py, members, glabels, cache, k, tid, tags, dom, load, processed, hist, outer, split, link, expanded>>
layout == <<outer, split, link>>
Dom == DomOf(dom)
TargetMode == dom = "target"

N == Len(chain)
DC(ch, i) == ch[i].hdr.dc
Last(s) == s[Len(s)]
\* the proper ancestors of class i, root first: reversed(class_.mro()) / cls.__mro__[-1:0:-1] (single inheritance)
RECURSIVE AncSeq(_, _)
AncSeq(ch, i) == IF ch[i].base = 0 THEN <<>> ELSE AncSeq(ch, ch[i].base) \o <<ch[i].base>>
Anc(ch, i) == {AncSeq(ch, i)[x] : x \in 1..Len(AncSeq(ch, i))}

\* ---------------------------------------------------------------------------------------------
\* Defect triggers: purely syntactic predicates on the program
\* ---------------------------------------------------------------------------------------------
\* what the class __dict__ holds under the name after the class (and its decorator) ran
AttrAfter(f) == CASE f \in {"annval", "unann", "classvar", "classvarB", "initvarD", "fdef", "fkwFd", "fkwTd", "finitFd"} -> "val"
                  [] f \in {"prop", "annprop"} -> "prop"
                  [] OTHER -> "none"
NonInitForms == {"classvar", "classvarN", "classvarB", "finitF", "finitFd"}
Annotated(f) == f \notin {"prop", "unann", "kwonly"}       \* forms CPython sees in __annotations__ as (pseudo-)fields

FieldsOf(ch, i) == {ch[i].fields[j] : j \in 1..Len(ch[i].fields)}

Tags(ch) ==
  LET n == Len(ch)
      AfterSentinel(i, j) == \E j2 \in 1..(j - 1) : ch[i].fields[j2].form = "kwonly"
  IN
  \* explicit field(kw_only=False) where the default is keyword-only (class flag or KW_ONLY sentinel)
  (IF \E i \in 1..n : DC(ch, i) /\ \E j \in 1..Len(ch[i].fields) :
          /\ ch[i].fields[j].form \in {"fkwF", "fkwFd"}
          /\ (ch[i].hdr.kw = "T" \/ AfterSentinel(i, j))
   THEN {"kwF"} ELSE {})
  \cup
  \* a dataclass below a dataclass that was declared with init=False
  (IF \E i \in 1..n : \E j \in Anc(ch, i) : DC(ch, i) /\ DC(ch, j) /\ ch[j].hdr.init = "F" /\ Len(ch[j].fields) > 0
   THEN {"pinitF"} ELSE {})
  \cup
  \* @dataclass(init=False) without hand-written __init__
  (IF \E i \in 1..n : DC(ch, i) /\ ch[i].hdr.init = "F" /\ ~ch[i].hdr.hand THEN {"initF"} ELSE {})
  \cup
  (IF \E i \in 1..n : DC(ch, i) /\ \E fd \in FieldsOf(ch, i) : fd.form = "classvarB" THEN {"cvbare"} ELSE {})
  \cup
  (IF \E i \in 1..n : DC(ch, i) /\ \E fd \in FieldsOf(ch, i) : fd.form = "fempty" THEN {"fempty"} ELSE {})
  \cup
  \* a value-less field whose name is a class attribute of an ancestor: CPython's getattr default
  (IF \E i \in 1..n : DC(ch, i) /\ \E fd \in FieldsOf(ch, i) :
          /\ fd.form \in {"ann", "initvar"}
          /\ \E j \in Anc(ch, i) : \E gd \in FieldsOf(ch, j) : gd.name = fd.name /\ AttrAfter(gd.form) # "none"
   THEN {"inhdef"} ELSE {})
  \cup
  (IF \E i \in 1..n : DC(ch, i) /\ \E fd \in FieldsOf(ch, i) : fd.form = "annprop" THEN {"annprop"} ELSE {})
  \cup
  \* a name that is an __init__ field in one dataclass and a ClassVar / init=False field in another one of the chain
  (IF \E i \in 1..n : \E j \in Anc(ch, i) : DC(ch, i) /\ DC(ch, j) /\
         \E fd \in FieldsOf(ch, i), gd \in FieldsOf(ch, j) :
            /\ fd.name = gd.name /\ Annotated(fd.form) /\ Annotated(gd.form)
            /\ (fd.form \in NonInitForms) # (gd.form \in NonInitForms)
   THEN {"noninit"} ELSE {})
  \cup
  \* undecorated class with its own __init__ below a dataclass
  (IF \E i \in 1..n : ~DC(ch, i) /\ ch[i].hdr.hand /\ \E j \in Anc(ch, i) : DC(ch, j) THEN {"labelhand"} ELSE {})
  \cup
  \* a dataclass below a dataclass whose hand-written __init__ assigns attributes
  (IF \E j \in 1..n : \E i \in Anc(ch, j) : DC(ch, i) /\ DC(ch, j) /\ ch[i].hdr.assign THEN {"handassign"} ELSE {})

\* ---------------------------------------------------------------------------------------------
\* Griffe's visitor, as far as the extension reads its output
\* ---------------------------------------------------------------------------------------------
\* one record shape for every member (attributes and the __init__ function)
Member(n, kind, ann, labels, val, fargs, shadow, origin, params) ==
  [name |-> n, kind |-> kind, ann |-> ann, labels |-> labels, val |-> val, fargs |-> fargs,
   shadow |-> shadow, origin |-> origin, params |-> params]

HandParams == <<[name |-> "q", kind |-> PK, hasdef |-> FALSE]>>      \* def __init__(self, q): pass

\* Visitor.handle_attribute (class scope) / visit_functiondef (property branch)
VisitAttr(n, f) ==
  LET isClassvar ==    \* Expr.is_classvar: ExprSubscript whose canonical name is ClassVar
        f \in {"classvar", "classvarN"} \/ (f = "classvarB" /\ "cvbare" \in Fix)
      labels == IF f \in {"prop", "annprop"} THEN {"property"}
                ELSE IF isClassvar THEN {"class-attribute"}
                ELSE IF ValOf(f) # "none" THEN {"class-attribute", "instance-attribute"}
                ELSE {"instance-attribute"}
      ann == CASE f \in {"prop", "annprop"} -> "plain"                 \* the return annotation
               [] f = "unann" -> "none"
               [] isClassvar -> "plain"                                \* annotation.slice
               [] f = "classvarB" -> "classvarB"                       \* ExprName typing.ClassVar: an ordinary annotation
               [] OTHER -> AnnOf(f)
  IN Member(n, "attribute", ann, labels,
            IF f \in {"prop", "annprop"} THEN "none" ELSE ValOf(f),
            IF f \in {"prop", "annprop"} THEN {} ELSE FArgs(f),
            f = "annprop", "", <<>>)

\* fields the assigning __init__ sets: `self.x = q` for every ordinary field x of the class body
AssignedForms == FieldCallForms \cup {"ann", "annval"}
\* Visitor.handle_attribute inside a function named __init__: the new Attribute (value `q`) replaces the member of the
\* class in place; labels of the existing member are merged, its annotation is forwarded, the field(...) call is gone
VisitInitBody(c, ms) ==
  IF ~c.hdr.assign \/ "handassign" \in Fix THEN ms
  ELSE [j \in 1..Len(ms) |->
          IF j <= Len(c.fields) /\ c.fields[j].form \in AssignedForms
          THEN [ms[j] EXCEPT !.val = "val", !.fargs = {}, !.labels = @ \cup {"instance-attribute"}]
          ELSE ms[j]]
       \o <<Member("z", "attribute", "plain", {"instance-attribute"}, "val", {}, FALSE, "", <<>>)>>      \* self.z: int = q

VisitClass(c) ==      \* members in definition order; a re-definition (annprop) keeps the first position
  VisitInitBody(c,
    [j \in 1..Len(c.fields) |-> VisitAttr(c.fields[j].name, c.fields[j].form)]
      \o (IF c.hdr.hand THEN <<Member("__init__", "function", "none", {}, "none", {}, FALSE, "hand", HandParams)>> ELSE <<>>))

HasMember(ms, n) == \E j \in 1..Len(ms) : ms[j].name = n
GetMember(ms, n) == ms[CHOOSE j \in 1..Len(ms) : ms[j].name = n]

\* ---------------------------------------------------------------------------------------------
\* Impl: _griffe/extensions/dataclasses.py
\* ---------------------------------------------------------------------------------------------
Decorated(ch, i) == ch[i].hdr.dc                       \* _dataclass_decorator(class_.decorators) is not None

\* does an ancestor leave a class attribute of that name (what getattr(cls, name) would find)?  Used by the
\* "inhdef" fix only; read from the source because Griffe deletes InitVar members of processed classes.
InheritedValue(ch, i, n) ==
  \E j \in Anc(ch, i) : \E gd \in FieldsOf(ch, j) : gd.name = n /\ AttrAfter(gd.form) # "none"

\* the body of `for member in class_.members.values()` in _dataclass_parameters
RECURSIVE ScanMembers(_, _, _, _, _, _)
ScanMembers(ch, ci, ms, j, kwonly, out) ==
  IF j > Len(ms) THEN out
  ELSE LET m == ms[j] IN
    IF m.kind # "attribute" THEN ScanMembers(ch, ci, ms, j + 1, kwonly, out)           \* member.is_attribute
    ELSE IF m.ann = "none" THEN ScanMembers(ch, ci, ms, j + 1, kwonly, out)            \* annotation is None
    ELSE IF "property" \in m.labels /\ ~(m.shadow /\ "annprop" \in Fix)
         THEN ScanMembers(ch, ci, ms, j + 1, kwonly, out)
    ELSE IF "class-attribute" \in m.labels /\ "instance-attribute" \notin m.labels
         THEN ScanMembers(ch, ci, ms, j + 1, kwonly,                                  \* ClassVar: skipped
                          IF "noninit" \in Fix THEN Append(out, [name |-> m.name, kind |-> RM, hasdef |-> FALSE]) ELSE out)
    ELSE IF m.ann = "kwonly" THEN ScanMembers(ch, ci, ms, j + 1, TRUE, out)             \* dataclasses.KW_ONLY
    ELSE IF "init=False" \in m.fargs
         THEN ScanMembers(ch, ci, ms, j + 1, kwonly,                                  \* field(init=False): skipped
                          IF "noninit" \in Fix THEN Append(out, [name |-> m.name, kind |-> RM, hasdef |-> FALSE]) ELSE out)
    ELSE
      LET kind == IF "kwF" \in Fix
                  THEN (IF "kw_only=True" \in m.fargs \/ (kwonly /\ "kw_only=False" \notin m.fargs) THEN KO ELSE PK)
                  ELSE (IF kwonly \/ "kw_only=True" \in m.fargs THEN KO ELSE PK)
          \* default_factory -> ExprCall; else field_args.get("default", None if field_args else member.value)
          hasdef == IF "property" \in m.labels THEN TRUE     \* only reached with the annprop fix: the property object
                    ELSE IF "default_factory" \in m.fargs THEN TRUE
                    ELSE IF "default" \in m.fargs THEN TRUE
                    ELSE IF m.fargs # {} THEN FALSE
                    ELSE IF m.val = "field" THEN ("fempty" \notin Fix)      \* field(): member.value is the call itself
                    ELSE IF m.val = "val" THEN TRUE
                    ELSE ("inhdef" \in Fix /\ InheritedValue(ch, ci, m.name))
      IN ScanMembers(ch, ci, ms, j + 1, kwonly, Append(out, [name |-> m.name, kind |-> kind, hasdef |-> hasdef]))

\* _dataclass_parameters(class_) without the cache
DataclassParameters(ch, allms, i) ==
  IF ch[i].hdr.init = "F" /\ "pinitF" \notin Fix THEN <<>>        \* dec_args.get("init") == "False": return []
  ELSE ScanMembers(ch, i, allms[i], 1, ch[i].hdr.kw = "T", <<>>)

\* _reorder_parameters: {param.name: param for param in parameters} keeps the first position and the last value
LastWithName(ps, n) == ps[CHOOSE j \in 1..Len(ps) : ps[j].name = n /\ \A j2 \in (j + 1)..Len(ps) : ps[j2].name # n]
Dedup(ps) ==
  LET firsts == SelectSeq([j \in 1..Len(ps) |-> j], LAMBDA j : \A j2 \in 1..(j - 1) : ps[j2].name # ps[j].name)
  IN [x \in 1..Len(firsts) |-> LastWithName(ps, ps[firsts[x]].name)]
ReorderParameters(ps) ==
  LET d == SelectSeq(Dedup(ps), LAMBDA p : p.kind # RM)       \* tombstones exist only with the "noninit" fix
  IN SelectSeq(d, LAMBDA p : p.kind = PK) \o SelectSeq(d, LAMBDA p : p.kind = KO)

\* class_.mro() as Griffe can compute it: a base that is only reachable through a wildcard import which has not been
\* expanded does not resolve - the walk stops there (never the case in the order _post_load uses)
RECURSIVE GAncSeq(_, _)
GAncSeq(ch, i) ==
  IF ch[i].base = 0 THEN <<>>
  ELSE IF link = "wildcard" /\ ~expanded /\ i > split /\ ch[i].base <= split THEN <<>>
  ELSE GAncSeq(ch, ch[i].base) \o <<ch[i].base>>
GAnc(ch, i) == {GAncSeq(ch, i)[x] : x \in 1..Len(GAncSeq(ch, i))}
\* the calls _set_dataclass_init(class k) makes to the cached _dataclass_parameters
CalledBy(ch, i) == {j \in GAnc(ch, i) : Decorated(ch, j)} \cup (IF Decorated(ch, i) THEN {i} ELSE {})
CachedParameters(ch, i) == IF cache[i].set THEN cache[i].val ELSE DataclassParameters(ch, members, i)

RECURSIVE ConcatParams(_, _, _)
ConcatParams(ch, anc, x) ==      \* for parent in reversed(mro): if decorated: parameters.extend(...)   (a fresh list: the
  IF x > Len(anc) THEN <<>>      \* cached lists of the ancestors are read, never written)
  ELSE (IF Decorated(ch, anc[x]) THEN CachedParameters(ch, anc[x]) ELSE <<>>) \o ConcatParams(ch, anc, x + 1)

\* ---------------------------------------------------------------------------------------------
\* Reference: CPython's dataclasses module (3.12)
\* ---------------------------------------------------------------------------------------------
\* fields[f.name] = f  on an insertion-ordered dict: in-place override or append
Overlay(fs, f) ==
  IF \E j \in 1..Len(fs) : fs[j].name = f.name
  THEN [j \in 1..Len(fs) |-> IF fs[j].name = f.name THEN f ELSE fs[j]]
  ELSE Append(fs, f)
RECURSIVE OverlayAll(_, _, _)
OverlayAll(fs, gs, j) == IF j > Len(gs) THEN fs ELSE OverlayAll(Overlay(fs, gs[j]), gs, j + 1)

\* getattr(cls, name, MISSING) while the class body has run but the decorator has not
InheritedAttr(pys, n) == IF Len(pys) = 0 THEN "none" ELSE Last(pys).attrs[n]

\* _get_field(cls, a_name, a_type, default_kw_only)
GetField(pys, n, f, default_kw_only) ==
  LET own == IF ValOf(f) = "field" THEN "field" ELSE AttrAfter(f)       \* the entry of cls.__dict__, if any
      default == IF own = "none" THEN InheritedAttr(pys, n) ELSE own
      ftype == CASE AnnOf(f) \in {"classvar", "classvarB"} -> "classvar"    \* _is_classvar: typing.ClassVar or ClassVar[...]
                 [] AnnOf(f) = "initvar" -> "initvar"
                 [] OTHER -> "field"
  IN [name |-> n, ftype |-> ftype,
      init |-> "init=False" \notin FArgs(f),
      kw |-> IF "kw_only=True" \in FArgs(f) THEN TRUE
             ELSE IF "kw_only=False" \in FArgs(f) THEN FALSE
             ELSE default_kw_only,                                       \* f.kw_only is MISSING
      hasdef |-> IF default = "field" THEN ("default" \in FArgs(f) \/ "default_factory" \in FArgs(f))
                 ELSE default # "none"]

\* for name, type in cls_annotations.items()
RECURSIVE ScanAnnotations(_, _, _, _, _)
ScanAnnotations(pys, fs, j, kwonly, out) ==
  IF j > Len(fs) THEN out
  ELSE LET fd == fs[j] IN
    IF fd.form \in {"prop", "unann"} THEN ScanAnnotations(pys, fs, j + 1, kwonly, out)      \* not an annotation
    ELSE IF fd.form = "kwonly" THEN ScanAnnotations(pys, fs, j + 1, TRUE, out)            \* _is_kw_only
    ELSE ScanAnnotations(pys, fs, j + 1, kwonly, Append(out, GetField(pys, fd.name, fd.form, kwonly)))

\* fields collected from the bases: for b in cls.__mro__[-1:0:-1]: getattr(b, _FIELDS, None)
RECURSIVE BaseFields(_, _, _)
BaseFields(pys, b, acc) ==
  IF b > Len(pys) THEN acc
  ELSE BaseFields(pys, b + 1, IF pys[b].hasfields THEN OverlayAll(acc, pys[b].fields, 1) ELSE acc)

AttrsAfter(pys, c) ==     \* getattr view of the finished class, per name
  [n \in NameSet |->
     IF \E j \in 1..Len(c.fields) : c.fields[j].name = n /\ AttrAfter(c.fields[j].form) # "none"
     THEN AttrAfter((CHOOSE fd \in FieldsOf(<<c>>, 1) : fd.name = n).form)
     ELSE InheritedAttr(pys, n)]

InitParam(f) == [name |-> f.name, kind |-> IF f.kw THEN KO ELSE PK, hasdef |-> f.hasdef]

RECURSIVE NonDefaultAfterDefault(_, _, _)
NonDefaultAfterDefault(std, j, seen) ==      \* the TypeError check of _init_fn
  IF j > Len(std) THEN FALSE
  ELSE IF std[j].hasdef THEN NonDefaultAfterDefault(std, j + 1, TRUE)
  ELSE IF seen THEN TRUE
  ELSE NonDefaultAfterDefault(std, j + 1, seen)

\* class statement + decorator; pys = records of the ancestors of the class, root first (the last one is its base)
ProcessClass(pys, c) ==
  LET inherited == BaseFields(pys, 1, <<>>)
      hasbase == \E b \in 1..Len(pys) : pys[b].hasfields
      handOwn == IF c.hdr.hand THEN "hand" ELSE "none"
  IN
  IF ~c.hdr.dc
  THEN [hasfields |-> hasbase, fields |-> inherited, attrs |-> AttrsAfter(pys, c),
        own |-> handOwn, init |-> IF c.hdr.hand THEN HandParams ELSE <<>>, err |-> FALSE]
  ELSE
    LET cls_fields == ScanAnnotations(pys, c.fields, 1, c.hdr.kw = "T", <<>>)
        fields == OverlayAll(inherited, cls_fields, 1)
        all_init == SelectSeq(fields, LAMBDA f : f.ftype \in {"field", "initvar"})
        std == SelectSeq(all_init, LAMBDA f : f.init /\ ~f.kw)           \* _fields_in_init_order
        kwo == SelectSeq(all_init, LAMBDA f : f.init /\ f.kw)
        doinit == c.hdr.init # "F"
        params == [j \in 1..Len(std) |-> InitParam(std[j])] \o [j \in 1..Len(kwo) |-> InitParam(kwo[j])]
    IN [hasfields |-> TRUE, fields |-> fields, attrs |-> AttrsAfter(pys, c),
        \* _set_new_attribute never overwrites a hand-written __init__
        own |-> IF c.hdr.hand THEN "hand" ELSE IF doinit THEN "synth" ELSE "none",
        init |-> IF c.hdr.hand THEN HandParams ELSE IF doinit THEN params ELSE <<>>,
        err |-> doinit /\ NonDefaultAfterDefault(std, 1, FALSE)]

\* ---------------------------------------------------------------------------------------------
\* Actions
\* ---------------------------------------------------------------------------------------------
Init ==
  /\ chain = <<>> /\ open = FALSE /\ pc = "build" /\ wf = TRUE
  /\ py = <<>> /\ members = <<>> /\ glabels = <<>> /\ cache = <<>> /\ k = 0
  /\ dom \in Doms
  /\ tid \in (IF dom = "target" THEN 1..Len(Targets) ELSE {0})
  /\ tags = {}
  /\ load = 1 /\ processed = {} /\ hist = <<>>
  /\ outer \in (IF dom = "target" THEN {Targets[tid].outer} ELSE DomOf(dom).outers)
  /\ split = 0 /\ link = "import" /\ expanded = FALSE

T == Targets[tid].chain

DefClass ==        \* `@dataclass(...)` / `class Ci(Ci-1):`
  /\ pc = "build" /\ ~open /\ wf
  /\ N < (IF TargetMode THEN Len(T) ELSE Dom.nc)
  /\ \E h \in (IF TargetMode THEN {T[N + 1].hdr} ELSE Dom.hdrs[N + 1]),
        b \in (IF TargetMode THEN {T[N + 1].base} ELSE Dom.bases[N + 1]) :
       LET ch == Append(chain, [hdr |-> h, base |-> b, fields |-> <<>>])
           t == Tags(ch)
       IN /\ b \in 0..N /\ (b = 0) = (N = 0)
          /\ t \subseteq Allow
          /\ chain' = ch /\ tags' = t
  /\ open' = TRUE
  /\ UNCHANGED <<pc, wf, py, members, glabels, cache, k, tid, dom, load, processed, hist, layout, expanded>>

\* the statements that may come next in the body of the open class
Candidates(c) ==
  IF TargetMode
  THEN (IF Len(c.fields) < Len(T[N].fields) THEN {T[N].fields[Len(c.fields) + 1]} ELSE {})
  ELSE IF Len(c.fields) >= Dom.nf[N] THEN {}
  ELSE LET nfield == Cardinality({j \in 1..Len(c.fields) : c.fields[j].form # "kwonly"})
           forms == IF c.hdr.dc THEN Dom.forms[N] ELSE Dom.forms[N] \cap PlainForms
           \* symmetry breaking: the first class names its fields a, b, c, d in order
           NamesFor(f) == IF f = "kwonly" THEN {KW}
                          ELSE IF N = 1 THEN (IF nfield < 4 THEN {NameSeq[nfield + 1]} ELSE {})
                          ELSE Dom.names[N]
       IN UNION {{[name |-> n, form |-> f] : n \in NamesFor(f)} : f \in forms}

DefField ==        \* one more statement in the body of the open class
  /\ pc = "build" /\ open
  /\ LET c == Last(chain) IN
     \E fd \in Candidates(c) :
        /\ \A j \in 1..Len(c.fields) : c.fields[j].name # fd.name      \* one KW_ONLY at most, no re-assignment
        /\ (fd.form = "kwonly") = (fd.name = KW)
        /\ fd.name \in NameSet \cup {KW} /\ fd.form \in AllForms /\ (~c.hdr.dc => fd.form \in PlainForms)
        /\ LET ch == [chain EXCEPT ![N].fields = Append(@, fd)]
               t == Tags(ch)
           IN /\ t \subseteq Allow
              /\ chain' = ch /\ tags' = t
  /\ UNCHANGED <<open, pc, wf, py, members, glabels, cache, k, tid, dom, load, processed, hist, layout, expanded>>

EndClass ==        \* the class statement ends: the visitor has its members, CPython runs the decorator
  /\ pc = "build" /\ open
  /\ (TargetMode => Len(Last(chain).fields) = Len(T[N].fields))
  /\ LET c == Last(chain)
         anc == AncSeq(chain, N)
         r == ProcessClass([x \in 1..Len(anc) |-> py[anc[x]]], c)
     IN /\ py' = Append(py, r)
        /\ wf' = ~r.err
        /\ members' = Append(members, VisitClass(c))
        /\ glabels' = Append(glabels, IF c.hdr.dc THEN {"dataclass"} ELSE {})     \* decorators_to_labels
        /\ cache' = Append(cache, [set |-> FALSE, val |-> <<>>])
  /\ open' = FALSE
  /\ UNCHANGED <<chain, pc, k, tid, tags, dom, load, processed, hist, layout, expanded>>

\* DataclassesExtension.on_package_loaded: `_apply_recursively(pkg, set())` - a NEW set for every event; the module
\* itself is the first path put into it (and no module path is in a new set, so the walk always starts)
FreshProcessed == {0}

OuterId == 99                         \* the outer class in `processed`
FirstK == IF outer = "none" THEN 1 ELSE 0

EndModule ==       \* GriffeLoader._post_load -> extensions.call("on_package_loaded")
  /\ pc = "build" /\ ~open /\ N >= 1
  /\ (TargetMode => (N = Len(T) \/ ~wf))
  /\ \E sp \in (IF TargetMode THEN {Targets[tid].split} ELSE Dom.splits) :
       /\ (sp > 0 => outer = "none")
       /\ (~TargetMode => sp < N)
       /\ split' = IF sp < N THEN sp ELSE 0       \* (a supplied program cut short by a TypeError is one package)
       /\ \E lk \in (IF TargetMode THEN {Targets[tid].link} ELSE Dom.links) :
            /\ link' = IF sp > 0 /\ sp < N THEN lk ELSE "import"
            /\ pc' = IF sp > 0 /\ sp < N /\ lk = "wildcard" THEN "postload" ELSE "apply"
  /\ k' = FirstK /\ expanded' = FALSE
  /\ processed' = FreshProcessed
  /\ UNCHANGED <<chain, open, wf, py, members, glabels, cache, tid, tags, dom, load, hist, outer>>

\* GriffeLoader._post_load, one package with submodules: expand_exports(module); expand_wildcards(module, external=False)
\* and only THEN extensions.call("on_package_loaded"): when the extension runs, a base class that entered its module
\* through `from <pkg>.a import *` is an alias member of that module and resolves.
ExpandWildcards ==
  /\ pc = "postload"
  /\ expanded' = TRUE /\ pc' = "apply"
  /\ UNCHANGED <<chain, open, wf, py, members, glabels, cache, k, tid, tags, dom, load, processed, hist, layout>>

\* _apply_recursively reaches class k
ApplyRecursively ==
  /\ pc = "apply" /\ k >= 1 /\ k <= N
  /\ processed' = processed \cup {k}                     \* processed.add(mod_cls.canonical_path)
  /\ IF k \in processed                                  \* if mod_cls.canonical_path in processed: return
     THEN UNCHANGED <<members, glabels, cache>>
     ELSE IF HasMember(members[k], "__init__") /\ "labelhand" \notin Fix
     THEN UNCHANGED <<members, glabels, cache>>          \* guard: "__init__" not in mod_cls.members
     ELSE
       LET guarded == HasMember(members[k], "__init__")            \* only with the labelhand fix: label, nothing else
           parents == {j \in GAnc(chain, k) : Decorated(chain, j)}
           \* ---- _set_dataclass_init
           \* (the initF fix returns only after the class's own parameters were computed, hence cached:
           \*  _del_members_annotated_as_initvar is about to remove what a subclass will ask for)
           called == IF guarded THEN {} ELSE CalledBy(chain, k)
           parameters == ConcatParams(chain, GAncSeq(chain, k), 1)
                           \o (IF Decorated(chain, k) THEN CachedParameters(chain, k) ELSE <<>>)
           makeInit == /\ ~guarded /\ Decorated(chain, k)
                       /\ ~(chain[k].hdr.init = "F" /\ "initF" \in Fix)
           init == Member("__init__", "function", "none", {}, "none", {}, FALSE, "synth", ReorderParameters(parameters))
           withInit == IF makeInit THEN Append(members[k], init) ELSE members[k]
           \* ---- _del_members_annotated_as_initvar
           pruned == IF guarded THEN withInit ELSE SelectSeq(withInit, LAMBDA m : m.ann # "initvar")
       IN /\ glabels' = [glabels EXCEPT ![k] = IF parents # {} THEN @ \cup {"dataclass"} ELSE @]
          /\ cache' = [j \in 1..N |-> IF j \in called /\ ~cache[j].set
                                      THEN [set |-> TRUE, val |-> DataclassParameters(chain, members, j)]
                                      ELSE cache[j]]
          /\ members' = [members EXCEPT ![k] = pruned]
  /\ k' = k + 1
  /\ pc' = IF k = N THEN "done" ELSE IF k = split /\ link = "import" THEN "nextpkg" ELSE "apply"
  /\ UNCHANGED <<chain, open, wf, py, tid, tags, dom, load, hist, layout, expanded>>

\* _apply_recursively reaches the outer class the program is nested in.  It is not a dataclass and has no dataclass
\* ancestor: labelling and (behind the "__init__" guard) _set_dataclass_init / _del_members... change nothing.  Then
\*     for member in mod_cls.members.values(): if not member.is_alias and member.is_class: _apply_recursively(...)
\* runs WHETHER OR NOT the class has its own __init__ (the guard only covers the two calls above).
ApplyOuter ==
  /\ pc = "apply" /\ k = 0
  /\ processed' = processed \cup {OuterId}
  /\ k' = 1
  /\ UNCHANGED <<chain, open, pc, wf, py, members, glabels, cache, tid, tags, dom, load, hist, layout, expanded>>

\* the first package is done; the loader now loads the second one (its classes derive from classes of the first, which
\* stay in the modules collection) and fires on_package_loaded for it: a fresh `processed`, but the SAME functools.cache
\* - the parameters of the first package's dataclasses were cached before their InitVar members were deleted.
NextPackage ==
  /\ pc = "nextpkg"
  /\ pc' = "apply" /\ processed' = FreshProcessed
  /\ UNCHANGED <<chain, open, wf, py, members, glabels, cache, k, tid, tags, dom, load, hist, layout, expanded>>

\* ---- a history of loads ----------------------------------------------------------------------------
\* The module is loaded again while the extension instances live on: loader.load(...) once more on the same
\* GriffeLoader, or a second GriffeLoader built with `extensions=first.extensions`.  The visitor builds a NEW tree
\* with the same paths (fresh members and labels; new Class objects, hence misses in functools.cache), CPython's
\* classes are what they were, and on_package_loaded fires again.  Nothing of the extension survives a load.
Loads == IF TargetMode THEN Dom_target.loads ELSE Dom.loads
ImplResOf(ms, ls, i) ==
  [own |-> IF HasMember(ms[i], "__init__") THEN GetMember(ms[i], "__init__").origin ELSE "none",
   params |-> IF HasMember(ms[i], "__init__") THEN GetMember(ms[i], "__init__").params ELSE <<>>,
   dataclass |-> "dataclass" \in ls[i]]
LoadAgain ==
  /\ pc = "done" /\ load < Loads
  /\ hist' = Append(hist, [impl |-> [i \in 1..N |-> ImplResOf(members, glabels, i)],
                            mem |-> [i \in 1..N |-> [j \in 1..Len(members[i]) |-> members[i][j].name]]])
  /\ members' = [i \in 1..N |-> VisitClass(chain[i])]
  /\ glabels' = [i \in 1..N |-> IF chain[i].hdr.dc THEN {"dataclass"} ELSE {}]
  /\ cache' = [i \in 1..N |-> [set |-> FALSE, val |-> <<>>]]
  /\ processed' = FreshProcessed
  /\ load' = load + 1 /\ k' = FirstK /\ expanded' = FALSE
  /\ pc' = IF split > 0 /\ link = "wildcard" THEN "postload" ELSE "apply"
  /\ UNCHANGED <<chain, open, wf, py, tid, tags, dom, layout>>

Next == DefClass \/ DefField \/ EndClass \/ EndModule \/ ApplyRecursively \/ ApplyOuter \/ NextPackage \/ ExpandWildcards \/ LoadAgain
Spec == Init /\ [][Next]_vars

\* ---------------------------------------------------------------------------------------------
\* Results and properties
\* ---------------------------------------------------------------------------------------------
Done == pc = "done"

\* (Done is reached once per load: every clause below is a statement about the tree after EVERY load of a history)
ImplRes(i) == ImplResOf(members, glabels, i)
PyRes(i) == [own |-> py[i].own, params |-> py[i].init, dataclass |-> py[i].hasfields]

NamesOf(ps) == [j \in 1..Len(ps) |-> ps[j].name]
Claimed == Done /\ wf /\ (tags \subseteq Fix)      \* where the unchanged (or repaired) code is claimed correct

\* the __init__ presented for a dataclass: same existence, names, order, kinds, required-ness
SameOwn      == Claimed => \A i \in 1..N : chain[i].hdr.dc => ImplRes(i).own = PyRes(i).own
SameNames    == Claimed => \A i \in 1..N : chain[i].hdr.dc =>
                  {ImplRes(i).params[j].name : j \in 1..Len(ImplRes(i).params)} = {PyRes(i).params[j].name : j \in 1..Len(PyRes(i).params)}
SameOrder    == Claimed => \A i \in 1..N : chain[i].hdr.dc => NamesOf(ImplRes(i).params) = NamesOf(PyRes(i).params)
SameKinds    == Claimed => \A i \in 1..N : chain[i].hdr.dc /\ NamesOf(ImplRes(i).params) = NamesOf(PyRes(i).params) =>
                  \A j \in 1..Len(PyRes(i).params) : ImplRes(i).params[j].kind = PyRes(i).params[j].kind
SameRequired == Claimed => \A i \in 1..N : chain[i].hdr.dc /\ NamesOf(ImplRes(i).params) = NamesOf(PyRes(i).params) =>
                  \A j \in 1..Len(PyRes(i).params) : ImplRes(i).params[j].hasdef = PyRes(i).params[j].hasdef
\* a hand-written __init__ is never replaced
HandUntouched == Done => \A i \in 1..N : chain[i].hdr.hand => ImplRes(i).own = "hand" /\ ImplRes(i).params = HandParams
\* non-dataclass classes get none
PlainGetsNone == Done => \A i \in 1..N : ~chain[i].hdr.dc /\ ~chain[i].hdr.hand => ImplRes(i).own = "none"
\* a class is labelled "dataclass" exactly when dataclasses.is_dataclass says so (itself or an ancestor decorated)
LabelIffDataclass == Claimed => \A i \in 1..N : ImplRes(i).dataclass = PyRes(i).dataclass
\* sanity of the synthesised signature
OrderLegal == Done => \A i \in 1..N : LET ps == ImplRes(i).params IN
                 /\ \A x, y \in 1..Len(ps) : x < y => ~(ps[x].kind = KO /\ ps[y].kind = PK)
                 /\ Cardinality({ps[x].name : x \in 1..Len(ps)}) = Len(ps)
                 /\ \A x \in 1..Len(ps) : ps[x].kind \in {PK, KO}

\* Strict form (witness runs: Allow = {t}, Fix = {}): expected to be violated, the trace documents defect t
StrictSame == (Done /\ wf) => \A i \in 1..N : ImplRes(i) = PyRes(i)

\* ---- emission ---------------------------------------------------------------------------------
Enc(ps) == [j \in 1..Len(ps) |-> <<ps[j].name, ps[j].kind, ps[j].hasdef>>]
EncRes(r) == [own |-> r.own, params |-> Enc(r.params), dataclass |-> r.dataclass]
CaseRec ==
  [chain |-> [i \in 1..N |-> [hdr |-> chain[i].hdr, base |-> chain[i].base,
                              fields |-> [j \in 1..Len(chain[i].fields) |-> <<chain[i].fields[j].name, chain[i].fields[j].form>>]]],
   dom |-> dom, tid |-> tid, wf |-> wf, tags |-> tags, loads |-> load, outer |-> outer, split |-> split, link |-> link,
   hist |-> [l \in 1..Len(hist) |-> [impl |-> [i \in 1..N |-> EncRes(hist[l].impl[i])], mem |-> hist[l].mem]],
   impl |-> [i \in 1..N |-> EncRes(ImplRes(i))],
   ref |-> [i \in 1..N |-> EncRes(PyRes(i))],
   mem |-> [i \in 1..N |-> [j \in 1..Len(members[i]) |-> members[i][j].name]]]
EmitCase == (Emit /\ Done /\ load = Loads) => PrintT(<<"CASE", ToJson(CaseRec)>>)
=============================================================================
