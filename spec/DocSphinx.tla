------------------------------ MODULE DocSphinx ------------------------------
(***************************************************************************)
(* The Sphinx-style docstring parser of Griffe as an offset machine.       *)
(*   C12 - total, terminating, well-formed sections, nothing modified      *)
(*   C13 - well-formed docstrings parse back to the structure written      *)
(*                                                                         *)
(* Source: _griffe/docstrings/sphinx.py (parse_sphinx, the seven field     *)
(* readers, _parse_directive, _consolidate_continuation_lines,             *)
(* _parsed_values_to_sections).                                            *)
(*                                                                         *)
(* Line classes:                                                           *)
(*   k = "blank" | "text" (ind 0, does not start with ":") |               *)
(*       "cont" (indented, so it does not start with ":" either) |         *)
(*       "other" (`:foo: x`: starts with ":" but no field type matches)    *)
(*       text / cont: sh = "colon" when the line contains a colon (it can  *)
(*       close the directive of a field line that lacks its own colon)     *)
(*   k = "field"  fk = reader selected by _field_types (first match wins): *)
(*                     type param vartype var raises returns rtype         *)
(*                sh = shape of the directive `:<directive>: value`        *)
(*                     bare  `:param: v`        one part                   *)
(*                     name  `:param x: v`      two parts                  *)
(*                     typed `:param int x: v`  three parts                *)
(*                     long  `:param a b c: v`  four parts                 *)
(*                     empty `:param : v`       two parts, the second ""   *)
(*                     open  `:param x v`       no closing colon: invalid  *)
(*                nm = the documented name ("x" | "y"; "-" when none)      *)
(* Offsets are 0-based as in the code (curr_line_index).  The parent is    *)
(* lazy (see DocGoogle.tla); warn_unknown_params decides no branch.        *)
(***************************************************************************)
EXTENDS Integers, Sequences, FiniteSets, TLC, Json

CONSTANTS MaxLen, Alpha, Mode, MaxSecs, Variety, Emit, EmitMod,
          LateTypeFix     \* TRUE: the code of /repo (since 0432afd); FALSE: the behaviour before that fix, kept as a model-only
                          \* regression domain (DocSphinx_oldlate.cfg) in which TLC must still find ParsesBack violated

VARIABLES lines, expect, sig, pcand, pc, offset, desc, params, ptypes, attrs, atypes, excs, ret, rtype, sections, crash
vars == <<lines, expect, sig, pcand, pc, offset, desc, params, ptypes, attrs, atypes, excs, ret, rtype, sections, crash>>
input == <<lines, expect, sig>>
parsed == <<desc, params, ptypes, attrs, atypes, excs, ret, rtype>>

\* aliasmod: a module in which every documented name is imported from a package that is not loaded (unresolvable alias)
Parents == {"none", "module", "class", "function", "init", "property", "tuplefn", "genfn", "aliasmod", "tupleprop", "tuple0fn", "gen1fn", "gen2fn", "iterfn",
            "detachedinit", "nsfunc"}      \* nsfunc: a function of a namespace package (filepath is a list) outside the cwd: warnings have no file prefix      \* detachedinit: a hand-built function named __init__ without any parent (not "__init__ in a class")
FieldKinds == {"type", "param", "vartype", "var", "raises", "returns", "rtype"}
Names == {"x", "y"}

Blank == [k |-> "blank", fk |-> "-", sh |-> "-", nm |-> "-"]
Text  == [k |-> "text", fk |-> "-", sh |-> "-", nm |-> "-"]
Cont  == [k |-> "cont", fk |-> "-", sh |-> "-", nm |-> "-"]
TextC == [k |-> "text", fk |-> "-", sh |-> "colon", nm |-> "-"]
ContC == [k |-> "cont", fk |-> "-", sh |-> "colon", nm |-> "-"]
\* indented continuation line that starts with an inline role, ":class:`Beta` that is used": its first non-blank character is a
\* colon, but the line itself does not start with one, so it does NOT end the field
ContR == [k |-> "cont", fk |-> "-", sh |-> "role", nm |-> "-"]
Other == [k |-> "other", fk |-> "-", sh |-> "-", nm |-> "-"]
Field(fk, sh, nm) == [k |-> "field", fk |-> fk, sh |-> sh, nm |-> nm]

Mini == {Blank, Text, Cont, Field("param", "name", "x"), Field("param", "typed", "x"), Field("type", "name", "x"),
         Field("var", "name", "x"), Field("var", "empty", "-"), Field("returns", "bare", "-"), Field("rtype", "bare", "-"), Field("raises", "name", "x")}
Core == Mini \cup {Other, TextC, ContC, ContR, Field("returns", "open", "x"), Field("param", "name", "y"), Field("param", "bare", "-"), Field("param", "empty", "-"), Field("param", "open", "x"),
                   Field("param", "long", "x"), Field("type", "bare", "-"), Field("vartype", "name", "x"), Field("raises", "bare", "-"), Field("returns", "name", "x")}
Rich == Core \cup {Field(fk, "open", "x") : fk \in FieldKinds} \cup {Field(fk, "empty", "-") : fk \in FieldKinds}
           \cup {Field("var", "name", "y"), Field("type", "name", "y"), Field("vartype", "name", "y"), Field("var", "typed", "x"), Field("rtype", "name", "x")}
Defect == {Text, Cont, Field("var", "empty", "-"), Field("var", "name", "x")}
Alphabet == CASE Alpha = "mini" -> Mini [] Alpha = "core" -> Core [] Alpha = "rich" -> Rich [] OTHER -> Defect

N == Len(lines)
L(i) == lines[i + 1]
InRange(i) == i >= 0 /\ i < N
StartsWithColon(ln) == ln.k \in {"field", "other"}         \* lines[i].startswith(":")
IsBlank(ln) == ln.k = "blank"
\* _parse_directive works on the CONSOLIDATED line: `_, directive, value = line.split(":", 2)`; directive.split(" ")
HasColon(ln) == ln.k \in {"field", "other"} \/ ln.sh \in {"colon", "role"}
\* fewer than three parts: the field line has no closing colon and no consolidated continuation line brings one
Invalid(ln, body) == ln.sh = "open" /\ \A j \in 1..Len(body) : ~HasColon(L(body[j]))
\* an "open" field closed by a later colon has the words up to that colon as extra directive parts: four or more
Parts(ln) == CASE ln.sh = "bare" -> 1 [] ln.sh \in {"name", "empty"} -> 2 [] ln.sh = "typed" -> 3 [] OTHER -> 4
NameOf(ln) == IF ln.sh = "empty" THEN "" ELSE ln.nm

\* ---- _consolidate_continuation_lines: the field line and every following line that does not start with ":" ----------
RECURSIVE ContLoop(_, _)
ContLoop(i, acc) == IF i < N /\ ~StartsWithColon(L(i)) THEN ContLoop(i + 1, Append(acc, i)) ELSE [body |-> acc, off |-> i - 1]
Consolidate(off) == IF ~InRange(off) THEN [body |-> <<>>, off |-> -2] ELSE ContLoop(off + 1, <<>>)     \* lines[offset] is read unguarded

RECURSIVE RStripBlank(_)
RStripBlank(s) == IF s = <<>> THEN s ELSE IF IsBlank(L(s[Len(s)])) THEN RStripBlank(SubSeq(s, 1, Len(s) - 1)) ELSE s
RECURSIVE LStripBlank(_)
LStripBlank(s) == IF s = <<>> THEN s ELSE IF IsBlank(L(s[1])) THEN LStripBlank(Tail(s)) ELSE s
SeqFromTo(a, b) == [j \in 1..(b - a + 1) |-> a + j - 1]

\* element: first = field line, body = consolidated continuation lines (value.strip() drops blank ends),
\* ann: "inline" type in the directive, "field" from a :type:/:vartype:/:rtype: line (tf = that line), "sig" parent, "none", "p" whatever the parent supplies
El(first, body, name, ann, tf, dflt) == [first |-> first, body |-> RStripBlank(body), name |-> name, ann |-> ann, tf |-> tf, dflt |-> dflt]
SigAnn(i) == IF Mode = "seq" THEN "none" ELSE IF sig[i + 1].ann THEN "sig" ELSE "none"
SigDef(i) == IF Mode = "seq" THEN "none" ELSE IF sig[i + 1].def THEN "sig" ELSE "none"
Find(seq, name) == LET S == {j \in 1..Len(seq) : seq[j].name = name} IN IF S = {} THEN 0 ELSE CHOOSE j \in S : TRUE
Has(seq, name) == Find(seq, name) # 0
\* dictionaries param_types / attribute_types: sequence of [name, tf], the last assignment wins
Lookup(d, name) == LET S == {j \in 1..Len(d) : d[j].name = name} IN IF S = {} THEN -1 ELSE d[CHOOSE j \in S : \A m \in S : m <= j].tf

SecRec(kind, tl, items) == [kind |-> kind, tl |-> tl, items |-> items]
Split(P, b) == IF b THEN pcand \cap P ELSE pcand \ P

\* =========================================== the case space ===========================================================
NoSig == [ann |-> FALSE, def |-> FALSE]
\* Docstring.value = inspect.cleandoc(source.rstrip()): first and last line non-blank, and the common indentation is removed, so
\* SOME non-blank line (possibly the first: a source that starts with a newline keeps the relative indentation of its first
\* paragraph) has no indentation.  ("Args:" followed only by indented lines is the most common docstring shape.)
CleandocFixedPoint(d) ==
  /\ ~IsBlank(d[1]) /\ ~IsBlank(d[Len(d)])
  /\ \E j \in 1..Len(d) : d[j].k \notin {"blank", "cont"}

\* ---- struct mode: summary, then fields ---------------------------------------------------------------------------
\* description shapes: one line; + an indented line; + a blank line and an indented line; + an indented line starting with a role
\* varieties: "full" everything; "thin" no blank-line shape; "slim" one shape (an indented line), no signature defaults, but every way
\* of writing a type x parent annotation (for three fields); "mini" the blank-line shape, nothing taken from the parent
Shapes == CASE Variety = "full" -> {"one", "two", "blank", "role"} [] Variety = "thin" -> {"one", "two", "role"} [] Variety = "slim" -> {"two"} [] OTHER -> {"blank"}
\* parameter: how its type is written: "inline" `:param int x:`, "field" a `:type x:` line after it, "before" a `:type x:` line
\* before it, "none" (then the signature may supply it)
SA == IF Variety = "mini" THEN {FALSE} ELSE BOOLEAN
ParamSpecs == {[name |-> n, ty |-> t, sann |-> sa, sdef |-> sd, shape |-> sh] :
                 n \in Names, t \in {"inline", "field", "before", "none"}, sa \in SA, sd \in (IF Variety = "slim" THEN {FALSE} ELSE SA), sh \in Shapes}
AttrSpecs == {[name |-> n, ty |-> t, sann |-> sa, sdef |-> FALSE, shape |-> sh] : n \in Names, t \in {"field", "before", "none"}, sa \in SA, sh \in Shapes}
RaiseSpecs == {[name |-> n, ty |-> "inline", sann |-> FALSE, sdef |-> FALSE, shape |-> sh] : n \in Names, sh \in Shapes}
RetSpecs == {[name |-> "-", ty |-> t, sann |-> sa, sdef |-> FALSE, shape |-> sh] : t \in {"field", "before", "none"}, sa \in SA, sh \in Shapes}
FieldSpecs == {[kind |-> "parameters", it |-> p] : p \in ParamSpecs} \cup {[kind |-> "attributes", it |-> a] : a \in AttrSpecs}
                \cup {[kind |-> "raises", it |-> r] : r \in RaiseSpecs} \cup {[kind |-> "returns", it |-> r] : r \in RetSpecs}
\* the structures are enumerated field by field in InitStruct (a set of all sequences would exceed TLC's set-size limit)
StructOK(st) ==
  /\ \A i, j \in 1..Len(st) : (i # j /\ st[i].kind = st[j].kind /\ st[i].kind \in {"parameters", "attributes"}) => st[i].it.name # st[j].it.name
  /\ Cardinality({j \in 1..Len(st) : st[j].kind = "returns"}) <= 1
  \* the documented object's signature may carry an annotation whether or not the docstring writes a type (sann is independent of
  \* ty, in every field order): a written type takes precedence.  One object: attribute annotations come from a class, a return
  \* annotation from a function
  /\ ~((\E j \in 1..Len(st) : st[j].kind = "attributes" /\ st[j].it.sann) /\ (\E j \in 1..Len(st) : st[j].kind = "returns" /\ st[j].it.sann))

DescCont(shape) == CASE shape = "one" -> <<>> [] shape = "two" -> <<Cont>> [] shape = "role" -> <<ContR>> [] OTHER -> <<Blank, Cont>>
TypeFieldOf(kind) == CASE kind = "parameters" -> "type" [] kind = "attributes" -> "vartype" [] OTHER -> "rtype"
MainFieldOf(kind) == CASE kind = "parameters" -> "param" [] kind = "attributes" -> "var" [] kind = "raises" -> "raises" [] OTHER -> "returns"
\* lines of one documented thing, with the 0-based index of its main field line
RenderField(f, base) ==
  LET it == f.it
      nm == it.name
      tfl == IF f.kind = "returns" THEN Field("rtype", "bare", "-") ELSE Field(TypeFieldOf(f.kind), "name", nm)
      main == CASE f.kind = "returns" -> Field("returns", "bare", "-")
                [] it.ty = "inline" /\ f.kind = "parameters" -> Field("param", "typed", nm)
                [] OTHER -> Field(MainFieldOf(f.kind), "name", nm)
      dl == DescCont(it.shape)
      pre == IF it.ty = "before" THEN <<tfl>> ELSE <<>>
      post == IF it.ty = "field" THEN <<tfl>> ELSE <<>>
      first == base + Len(pre)
      ann == CASE f.kind = "raises" -> "inline" [] it.ty = "inline" -> "inline" [] it.ty \in {"field", "before"} -> "field"
               [] OTHER -> IF it.sann THEN "sig" ELSE "none"
      tf == IF it.ty = "before" THEN base ELSE IF it.ty = "field" THEN first + Len(dl) + 1 ELSE -1
  IN [lines |-> pre \o <<main>> \o dl \o post,
      sig |-> [j \in 1..Len(pre) |-> NoSig] \o <<[ann |-> it.sann, def |-> it.sdef]>> \o [j \in 1..(Len(dl) + Len(post)) |-> NoSig],
      el |-> [first |-> first, body |-> SeqFromTo(first + 1, first + Len(dl)), name |-> IF f.kind \in {"returns"} THEN "" ELSE nm, ann |-> ann, tf |-> tf,
              dflt |-> IF f.kind = "parameters" /\ it.sdef THEN "sig" ELSE "none"],
      kind |-> f.kind]
RECURSIVE RenderAll(_, _)
RenderAll(st, acc) ==
  IF st = <<>> THEN acc
  ELSE LET r == RenderField(Head(st), Len(acc.lines)) IN
       RenderAll(Tail(st), [lines |-> acc.lines \o r.lines, sig |-> acc.sig \o r.sig, els |-> Append(acc.els, [kind |-> r.kind, el |-> r.el])])
ElsOf(els, kind) == LET idx == {j \in 1..Len(els) : els[j].kind = kind} IN
                    [m \in 1..Cardinality(idx) |-> els[CHOOSE j \in idx : Cardinality({i \in idx : i < j}) = m - 1].el]
\* ---- layouts: where the type fields stand -------------------------------------------------------------------------
\* "adjacent": every `:type x:` / `:vartype x:` / `:rtype:` line next to its field (before or after it, per item: RenderField);
\* "types-last" / "types-first": all description fields together and all type fields together, after / before them - the fields of
\* different things interleave (a parameter and an attribute may have the same name: their type fields must not be confused)
TypedByField(f) == f.kind # "raises" /\ f.it.ty \in {"field", "before"}
MainLine(f) == CASE f.kind = "returns" -> Field("returns", "bare", "-")
                 [] f.it.ty = "inline" /\ f.kind = "parameters" -> Field("param", "typed", f.it.name)
                 [] OTHER -> Field(MainFieldOf(f.kind), "name", f.it.name)
TypeLine(f) == IF f.kind = "returns" THEN Field("rtype", "bare", "-") ELSE Field(TypeFieldOf(f.kind), "name", f.it.name)
RECURSIVE MainLen(_)
MainLen(st) == IF st = <<>> THEN 0 ELSE 1 + Len(DescCont(Head(st).it.shape)) + MainLen(Tail(st))
NTyped(st) == Cardinality({j \in 1..Len(st) : TypedByField(st[j])})
RECURSIVE RenderSplit(_, _, _, _, _)
RenderSplit(st, base, tbase, tcount, acc) ==      \* description fields from line `base` on, the k-th type field on line tbase + k
  IF st = <<>> THEN acc
  ELSE LET f == Head(st) it == f.it dl == DescCont(it.shape) typed == TypedByField(f)
           ann == CASE f.kind = "raises" -> "inline" [] it.ty = "inline" -> "inline" [] typed -> "field" [] OTHER -> IF it.sann THEN "sig" ELSE "none"
           el == [first |-> base, body |-> SeqFromTo(base + 1, base + Len(dl)), name |-> IF f.kind = "returns" THEN "" ELSE it.name, ann |-> ann,
                  tf |-> IF typed THEN tbase + tcount ELSE -1, dflt |-> IF f.kind = "parameters" /\ it.sdef THEN "sig" ELSE "none"]
       IN RenderSplit(Tail(st), base + 1 + Len(dl), tbase, tcount + (IF typed THEN 1 ELSE 0),
                      [mains |-> acc.mains \o <<MainLine(f)>> \o dl,
                       msig |-> acc.msig \o <<[ann |-> it.sann, def |-> it.sdef]>> \o [j \in 1..Len(dl) |-> NoSig],
                       types |-> IF typed THEN Append(acc.types, TypeLine(f)) ELSE acc.types,
                       els |-> Append(acc.els, [kind |-> f.kind, el |-> el])])
RenderLaidOut(st, layout) ==
  LET last == layout = "types-last"
      nt == NTyped(st)
      r == RenderSplit(st, IF last THEN 2 ELSE 2 + nt, IF last THEN 2 + MainLen(st) ELSE 2, 0, [mains |-> <<>>, msig |-> <<>>, types |-> <<>>, els |-> <<>>])
      tsig == [j \in 1..nt |-> NoSig]
  IN [lines |-> <<Text, Blank>> \o (IF last THEN r.mains \o r.types ELSE r.types \o r.mains),
      sig |-> <<NoSig, NoSig>> \o (IF last THEN r.msig \o tsig ELSE tsig \o r.msig), els |-> r.els]
\* a split layout only differs from the adjacent one when at least two things have a type field; "before" / "field" then only say
\* that the type is written in a type field (normalised to one of them per layout)
LayoutOK(st, layout) ==
  layout = "adjacent" \/ (/\ NTyped(st) >= 2
                          /\ \A j \in 1..Len(st) : st[j].it.ty # (IF layout = "types-last" THEN "before" ELSE "field"))
RenderLines(st, layout) ==
  LET r == IF layout = "adjacent" THEN RenderAll(st, [lines |-> <<Text, Blank>>, sig |-> <<NoSig, NoSig>>, els |-> <<>>]) ELSE RenderLaidOut(st, layout)
      sec(kind) == IF ElsOf(r.els, kind) = <<>> THEN <<>> ELSE <<SecRec(kind, <<>>, ElsOf(r.els, kind))>>
  IN [lines |-> r.lines, sig |-> r.sig,
      expect |-> <<SecRec("text", <<0>>, <<>>)>> \o sec("parameters") \o sec("attributes") \o sec("returns") \o sec("raises")]

\* every cleandoc-stable sequence of 1..MaxLen classes (enumerated piecewise: first line, middle, last line), + the empty docstring
SeqLines ==
  \/ lines = <<Blank>>
  \/ \E n \in 1..MaxLen : \E a \in {x \in Alphabet : ~IsBlank(x)} :
       IF n = 1 THEN lines = <<a>> /\ CleandocFixedPoint(lines)
       ELSE \E z \in {x \in Alphabet : ~IsBlank(x)}, m \in [1..(n - 2) -> Alphabet] :
              lines = <<a>> \o m \o <<z>> /\ CleandocFixedPoint(lines)
InitSeq ==
  /\ SeqLines
  /\ sig = [j \in 1..Len(lines) |-> NoSig] /\ expect = <<>> /\ pcand = Parents
StructFrom(st, layout) ==
  /\ StructOK(st) /\ LayoutOK(st, layout)
  /\ LET r == RenderLines(st, layout) IN lines = r.lines /\ sig = r.sig /\ expect = r.expect
  /\ pcand = {"function"}
InitStruct ==
  \E n \in 1..MaxSecs, layout \in {"adjacent", "types-last", "types-first"} : \E f1 \in FieldSpecs :
    IF n = 1 THEN StructFrom(<<f1>>, layout)
    ELSE \E f2 \in FieldSpecs :
      IF n = 2 THEN StructFrom(<<f1, f2>>, layout)
      ELSE \E f3 \in FieldSpecs :
        IF n = 3 THEN StructFrom(<<f1, f2, f3>>, layout)
        ELSE \E f4 \in FieldSpecs : n = 4 /\ StructFrom(<<f1, f2, f3, f4>>, layout)
Init ==
  /\ IF Mode = "seq" THEN InitSeq ELSE InitStruct
  /\ pc = "main" /\ offset = 0 /\ desc = <<>> /\ params = <<>> /\ ptypes = <<>> /\ attrs = <<>> /\ atypes = <<>> /\ excs = <<>>
  /\ ret = <<>> /\ rtype = -1 /\ sections = <<>> /\ crash = [exc |-> "", at |-> ""]

\* =========================================== parse_sphinx ===============================================================
IsField(ln) == ln.k = "field"
\* no field type matches: parsed_values.description.append(line)
MainIter ==
  /\ pc = "main" /\ offset < N /\ ~IsField(L(offset))
  /\ desc' = Append(desc, offset) /\ offset' = offset + 1
  /\ UNCHANGED <<input, pcand, pc, params, ptypes, attrs, atypes, excs, ret, rtype, sections, crash>>

\* every reader starts with _parse_directive and ends with `return parsed_directive.next_index`; the loop adds 1
Skip(c) == /\ offset' = c.off + 1 /\ UNCHANGED <<pc, crash, sections>>

ReadParameter ==         \* _read_parameter
  /\ pc = "main" /\ offset < N /\ IsField(L(offset)) /\ L(offset).fk = "param"
  /\ LET ln == L(offset) c == Consolidate(offset) name == NameOf(ln) IN
     /\ Skip(c)
     /\ IF Invalid(ln, c.body) \/ Parts(ln) \notin {2, 3} \/ Has(params, name) THEN UNCHANGED params
        ELSE LET tf == Lookup(ptypes, name)
                 ann == IF Parts(ln) = 3 THEN "inline" ELSE IF tf # -1 THEN "field" ELSE SigAnn(offset)
             IN params' = Append(params, El(offset, c.body, name, ann, IF ann = "field" THEN tf ELSE -1, SigDef(offset)))
  /\ UNCHANGED <<input, pcand, desc, ptypes, attrs, atypes, excs, ret, rtype>>

ReadParameterType ==     \* _read_parameter_type
  /\ pc = "main" /\ offset < N /\ IsField(L(offset)) /\ L(offset).fk = "type"
  /\ LET ln == L(offset) c == Consolidate(offset) name == NameOf(ln) IN
     /\ Skip(c)
     /\ IF Invalid(ln, c.body) \/ Parts(ln) # 2 THEN UNCHANGED <<ptypes, params>>
        ELSE /\ ptypes' = Append(ptypes, [name |-> name, tf |-> offset])
             /\ LET j == Find(params, name) IN
                \* `param.annotation is None or "param:<name>" in annotated_from_parent`: the annotation is "sig" exactly while the
                \* name is in annotated_from_parent (added when the signature supplied it, discarded when a type field overrides it)
                params' = IF j # 0 /\ (params[j].ann = "none" \/ (LateTypeFix /\ params[j].ann = "sig")) THEN [params EXCEPT ![j].ann = "field", ![j].tf = offset] ELSE params
  /\ UNCHANGED <<input, pcand, desc, attrs, atypes, excs, ret, rtype>>

\* _read_attribute: docstring.parent[name].annotation under suppress(AttributeError, KeyError, TypeError, ValueError,
\* AliasResolutionError, CyclicAliasError): the look-up never raises
ReadAttribute ==
  /\ pc = "main" /\ offset < N /\ IsField(L(offset)) /\ L(offset).fk = "var"
  /\ LET ln == L(offset) c == Consolidate(offset) name == NameOf(ln) IN
     /\ Skip(c)
     /\ IF Invalid(ln, c.body) \/ Parts(ln) # 2 \/ Has(attrs, name) THEN UNCHANGED attrs
        ELSE LET tf == Lookup(atypes, name) IN
             attrs' = Append(attrs, El(offset, c.body, name, IF tf # -1 THEN "field" ELSE SigAnn(offset), tf, "none"))
  /\ UNCHANGED <<input, pcand, desc, params, ptypes, atypes, excs, ret, rtype>>

ReadAttributeType ==     \* _read_attribute_type
  /\ pc = "main" /\ offset < N /\ IsField(L(offset)) /\ L(offset).fk = "vartype"
  /\ LET ln == L(offset) c == Consolidate(offset) name == NameOf(ln) IN
     /\ Skip(c)
     /\ IF Invalid(ln, c.body) \/ Parts(ln) # 2 THEN UNCHANGED <<atypes, attrs>>
        ELSE /\ atypes' = Append(atypes, [name |-> name, tf |-> offset])
             /\ LET j == Find(attrs, name) IN
                attrs' = IF j # 0 /\ (attrs[j].ann = "none" \/ (LateTypeFix /\ attrs[j].ann = "sig")) THEN [attrs EXCEPT ![j].ann = "field", ![j].tf = offset] ELSE attrs
  /\ UNCHANGED <<input, pcand, desc, params, ptypes, excs, ret, rtype>>

ReadException ==         \* _read_exception
  /\ pc = "main" /\ offset < N /\ IsField(L(offset)) /\ L(offset).fk = "raises"
  /\ LET ln == L(offset) c == Consolidate(offset) IN
     /\ Skip(c)
     /\ excs' = IF Invalid(ln, c.body) \/ Parts(ln) # 2 THEN excs ELSE Append(excs, El(offset, c.body, NameOf(ln), "inline", -1, "none"))
  /\ UNCHANGED <<input, pcand, desc, params, ptypes, attrs, atypes, ret, rtype>>

ReadReturn ==            \* _read_return: the last :returns: wins; annotation = rtype seen so far, else the parent's
  /\ pc = "main" /\ offset < N /\ IsField(L(offset)) /\ L(offset).fk = "returns"
  /\ LET ln == L(offset) c == Consolidate(offset) IN
     /\ Skip(c)
     /\ ret' = IF Invalid(ln, c.body) THEN ret
               ELSE <<El(offset, c.body, "", IF rtype # -1 THEN "field" ELSE IF Mode = "seq" THEN "p" ELSE SigAnn(offset), rtype, "none")>>
  /\ UNCHANGED <<input, pcand, desc, params, ptypes, attrs, atypes, excs, rtype>>

ReadReturnType ==        \* _read_return_type
  /\ pc = "main" /\ offset < N /\ IsField(L(offset)) /\ L(offset).fk = "rtype"
  /\ LET ln == L(offset) c == Consolidate(offset) IN
     /\ Skip(c)
     /\ IF Invalid(ln, c.body) THEN UNCHANGED <<rtype, ret>>
        ELSE /\ rtype' = offset
             /\ ret' = IF ret # <<>> THEN <<[ret[1] EXCEPT !.ann = "field", !.tf = offset]>> ELSE ret
  /\ UNCHANGED <<input, pcand, desc, params, ptypes, attrs, atypes, excs>>

\* _parsed_values_to_sections: the text section always, then parameters, attributes, returns, raises when present
Finish ==
  /\ pc = "main" /\ offset >= N
  /\ sections' = <<SecRec("text", RStripBlank(LStripBlank(desc)), <<>>)>>
                   \o (IF params # <<>> THEN <<SecRec("parameters", <<>>, params)>> ELSE <<>>)
                   \o (IF attrs # <<>> THEN <<SecRec("attributes", <<>>, attrs)>> ELSE <<>>)
                   \o (IF ret # <<>> THEN <<SecRec("returns", <<>>, ret)>> ELSE <<>>)
                   \o (IF excs # <<>> THEN <<SecRec("raises", <<>>, excs)>> ELSE <<>>)
  /\ pc' = "done"
  /\ UNCHANGED <<input, pcand, offset, parsed, crash>>

Next == MainIter \/ ReadParameter \/ ReadParameterType \/ ReadAttribute \/ ReadAttributeType \/ ReadException \/ ReadReturn
          \/ ReadReturnType \/ Finish
Spec == Init /\ [][Next]_vars

\* =========================================== properties ==================================================================
Done == pc = "done"
Crashed == pc = "crashed"
Final == Done \/ Crashed
NoCrash == ~Crashed           \* no crash transition is left in this transcription ("defect" alphabet = regression domain)
NoCrashBeyondKnown == NoCrash
Progress == [][(pc = "main" /\ pc' = "main") => offset' > offset]_vars
OffsetBounded == offset <= N
Unmodified == [][UNCHANGED input /\ pcand' \subseteq pcand /\ pcand' # {}]_vars
ElLines(e) == {e.first} \cup {e.body[m] : m \in 1..Len(e.body)}
SecLines(s) == {s.tl[j] : j \in 1..Len(s.tl)} \cup UNION {ElLines(s.items[j]) : j \in 1..Len(s.items)}
WellFormed ==
  Done => /\ sections[1].kind = "text"
          /\ \A j \in 1..Len(sections) : LET s == sections[j] IN
               /\ s.kind \in {"text", "parameters", "attributes", "returns", "raises"}
               /\ (s.kind # "text") => (s.items # <<>> /\ s.tl = <<>>)
               /\ SecLines(s) \subseteq 0..N - 1
               /\ \A m \in 1..Len(sections) : m # j => SecLines(s) \cap SecLines(sections[m]) = {}
          /\ \A j, m \in 1..Len(sections) : j # m => sections[j].kind # sections[m].kind
NoSyntax == \A j \in 1..N : lines[j].k # "field"
PlainText == (Done /\ NoSyntax) => sections = <<SecRec("text", RStripBlank(SeqFromTo(0, N - 1)), <<>>)>>

\* C13: per kind, the documented things with their names, type sources and description lines
ParsesBack == (Mode = "struct" /\ Final) => (Done /\ sections = expect)
\* (fixed in /repo, 0432afd: a type field written AFTER its field used to lose to the signature annotation; with LateTypeFix = FALSE
\* the machine still behaves that way and ParsesBack fails - DocSphinx_oldlate.cfg)

\* every state is checked against the invariants; the replay harness gets the final states whose checksum is 0 mod EmitMod
LineCode(ln) == (CASE ln.k = "blank" -> 1 [] ln.k = "text" -> 2 [] ln.k = "cont" -> 3 [] ln.k = "other" -> 5 [] OTHER -> 7)
                 + (CASE ln.fk \in {"param", "-"} -> 0 [] ln.fk \in {"type", "var"} -> 17 [] ln.fk = "returns" -> 19 [] OTHER -> 23)
                 + (CASE ln.sh \in {"name", "-"} -> 0 [] ln.sh = "empty" -> 29 [] OTHER -> 31)
RECURSIVE Checksum(_, _)
Checksum(j, acc) == IF j > Len(lines) THEN acc ELSE Checksum(j + 1, (acc * 31 + j * LineCode(lines[j])) % 1000003)
EmitCase ==
  (Emit /\ Final /\ (EmitMod = 1 \/ Checksum(1, Len(lines)) % EmitMod = 0)) =>
     IF Mode = "seq"
       THEN PrintT(<<"CASE", ToJson([lines |-> lines, opts |-> [warn_unknown_params |-> "U"], pcand |-> pcand, excl |-> {}, outcome |-> pc,
                                     crash |-> crash, sections |-> sections])>>)
       ELSE PrintT(<<"CASE", ToJson([lines |-> lines, opts |-> [warn_unknown_params |-> "U"], pcand |-> pcand, excl |-> {}, outcome |-> pc,
                                     crash |-> crash, sections |-> sections, expect |-> expect, sig |-> sig])>>)
=============================================================================
