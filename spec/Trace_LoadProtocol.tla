------------------------- MODULE Trace_LoadProtocol -------------------------
(***************************************************************************)
(* Trace validation for C15: every event trace recorded from the real      *)
(* griffe.load (gverif/props/c15_child.py: method wrappers on the loader,  *)
(* the finder and the importer + sys.addaudithook for the execution of     *)
(* module bodies) must be a behaviour of LoadProtocol.                     *)
(*                                                                         *)
(* The batch is an ndjson file (path in env C15_TRACE_FILE), one line per  *)
(* case: {tid, cfg, events: [{ev, args...}, ...]}.  Init picks a trace and *)
(* takes its cfg as the case; TraceStep is LoadProtocol!Step (all of the   *)
(* spec's own actions, unchanged) constrained to publish exactly the next  *)
(* logged event - arguments and logged scalars included (agent chosen,     *)
(* restored / path_ok flags, exception classes).  A trace is accepted when *)
(* it is consumed to its last line with pc = "Done"; a state from which    *)
(* the next logged event is not enabled prints a reject verdict with the   *)
(* position, the spec state and the offending event.  The property         *)
(* invariants of LoadProtocol are evaluated on every state of every trace. *)
(***************************************************************************)
EXTENDS LoadProtocol, IOUtils, TLCExt

VARIABLES tid, i

Traces == ndJsonDeserialize(IOEnv.C15_TRACE_FILE)
Events == Traces[tid].events

tvars == <<vars, tid, i>>

TraceInit ==
  /\ tid \in 1..Len(Traces)
  /\ i = 0
  /\ cfg = Traces[tid].cfg
  /\ InitRun

IsEvent == i < Len(Events) /\ lastev' = Events[i + 1]

TraceStep ==
  /\ i < Len(Events)
  /\ Step
  /\ lastev' = Events[i + 1]
  /\ i' = i + 1
  /\ UNCHANGED tid

Verdict(v) ==
  PrintT(<<"CASE", ToJson([tid |-> Traces[tid].tid, verdict |-> v, at |-> i, len |-> Len(Events), pc |-> pc, cur |-> cur,
                           next |-> IF i < Len(Events) THEN Events[i + 1] ELSE [ev |-> "-"]])>>)

\* the next logged event is not a step of the specification from here (or the log ends early / goes on after the end)
Stuck ==
  /\ ~(pc = "Done" /\ i = Len(Events))
  /\ ~ENABLED TraceStep
  /\ Verdict("reject")
  /\ UNCHANGED tvars

TraceNext == TraceStep \/ Stuck
TraceSpec == TraceInit /\ [][TraceNext]_tvars

Accepted == (pc = "Done" /\ i = Len(Events)) => Verdict("accept")
=============================================================================
