------------------------------ MODULE FuncSeq ------------------------------
(***************************************************************************)
(* C02 (second clause) - overloads attach to their implementation in       *)
(* order; property setters/deleters attach to their property without       *)
(* replacing it.                                                           *)
(*                                                                         *)
(* Shape P: the visitor walks a scope (module or class body) that holds a  *)
(* sequence of `def`s; one action per outcome of                           *)
(* _griffe.agents.visitor.Visitor.handle_function:                         *)
(*   MakeProperty  - "property" label -> an Attribute member replaces      *)
(*   StashOverload - typing.overload  -> appended to scope.overloads[name] *)
(*   AttachAccessor- @name.setter/.deleter on an existing property member  *)
(*   PlaceFunction - set_member + adoption of the stashed overloads        *)
(* The reference (operator Ref) is declarative: what typing/CPython mean by the    *)
(* same sequence.                                                          *)
(***************************************************************************)
EXTENDS Naturals, Sequences, FiniteSets, TLC, Json

CONSTANTS MaxLen, Names, Emit,
          UseRoles, UseDecos,  \* sub-vocabulary of this run (the full vocabulary is Roles x Decos below)
          UseAsync             \* subset of BOOLEAN: may a definition be `async def`?  No action reads the flag
                               \* (visit_asyncfunctiondef delegates to handle_function with a FRESH label set,
                               \* so nothing may leak from one coroutine to the next): replay dimension, like deco

Roles == {"plain", "overload", "property", "setter", "deleter"}
\* Every definition may carry one more, unrelated pass-through decorator, above or below the one that
\* gives it its role.  handle_function / get_base_property / decorators_to_labels loop over ALL
\* decorators (`overload |= ...`, `for decorator in decorators`), so no action below reads `deco`:
\* the dimension exists so that the replay exercises those loops on the real code.
Decos == {"none", "above", "below"}
NoMember == [kind |-> "none", id |-> 0, overloads |-> <<>>, setter |-> 0, deleter |-> 0]

VARIABLES prog,      \* the program: sequence of [name, role]
          scope,     \* "module" | "class"
          cursor,    \* index of the next definition to visit
          members,   \* Names -> member record (the scope's members dict, projected)
          stash,     \* Names -> Seq(def index)   (scope.overloads)
          outcome    \* "ok" | "KeyError"  (get_member on a missing name in get_base_property)
vars == <<prog, scope, cursor, members, stash, outcome>>

\* ---- well-formedness: what CPython/typing accept at run time ------------------------------------
\* binding of name n after executing defs 1..k (CPython: every def rebinds the name, including
\* overloads and accessors - an accessor returns a new property object under the same name)
BoundKind(p, n, k) ==
  LET idx == {i \in 1..k : p[i].name = n}
  IN IF idx = {} THEN "none"
     ELSE LET last == CHOOSE i \in idx : \A j \in idx : j <= i
          IN  IF p[last].role \in {"property", "setter", "deleter"} THEN "property"
              ELSE IF p[last].role = "overload" THEN "overloadstub" ELSE "function"

\* an accessor is executable only when the name is bound to a property at that point
Executable(p) == \A i \in 1..Len(p) :
   p[i].role \in {"setter", "deleter"} => BoundKind(p, p[i].name, i - 1) = "property"

\* typing: an overload series must be followed by its implementation, nothing of the same name in
\* between, and a name has at most one overload series (otherwise typing.get_overloads accumulates
\* and "the" implementation is ambiguous)
OverloadsWellFormed(p) ==
  \A n \in Names :
    LET ov == {i \in 1..Len(p) : p[i].name = n /\ p[i].role = "overload"}
    IN ov # {} =>
        LET lo == CHOOSE i \in ov : \A j \in ov : i <= j
            hi == CHOOSE i \in ov : \A j \in ov : j <= i
            same == {i \in 1..Len(p) : p[i].name = n}
        IN /\ \A i \in same : (lo <= i /\ i <= hi) => i \in ov
           \* exactly one later definition of the name: the implementation (a re-definition after it
           \* makes "the implementation" ambiguous: typing.get_overloads goes by qualified name)
           /\ \E i \in same : i > hi /\ p[i].role = "plain" /\ \A j \in same : j > hi => j = i

WellFormed(p) == Executable(p) /\ OverloadsWellFormed(p)

\* ---- reference ----------------------------------------------------------------------------------
RefMember(p, n) ==
  LET idx == {i \in 1..Len(p) : p[i].name = n}
  IN IF idx = {} THEN NoMember
     ELSE
      LET last == CHOOSE i \in idx : \A j \in idx : j <= i
          \* the definition that created the object the name is finally bound to
          base == IF p[last].role \in {"setter", "deleter"}
                    THEN CHOOSE i \in idx : /\ p[i].role = "property"
                                            /\ \A j \in idx : (j > i /\ j <= last) => p[j].role \in {"setter", "deleter"}
                    ELSE last
          acc(r) == {i \in idx : i > base /\ p[i].role = r}
          lastOf(S) == IF S = {} THEN 0 ELSE CHOOSE i \in S : \A j \in S : j <= i
      IN IF p[base].role = "property"
           THEN [kind |-> "attribute", id |-> base, overloads |-> <<>>,
                 setter |-> lastOf(acc("setter")), deleter |-> lastOf(acc("deleter"))]
           ELSE [kind |-> "function", id |-> base,
                 \* the overload series attaches to ITS implementation: the first definition of the
                 \* name after the series; a later re-definition is a new object without overloads
                 overloads |-> LET ov == {i \in idx : i < base /\ p[i].role = "overload"
                                                       /\ \A j \in idx : (i < j /\ j < base) => p[j].role = "overload"}
                               IN  \* ascending order = source order
                                   [k \in 1..Cardinality(ov) |->
                                      CHOOSE i \in ov : Cardinality({j \in ov : j < i}) = k - 1],
                 setter |-> 0, deleter |-> 0]

Ref == IF WellFormed(prog) THEN [n \in Names |-> RefMember(prog, n)] ELSE [n \in Names |-> NoMember]

\* ---- the visitor --------------------------------------------------------------------------------
Cur == prog[cursor]
HasProperty(n) == members[n].kind = "attribute"    \* only properties become attributes here

MakeProperty ==
  /\ Cur.role = "property"
  /\ members' = [members EXCEPT ![Cur.name] =
                   [kind |-> "attribute", id |-> cursor, overloads |-> <<>>, setter |-> 0, deleter |-> 0]]
  /\ UNCHANGED <<stash, outcome>>

StashOverload ==
  /\ Cur.role = "overload"
  /\ stash' = [stash EXCEPT ![Cur.name] = Append(@, cursor)]
  /\ UNCHANGED <<members, outcome>>

\* get_base_property compares the decorator's resolved path `<path>.setter` with function.path; when
\* the name is not yet a member of the scope the decorator name does not resolve to the scope's
\* path, the conjunction short-circuits before get_member (no KeyError), and the definition is
\* handled as a plain function (see PlaceFunction).  `outcome` stays in the model for the harness:
\* any exception of the real visitor on an executable program is a violation of Total.
AccessorOnMissing == FALSE

AttachAccessor ==
  /\ Cur.role \in {"setter", "deleter"}
  /\ HasProperty(Cur.name)
  /\ members' = [members EXCEPT ![Cur.name] =
                   IF Cur.role = "setter" THEN [@ EXCEPT !.setter = cursor] ELSE [@ EXCEPT !.deleter = cursor]]
  /\ UNCHANGED <<stash, outcome>>

PlaceFunction ==
  /\ \/ Cur.role = "plain"
     \/ (Cur.role \in {"setter", "deleter"} /\ ~HasProperty(Cur.name))  \* no property of that name: plain path
  /\ members' = [members EXCEPT ![Cur.name] =
                   [kind |-> "function", id |-> cursor, overloads |-> stash[Cur.name], setter |-> 0, deleter |-> 0]]
  /\ stash' = [stash EXCEPT ![Cur.name] = <<>>]
  /\ UNCHANGED outcome

Visit ==
  /\ cursor <= Len(prog) /\ outcome = "ok"
  /\ (MakeProperty \/ StashOverload \/ AccessorOnMissing \/ AttachAccessor \/ PlaceFunction)
  /\ cursor' = cursor + 1
  /\ UNCHANGED <<prog, scope>>

ASSUME UseRoles \subseteq Roles /\ UseDecos \subseteq Decos /\ UseAsync \subseteq BOOLEAN
Defs == {d \in [name : Names, role : UseRoles, deco : UseDecos, isasync : UseAsync] : d.role = "plain" => d.deco # "below"}
Progs == UNION {[1..n -> Defs] : n \in 1..MaxLen}

Init ==
  /\ prog \in Progs
  /\ scope \in {"module", "class"}
  /\ cursor = 1
  /\ members = [n \in Names |-> NoMember]
  /\ stash = [n \in Names |-> <<>>]
  /\ outcome = "ok"

Next == Visit
Spec == Init /\ [][Next]_vars

\* ---- properties ---------------------------------------------------------------------------------
Done == cursor = Len(prog) + 1 \/ outcome # "ok"

\* C02: on well-formed programs the final members are the reference's
OverloadsAndAccessors == (Done /\ WellFormed(prog)) => (outcome = "ok" /\ members = Ref)
\* never a crash on executable programs
Total == Executable(prog) => outcome = "ok"
\* a setter/deleter never replaces the property member (action property)
AccessorKeepsProperty ==
  [][(cursor <= Len(prog) /\ Cur.role \in {"setter", "deleter"} /\ HasProperty(Cur.name))
        => (members'[Cur.name].id = members[Cur.name].id /\ members'[Cur.name].kind = "attribute")]_vars
\* the stash of a name is emptied exactly by placing an implementation of that name
StashOnlyShrinksOnPlace ==
  [][\A n \in Names : Len(stash'[n]) < Len(stash[n]) => (Cur.name = n /\ members'[n].kind = "function" /\ members'[n].id = cursor)]_vars

EmitCase ==
  (Emit /\ Done) => PrintT(<<"CASE", ToJson([prog |-> prog, scope |-> scope, wf |-> WellFormed(prog),
                                             exe |-> Executable(prog), outcome |-> outcome,
                                             impl |-> members, ref |-> Ref, stash |-> stash])>>)
=============================================================================
