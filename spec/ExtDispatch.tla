----------------------------- MODULE ExtDispatch -----------------------------
(***************************************************************************)
(* X01 - the container side: Extensions( *exts), Extensions.add,            *)
(* Extensions.call, and how load_extensions( *specs) composes several       *)
(* specifications (argument order, built-in dataclasses extension).        *)
(*                                                                         *)
(* Shape P (state machine, histories).  A behaviour is: create a container *)
(* (New), then Add / Call operations.  Extensions.call is transcribed as   *)
(* its loop (CallStep: one registration per step); RefCall is the          *)
(* declarative dispatch contract.  Every complete history is printed and   *)
(* replayed on the real classes by gverif/props/x01.py.                    *)
(*                                                                         *)
(* Which events the agents and the loader fire, and in which order, is the *)
(* business of EventProtocol.tla / LoadProtocol.tla (C01, C15): here the   *)
(* event is an opaque name and the contract is about WHO receives it.      *)
(***************************************************************************)
EXTENDS Naturals, Sequences, FiniteSets, TLC, Json

CONSTANTS MaxOps,       \* operations after New
          MaxNew,       \* max number of arguments of Extensions(...) / load_extensions(...)
          MaxAdd,       \* max number of arguments of add(...)
          LoadSpecs,    \* palette of specifications for load_extensions
          Emit

\* ---- the extension instances of the world --------------------------------------------------------
\* a: overrides on_node, on_instance, on_package_loaded     b: on_instance, on_package_loaded
\* x: on_instance and raises there                            p: plain subclass, overrides nothing
\* c: instance made from the class of a ("cls" spec)          m1, m2: the two classes of a module ("mod" spec)
\* DC: built-in DataclassesExtension made by load_extensions   dcinst: DataclassesExtension() given by the user
\* dcsub: instance of a user subclass of DataclassesExtension (not *exactly* the built-in type)
Insts == {"a", "b", "x", "p"}
Events == {"on_node", "on_instance", "on_members", "on_package_loaded"}
Overrides(e) ==
  CASE e \in {"a", "c"} -> {"on_node", "on_instance", "on_package_loaded"}
    [] e \in {"b", "m1", "m2"} -> {"on_instance", "on_package_loaded"}
    [] e = "x" -> {"on_instance"}
    [] OTHER -> {}          \* p; the dataclasses extensions are observed through their effect only
Raises(e, ev) == e = "x" /\ ev = "on_instance"
DCLike(e) == e \in {"DC", "dcinst", "dcsub"}
ExactDC(e) == e \in {"DC", "dcinst"}

SpecResult(s) ==
  CASE s = "inst:a" -> <<"a">> [] s = "inst:b" -> <<"b">> [] s = "inst:x" -> <<"x">> [] s = "cls" -> <<"c">>
    [] s = "mod" -> <<"m1", "m2">> [] s = "dc" -> <<"DC">> [] s = "dcinst" -> <<"dcinst">>
    [] s = "dcsub" -> <<"dcsub">> [] OTHER -> <<>>      \* "bad": never used, the call fails

VARIABLES phase,    \* "none" (no container yet) | "live" | "failed" (load_extensions raised)
          reg,      \* the registrations, in order (sequence of instance ids)
          hist,     \* operations with their observable results
          cur       \* the Extensions.call in progress: [ev, kw, i, log, status] (i = 0: idle)
vars == <<phase, reg, hist, cur>>

Idle == [ev |-> "-", kw |-> "-", i |-> 0, log |-> <<>>, status |-> "-"]
SeqsUpTo(S, n) == UNION {[1..k -> S] : k \in 0..n}
RECURSIVE Flatten(_)
Flatten(ss) == IF ss = <<>> THEN <<>> ELSE Head(ss) \o Flatten(Tail(ss))

\* ---- reference -----------------------------------------------------------------------------------
\* C1 argument order; C2 all-or-nothing; C3 the built-in dataclasses extension exactly once, last unless given
Failed(specs) == \E i \in 1..Len(specs) : specs[i] = "bad"
RefLoad(specs) ==
  LET r == Flatten([i \in 1..Len(specs) |-> SpecResult(specs[i])])
  IN IF \E i \in 1..Len(r) : ExactDC(r[i]) THEN r ELSE r \o <<"DC">>

\* D1-D5: every registration whose class overrides the hook receives the event once, in registration order, with
\* the keyword arguments of the call; the first raising hook ends the dispatch and its exception leaves call()
Receivers(r, ev) == {i \in 1..Len(r) : ev \in Overrides(r[i])}
FirstRaiser(r, ev) ==
  LET rs == {i \in Receivers(r, ev) : Raises(r[i], ev)}
  IN IF rs = {} THEN Len(r) + 1 ELSE CHOOSE i \in rs : \A j \in rs : i <= j
Rec(r, ev, kw, i) == [ext |-> r[i], ev |-> ev, kw |-> kw,
                      dcdone |-> ev = "on_package_loaded" /\ \E j \in 1..(i - 1) : DCLike(r[j])]
RefCall(r, ev, kw) ==
  LET stop == FirstRaiser(r, ev)
      idx == SelectSeq([i \in 1..Len(r) |-> i], LAMBDA i : i \in Receivers(r, ev) /\ i <= stop)
  IN [log |-> [k \in 1..Len(idx) |-> Rec(r, ev, kw, idx[k])],
      status |-> IF stop <= Len(r) THEN "Boom" ELSE "ok",
      dcran |-> ev = "on_package_loaded" /\ \E j \in 1..Len(r) : DCLike(r[j])]

\* ---- transcription -------------------------------------------------------------------------------
Op(name, args, res) == [op |-> name, args |-> args, res |-> res]
Live == phase = "live" /\ cur.i = 0 /\ Len(hist) <= MaxOps

Init == phase = "none" /\ reg = <<>> /\ hist = <<>> /\ cur = Idle

NewCtor ==              \* Extensions( *extensions): self._extensions = []; self.add( *extensions)
  /\ phase = "none" /\ phase' = "live"
  /\ \E items \in SeqsUpTo(Insts, MaxNew) :
       /\ reg' = items
       /\ hist' = <<Op("ctor", items, [status |-> "ok"])>>
  /\ UNCHANGED cur

NewLoad ==              \* load_extensions( *exts): add each result in turn, then make sure dataclasses is there
  /\ phase = "none"
  /\ \E specs \in SeqsUpTo(LoadSpecs, MaxNew) :
       /\ phase' = IF Failed(specs) THEN "failed" ELSE "live"
       /\ reg' = IF Failed(specs) THEN <<>> ELSE RefLoad(specs)
       /\ hist' = <<Op("load", specs, [status |-> IF Failed(specs) THEN "enle" ELSE "ok"])>>
  /\ UNCHANGED cur

Add ==                  \* for extension in extensions: self._extensions.append(extension)
  /\ Live
  /\ \E items \in SeqsUpTo(Insts, MaxAdd) :
       /\ reg' = reg \o items
       /\ hist' = Append(hist, Op("add", items, [status |-> "ok"]))
  /\ UNCHANGED <<phase, cur>>

CallBegin ==            \* def call(self, event, **kwargs): for extension in self._extensions:
  /\ Live
  /\ \E ev \in Events, kw \in {"std", "extra"} :
       cur' = [ev |-> ev, kw |-> kw, i |-> 1, log |-> <<>>, status |-> "running"]
  /\ UNCHANGED <<phase, reg, hist>>

CallStep ==             \*     getattr(extension, event)( **kwargs)
  /\ cur.i >= 1 /\ cur.status = "running"
  /\ IF cur.i > Len(reg)
     THEN cur' = [cur EXCEPT !.status = "ok"]
     ELSE LET e == reg[cur.i]
              log2 == IF cur.ev \in Overrides(e) THEN Append(cur.log, Rec(reg, cur.ev, cur.kw, cur.i)) ELSE cur.log
          IN IF Raises(e, cur.ev)
             THEN cur' = [cur EXCEPT !.log = log2, !.status = "Boom"]     \* the exception propagates: loop abandoned
             ELSE cur' = [cur EXCEPT !.log = log2, !.i = @ + 1]           \* the base class hook is a no-op
  /\ UNCHANGED <<phase, reg, hist>>

CallEnd ==
  /\ cur.i >= 1 /\ cur.status \in {"ok", "Boom"}
  /\ hist' = Append(hist, Op("call", <<cur.ev, cur.kw>>,
                             [status |-> cur.status, log |-> cur.log,
                              dcran |-> cur.ev = "on_package_loaded" /\ \E j \in 1..Len(reg) : DCLike(reg[j])]))
  /\ cur' = Idle
  /\ UNCHANGED <<phase, reg>>

Next == NewCtor \/ NewLoad \/ Add \/ CallBegin \/ CallStep \/ CallEnd
Spec == Init /\ [][Next]_vars

\* ---- properties ----------------------------------------------------------------------------------
Finished == cur.i >= 1 /\ cur.status \in {"ok", "Boom"}
Ref == RefCall(reg, cur.ev, cur.kw)
\* the loop computes the contract
DispatchConforms == Finished => cur.log = Ref.log /\ cur.status = Ref.status
\* D1: once per registration that overrides the hook (an instance registered twice is called twice)
OncePerRegistration ==
  (Finished /\ cur.status = "ok") =>
     \A e \in {reg[i] : i \in 1..Len(reg)} :
        Cardinality({k \in 1..Len(cur.log) : cur.log[k].ext = e})
          = IF cur.ev \in Overrides(e) THEN Cardinality({i \in 1..Len(reg) : reg[i] = e}) ELSE 0
\* D3: nobody is called for a hook it does not override; D5: everybody sees the arguments of the call
OnlyOverriders == \A k \in 1..Len(cur.log) : cur.ev \in Overrides(cur.log[k].ext) /\ cur.log[k].kw = cur.kw
\* D4: a raising hook is the last one called
ErrorStops == (Finished /\ cur.status = "Boom") => Raises(cur.log[Len(cur.log)].ext, cur.ev)
\* C3: a loaded container has exactly one exact built-in dataclasses extension
LoadedHasDataclasses ==
  (phase = "live" /\ hist[1].op = "load") =>
     \E i \in 1..Len(reg) : ExactDC(reg[i])

Complete == cur.i = 0 /\ hist # <<>> /\ (phase = "failed" \/ Len(hist) = MaxOps + 1)
EmitCase == (Emit /\ Complete) => PrintT(<<"CASE", ToJson([hist |-> hist, reg |-> reg])>>)
=============================================================================
