---------------------------- MODULE GitWorktree ----------------------------
(***************************************************************************)
(* C20 - loading from Git leaves repository and filesystem untouched on    *)
(* every path.  Shape P with faults: a crash-point protocol.               *)
(*                                                                         *)
(* One action per step of                                                  *)
(*    _griffe.git.tmp_worktree      AssertRepo MkTmp WorktreeAdd EnterTry  *)
(*                                  .. WorktreeRemove Prune BranchDelete   *)
(*                                  RmTmp                                  *)
(*    _griffe.loader.load_git/load  Find Analyse ExtensionHook             *)
(*                                  ResolveAliases Return                  *)
(*    _griffe.cli.check             LatestTag RepoRoot, load_git twice,    *)
(*                                  Diff (exit code)                       *)
(* The git state is the user's repository: HEAD, the status of the main    *)
(* working tree, the set of branches, the registered worktree entries      *)
(* (each with a directory-exists bit), plus the temporary directories      *)
(* under tempfile.gettempdir() and the "checkout contains untracked files" *)
(* bit (wtDirty: __pycache__ written by inspection).                       *)
(*                                                                         *)
(* Faults.  `plan` (chosen in Init) fixes the environment: which refs,     *)
(* what the package looks like at each ref (fine / syntax error / absent), *)
(* static or dynamic analysis, whether importing writes bytecode, whether  *)
(* an extension raises, whether the path is a repository at all.  The      *)
(* Interrupt action (KeyboardInterrupt) may strike between any two steps   *)
(* (at the pcs listed in IntrAt, at most MaxIntr times).  `pc` names the   *)
(* step that is about to execute, so "Interrupt at pc = EnterTry" is the   *)
(* window between a successful `git worktree add` and entering `try:`.     *)
(*                                                                         *)
(* The model follows the code statement by statement, including what the   *)
(* code does not do: the return code of `git worktree remove --force` is   *)
(* ignored (Variant "orig" = the code before the repo fix: no --force, the *)
(* removal fails on untracked files - kept as a regression domain), `prune`*)
(* only                                                                    *)
(* drops entries whose directory is gone, `branch -D` refuses a branch     *)
(* that a registered worktree has checked out, and only the three          *)
(* statements after `try:` are protected by `finally`.                     *)
(***************************************************************************)
EXTENDS Naturals, Sequences, FiniteSets, TLC, Json

CONSTANTS KeyMode,    \* how the lines collection keys the stored source lines: "filepath" = by the path the module was
                      \* found at = Module.filepath (the code as it is); "realpath" = by the symlink-resolved path with a
                      \* raw-then-resolved lookup (regression domain: a module reached through a symlink tracked in git,
                      \* c20pkg/compat.py -> ../_c20pkg/compat_impl.py, loses its lines once the checkout is gone,
                      \* because resolving its filepath needs the link, which lived in the checkout)
          DelMode,    \* "-D": the code as it is (`git branch -D`); "-d": regression domain (`git branch -d` refuses a
                      \* branch that is not merged into the user's HEAD - temporary branches of diverging refs leak)
          Variant,    \* "force": the code as it is (`git worktree remove --force`, repo commit "fix: force removal of
                      \* the temporary git worktree"); "orig": before that fix (regression domain, exhibits the leak)
          Ops,        \* subset of {"load", "check"}
          Refs1,      \* refs used for load_git / check(against=...)
          Refs2,      \* refs used for check(base_ref=...)
          Analyses,   \* subset of {"static", "inspect-off", "inspect-on", "inspect-ignored"}
                      \*   suffix: bytecode writing off / on / on but __pycache__ is git-ignored at every ref
          Status0s,   \* subset of {"clean", "dirty"}: state of the user's index + working tree before the call
          ExtAts,     \* subset of {0, 1, 2}: load_git call during which the extension raises (0 = never)
          IntrAt,     \* set of pcs at which Interrupt may strike
          MaxIntr,    \* number of interrupts per behaviour
          WithNotRepo,\* TRUE: also the case "path is not a git repository"
          WithLatest, \* TRUE: also check(against=None) -> get_latest_tag
          WithNoTags, \* TRUE: also check(against=None) in a repository without tags -> GitError -> return 2
          Emit        \* TRUE: print one CASE line per terminal state (the fault schedules to replay)

\* ---- the repository the harness builds (gverif/props/c20_repo.py builds exactly this) ----------------
\*   two packages: public c20pkg re-exports from private _c20pkg (griffe/_griffe layout); the API lives in _c20pkg
\*   commits  c1 (no package)  c2 (pkg with a syntax error)  c3 (pkg, API 1)  c4 (pkg, API 2)  c5 (HEAD, API 2)
\*   tags     v0 -> c1, bad -> c2, v1 -> c3 (the latest tag)
\*   branches main -> c5 (checked out), feat/x -> c4, feat-x -> c4 (normalises like feat/x), x -> c3,
\*            griffe-x -> c3 (a USER branch that looks like one of our temporary branches),
\*            wt-user -> c4 (checked out in a user worktree)
\*   c20pkg/compat.py is a SYMLINK (tracked in git) to ../_c20pkg/compat_impl.py from c3 on
\*   "WT" is not a ref: check() without base_ref loads the user's working tree with a plain load()
\*   side/y -> c6, a commit on top of c3 that is NOT an ancestor of HEAD (diverging history)
AllRefs == {"v1", "feat/x", "feat-x", "x", "bad", "v0", "nope", "HEAD", "HEAD~1", "refs/tags/v1", "side/y"}
MergedIntoHead(r) == r # "side/y"       \* the ref's commit is reachable from the user's HEAD
Known(r) == r # "nope"
\* _griffe.git._normalize: NFKC, runs of non-word characters -> "-", strip "-"
Norm(r) == CASE r = "feat/x" -> "feat-x" [] r = "HEAD~1" -> "HEAD-1" [] r = "refs/tags/v1" -> "refs-tags-v1" [] r = "side/y" -> "side-y" [] OTHER -> r
TmpBranch(r) ==      \* f"griffe-{normref}"   (constant table: no string arithmetic in TLC)
  CASE r = "v1" -> "griffe-v1" [] r = "feat/x" -> "griffe-feat-x" [] r = "x" -> "griffe-x" [] r = "bad" -> "griffe-bad"
    [] r = "v0" -> "griffe-v0" [] r = "nope" -> "griffe-nope" [] r = "HEAD" -> "griffe-HEAD" [] r = "feat-x" -> "griffe-feat-x"
    [] r = "HEAD~1" -> "griffe-HEAD-1" [] r = "refs/tags/v1" -> "griffe-refs-tags-v1" [] r = "side/y" -> "griffe-side-y" [] OTHER -> "griffe-?"
Content(r) == IF r = "bad" THEN "syntax" ELSE IF r = "v0" THEN "absent" ELSE "ok"
Api(r) == IF r \in {"v1", "x", "refs/tags/v1", "side/y"} THEN 1 ELSE 2        \* API 2 removes a public function of API 1
LatestTagRef == "v1"
UserBranches == {"main", "feat/x", "feat-x", "x", "griffe-x", "wt-user", "side/y"}
UserWorktrees == {[branch |-> "wt-user", tmp |-> "user", dir |-> TRUE]}
Head0 == "main"
NoExit == 9

VARIABLES plan,       \* the environment of this behaviour (constant along it)
          intrs,      \* <<[phase, at]>>: where interrupts struck so far
          phase,      \* 0: prelude of check, 1/2: first/second load_git, 3: after the loads
          pc,         \* the step about to execute
          pending,    \* exception in flight ("none" when there is none)
          inTry,      \* control is inside tmp_worktree's try block
          lastrc,     \* return code class of the last git subprocess (0 / 1)
          head, status, branches, worktrees,     \* the user's repository
          tmpDirs,    \* temporary directories that exist ("tmp1", "tmp2")
          wtDirty,    \* the current checkout contains untracked, non-ignored files
          imported,   \* the package is in sys.modules (inspection imported it: a second inspection in the same
                      \* process - check() - gets the cached module and compiles nothing)
          lines,      \* <<BOOLEAN>>: per loaded object, whether it is fully usable (lines stored AND aliases into the
                      \* private sibling package resolved while the checkout existed)
          outcome,    \* "running" | "returned" | exception class that left the top-level call
          exitcode    \* check's return value (NoExit: none)
gitvars == <<head, status, branches, worktrees>>
vars == <<plan, intrs, phase, pc, pending, inTry, lastrc, head, status, branches, worktrees, tmpDirs, wtDirty, imported, lines, outcome, exitcode>>

Ref == IF phase = 2 THEN plan.ref2 ELSE plan.ref1
Tmp == IF phase = 2 THEN "tmp2" ELSE "tmp1"
MyEntry == [branch |-> TmpBranch(Ref), tmp |-> Tmp, dir |-> TRUE]

\* ---- control helpers -----------------------------------------------------------------------------------
Goto(p) == pc' = p
\* an exception raised inside the try block: the finally clause runs next
RaiseInTry(e) == /\ pending' = e /\ Goto("WorktreeRemove") /\ inTry' = FALSE

\* ---- check(): prelude ----------------------------------------------------------------------------------
LatestTag ==       \* against = against or get_latest_tag(package)      [git tag -l --sort=-creatordate]
  /\ pc = "LatestTag" /\ lastrc' = 0
  /\ IF plan.notags                       \* empty output -> GitError -> "griffe: error: ..." and `return 2`
       THEN Goto("Done") /\ outcome' = "returned" /\ exitcode' = 2
       ELSE Goto("RepoRoot") /\ UNCHANGED <<outcome, exitcode>>
  /\ UNCHANGED <<plan, intrs, phase, pending, inTry, gitvars, tmpDirs, wtDirty, imported, lines>>
RepoRoot ==        \* repository = get_repo_root(against_path)          [git rev-parse --show-toplevel]
  /\ pc = "RepoRoot" /\ Goto("AssertRepo") /\ phase' = 1 /\ lastrc' = 0
  /\ UNCHANGED <<plan, intrs, pending, inTry, gitvars, tmpDirs, wtDirty, imported, lines, outcome, exitcode>>

\* ---- tmp_worktree(): set-up ----------------------------------------------------------------------------
AssertRepo ==      \* assert_git_repo(repo)                             [git rev-parse --is-inside-work-tree]
  /\ pc = "AssertRepo"
  /\ IF plan.repoOk THEN Goto("MkTmp") /\ lastrc' = 0 /\ UNCHANGED pending
     ELSE Goto("EndLoad") /\ lastrc' = 1 /\ pending' = "OSError"
  /\ UNCHANGED <<plan, intrs, phase, inTry, gitvars, tmpDirs, wtDirty, imported, lines, outcome, exitcode>>
MkTmp ==           \* with TemporaryDirectory(prefix=...) as tmp_dir:
  /\ pc = "MkTmp" /\ Goto("WorktreeAdd") /\ tmpDirs' = tmpDirs \cup {Tmp}
  /\ UNCHANGED <<plan, intrs, phase, pending, inTry, lastrc, gitvars, wtDirty, imported, lines, outcome, exitcode>>
WorktreeAdd ==     \* git worktree add -b griffe-<normref> <tmp>/<normref> <ref>;  returncode -> RuntimeError
  /\ pc = "WorktreeAdd"
  /\ IF ~Known(Ref) \/ TmpBranch(Ref) \in branches
       THEN /\ lastrc' = 1 /\ pending' = "RuntimeError" /\ Goto("RmTmp")       \* raised before `try:`: only the
            /\ UNCHANGED <<branches, worktrees>>                                 \* TemporaryDirectory is unwound
       ELSE /\ lastrc' = 0 /\ UNCHANGED pending /\ Goto("EnterTry")
            /\ branches' = branches \cup {TmpBranch(Ref)}
            /\ worktrees' = worktrees \cup {MyEntry}
  /\ UNCHANGED <<plan, intrs, phase, inTry, head, status, tmpDirs, wtDirty, imported, lines, outcome, exitcode>>
EnterTry ==        \* try: yield Path(location)      -> body of `with tmp_worktree(...)` in load_git: load(...)
  /\ pc = "EnterTry" /\ Goto("Find") /\ inTry' = TRUE
  /\ UNCHANGED <<plan, intrs, phase, pending, lastrc, gitvars, tmpDirs, wtDirty, imported, lines, outcome, exitcode>>

\* ---- load(): stages ------------------------------------------------------------------------------------
Find ==            \* finder.find_spec; on ModuleNotFoundError dynamic_import(top module) -> ImportError
  /\ pc = "Find"
  /\ IF Content(Ref) = "absent" THEN RaiseInTry("ImportError") ELSE Goto("Analyse") /\ UNCHANGED <<pending, inTry>>
  /\ UNCHANGED <<plan, intrs, phase, lastrc, gitvars, tmpDirs, wtDirty, imported, lines, outcome, exitcode>>
Analyse ==         \* _load_package -> _visit_module / _inspect_module (imports the package: may write __pycache__)
  /\ pc = "Analyse"
  /\ IF Content(Ref) = "syntax"
       THEN RaiseInTry("LoadingError") /\ UNCHANGED <<wtDirty, imported, lines>>
       ELSE /\ Goto("ExtensionHook") /\ UNCHANGED <<pending, inTry>>
            /\ wtDirty' = (plan.analysis = "inspect" /\ plan.bc = "on" /\ ~imported)
            /\ imported' = (imported \/ plan.analysis = "inspect")
            /\ lines' = Append(lines, FALSE)      \* lines stored (store_source), but members re-exported from the
                                                  \* private sibling package are still unresolved aliases
  /\ UNCHANGED <<plan, intrs, phase, lastrc, gitvars, tmpDirs, outcome, exitcode>>
ExtensionHook ==   \* extensions.call("on_package_loaded", ...)
  /\ pc = "ExtensionHook"
  /\ IF plan.extAt = phase THEN RaiseInTry("ExtError") ELSE Goto("ResolveAliases") /\ UNCHANGED <<pending, inTry>>
  /\ UNCHANGED <<plan, intrs, phase, lastrc, gitvars, tmpDirs, wtDirty, imported, lines, outcome, exitcode>>
ResolveAliases ==  \* loader.resolve_aliases(...): side-loads the private sibling package from the search paths,
                   \* i.e. from the checkout - the result is usable only if the checkout still exists at this point
  /\ pc = "ResolveAliases" /\ Goto("Return")
  /\ lines' = [lines EXCEPT ![Len(lines)] = (inTry /\ MyEntry \in worktrees /\ Tmp \in tmpDirs)]
  /\ UNCHANGED <<plan, intrs, phase, pending, inTry, lastrc, gitvars, tmpDirs, wtDirty, imported, outcome, exitcode>>
Return ==          \* `return load(...)` leaves the with block: the generator resumes after the yield
  /\ pc = "Return" /\ Goto("WorktreeRemove") /\ inTry' = FALSE
  /\ UNCHANGED <<plan, intrs, phase, pending, lastrc, gitvars, tmpDirs, wtDirty, imported, lines, outcome, exitcode>>

\* ---- tmp_worktree(): finally ---------------------------------------------------------------------------
WorktreeRemove ==  \* git worktree remove --force <location>   (check=False; Variant "orig": without --force)
  /\ pc = "WorktreeRemove" /\ Goto("Prune")
  /\ IF MyEntry \notin worktrees \/ (wtDirty /\ Variant # "force")
       THEN lastrc' = 1 /\ UNCHANGED <<worktrees, wtDirty>>          \* "contains modified or untracked files"
       ELSE lastrc' = 0 /\ worktrees' = worktrees \ {MyEntry} /\ wtDirty' = FALSE
  /\ UNCHANGED <<plan, intrs, phase, pending, inTry, head, status, branches, tmpDirs, imported, lines, outcome, exitcode>>
Prune ==           \* git worktree prune               (drops entries whose directory is gone)
  /\ pc = "Prune" /\ Goto("BranchDelete") /\ lastrc' = 0
  /\ worktrees' = {w \in worktrees : w.dir}
  /\ UNCHANGED <<plan, intrs, phase, pending, inTry, head, status, branches, tmpDirs, wtDirty, imported, lines, outcome, exitcode>>
\* git branch -D / -d griffe-<normref>: both are refused while a registered worktree has the branch checked out;
\* `-d` additionally refuses a branch whose tip is not merged into the user's HEAD.  Return code ignored.
DeleteBranch(refused) ==
  /\ pc = "BranchDelete" /\ Goto("RmTmp")
  /\ IF refused \/ (\E w \in worktrees : w.branch = TmpBranch(Ref)) \/ TmpBranch(Ref) \notin branches
       THEN lastrc' = 1 /\ UNCHANGED branches
       ELSE lastrc' = 0 /\ branches' = branches \ {TmpBranch(Ref)}
  /\ UNCHANGED <<plan, intrs, phase, pending, inTry, head, status, worktrees, tmpDirs, wtDirty, imported, lines, outcome, exitcode>>
BranchDeleteForce == DeleteBranch(FALSE)                          \* git branch -D
BranchDeleteSafe == DeleteBranch(~MergedIntoHead(Ref))            \* git branch -d
BranchDelete == IF DelMode = "-d" THEN BranchDeleteSafe ELSE BranchDeleteForce
RmTmp ==           \* TemporaryDirectory.__exit__: rmtree(tmp_dir) - a checkout still inside it disappears with it
  /\ pc = "RmTmp" /\ Goto("EndLoad")
  /\ tmpDirs' = tmpDirs \ {Tmp} /\ wtDirty' = FALSE
  /\ worktrees' = {[w EXCEPT !.dir = IF w.tmp = Tmp THEN FALSE ELSE @] : w \in worktrees}
  /\ UNCHANGED <<plan, intrs, phase, pending, inTry, lastrc, head, status, branches, imported, lines, outcome, exitcode>>

\* ---- load_git returns or raises; check continues ---------------------------------------------------------
\* lines of the symlinked module can be looked up by Module.filepath at this point (checkout removed unless it leaked)
LinkedLinesReadable == KeyMode = "filepath" \/ Tmp \in tmpDirs
EndLoad ==
  /\ pc = "EndLoad"
  /\ lines' = IF pending = "none" /\ Len(lines) > 0 THEN [lines EXCEPT ![Len(lines)] = @ /\ LinkedLinesReadable] ELSE lines
  /\ IF pending # "none"
       THEN Goto("Done") /\ outcome' = pending /\ UNCHANGED phase              \* check() catches nothing here
       ELSE IF plan.op = "load" THEN Goto("Done") /\ outcome' = "returned" /\ UNCHANGED phase
       ELSE IF phase = 1 THEN Goto(IF plan.ref2 = "WT" THEN "LoadWT" ELSE "AssertRepo") /\ phase' = 2 /\ UNCHANGED outcome
       ELSE Goto("Diff") /\ phase' = 3 /\ UNCHANGED outcome
  /\ UNCHANGED <<plan, intrs, pending, inTry, lastrc, gitvars, tmpDirs, wtDirty, imported, exitcode>>
LoadWT ==          \* check() without base_ref: new_package = load(package, try_relative_path=True, ...) - no git at all
  /\ pc = "LoadWT"
  /\ IF plan.extAt = 2 THEN Goto("Done") /\ outcome' = "ExtError" /\ pending' = "ExtError" /\ UNCHANGED <<phase, lines>>
     ELSE Goto("Diff") /\ phase' = 3 /\ lines' = Append(lines, TRUE) /\ UNCHANGED <<outcome, pending>>
  /\ UNCHANGED <<plan, intrs, inTry, lastrc, gitvars, tmpDirs, wtDirty, imported, exitcode>>
Diff ==            \* find_breaking_changes(old, new); print; return 1 if breakages else 0
  /\ pc = "Diff" /\ Goto("Done") /\ outcome' = "returned"
  \* under inspection both loads describe the SAME cached module object: no difference is ever found
  /\ exitcode' = IF plan.analysis = "static" /\ Api(plan.ref1) = 1 /\ Api(plan.ref2) = 2 THEN 1 ELSE 0
  /\ UNCHANGED <<plan, intrs, phase, pending, inTry, lastrc, gitvars, tmpDirs, wtDirty, imported, lines>>

\* ---- KeyboardInterrupt between two steps ------------------------------------------------------------------
\* Where control goes depends on what protects the interrupted statement:
\*   nothing yet                       -> the call raises at once
\*   the TemporaryDirectory only       -> RmTmp             (worktree add .. before `try:`, and inside `finally:`)
\*   the try block                     -> the whole finally clause, then RmTmp
IntrTarget(p) ==
  CASE p \in {"LatestTag", "RepoRoot", "LoadWT"} -> "Done"            \* outside any load_git: check() raises at once
    [] p \in {"AssertRepo", "MkTmp"} -> "EndLoad"
    [] p \in {"WorktreeAdd", "EnterTry"} -> "RmTmp"
    [] p \in {"Find", "Analyse", "ExtensionHook", "ResolveAliases", "Return"} -> "WorktreeRemove"
    [] p \in {"WorktreeRemove", "Prune", "BranchDelete", "RmTmp"} -> "RmTmp"
    [] OTHER -> "Done"
Interruptible == {"LoadWT", "LatestTag", "RepoRoot", "AssertRepo", "MkTmp", "WorktreeAdd", "EnterTry", "Find", "Analyse",
                  "ExtensionHook", "ResolveAliases", "Return", "WorktreeRemove", "Prune", "BranchDelete", "RmTmp"}
InterruptAt(p) ==
  /\ pc = p /\ p \in Interruptible
  /\ pending' = "KeyboardInterrupt" /\ Goto(IntrTarget(p)) /\ inTry' = FALSE
  /\ intrs' = Append(intrs, [phase |-> phase, at |-> p])
  /\ outcome' = IF IntrTarget(p) = "Done" THEN "KeyboardInterrupt" ELSE outcome
  /\ UNCHANGED <<plan, phase, lastrc, gitvars, tmpDirs, wtDirty, imported, lines, exitcode>>
Interrupt == /\ Len(intrs) < MaxIntr /\ pc \in IntrAt /\ InterruptAt(pc)

\* ---- behaviours --------------------------------------------------------------------------------------------
AnName(a, b) == CASE a = "static" /\ b = "off" -> "static" [] a = "inspect" /\ b = "off" -> "inspect-off"
                  [] a = "inspect" /\ b = "on" -> "inspect-on" [] a = "inspect" /\ b = "ignored" -> "inspect-ignored"
                  [] OTHER -> "-"
Plans ==
  {p \in [op : Ops, ref1 : Refs1, ref2 : Refs2 \cup {"-"}, analysis : {"static", "inspect"}, bc : {"off", "on", "ignored"},
          status0 : Status0s, repoOk : BOOLEAN, extAt : ExtAts, latest : BOOLEAN, notags : BOOLEAN] :
     /\ AnName(p.analysis, p.bc) \in Analyses
     /\ (p.op = "load") = (p.ref2 = "-")
     /\ (p.op = "load" => p.extAt \in {0, 1} /\ ~p.latest)
     /\ (p.latest => WithLatest /\ p.ref1 = LatestTagRef)
     /\ (p.notags => WithNoTags /\ p.latest /\ p.op = "check" /\ p.extAt = 0 /\ p.ref2 = "HEAD")
     /\ (~p.repoOk => WithNotRepo /\ p.op = "load" /\ p.ref1 = "v1" /\ p.analysis = "static"
                      /\ p.extAt = 0 /\ p.status0 = "clean")}

InitOf(p) ==
  /\ plan = p /\ intrs = <<>>
  /\ phase = IF p.op = "check" THEN 0 ELSE 1
  /\ pc = IF p.op = "check" THEN (IF p.latest THEN "LatestTag" ELSE "RepoRoot") ELSE "AssertRepo"
  /\ pending = "none" /\ inTry = FALSE /\ lastrc = 0
  /\ head = Head0 /\ status = p.status0 /\ branches = UserBranches /\ worktrees = UserWorktrees
  /\ tmpDirs = {} /\ wtDirty = FALSE /\ imported = FALSE /\ lines = <<>> /\ outcome = "running" /\ exitcode = NoExit
Init == \E p \in Plans : InitOf(p)

Step == \/ LatestTag \/ RepoRoot \/ AssertRepo \/ MkTmp \/ WorktreeAdd \/ EnterTry
        \/ Find \/ Analyse \/ ExtensionHook \/ ResolveAliases \/ Return
        \/ WorktreeRemove \/ Prune \/ BranchDelete \/ RmTmp \/ EndLoad \/ LoadWT \/ Diff
Next == Step \/ Interrupt
Spec == Init /\ [][Next]_vars

\* ---- the clauses of C20 ------------------------------------------------------------------------------------
Terminal == pc = "Done"
\* "leaves the user's repository exactly as it was (same HEAD, branches, index, working tree and worktree list)"
HeadUntouched == Terminal => head = Head0
StatusUntouched == Terminal => status = plan.status0
BranchesUntouched == Terminal => branches = UserBranches
WorktreesUntouched == Terminal => worktrees = UserWorktrees
\* "and leaves no temporary checkout behind"
NoTmpLeft == Terminal => tmpDirs = {}
\* "the objects returned remain fully usable, including their source lines, after the checkout has been removed"
LinesKept == (Terminal /\ outcome = "returned") =>
               /\ \A k \in DOMAIN lines : lines[k]
               /\ Len(lines) = IF exitcode = 2 THEN 0 ELSE IF plan.op = "check" THEN 2 ELSE 1
\* temporary names never collide with user branches: at NO point (not only at the end) is a user branch
\* deleted or a user worktree touched, and HEAD / the status never move
UserStateKept == /\ UserBranches \subseteq branches /\ UserWorktrees \subseteq worktrees
                 /\ head = Head0 /\ status = plan.status0
\* every terminal state has a definite outcome; check's exit code exists iff it returned
Definite == Terminal => /\ outcome # "running"
                        /\ (exitcode # NoExit) = (plan.op = "check" /\ outcome = "returned")
Untouched == /\ HeadUntouched /\ StatusUntouched /\ BranchesUntouched /\ WorktreesUntouched /\ NoTmpLeft

TypeOK == /\ phase \in 0..3 /\ lastrc \in {0, 1} /\ tmpDirs \subseteq {"tmp1", "tmp2"}
          /\ pending \in {"none", "OSError", "RuntimeError", "ImportError", "LoadingError", "ExtError", "KeyboardInterrupt"}
          /\ inTry \in BOOLEAN /\ wtDirty \in BOOLEAN /\ Len(intrs) <= MaxIntr

\* ---- enumeration: one CASE line per terminal state = one fault schedule to replay -----------------------
Leaked == [branches |-> branches \ UserBranches, lost |-> UserBranches \ branches,
           worktrees |-> worktrees \ UserWorktrees, tmp |-> tmpDirs]
EmitCase ==
  (Emit /\ Terminal) =>
     PrintT(<<"CASE", ToJson([plan |-> plan, intrs |-> intrs, outcome |-> outcome, exitcode |-> exitcode,
                              leaked |-> Leaked, untouched |-> Untouched, lines |-> lines])>>)
=============================================================================
