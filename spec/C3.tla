--------------------------------- MODULE C3 ---------------------------------
(***************************************************************************)
(* C07 - method resolution order and inherited members equal CPython's.    *)
(*                                                                         *)
(* Shape A (algorithm vs reference).  A *case* is a class hierarchy:       *)
(* bases[c] = the ordered list of base classes written in the class        *)
(* statement of c, plus a module layout (one module, or two modules with   *)
(* the bases of the second reached through an import, a renamed import, a  *)
(* module attribute or one / two re-exporting modules), and - chosen after *)
(* the orders are known - a placement of members has[c] \subseteq Mem.     *)
(* The bounds of a run are a set of jobs (QuickJobs, ThoroughJobs, SimJobs *)
(* below; the cfg picks one with `Jobs <- ...`): one TLC run covers them.  *)
(*                                                                         *)
(* Impl (transcription of the code, one action per statement group):       *)
(*   Class.mro / Class._mro      models.py   recursion as an explicit      *)
(*                               stack of frames; `seen` is threaded down  *)
(*   Class.resolved_bases        models.py   ResolvedBases (canonical path *)
(*                               of the base expression, collection        *)
(*                               look-up, alias -> final target)           *)
(*   c3linear_merge              c3linear.py  Merge* actions: the lists,   *)
(*                               heads, "head not in tails", remove        *)
(*   Object.inherited_members    models.py   Inherited* actions: fold over *)
(*                               reversed(mro), skipping declared names    *)
(*   ObjectAliasMixin.all_members mixins.py  AllMembers                    *)
(*                                                                         *)
(* Reference (what CPython does, written from the language reference):     *)
(*   PyLin / PyMerge   L[C] = C + merge(L[B1] .. L[Bn], [B1 .. Bn])        *)
(*   ExistsExt         declaratively: C is accepted iff every parent is    *)
(*                     and some ordering of C's ancestors keeps every      *)
(*                     parent's linearisation and the local precedence     *)
(*   PyGetattr(c, m)   the first class of L[c] that declares m             *)
(*                                                                         *)
(* TLC enumerates every hierarchy within the bounds, runs the machine and  *)
(* checks Impl = Reference; every final state is printed as a CASE and     *)
(* replayed on the real Griffe and on CPython (gverif/props/c07.py).       *)
(***************************************************************************)
EXTENDS Naturals, Sequences, FiniteSets, TLC, Json

CONSTANTS Jobs,       \* the case spaces explored by this run: a set of Job(...) records (QuickJobs, ThoroughJobs ...)
          StepBound,  \* every run of the machine must finish within that many steps (termination)
          Emit

\* A job bounds one case space:
\*   n        number of classes C1 .. Cn
\*   maxb     at most that many bases per class statement
\*   domain   "dag":  bases among the classes defined earlier, no duplicates (CPython can execute it as written)
\*            "free": bases among the *other* classes, duplicates allowed (cycles, forward references)
\*            "self": bases among all classes (a class may also name itself)
\*            "ext":  like "dag", and any one position of a base list may hold a base Griffe cannot resolve
\*                    (a builtin, a class of a package that is not loaded, `Generic[T]`): written Ext in bases[c]
\*   mem      member names that may be declared in class bodies (every placement is explored)
\*   layouts  subset of {"one", "from", "as", "attr", "chain", "chain2", "sub", "nest", "nest2", "nest2d"} (every split point)
\*   dodel    TRUE: after the members are known, one `del cls[name]` is applied (every class x name) and the
\*            inherited members are computed again
Job(name, n, maxb, domain, mem, layouts) ==
  [name |-> name, n |-> n, maxb |-> maxb, domain |-> domain, mem |-> mem, layouts |-> layouts, dodel |-> FALSE, roots |-> "all",
   kinds |-> {"def"}]
\* kinds: how a class body may bind a member name.  "def": an assignment / a def.  "imp": an import statement in the class
\* body (`from string import digits as m1`).  For CPython both put the name into the class namespace: it is found through
\* the MRO and hides the same name of farther bases.  For Griffe the member is an Alias (is_imported) in base.members.
ImportJob(name, n, maxb, domain, mem, layouts) == [Job(name, n, maxb, domain, mem, layouts) EXCEPT !.kinds = {"def", "imp"}]
\* roots = "last": only the last class is run through the machine (its sub-hierarchies on classes 1..n-1 are exactly the
\* hierarchies of the job with one class less, where every class is run); the reference is still computed for every class
LastRootJob(name, n, maxb, domain, mem, layouts) == [Job(name, n, maxb, domain, mem, layouts) EXCEPT !.roots = "last"]
DelJob(name, n, maxb, domain, mem, layouts) == [Job(name, n, maxb, domain, mem, layouts) EXCEPT !.dodel = TRUE]
One == {"one"}
Split == {"from", "as", "attr", "chain", "chain2"}     \* two modules, the bases of one reached through imports
Deep == {"nest2", "nest2d"}   \* how a base is WRITTEN: a dotted chain of three components `H.M.Cb` (classes 1..cut are members of
                              \* ma.H.M); "nest2d": in addition a same-named decoy class Cb sits at the shorter path ma.H.Cb
Spell == {"sub", "nest"}                               \* one module: subscripted bases `Cb[int]`; classes 1..cut nested
                                                       \* in a holder class H and named `H.Cb` from outside
QuickJobs ==
  { LastRootJob("dag5", 5, 3, "dag", {}, One),      \* 6 560 hierarchies (every 5-class dag with <= 3 bases), order of C5
    Job("dag4x", 4, 3, "dag", {}, One),             \* ... and of C1..C4: the 160 four-class hierarchies, every class
    Job("dag4", 4, 3, "dag", {"m1"}, One),          \* 160 hierarchies x 16 placements
    Job("dag3", 3, 3, "dag", {"m1", "m2"}, One),    \* 10 x 64
    Job("free3", 3, 3, "free", {}, One),            \* 3 375 hierarchies (cycles, forward references, duplicates)
    Job("free3m", 3, 2, "free", {"m1"}, One),       \* 343 x 8
    Job("self2", 2, 3, "self", {"m1"}, One),        \* 225 x 4
    Job("split4", 4, 3, "dag", {}, Split),          \* 160 x 5 layouts x 3 split points
    Job("split3", 3, 3, "dag", {"m1"}, Split),      \* 10 x 10 x 8
    Job("splitfree3", 3, 2, "free", {}, Split),     \* 343 x 10
    Job("spell4", 4, 3, "dag", {}, Spell),          \* 160 x (1 + 3)
    Job("spell3", 3, 3, "dag", {"m1"}, Spell),      \* 10 x (1 + 2) x 8
    DelJob("del3", 3, 3, "dag", {"m1"}, One),       \* 10 x 8 x 3 deletions
    Job("ext3", 3, 3, "ext", {"m1"}, One),          \* 160 hierarchies with unresolvable bases x 8
    Job("ext4", 4, 2, "ext", {}, One),              \* 1 700 (<= 2 bases), orders only
    ImportJob("imp3", 3, 3, "dag", {"m1"}, One),
    Job("deep3", 3, 3, "dag", {"m1"}, Deep) }       \* 10 x 2 layouts x 2 cuts x 8   \* 10 x 27 (absent / defined / imported per class)
\* thorough: one TLC run per job (the driver replays a job while TLC explores the next one)
T_dag5 == { Job("dag5", 5, 3, "dag", {"m1"}, One) }                  \* 6 560 hierarchies x 32 placements
T_dag4 == { Job("dag4", 4, 3, "dag", {"m1", "m2"}, One) }            \* 160 x 256
T_free3 == { Job("free3", 3, 3, "free", {"m1"}, One) }               \* 3 375 x 8
T_free4 == { Job("free4", 4, 2, "free", {}, One) }                   \* 28 561
T_self3 == { Job("self3", 3, 2, "self", {"m1"}, One) }               \* 2 197 x 8
T_split4 == { Job("split4", 4, 3, "dag", {"m1"}, Split) }            \* 2 400 x 16
T_splitfree3 == { Job("splitfree3", 3, 2, "free", {"m1"}, Split) }   \* 3 430 x 8
T_spell4 == { Job("spell4", 4, 3, "dag", {"m1"}, Spell) }            \* 160 x 4 x 16
T_del4 == { DelJob("del4", 4, 3, "dag", {"m1"}, One) }               \* 160 x 16 x 4 deletions
T_ext4 == { Job("ext4", 4, 3, "ext", {}, One) }                       \* 6 560, orders only
T_ext3 == { Job("ext3", 3, 3, "ext", {"m1"}, One) }                   \* 160 x 8
T_imp4 == { ImportJob("imp4", 4, 3, "dag", {"m1"}, One) }             \* 160 x 81
T_imp3 == { ImportJob("imp3", 3, 3, "dag", {"m1", "m2"}, One) }       \* 10 x 729
T_deep4 == { Job("deep4", 4, 3, "dag", {"m1"}, Deep) }                \* 160 x 2 x 3 x 16
ThoroughJobs == T_ext3 \cup T_deep4 \cup T_imp4 \cup T_imp3 \cup T_ext4 \cup T_dag5 \cup T_dag4 \cup T_free3 \cup T_free4 \cup T_self3 \cup T_split4 \cup T_splitfree3 \cup T_spell4 \cup T_del4
SimJobs == { Job("sim6", 6, 3, "dag", {"m1"}, One) }   \* 564 160 hierarchies: sampled with -simulate
TinyJobs == { Job("dag3", 3, 3, "dag", {"m1"}, One), Job("free2", 2, 2, "free", {"m1"}, Split),
              Job("spell3", 3, 3, "dag", {"m1"}, Spell), DelJob("del2", 2, 3, "dag", {"m1"}, One),
              Job("ext3", 3, 3, "ext", {"m1"}, One), ImportJob("imp2", 2, 3, "dag", {"m1"}, One) }

VARIABLE job          \* the job this behaviour belongs to (chosen by Init, never changes)
N == job.n
MaxBases == job.maxb
Domain == job.domain
Mem == job.mem
Layouts == job.layouts

Classes == 1..N
NoClass == 0
FirstRoot == IF job.roots = "last" THEN N ELSE 1
Roots == FirstRoot..N     \* the classes whose mro() / inherited_members are run through the machine
Ext == 9                  \* marker of an unresolvable base in bases[c] (not a class number: N <= 6)
ExtOf(c) == 10 + c        \* the external class named there: one distinct, otherwise unrelated class per class statement

Range(s) == {s[i] : i \in 1..Len(s)}
Injective(s) == \A i, j \in 1..Len(s) : i # j => s[i] # s[j]
Rev(s) == [i \in 1..Len(s) |-> s[Len(s) + 1 - i]]
Min(S) == CHOOSE x \in S : \A y \in S : x <= y

VARIABLES bases, layout, cut,                    \* the case
          has,                                   \* member placement (PlaceMembers)
          pc, steps, fired,                      \* control; observation: steps taken, actions taken
          root, stack, exc, mro,                 \* Class.mro machine; mro[c] = result of C<c>.mro()
          refmro, refext, refcyc,                \* reference, stored once (TLC does not memoise operators)
          ic, folding, rev, inh, allm, refattr,  \* inherited_members / all_members machine
          delop,                                 \* the `del cls[name]` applied (jobs with dodel), else NoDel
          kind                                   \* kind[c][m]: how class c binds m ("def" / "imp"; "def" when it does not)
casevars == <<job, bases, layout, cut>>
mrovars == <<root, stack, exc, mro>>
refvars == <<refmro, refext, refcyc>>
memvars == <<has, ic, folding, rev, inh, allm, refattr, delop, kind>>
vars == <<casevars, pc, steps, fired, mrovars, refvars, memvars>>

\* ---- case space ------------------------------------------------------------------------------------
Pool(c) == CASE Domain = "dag" -> 1..(c - 1)
             [] Domain = "ext" -> 1..(c - 1) \cup {Ext}
             [] Domain = "free" -> Classes \ {c}
             [] OTHER -> Classes
BaseLists(c) == UNION {{s \in [1..k -> Pool(c)] : Domain \notin {"dag", "ext"} \/ Injective(s)} : k \in 0..MaxBases}
\* the bases that are classes of the analysed modules
LocalBases(c) == SelectSeq(bases[c], LAMBDA b : b # Ext)
RECURSIVE Hier(_)
Hier(k) == IF k = 0 THEN {<<>>} ELSE {Append(h, b) : h \in Hier(k - 1), b \in BaseLists(k)}

\* ---- module layout: where classes live and how a base expression reaches its class ------------------
\* classes 1..cut live in module mb, the others in ma; "one" / "sub": everything in ma; "nest": classes
\* 1..cut are members of the holder class ma.H (their path is ma.H.Cc), the others are in ma.
ModOf(c) == IF layout \in {"one", "sub"} \/ c > cut THEN "ma"
            ELSE IF layout = "nest" THEN "ma.H" ELSE IF layout \in Deep THEN "ma.H.M" ELSE "mb"
\* Expr.canonical_path of the base expression naming class b inside the class statement of c.  A name
\* imported with `from mb import Cb [as Kb]` or written `mb.Cb` is resolved by the expression itself;
\* with "chain" the name is imported from mc, which only re-exports it (`from mb import Cb`): the path
\* denotes an Alias; with "chain2" it is imported from md, which re-exports mc's re-export (two hops).
\* "sub": the base is written `Cb[int]` (ExprSubscript: the canonical path of the subscripted value);
\* "nest2" / "nest2d": the base is written `H.M.Cb` (ExprAttribute of three names, each resolved in the scope of the one
\* before it): its canonical path is ma.H.M.Cb - never the decoy ma.H.Cb that "nest2d" puts at the shorter path.
\* "nest": a module-level class names a nested base `H.Cb` (ExprAttribute chain), a nested class names its
\* nested base `Cb` (resolved in the scope of H): both give ma.H.Cb.
BasePath(c, b) == IF ModOf(b) = ModOf(c) THEN <<ModOf(c), b>>
                  ELSE CASE layout = "chain" -> <<"mc", b>>
                         [] layout = "chain2" -> <<"md", b>>
                         [] OTHER -> <<ModOf(b), b>>
\* ModulesCollection.get_member(path)
Member(p) == CASE p[1] = "md" -> [kind |-> "alias", at |-> <<"mc", p[2]>>]
               [] p[1] = "mc" -> [kind |-> "alias", at |-> <<ModOf(p[2]), p[2]>>]
               [] OTHER -> [kind |-> "class", at |-> p]
\* `if resolved_base.is_alias: resolved_base = resolved_base.final_target`  (follows every hop)
RECURSIVE FinalTarget(_)
FinalTarget(o) == IF o.kind = "alias" THEN FinalTarget(Member(o.at)) ELSE o
\* Class.resolved_bases followed by the `is_class` filter of _mro (every resolved base is a class here):
\*     for base in self.bases:
\*         try: resolved_base = self.modules_collection.get_member(base_path) ...
\*         except (AliasResolutionError, CyclicAliasError, KeyError): logger.debug(...)    - this base only is skipped
\*         else: resolved_bases.append(resolved_base)
ResolveOne(c, b) == IF b = Ext THEN NoClass     \* get_member raises KeyError: nothing is loaded at that path
                    ELSE FinalTarget(Member(BasePath(c, b))).at[2]
ResolvedBases(c) == SelectSeq([i \in 1..Len(bases[c]) |-> ResolveOne(c, bases[c][i])], LAMBDA x : x # NoClass)
\* names under which class b is visible as an import alias in the *other* module (Alias views of a class)
AliasViews(b) ==
  IF layout \in {"one", "attr", "sub", "nest"} \cup Deep THEN {}
  ELSE {<<ModOf(c), b>> : c \in {x \in Classes : ModOf(x) # ModOf(b) /\ b \in Range(bases[x])}}

\* ---- reference: the C3 rule of the language reference -----------------------------------------------
Rejected == [ok |-> FALSE, order |-> <<>>]
Accepted(s) == [ok |-> TRUE, order |-> s]

RECURSIVE PyMerge(_)
PyMerge(ls) ==
  \* "take the head of the first list that is in the tail of no list, remove it from all lists, repeat;
  \*  when no head qualifies the hierarchy is refused"
  LET ne == SelectSeq(ls, LAMBDA l : l # <<>>) IN
  IF ne = <<>> THEN Accepted(<<>>)
  ELSE LET good == {j \in 1..Len(ne) : \A q \in 1..Len(ne) : \A t \in 2..Len(ne[q]) : ne[q][t] # ne[j][1]}
       IN  IF good = {} THEN Rejected
           ELSE LET h == ne[Min(good)][1]
                    rest == PyMerge([q \in 1..Len(ne) |-> IF ne[q][1] = h THEN Tail(ne[q]) ELSE ne[q]])
                IN  IF rest.ok THEN Accepted(<<h>> \o rest.order) ELSE Rejected

\* what CPython sees: the external bases are real classes (here: unrelated to everything else, no bases of their own)
PyBases(x) == IF x > N THEN <<>> ELSE [i \in 1..Len(bases[x]) |-> IF bases[x][i] = Ext THEN ExtOf(x) ELSE bases[x][i]]
RECURSIVE PyLin(_, _)
PyLin(c, under) ==      \* under = classes whose class statement is still being evaluated: a cycle cannot exist
  IF c \in under THEN Rejected
  ELSE LET bs == PyBases(c)
           ps == [i \in 1..Len(bs) |-> PyLin(bs[i], under \cup {c})]
       IN  IF \E i \in 1..Len(bs) : ~ps[i].ok THEN Rejected
           ELSE LET m == PyMerge([i \in 1..Len(bs) |-> ps[i].order] \o <<bs>>)
                IN  IF m.ok THEN Accepted(<<c>> \o m.order) ELSE Rejected

\* declarative reading --------------------------------------------------------------------------------
RECURSIVE Reach(_, _)
Reach(S, n) == IF n = 0 THEN S ELSE Reach(S \cup UNION {Range(LocalBases(x)) : x \in S}, n - 1)
Anc(c) == Reach(Range(LocalBases(c)), N)                     \* proper ancestors among the analysed classes
Cyclic(c) == \E x \in Anc(c) \cup {c} : x \in Anc(x)         \* a cycle can be reached from c
Pos(s, x) == CHOOSE i \in 1..Len(s) : s[i] = x
Keeps(a, s) == \A i, j \in 1..Len(a) : i < j => Pos(s, a[i]) < Pos(s, a[j])   \* a is a subsequence of s
Orderings(S) == {s \in [1..Cardinality(S) -> S] : Injective(s)}
\* needs refmro (the parents' linearisations)
ExistsExt(c) ==
  /\ ~Cyclic(c)
  /\ \A b \in Range(LocalBases(c)) : refmro[b].ok
  /\ \E s \in Orderings(Anc(c)) :
        /\ Keeps(LocalBases(c), s)                                     \* local precedence order
        /\ \A b \in Range(LocalBases(c)) : Keeps(refmro[b].order, s)   \* monotonicity

FirstDeclaring(order, m) ==     \* type.__getattribute__: walk the MRO, first __dict__ that has the name
  LET idx == {i \in 1..Len(order) : m \in has[order[i]]} IN IF idx = {} THEN NoClass ELSE order[Min(idx)]
PyGetattr(c, m) == IF refmro[c].ok THEN FirstDeclaring(refmro[c].order, m) ELSE NoClass

\* ---- the machine -----------------------------------------------------------------------------------
Pending == [ok |-> FALSE, order |-> <<>>, why |-> "pending"]
NoAlias == [owner |-> NoClass, parent |-> NoClass, inherited |-> FALSE]
NoDel == [cls |-> NoClass, name |-> "", had |-> FALSE, out |-> "none"]
Frame(c, seen) == [cls |-> c, seen |-> seen, bs |-> <<>>, phase |-> "enter", i |-> 1,
                   lins |-> <<>>, lists |-> <<>>, result |-> <<>>]

Init ==
  /\ job \in Jobs
  /\ bases \in Hier(N)
  /\ layout \in Layouts
  /\ cut \in (IF layout \in {"one", "sub"} THEN {0} ELSE 1..(N - 1))
  /\ has = [c \in Classes |-> {}]
  /\ pc = "ref" /\ steps = 0 /\ fired = {}
  /\ root = FirstRoot /\ stack = <<>> /\ exc = "none" /\ mro = [c \in Classes |-> Pending]
  /\ refmro = [c \in Classes |-> Rejected] /\ refext = [c \in Classes |-> FALSE] /\ refcyc = [c \in Classes |-> FALSE]
  /\ ic = 1 /\ folding = FALSE /\ rev = <<>>
  /\ inh = [c \in Classes |-> [m \in Mem |-> NoAlias]]
  /\ allm = [c \in Classes |-> [m \in Mem |-> NoClass]]
  /\ refattr = [c \in Classes |-> [m \in Mem |-> NoClass]]
  /\ delop = NoDel
  /\ kind = [c \in Classes |-> [m \in Mem |-> "def"]]

Tick(a) == steps' = steps + 1 /\ fired' = fired \cup {a}

\* the reference is evaluated first and stored
Reference ==
  /\ pc = "ref" /\ pc' = "ext" /\ Tick("Reference")
  /\ refmro' = [c \in Classes |-> LET l == PyLin(c, {}) IN      \* CPython's MRO, restricted to the analysed classes
                                     [ok |-> l.ok, order |-> SelectSeq(l.order, LAMBDA x : x <= N)]]
  /\ refcyc' = [c \in Classes |-> Cyclic(c)]
  /\ UNCHANGED <<casevars, mrovars, refext, memvars>>
Extension ==
  /\ pc = "ext" /\ pc' = "mro" /\ Tick("Extension")
  /\ refext' = [c \in Classes |-> ExistsExt(c)]
  /\ UNCHANGED <<casevars, mrovars, refmro, refcyc, memvars>>

Top == stack[Len(stack)]
SetTop(f) == [stack EXCEPT ![Len(stack)] = f]
InMro == pc = "mro" /\ exc = "none" /\ stack # <<>>

\* Class.mro():  return self._mro()[1:]
CallMro ==
  /\ pc = "mro" /\ exc = "none" /\ stack = <<>> /\ root <= N
  /\ stack' = <<Frame(root, <<>>)>> /\ Tick("CallMro")
  /\ UNCHANGED <<casevars, pc, root, exc, mro, refvars, memvars>>

\* `return v` of the top frame: the caller appends it to the linearisations it collects; the outermost
\* call hands v[1:] to the caller of mro()
ReturnValue(v) ==
  IF Len(stack) = 1
  THEN /\ stack' = <<>> /\ mro' = [mro EXCEPT ![root] = [ok |-> TRUE, order |-> Tail(v), why |-> "none"]]
       /\ root' = root + 1 /\ exc' = exc
  ELSE /\ LET caller == stack[Len(stack) - 1] IN
          stack' = [SubSeq(stack, 1, Len(stack) - 1) EXCEPT
                       ![Len(stack) - 1] = [caller EXCEPT !.lins = Append(caller.lins, v), !.i = caller.i + 1]]
       /\ UNCHANGED <<root, exc, mro>>
\* `raise ValueError`: the frame is left
Raise(why) == /\ exc' = why /\ stack' = SubSeq(stack, 1, Len(stack) - 1) /\ UNCHANGED <<root, mro>>

\* seen = (*seen, self.path); bases = [b for b in self.resolved_bases if b.is_class]; if not bases: return [self]
MroEnter ==
  /\ InMro /\ Top.phase = "enter" /\ Tick("MroEnter")
  /\ LET f == Top
         bs == ResolvedBases(f.cls)
     IN  IF bs = <<>> THEN ReturnValue(<<f.cls>>)
         ELSE /\ stack' = SetTop([f EXCEPT !.seen = Append(f.seen, f.cls), !.bs = bs, !.phase = "cycle"])
              /\ UNCHANGED <<root, exc, mro>>
  /\ UNCHANGED <<casevars, pc, refvars, memvars>>

\* for base in bases: if base.path in seen: raise ValueError(... inheritance cycle detected ...)
MroCycleCheck ==
  /\ InMro /\ Top.phase = "cycle" /\ Tick("MroCycleCheck")
  /\ IF \E i \in 1..Len(Top.bs) : Top.bs[i] \in Range(Top.seen)
     THEN Raise("cycle")
     ELSE /\ stack' = SetTop([Top EXCEPT !.phase = "recurse"]) /\ UNCHANGED <<root, exc, mro>>
  /\ UNCHANGED <<casevars, pc, refvars, memvars>>

\* [base._mro(seen) for base in bases]  - one recursive call per base, `seen` passed down
MroRecurse ==
  /\ InMro /\ Top.phase = "recurse" /\ Top.i <= Len(Top.bs) /\ Tick("MroRecurse")
  /\ stack' = Append(stack, Frame(Top.bs[Top.i], Top.seen))
  /\ UNCHANGED <<casevars, pc, root, exc, mro, refvars, memvars>>

\* c3linear_merge(*linearisations, bases):  result = []; linearizations = _DependencyList(*lists)
MergeStart ==
  /\ InMro /\ Top.phase = "recurse" /\ Top.i > Len(Top.bs) /\ Tick("MergeStart")
  /\ stack' = SetTop([Top EXCEPT !.phase = "merge", !.lists = Append(Top.lins, Top.bs), !.result = <<>>])
  /\ UNCHANGED <<casevars, pc, root, exc, mro, refvars, memvars>>

\* _DependencyList: heads (None for an empty deque), __contains__ = "in the tail of any list", exhausted, remove
Heads(ls) == [j \in 1..Len(ls) |-> IF ls[j] = <<>> THEN NoClass ELSE ls[j][1]]
InTails(x, ls) == \E j \in 1..Len(ls) : \E t \in 2..Len(ls[j]) : ls[j][t] = x
Exhausted(ls) == \A j \in 1..Len(ls) : ls[j] = <<>>
Remove(x, ls) == [j \in 1..Len(ls) |-> IF ls[j] # <<>> /\ ls[j][1] = x THEN Tail(ls[j]) ELSE ls[j]]
\* `for head in heads: if head and (head not in tails)`  - the positions whose head qualifies
GoodHeads(ls) == {j \in 1..Len(ls) : Heads(ls)[j] # NoClass /\ ~InTails(Heads(ls)[j], ls)}
TotalLen(ls) == IF ls = <<>> THEN 0 ELSE LET RECURSIVE Sum(_) Sum(k) == IF k = 0 THEN 0 ELSE Len(ls[k]) + Sum(k - 1) IN Sum(Len(ls))

\* if linearizations.exhausted: return result          (then _mro returns [self, *result])
MergeExhausted ==
  /\ InMro /\ Top.phase = "merge" /\ Exhausted(Top.lists) /\ Tick("MergeExhausted")
  /\ ReturnValue(<<Top.cls>> \o Top.result)
  /\ UNCHANGED <<casevars, pc, refvars, memvars>>
\* first qualifying head: result.append(head); linearizations.remove(head); break
MergePick ==
  /\ InMro /\ Top.phase = "merge" /\ ~Exhausted(Top.lists) /\ GoodHeads(Top.lists) # {} /\ Tick("MergePick")
  /\ LET h == Heads(Top.lists)[Min(GoodHeads(Top.lists))]
     IN  stack' = SetTop([Top EXCEPT !.result = Append(Top.result, h), !.lists = Remove(h, Top.lists)])
  /\ UNCHANGED <<casevars, pc, root, exc, mro, refvars, memvars>>
\* for/else: raise ValueError("Cannot compute C3 linearization")
MergeFail ==
  /\ InMro /\ Top.phase = "merge" /\ ~Exhausted(Top.lists) /\ GoodHeads(Top.lists) = {} /\ Tick("MergeFail")
  /\ Raise("merge")
  /\ UNCHANGED <<casevars, pc, refvars, memvars>>

\* nothing in _mro catches the ValueError: every frame is left in turn
Unwind ==
  /\ pc = "mro" /\ exc # "none" /\ stack # <<>> /\ Tick("Unwind")
  /\ stack' = SubSeq(stack, 1, Len(stack) - 1)
  /\ UNCHANGED <<casevars, pc, root, exc, mro, refvars, memvars>>
MroFailed ==       \* the caller of mro() sees the ValueError
  /\ pc = "mro" /\ exc # "none" /\ stack = <<>> /\ Tick("MroFailed")
  /\ mro' = [mro EXCEPT ![root] = [ok |-> FALSE, order |-> <<>>, why |-> exc]]
  /\ exc' = "none" /\ root' = root + 1
  /\ UNCHANGED <<casevars, pc, stack, refvars, memvars>>
MroAllDone ==
  /\ pc = "mro" /\ exc = "none" /\ stack = <<>> /\ root = N + 1 /\ Tick("MroAllDone")
  /\ pc' = "place"
  /\ UNCHANGED <<casevars, mrovars, refvars, memvars>>

\* ---- members ---------------------------------------------------------------------------------------
PlaceMembers ==
  /\ pc = "place" /\ Tick("PlaceMembers")
  /\ has' \in [Classes -> SUBSET Mem]
  /\ kind' \in [Classes -> [Mem -> job.kinds]]
  /\ \A c \in Classes : \A m \in Mem : m \notin has'[c] => kind'[c][m] = "def"
  /\ pc' = "inh"
  /\ UNCHANGED <<casevars, mrovars, refvars, ic, folding, rev, inh, allm, refattr, delop>>

\* Object.inherited_members of class ic:
\*   try: mro = self.mro()  except ValueError: return {}          inherited_members = {}
InheritedStart ==
  /\ pc = "inh" /\ ic <= N /\ ~folding /\ Tick("InheritedStart")
  /\ IF mro[ic].ok
     THEN /\ folding' = TRUE /\ rev' = Rev(mro[ic].order) /\ ic' = ic       \* reversed(mro)
     ELSE /\ folding' = FALSE /\ rev' = <<>> /\ ic' = ic + 1
  /\ UNCHANGED <<casevars, pc, mrovars, refvars, has, inh, allm, refattr, delop, kind>>
\*   for base in reversed(mro): for name, member in base.members.items():
\*       if name not in self.members: inherited_members[name] = Alias(name, member, parent=self, inherited=True)
\* base.members holds every name bound in the class body, import aliases included (kind[base][m] plays no role here)
InheritedFold ==
  /\ pc = "inh" /\ folding /\ rev # <<>> /\ Tick("InheritedFold")
  /\ LET base == rev[1] IN
     inh' = [inh EXCEPT ![ic] = [m \in Mem |->
                IF m \in has[base] /\ m \notin has[ic]
                THEN [owner |-> base, parent |-> ic, inherited |-> TRUE] ELSE inh[ic][m]]]
  /\ rev' = Tail(rev)
  /\ UNCHANGED <<casevars, pc, mrovars, refvars, has, ic, folding, allm, refattr, delop, kind>>
InheritedReturn ==
  /\ pc = "inh" /\ folding /\ rev = <<>> /\ Tick("InheritedReturn")
  /\ folding' = FALSE /\ ic' = ic + 1
  /\ UNCHANGED <<casevars, pc, mrovars, refvars, has, rev, inh, allm, refattr, delop, kind>>
\* all_members = {**self.inherited_members, **self.members};  __getitem__(name) = all_members[name]
AllMembers ==
  /\ pc = "inh" /\ ic = N + 1 /\ Tick("AllMembers")
  /\ allm' = [c \in Classes |-> [m \in Mem |-> IF m \in has[c] THEN c ELSE inh[c][m].owner]]
  /\ refattr' = [c \in Classes |-> [m \in Mem |-> PyGetattr(c, m)]]
  /\ pc' = "done"
  /\ UNCHANGED <<casevars, mrovars, refvars, has, ic, folding, rev, inh, delop, kind>>

\* DelMembersMixin.__delitem__ (one-part key):
\*     try: del self.members[name]  except KeyError: del self.inherited_members[name]
\* inherited_members builds a fresh dictionary on every access: deleting an inherited name from it has no
\* effect ("noop"), a name that is neither declared nor inherited raises KeyError.  Afterwards the consumer
\* reads inherited_members / all_members again: the machine is run once more on the new placement.
DelItem ==
  /\ pc = "done" /\ job.dodel /\ delop = NoDel /\ Tick("DelItem")
  /\ \E c \in Classes, m \in Mem :
        /\ delop' = [cls |-> c, name |-> m, had |-> m \in has[c],
                     out |-> IF m \in has[c] THEN "deleted" ELSE IF inh[c][m].owner # NoClass THEN "noop" ELSE "KeyError"]
        /\ has' = [has EXCEPT ![c] = @ \ {m}]
  /\ pc' = "inh" /\ ic' = 1 /\ folding' = FALSE /\ rev' = <<>>
  /\ inh' = [c \in Classes |-> [m \in Mem |-> NoAlias]]
  /\ UNCHANGED <<casevars, mrovars, refvars, allm, refattr, kind>>

Next == \/ Reference \/ Extension
        \/ CallMro \/ MroEnter \/ MroCycleCheck \/ MroRecurse \/ MergeStart
        \/ MergeExhausted \/ MergePick \/ MergeFail \/ Unwind \/ MroFailed \/ MroAllDone
        \/ PlaceMembers \/ InheritedStart \/ InheritedFold \/ InheritedReturn \/ AllMembers \/ DelItem
Spec == Init /\ [][Next]_vars

\* ---- properties ------------------------------------------------------------------------------------
Done == pc = "done"
Placed == pc = "place"          \* every mro() has returned or raised; evaluated once per hierarchy
Full(c) == <<c>> \o mro[c].order

\* the order Griffe computes equals CPython's; what CPython refuses (or cannot build: cycles) is uncomputable
SameMRO == Placed => \A c \in Roots :
              /\ mro[c].ok = refmro[c].ok
              /\ mro[c].ok => Full(c) = refmro[c].order
UncomputableIffRejected == Placed => \A c \in Roots : (~mro[c].ok) <=> (refcyc[c] \/ ~refext[c])
CycleReportedOnlyForCycles == Placed => \A c \in Roots : (mro[c].why = "cycle" => refcyc[c]) /\ (refcyc[c] => ~mro[c].ok)
\* the two formulations of the reference agree (functional merge rule  <=>  a consistent ordering exists)
ReferenceCoherent == Placed => \A c \in Classes : refmro[c].ok <=> refext[c]
\* structure of a computed order
EachAncestorOnce == Placed => \A c \in Roots : mro[c].ok =>
                       /\ Injective(Full(c)) /\ Range(mro[c].order) = Anc(c) /\ c \notin Anc(c)
LocalPrecedence == Placed => \A c \in Roots : mro[c].ok => Keeps(LocalBases(c), Full(c))
Monotonic == Placed => \A c \in Roots : mro[c].ok =>
                \A b \in Range(LocalBases(c)) : refmro[b].ok /\ Keeps(refmro[b].order, Full(c))
\* recursion and merge are bounded
StackBounded == /\ Len(stack) <= N
                /\ \A d \in 1..Len(stack) : Injective(stack[d].seen) /\ Len(stack[d].seen) <= N
Terminates == steps <= StepBound
MergeProgress ==     \* every round of the merge loop removes an element
  [][(InMro /\ Top.phase = "merge" /\ stack' # <<>> /\ Len(stack') = Len(stack) /\ exc' = "none")
        => TotalLen(stack'[Len(stack')].lists) < TotalLen(Top.lists)]_vars

\* inherited members are what CPython's attribute look-up finds through that order
InheritedIsGetattr == Done => \A c \in Roots : refmro[c].ok => \A m \in Mem :
                         inh[c][m].owner = (IF m \in has[c] THEN NoClass ELSE FirstDeclaring(Tail(refmro[c].order), m))
AllMembersIsGetattr == Done => \A c \in Roots : refmro[c].ok => \A m \in Mem : allm[c][m] = refattr[c][m]
NeverShadowsDeclared == Done => \A c \in Roots : \A m \in Mem : inh[c][m].owner # NoClass => m \notin has[c]
InheritedAliasShape == Done => \A c \in Roots : \A m \in Mem : inh[c][m].owner # NoClass =>
                          /\ inh[c][m].parent = c /\ inh[c][m].inherited       \* path = path(c).m
                          /\ inh[c][m].owner \in Range(mro[c].order) /\ m \in has[inh[c][m].owner]
\* CPython's `del C.m` removes m only from C's own namespace (AttributeError otherwise): whatever del cls[m] did,
\* no other class lost a member, only a declared member disappears, and (the invariants above, evaluated again
\* on the new placement) the inherited members are once more what getattr finds - a deleted own definition
\* uncovers the next one of the MRO.
DelTouchesOnlyOwnMember == (Done /\ delop # NoDel) => (delop.out = "deleted") = delop.had
DelFinished == job.dodel \/ delop = NoDel
NothingWhenUncomputable == Done => \A c \in Roots : ~mro[c].ok => \A m \in Mem : inh[c][m] = NoAlias

AllActions == {"Reference", "Extension", "CallMro", "MroEnter", "MroCycleCheck", "MroRecurse", "MergeStart", "MergeExhausted",
               "MergePick", "MergeFail", "Unwind", "MroFailed", "MroAllDone", "PlaceMembers", "InheritedStart", "InheritedFold",
               "InheritedReturn", "AllMembers", "DelItem"}
EmitCase ==
  (Emit /\ Done /\ (job.dodel => delop # NoDel)) =>
     PrintT(<<"CASE", ToJson([job |-> job.name, n |-> N, domain |-> Domain, bases |-> bases, layout |-> layout, cut |-> cut,
                              mods |-> [c \in Classes |-> ModOf(c)],
                              views |-> [c \in Classes |-> AliasViews(c)],
                              has |-> has, mro |-> mro, ref |-> refmro, cyc |-> refcyc,
                              inh |-> inh, attr |-> refattr, delop |-> delop, kind |-> kind, unfired |-> AllActions \ fired])>>)
=============================================================================
