-------------------------------- MODULE Tree --------------------------------
(***************************************************************************)
(* The object tree of Griffe (core module of the specification).           *)
(*                                                                         *)
(* C16 - object-tree invariants hold after any history of member           *)
(* mutations.  Shape P: the state is the tree (members dictionaries,       *)
(* parent pointers, alias targets, back-references); every action is one   *)
(* call of the public mutation API of _griffe.mixins / _griffe.models:     *)
(*    SetMember    obj.set_member(key, v)   (producer API, with the        *)
(*                 replacement branch that re-targets aliases)             *)
(*    SetItem      obj[key] = v             (consumer API)                 *)
(*    DelMember    obj.del_member(key)       DelItem   del obj[key]        *)
(*    SetTarget    alias.target = v                                        *)
(*    Resolve      alias.resolve_target()   (one link; chains: Alias.tla)  *)
(* keys are relative paths (dotted string, tuple or list in the code: the  *)
(* replay harness cycles through the three spellings).                     *)
(*                                                                         *)
(* The model follows the code statement by statement, including what the   *)
(* code does *not* do: a replaced or deleted member keeps its stale        *)
(* parent pointer, back-references are never removed, alias.target_path is *)
(* computed from the value's path before the value is attached, and a      *)
(* write through an alias component lands in the transient dictionary      *)
(* built by Alias.members (LostWrite).                                     *)
(***************************************************************************)
EXTENDS Naturals, Sequences, FiniteSets, TLC, Json

CONSTANTS Gen,        \* "none": exhaustive check; "trans": hist = last transition [pre, op, post], printed for
                      \* every transition (one implementation test per transition); "hist": full history, printed
                      \* when it reaches MaxDepth (used with -simulate for long random behaviours)
          MaxDepth,   \* bound on history length (CONSTRAINT)
          WithLost,   \* TRUE: allow writes through alias components (exhibits the known C16 defect)
          Skip,       \* objects left out of this run (never inserted, never used as root): slices of the universe
          Seeds,      \* which initial trees to start from: subset of {1, 2, 3}
          TopDown     \* TRUE: histories build the tree top-down (insert only into attached containers,
                      \*       only values without members); FALSE: sub-trees may be assembled detached and
                      \*       attached / moved later (exhibits stale back-reference paths)

Nil == "nil"
COLL == "COLL"
\* m2 is a second module named "m" whose file is m.pyi (stubs of m1); a3 is an alias named "K" (it can
\* occupy the key a class occupies elsewhere, so that `value.path == alias.path` refusals are reachable)
Obj == {"m1", "m2", "n1", "k1", "k2", "f1", "f2", "x1", "a1", "a2", "a3"}
AliasObj == {"a1", "a2", "a3"}
NameOf == [m1 |-> "m", m2 |-> "m", n1 |-> "n", k1 |-> "K", k2 |-> "K", f1 |-> "f", f2 |-> "f", x1 |-> "x",
           a1 |-> "a", a2 |-> "a", a3 |-> "K"]
KindOf == [m1 |-> "module", m2 |-> "module", n1 |-> "module", k1 |-> "class", k2 |-> "class", f1 |-> "function",
           f2 |-> "function", x1 |-> "attribute", a1 |-> "alias", a2 |-> "alias", a3 |-> "alias"]
IsStub == [o \in Obj |-> o = "m2"]             \* filepath suffix .pyi
\* (a1 and a2 share a name, like k1/k2 and f1/f2: an alias can be deleted and re-created at the same key)
Names == {"m", "n", "K", "f", "x", "a"}
Cont == {COLL, "m1", "m2", "n1", "k1", "k2"}    \* containers whose members dict is real state
\* initial target paths the aliases may be created with
TargetPaths == [a1 : {<<"m", "K">>}, a2 : {<<"m", "K", "f">>, <<"m", "a">>, <<"m">>, <<"m", "K">>}, a3 : {<<"m", "K">>}]

CanHold(c, v) ==
  CASE c = COLL -> KindOf[v] = "module"
    [] KindOf[c] = "module" -> KindOf[v] \in {"class", "function", "attribute", "alias"}
    [] KindOf[c] = "class" -> KindOf[v] \in {"function", "attribute", "alias"}
    [] OTHER -> FALSE

VARIABLES members,   \* [Cont -> [Names -> Obj \cup {Nil}]]
          parent,    \* [Obj -> Cont \cup AliasObj \cup {Nil}]   the parent attribute (stale values included)
          atarget,   \* [AliasObj -> Obj \cup {Nil}]             Alias._target
          atpath,    \* [AliasObj -> Seq(Names)]                 Alias.target_path
          backrefs,  \* [Obj -> Seq(Seq(Names) \X AliasObj)] Object.aliases: an insertion-ordered dict path -> alias
                     \* (order matters: set_member iterates it), non-alias objects only
          outcome,   \* result class of the last call
          lastop,    \* the last call [name, root, key, value]
          hist       \* Gen only: sequence of [op, args, post-state]
treevars == <<members, parent, atarget, atpath, backrefs>>
vars == <<treevars, outcome, lastop, hist>>

\* ---- derived notions (transcriptions of path / lookup) -------------------------------------------
RECURSIVE PathIn(_, _, _)
PathIn(par, o, fuel) ==  \* Object.path / Alias.path: parent's path + name (top-level: name alone)
  IF fuel = 0 \/ par[o] = Nil \/ par[o] = COLL THEN <<NameOf[o]>>
  ELSE PathIn(par, par[o], fuel - 1) \o <<NameOf[o]>>
PathOf(o, fuel) == PathIn(parent, o, fuel)
Path(o) == PathOf(o, 5)

IsMember(o) == o \in Obj /\ \E c \in Cont : members[c][NameOf[o]] = o
Attached(o) ==           \* reachable from the collection through members
  IF o \notin Obj THEN FALSE ELSE
  \/ members[COLL][NameOf[o]] = o
  \/ \E c \in Cont \ {COLL} : members[c][NameOf[o]] = o /\ members[COLL][NameOf[c]] = c
  \/ \E c \in Cont \ {COLL}, d \in Cont \ {COLL} :
        members[c][NameOf[o]] = o /\ members[d][NameOf[c]] = c /\ members[COLL][NameOf[d]] = d

RECURSIVE FinalOf(_, _)
FinalOf(o, fuel) ==      \* Alias.final_target restricted to already-resolved chains (Nil when not resolved / cyclic)
  IF o = Nil THEN Nil
  ELSE IF KindOf[o] # "alias" THEN o
  ELSE IF fuel = 0 THEN Nil ELSE FinalOf(atarget[o], fuel - 1)
Final(o) == FinalOf(o, 3)

\* get_member(parts) from container c.  Result: [obj, err, via] - `via` = an alias component was
\* crossed (the real result is then a transient wrapper alias around obj).
RECURSIVE Walk(_, _, _)
Walk(c, parts, via) ==
  IF parts = <<>> THEN [obj |-> c, err |-> "ok", via |-> via]
  ELSE
    LET holder == IF c = COLL THEN COLL ELSE IF KindOf[c] = "alias" THEN Final(c) ELSE c
    IN IF holder = Nil THEN [obj |-> Nil, err |-> "AliasError", via |-> via]
       ELSE IF holder \notin Cont THEN [obj |-> Nil, err |-> "KeyError", via |-> via]      \* functions/attributes: empty members
       ELSE LET nxt == members[holder][Head(parts)]
            IN IF nxt = Nil THEN [obj |-> Nil, err |-> "KeyError", via |-> via]
               ELSE Walk(nxt, Tail(parts), via \/ (c # COLL /\ KindOf[c] = "alias"))
Lookup(c, parts) == Walk(c, parts, FALSE)

Front(s) == SubSeq(s, 1, Len(s) - 1)
Last(s) == s[Len(s)]

\* ancestors of a container through *members* (cycle prevention for legal insertions)
RECURSIVE Inside(_, _, _)
Inside(o, c, fuel) ==     \* is container c inside object o (or o itself)?
  \/ o = c
  \/ fuel > 0 /\ o \in Cont /\ \E n \in Names : members[o][n] # Nil /\ Inside(members[o][n], c, fuel - 1)

\* dict assignment aliases[p] = a: an existing key keeps its position, a new key is appended
AddRef(refs, p, a) ==
  IF \E i \in 1..Len(refs) : refs[i][1] = p
    THEN [i \in 1..Len(refs) |-> IF refs[i][1] = p THEN <<p, a>> ELSE refs[i]]
    ELSE Append(refs, <<p, a>>)
InRefs(refs, p, a) == \E i \in 1..Len(refs) : refs[i] = <<p, a>>

\* ---- alias.target = v  (the setter), as a state function ---------------------------------------------
\* returns the new <<atarget, atpath, backrefs, result>> given current ones; pv = path of v at call time
TargetSet(at, ap, br, a, v, pa, pv) ==
  IF v = a \/ pv = pa THEN <<at, ap, br, "Cyclic">>
  ELSE LET fin == IF KindOf[v] = "alias" THEN FinalOf(v, 3) ELSE v IN
       <<[at EXCEPT ![a] = v], [ap EXCEPT ![a] = pv],
         IF parent[a] # Nil /\ fin # Nil THEN [br EXCEPT ![fin] = AddRef(@, pa, a)] ELSE br, "ok">>

\* ---- history ----------------------------------------------------------------------------------------------
Snapshot(m, p, at, ap, br, out) ==
  [members |-> m, parent |-> p, atarget |-> at, atpath |-> ap,
   backrefs |-> [o \in Obj |-> [i \in 1..Len(br[o]) |-> [path |-> br[o][i][1], alias |-> br[o][i][2]]]], outcome |-> out]
\* `rare` tells whether the call exercised a rarely reached branch (re-targeting loop with something to
\* re-target, stub merge, a refused re-targeting); Gen = "rare" prints only those transitions and is
\* used with VIEW TreeView at depths where printing every transition would be too much.
LogR(op, m, p, at, ap, br, out, rare) ==
  /\ lastop' = op
  /\ hist' = CASE Gen = "hist" -> Append(hist, [op |-> op, post |-> Snapshot(m, p, at, ap, br, out)])
               [] Gen = "trans" \/ (Gen = "rare" /\ rare) ->
                     <<[pre |-> Snapshot(members, parent, atarget, atpath, backrefs, outcome),
                        op |-> op, post |-> Snapshot(m, p, at, ap, br, out)]>>
               [] Gen = "rare" -> <<>>
               [] OTHER -> hist
Log(op, m, p, at, ap, br, out) == LogR(op, m, p, at, ap, br, out, FALSE)

Fail(op, err) ==
  /\ UNCHANGED treevars /\ outcome' = err
  /\ Log(op, members, parent, atarget, atpath, backrefs, err)

\* ---- legal values ---------------------------------------------------------------------------------------
\* The documented use: the inserted value is fresh or currently detached (not a member of anything),
\* its name is the last key part, and it is not an ancestor of the container it goes into.
Detached(v) == ~IsMember(v)
\* aliases handed to the API are unresolved or resolved to a non-alias (chains are Alias.tla's business)
SimpleAlias(v) == IF KindOf[v] # "alias" THEN TRUE ELSE IF atarget[v] = Nil THEN TRUE ELSE KindOf[atarget[v]] # "alias"

\* Removing (deleting or replacing) a resolved alias never unregisters it from its target: the removed
\* alias stays in `target.aliases`, a later replacement of the target re-targets it too and thereby
\* re-registers it under its old path - possibly overwriting the entry of the alias that took its place
\* (the FIXME above DelMembersMixin in mixins.py).  The clean domain does not remove resolved aliases.
HoldsResolvedAlias(o) ==
  IF o = Nil THEN FALSE
  ELSE IF KindOf[o] = "alias" THEN atarget[o] # Nil
  ELSE IF o \notin Cont THEN FALSE
  ELSE \E n \in Names : IF members[o][n] = Nil THEN FALSE
                         ELSE IF KindOf[members[o][n]] = "alias" THEN atarget[members[o][n]] # Nil ELSE FALSE

\* ---- set_member / __setitem__ ---------------------------------------------------------------------------
\* merge_stubs(member, value) as far as the tree structure goes (annotations/docstrings: Merge.tla):
\* members that exist only in the stubs module are moved into the regular module by set_member
\* (their parent is re-set; they are NOT removed from the stubs module's dict), and a class present on
\* both sides is merged the same way one level down.  Returns <<members, parent>>.
MergeInto(m, p, keep, stubs) ==
  LET top == {n \in Names : m[stubs][n] # Nil /\ m[keep][n] = Nil}
      both == {n \in Names : IF m[stubs][n] = Nil \/ m[keep][n] = Nil THEN FALSE
                                ELSE KindOf[m[stubs][n]] = "class" /\ KindOf[m[keep][n]] = "class"}
      mA == [m EXCEPT ![keep] = [n \in Names |-> IF n \in top THEN m[stubs][n] ELSE @[n]]]
      pA == [o \in Obj |-> IF \E n \in top : m[stubs][n] = o THEN keep ELSE p[o]]
  IN IF both = {} THEN <<mA, pA>>
     ELSE LET n == CHOOSE x \in both : TRUE            \* at most one class name ("K") in this universe
              kk == m[keep][n]   ks == m[stubs][n]
              mv == {n2 \in Names : m[ks][n2] # Nil /\ m[kk][n2] = Nil}
          IN <<[mA EXCEPT ![kk] = [n2 \in Names |-> IF n2 \in mv THEN m[ks][n2] ELSE @[n2]]],
               [o \in Obj |-> IF \E n2 \in mv : m[ks][n2] = o THEN kk ELSE pA[o]]>>
\* the merge dereferences a runtime-side alias that has a stub counterpart (C19's defect) and re-parents
\* moved aliases (back-reference update): both are kept out of this module's domain
MergeLegal(keep, stubs) ==
  /\ \A n \in Names : IF members[stubs][n] = Nil \/ members[keep][n] = Nil THEN TRUE
                        ELSE KindOf[members[keep][n]] # "alias"
  /\ \A n \in Names : IF members[stubs][n] = Nil THEN TRUE
                        ELSE IF KindOf[members[stubs][n]] = "alias" THEN atarget[members[stubs][n]] = Nil
                        ELSE IF KindOf[members[stubs][n]] # "class" THEN TRUE
                        ELSE \A n2 \in Names : IF members[members[stubs][n]][n2] = Nil THEN TRUE
                                                ELSE IF KindOf[members[members[stubs][n]][n2]] = "alias"
                                                       THEN atarget[members[members[stubs][n]][n2]] = Nil ELSE TRUE

\* single-part write into the real container c (after the key's prefix was walked)
Place(op, c, v, producer) ==
  LET nm == NameOf[v]
      old == members[c][nm]
      \* producer API, a module re-assigned over a module with another file: implicit stub merge; the
      \* value that gets stored is the regular module (which may be the existing member itself)
      merging == IF ~producer \/ old = Nil \/ c # COLL THEN FALSE
                 ELSE KindOf[old] = "module" /\ KindOf[v] = "module" /\ IsStub[old] # IsStub[v]
      keep == IF merging /\ IsStub[v] THEN old ELSE v
      stubs == IF merging THEN (IF IsStub[v] THEN v ELSE old) ELSE Nil
      mg == IF merging THEN MergeInto(members, parent, keep, stubs) ELSE <<members, parent>>
      pv == IF keep = old THEN Path(keep) ELSE Path(v)    \* value.path BEFORE it is attached (what the code reads)
      \* producer API, replacement of a non-alias member: every alias listed on the old member is
      \* re-targeted onto the (merged) value, in dictionary order, CyclicAliasError suppressed per alias
      refs == IF producer /\ old # Nil /\ (IF old = Nil THEN FALSE ELSE KindOf[old] # "alias") THEN backrefs[old] ELSE <<>>
      \* When the value is an alias whose final target is the replaced member itself, `alias.target = value`
      \* registers the alias in value.aliases = old.aliases - the very dictionary being iterated.  If that
      \* adds a key (the alias now lives under another path than the one it is listed under), the next step
      \* of the iteration raises RuntimeError("dictionary changed size during iteration"): the aliases
      \* handled so far stay re-targeted, nothing else happens (acc[4] = crashed).
      selfloop == IF old = Nil \/ KindOf[v] # "alias" THEN FALSE ELSE FinalOf(v, 3) = old
      RECURSIVE fold(_, _)
      fold(acc, i) == IF i > Len(refs) \/ acc[4] THEN acc
                      ELSE LET a == refs[i][2]
                               r == TargetSet(acc[1], acc[2], acc[3], a, keep, Path(a), pv)
                               grew == selfloop /\ r[4] = "ok" /\ Len(r[3][old]) > Len(acc[3][old])
                           IN fold(<<r[1], r[2], r[3], grew>>, i + 1)
      r1 == fold(<<atarget, atpath, backrefs, FALSE>>, 1)
      m2 == [mg[1] EXCEPT ![c][nm] = keep]
      p2 == IF c = COLL THEN mg[2] ELSE [mg[2] EXCEPT ![v] = c]
      \* Alias.parent setter -> _update_target_aliases (errors suppressed); the new path uses p2
      newpath == IF c = COLL THEN <<nm>> ELSE IF p2[c] = Nil THEN <<NameOf[c], nm>> ELSE PathOf(c, 5) \o <<nm>>
      fin == IF KindOf[v] = "alias" THEN FinalOf(atarget[v], 3) ELSE Nil
      br2 == IF KindOf[v] = "alias" /\ c # COLL /\ fin # Nil
               THEN [r1[3] EXCEPT ![fin] = AddRef(@, newpath, v)] ELSE r1[3]
  IN \* re-targeting onto an unresolved alias dereferences it (value.aliases): not a legal value here
     \* (and reads value.path, which needs the alias to have - or have had - a parent)
     /\ (IF Len(refs) > 0 /\ KindOf[v] = "alias" THEN atarget[v] # Nil /\ parent[v] # Nil ELSE TRUE)
     /\ (IF merging THEN MergeLegal(keep, stubs) ELSE TRUE)
     /\ (TopDown => ~HoldsResolvedAlias(old))
     /\ IF r1[4]
          THEN /\ UNCHANGED <<members, parent>> /\ atarget' = r1[1] /\ atpath' = r1[2] /\ backrefs' = r1[3]
               /\ outcome' = "RuntimeError"
               /\ LogR(op, members, parent, r1[1], r1[2], r1[3], "RuntimeError", TRUE)
          ELSE /\ members' = m2 /\ parent' = p2 /\ atarget' = r1[1] /\ atpath' = r1[2] /\ backrefs' = br2
               /\ outcome' = "ok"
               /\ LogR(op, m2, p2, r1[1], r1[2], br2, "ok", Len(refs) >= 1 \/ merging \/ (KindOf[v] = "alias" /\ fin # Nil))

\* a write whose key crosses an alias component: Alias.set_member works on the dictionary freshly
\* built by Alias.members; the value gets the alias as parent and is stored nowhere
LostWrite(op, al, v) ==
  LET p2 == [parent EXCEPT ![v] = al]
  IN /\ parent' = p2 /\ UNCHANGED <<members, atarget, atpath, backrefs>> /\ outcome' = "ok"
     /\ Log(op, members, p2, atarget, atpath, backrefs, "ok")

SetOp(producer) ==
  \E root \in Cont, v \in Obj, prefix \in {<<>>} \cup {<<n>> : n \in Names} \cup {<<n1, n2>> : n1 \in Names, n2 \in Names} :
    LET op == [name |-> IF producer THEN "set_member" ELSE "setitem", root |-> root, key |-> prefix \o <<NameOf[v]>>, value |-> v]
        w == Lookup(root, prefix)
    IN /\ v \notin Skip /\ root \notin Skip
       /\ Detached(v) /\ SimpleAlias(v)
       /\ (root \in {COLL, "m1", "k1"} \/ IsMember(root))                \* attached roots and a few detached ones
       /\ \/ /\ w.err = "KeyError"                                       \* missing prefix component
             /\ prefix \in {<<"x">>, <<"K">>, <<"m", "K">>}                 \* (keep the failing branch small:
             /\ v = CHOOSE u \in Obj : Detached(u) /\ SimpleAlias(u)       \*  one value, three prefixes)
             /\ Fail(op, "KeyError")
          \/ /\ w.err = "ok" /\ ~w.via /\ w.obj \in Cont
             /\ CanHold(w.obj, v) /\ ~Inside(v, w.obj, 4)
             /\ (TopDown => ( /\ (w.obj = COLL \/ Attached(w.obj))
                              /\ parent[v] = Nil        \* a fresh value (re-insertion of a removed object = a move: free domain)
                              /\ (IF v \in Cont THEN \A n \in Names : members[v][n] = Nil ELSE TRUE)))
             /\ (w.obj = COLL => prefix = <<>>)
             /\ Place(op, w.obj, v, producer)
          \/ /\ WithLost /\ prefix # <<>> /\ w.err = "ok" /\ ~w.via /\ w.obj \in AliasObj
             /\ Final(w.obj) # Nil /\ Final(w.obj) \in Cont
             /\ KindOf[v] \in {"function", "attribute"}
             /\ LostWrite(op, w.obj, v)

\* ---- del_member / __delitem__ ---------------------------------------------------------------------------
DelOp(producer) ==
  \E root \in Cont, key \in {<<n>> : n \in Names} \cup {<<n1, n2>> : n1 \in Names, n2 \in Names}
                          \cup {<<n1, n2, n3>> : n1 \in {"m", "n"}, n2 \in {"K"}, n3 \in Names} :
    LET op == [name |-> IF producer THEN "del_member" ELSE "delitem", root |-> root, key |-> key, value |-> Nil]
        w == Lookup(root, Front(key))
    IN /\ (root = COLL \/ IsMember(root))
       /\ \/ /\ w.err = "ok" /\ ~w.via /\ w.obj \in Cont /\ members[w.obj][Last(key)] # Nil
             /\ (TopDown => ~HoldsResolvedAlias(members[w.obj][Last(key)]))
             /\ LET m2 == [members EXCEPT ![w.obj][Last(key)] = Nil]
                IN /\ members' = m2 /\ UNCHANGED <<parent, atarget, atpath, backrefs>> /\ outcome' = "ok"
                   /\ Log(op, m2, parent, atarget, atpath, backrefs, "ok")
          \/ /\ (w.err = "KeyError" \/ (w.err = "ok" /\ ~w.via /\ w.obj \in Cont /\ members[w.obj][Last(key)] = Nil))
             /\ key \in {<<"x">>, <<"m", "x">>, <<"m", "K", "f">>, <<"K">>}
             \* `del collection[missing]` falls back to self.inherited_members, which a ModulesCollection
             \* does not have: AttributeError instead of KeyError (faithful to the code, not a C16 clause)
             /\ Fail(op, IF ~producer /\ root = COLL /\ Len(key) = 1 THEN "AttributeError" ELSE "KeyError")

\* ---- alias.target = v ------------------------------------------------------------------------------------
SetTarget ==
  \E a \in AliasObj, v \in Obj :
    LET op == [name |-> "set_target", root |-> a, key |-> <<>>, value |-> v]
        r == TargetSet(atarget, atpath, backrefs, a, v, Path(a), Path(v))
    IN /\ a \notin Skip /\ v \notin Skip
       /\ SimpleAlias(v) /\ (IF KindOf[v] = "alias" /\ v # a THEN atarget[v] # Nil /\ parent[v] # Nil ELSE TRUE)
       \* the clean domain sets the target of an unresolved alias only: re-targeting leaves a stale
       \* back-reference on the old target (a later replacement of that old target then hijacks the
       \* alias), and re-targeting the middle link of a chain leaves the outer alias listed on the
       \* old final target only; the free mode explores both
       /\ (TopDown => (atarget[a] = Nil /\ \A b \in AliasObj : atarget[b] # a))
       /\ IF parent[a] = Nil
          \* an alias that was never inserted has no path: `value is self` is tested first (CyclicAliasError),
          \* then `value.path == self.path` dereferences the missing parent (AttributeError) - in both cases
          \* BEFORE anything is assigned, so the refused call leaves the alias untouched (faithful to the
          \* code; the exception class is not a C16 clause, the unchanged state is: I7 / Fail)
          THEN Fail(op, IF v = a THEN "Cyclic" ELSE "AttributeError")
          ELSE
           /\ (TopDown => Attached(a))          \* (clean domain: aliases that are in the tree; a removed alias
                                                \*  still has its parent pointer and would register under a path
                                                \*  that may now belong to its successor)
           /\ IF r[4] = "Cyclic" THEN Fail(op, "Cyclic")
              ELSE /\ atarget' = r[1] /\ atpath' = r[2] /\ backrefs' = r[3] /\ UNCHANGED <<members, parent>>
                   /\ outcome' = "ok" /\ Log(op, members, parent, r[1], r[2], r[3], "ok")

\* ---- alias.resolve_target()  (single link) -----------------------------------------------------------------
Resolve ==
  \E a \in AliasObj :
    LET op == [name |-> "resolve", root |-> a, key |-> <<>>, value |-> Nil]
        w == Lookup(COLL, atpath[a])
    IN /\ a \notin Skip /\ Attached(a)
       \* clean domain: first resolution only (re-resolving a link leaves stale back-references, and
       \* re-resolving the middle link of a chain leaves the outer alias listed on the old target)
       /\ (TopDown => (atarget[a] = Nil /\ \A b \in AliasObj : atarget[b] # a))
       \* (a target path that crosses an unresolved alias triggers a nested lazy resolution: Alias.tla)
       /\ w.err \in {"ok", "KeyError"}
       /\ IF w.err # "ok" THEN Fail(op, "AliasResolutionError")
          ELSE IF w.obj = a THEN Fail(op, "Cyclic")
          ELSE IF KindOf[w.obj] = "alias" /\ atarget[w.obj] = Nil
          \* the next link b is itself an unresolved alias: _resolve_target resolves it first (lazy, nested
          \* resolve_target; one level of nesting is modelled, deeper chains are Alias.tla's), b registers
          \* itself on the final target, THEN a registers itself there as well (under its own path) and
          \* only then binds its target.  A link that cannot be resolved leaves both untouched.
          THEN LET b == w.obj
                   w2 == Lookup(COLL, atpath[b])
               IN /\ ~w.via
                  /\ (TopDown => \A c \in AliasObj : atarget[c] # b)
                  /\ w2.err \in {"ok", "KeyError"}
                  /\ IF w2.err # "ok" THEN Fail(op, "AliasResolutionError")
                     ELSE IF w2.obj = b \/ w2.obj = a THEN Fail(op, "Cyclic")   \* b -> b, or a -> b -> a (passed-through guard)
                     ELSE /\ ~w2.via
                          /\ (IF KindOf[w2.obj] # "alias" THEN TRUE ELSE IF atarget[w2.obj] = Nil THEN FALSE ELSE KindOf[atarget[w2.obj]] # "alias")
                          /\ LET fin == Final(w2.obj)
                                 at2 == [atarget EXCEPT ![b] = w2.obj, ![a] = b]
                                 br2 == [backrefs EXCEPT ![fin] = AddRef(AddRef(@, Path(b), b), Path(a), a)]
                             IN /\ atarget' = at2 /\ backrefs' = br2 /\ UNCHANGED <<members, parent, atpath>>
                                /\ outcome' = "ok" /\ LogR(op, members, parent, at2, atpath, br2, "ok", TRUE)
          ELSE /\ ~w.via
               /\ (IF KindOf[w.obj] # "alias" THEN TRUE ELSE KindOf[atarget[w.obj]] # "alias")
               /\ LET fin == Final(w.obj)
                      at2 == [atarget EXCEPT ![a] = w.obj]
                      br2 == [backrefs EXCEPT ![fin] = AddRef(@, Path(a), a)]
                  IN /\ atarget' = at2 /\ backrefs' = br2 /\ UNCHANGED <<members, parent, atpath>>
                     /\ outcome' = "ok" /\ Log(op, members, parent, at2, atpath, br2, "ok")

\* Two initial trees: the empty collection, and a small package already built top-down
\*   COLL{m: m1}   m1{K: k1, a: a1}   k1{f: f1}      (n1, k2, f2, x1, a2 detached)
EmptyMembers == [c \in Cont |-> [n \in Names |-> Nil]]
SeedMembers == [EmptyMembers EXCEPT ![COLL]["m"] = "m1", !["m1"]["K"] = "k1", !["m1"]["a"] = "a1", !["k1"]["f"] = "f1"]
SeedParent == [[o \in Obj |-> Nil] EXCEPT !["k1"] = "m1", !["a1"] = "m1", !["f1"] = "k1"]

\* a third tree where k1 already has two resolved aliases, registered in this order: n.K (a3), m.a (a1)
\*   COLL{m: m1, n: n1}   m1{K: k1, a: a1 -> k1}   n1{K: a3 -> k1}   k1{f: f1}
Seed3Members == [SeedMembers EXCEPT ![COLL]["n"] = "n1", !["n1"]["K"] = "a3"]
Seed3Parent == [SeedParent EXCEPT !["a3"] = "n1"]

Init ==
  /\ \/ 1 \in Seeds /\ members = EmptyMembers /\ parent = [o \in Obj |-> Nil] /\ atarget = [a \in AliasObj |-> Nil]
        /\ backrefs = [o \in Obj |-> <<>>]
     \* (a2 may have been constructed with an object target - Alias("a", target=k1) - i.e. be resolved
     \*  before it is ever inserted; its target_path is then the target's path: see Init's last conjunct)
     \/ 2 \in Seeds /\ members = SeedMembers /\ parent = SeedParent
        /\ atarget \in {[a \in AliasObj |-> Nil], [a \in AliasObj |-> IF a = "a2" THEN "k1" ELSE Nil]}
        /\ backrefs = [o \in Obj |-> <<>>]
     \/ 3 \in Seeds /\ members = Seed3Members /\ parent = Seed3Parent
        /\ atarget \in {[a \in AliasObj |-> IF a \in {"a1", "a3"} THEN "k1" ELSE Nil],
                         [a \in AliasObj |-> "k1"]}
        /\ backrefs = [o \in Obj |-> IF o = "k1" THEN << <<<<"n", "K">>, "a3">>, <<<<"m", "a">>, "a1">> >> ELSE <<>>]
  /\ atpath \in TargetPaths
  /\ (atarget["a2"] # Nil => atpath["a2"] = <<"m", "K">>)
  /\ outcome = "ok" /\ lastop = [name |-> "init", root |-> Nil, key |-> <<>>, value |-> Nil]
  /\ hist = IF Gen = "hist" THEN <<[op |-> [name |-> "init", root |-> Nil, key |-> <<>>, value |-> Nil],
                                    post |-> Snapshot(members, parent, atarget, atpath, backrefs, "ok")]>> ELSE <<>>

Next == SetOp(TRUE) \/ SetOp(FALSE) \/ DelOp(TRUE) \/ DelOp(FALSE) \/ SetTarget \/ Resolve
Spec == Init /\ [][Next]_vars

\* outcome / lastop / hist are observation variables: no action reads them.  The exhaustive check
\* identifies states by the tree alone.
TreeView == treevars
DepthBound == IF Gen = "hist" THEN Len(hist) <= MaxDepth ELSE TLCGet("level") <= MaxDepth

\* ---- the properties of C16 ------------------------------------------------------------------------------
\* I1  every member's parent is its container, for containers in the tree (collection members have no
\*     parent requirement; a stubs module that was merged away keeps its old dict and is not in the tree)
I1_ParentIsContainer ==
  \A c \in Cont \ {COLL}, n \in Names : (members[c][n] # Nil /\ Attached(c)) => parent[members[c][n]] = c
\* I2  every attached object is retrievable from the collection by its own path
I2_RetrievableByPath ==
  \A o \in Obj : Attached(o) => LET w == Lookup(COLL, Path(o)) IN w.err = "ok" /\ w.obj = o /\ ~w.via
\* I2' an object inserted through the API (parent set by it) and not deleted is retrievable.  A lost
\*     write leaves an object whose parent is an alias and which is retrievable nowhere.
I2_NoLostWrite == \A o \in Obj : parent[o] \notin AliasObj
\* I4  a deleted / absent key is not retrievable (Lookup is the transcription of get_member)
I4_DeletedIsGone ==
  \A c \in Cont, n \in Names : members[c][n] = Nil => Lookup(c, <<n>>).err = "KeyError"
\* I6  every resolved, attached alias is listed among its final target's aliases under its current path
I6_BackrefListed ==
  \A a \in AliasObj : (Attached(a) /\ atarget[a] # Nil /\ Final(a) # Nil) => InRefs(backrefs[Final(a)], Path(a), a)
\* I7  an alias never targets itself (directly or through the other alias)
I7_NoSelfTarget == \A a \in AliasObj : atarget[a] # a /\ Final(a) # a
\* I5  (action property) after set_member stored a value at a key that held a non-alias member o, every
\*     attached alias that pointed at o points at the value now stored there (the replacement - or o
\*     itself when the implicit stub merge kept it), unless that would make the alias target itself
\*     (same object or same path)
I5_FollowReplacement ==
  [][(lastop'.name = "set_member" /\ outcome' = "ok") =>
       \A c \in Cont, n \in Names, a \in AliasObj :
         LET old == members[c][n]  new == members'[c][n]  val == lastop'.value IN
         ( /\ old # Nil /\ new # Nil
           /\ (IF old = Nil THEN FALSE ELSE KindOf[old] # "alias")
           /\ NameOf[val] = n /\ val # old
           \* the call wrote to this very key: the stored value changed, or it is the stub-merge case
           \* (a stubs module set over its regular module at the collection: the regular module stays)
           /\ \/ new # old
              \/ (c = COLL /\ lastop'.root = COLL /\ lastop'.key = <<n>> /\ KindOf[val] = "module")
           /\ Attached(a) /\ Final(a) = old /\ InRefs(backrefs[old], Path(a), a) )
         \* (paths as they are AFTER the call: a value re-inserted with a stale parent pointer may have had,
         \*  before the call, the very path of an alias sitting at its old location - the code then refuses
         \*  the re-targeting although nothing would target itself; free domain only, recorded defect)
         => (atarget'[a] = new \/ a = new \/ PathIn(parent', new, 5) = PathIn(parent', a, 5))]_vars
\* members dictionaries hold objects under their own name only, and an object is a member of at most one container
WellKeyed == \A c \in Cont, n \in Names : members[c][n] # Nil => NameOf[members[c][n]] = n
\* (a stubs module that was merged away keeps its dict: only containers still in the tree count)
SingleContainer == \A o \in Obj : Cardinality({c \in Cont : members[c][NameOf[o]] = o /\ (c = COLL \/ Attached(c))}) <= 1

\* behaviours for replay: printed when the history reaches its bound (exhaustive gen and -simulate alike)
EmitHist ==
  /\ (Gen = "hist" /\ Len(hist) = MaxDepth + 1) => PrintT(<<"CASE", ToJson([hist |-> hist])>>)
  /\ (Gen \in {"trans", "rare"} /\ Len(hist) = 1) => PrintT(<<"CASE", ToJson(hist[1])>>)
=============================================================================
