------------------------------ MODULE DiffSig ------------------------------
(***************************************************************************)
(* C10 - no call-breaking signature change goes unreported.                *)
(*                                                                         *)
(* Shape A (algorithm vs reference), one state per PAIR of signatures.     *)
(*   * a signature is a legal ordered list of <= MaxLen parameters over    *)
(*     the alphabet Names, each with one of CPython's 5 kinds and a        *)
(*     default in {none, d1, d2};                                          *)
(*   * PyBinds(sig, call) is a transcription of CPython's argument binding *)
(*     for call shapes <<npos, kw>> (npos positional arguments, the set kw *)
(*     of keyword names) - the REFERENCE for "a call binds";               *)
(*   * Breakages(old, new) is a rule-by-rule transcription of              *)
(*     _griffe.diff._function_incompatibilities (the IMPLEMENTATION), with *)
(*     the kind sets _POSITIONAL/_POSITIONAL_KEYWORD_ONLY/_VARIADIC        *)
(*     given as CONSTANTS that the driver extracts from _griffe.diff at    *)
(*     check time, and Parameter.required (default is None, where the      *)
(*     visitor gives "()" / "{}" to variadic parameters);                  *)
(*   * the clauses of the property are the invariants I_* at the bottom.   *)
(* Init picks the old signature, the action Diff(n) picks the new one and  *)
(* stores everything the invariants need in variables (TLC does not        *)
(* memoise operators).  Every pair is printed as a CASE and replayed on    *)
(* the real find_breaking_changes and on CPython (gverif/props/c10.py).    *)
(***************************************************************************)
EXTENDS Naturals, Sequences, FiniteSets, TLC, Json, SequencesExt

CONSTANTS NNames,       \* size of the parameter-name alphabet (2: {a, b}; 3: {a, b, c}; 4: {a, b, c, d})
          KindsUsed,    \* the parameter kinds signatures are built from (all five, or {po, pk} for the 4-name family)
          SortedNames,  \* BOOLEAN: only signatures whose names appear in alphabet order (thins the 4-name family)
          MaxLen,       \* maximal number of parameters of a signature
          MaxPos,       \* call shapes use 0..MaxPos positional arguments
          POSITIONAL,   \* _griffe.diff._POSITIONAL              (extracted from the repo)
          POSKWONLY,    \* _griffe.diff._POSITIONAL_KEYWORD_ONLY (extracted from the repo)
          VARIADIC,     \* _griffe.diff._VARIADIC                (extracted from the repo)
          OldDomain,    \* "all" | "canon" | "pick": which old signatures Init chooses from
          Pick,         \* "pick": set of indices into SigSeq (seeded sample drawn by the driver)
          Routes,       \* how the NEW Function's parameters come to exist: subset of {"visit", "inplace"}
          Emit          \* BOOLEAN: print the signature table and every pair as CASE lines

NameSeq == <<"a", "b", "c", "d">>                \* canonical order of names
Names == {NameSeq[i] : i \in 1..NNames}      \* the parameter-name alphabet
None == "none"
PO == "po"   PK == "pk"   VP == "vp"   KO == "ko"   VK == "vk"
Kinds == {PO, PK, VP, KO, VK}
Rank(k) == CASE k = PO -> 1 [] k = PK -> 2 [] k = VP -> 3 [] k = KO -> 4 [] OTHER -> 5
Defaults == {None, "d1", "d2"}
Param == [name : Names, kind : KindsUsed, default : Defaults]
NameIdx(n) == CHOOSE i \in 1..Len(NameSeq) : NameSeq[i] = n

\* ---- the case space: every signature CPython's grammar accepts -----------------------------
Legal(s) ==
  /\ \A i, j \in 1..Len(s) : i < j => /\ Rank(s[i].kind) <= Rank(s[j].kind)
                                     /\ s[i].name # s[j].name
                                     /\ (s[i].kind \in {VP, VK} => s[i].kind # s[j].kind)
                                     \* "non-default argument follows default argument"
                                     /\ (s[i].kind \in {PO, PK} /\ s[j].kind \in {PO, PK} /\ s[i].default # None
                                            => s[j].default # None)
  /\ \A i \in 1..Len(s) : s[i].kind \in {VP, VK} => s[i].default = None
  /\ (SortedNames => \A i, j \in 1..Len(s) : i < j => NameIdx(s[i].name) < NameIdx(s[j].name))

Sigs == UNION {{s \in [1..n -> Param] : Legal(s)} : n \in 0..MaxLen}
SigSeq == SetToSeq(Sigs)                 \* constant: evaluated once by TLC, gives every signature an index
N == Len(SigSeq)

Calls == (0..MaxPos) \X (SUBSET Names)

\* ---- reference: CPython's argument binding (Objects/call.c / ceval: positional filling, *args overflow,
\*      keywords to positional-or-keyword / keyword-only parameters, **kwargs catch-all incl. names of
\*      positional-only parameters (PEP 570), duplicates, missing required) ---------------------------
HasKind(s, k) == \E i \in 1..Len(s) : s[i].kind = k
PosParams(s) == SelectSeq(s, LAMBDA p : p.kind \in {PO, PK})
PyBinds(s, call) ==
  LET npos == call[1]
      kw == call[2]
      pp == PosParams(s)
      nfill == IF npos < Len(pp) THEN npos ELSE Len(pp)
      filled == {pp[i].name : i \in 1..nfill}                                   \* bound by position
      kwTargets == {s[i].name : i \in {j \in 1..Len(s) : s[j].kind \in {PK, KO}}}  \* may be named by a keyword
      byKw == kw \cap kwTargets
      extraKw == kw \ kwTargets        \* unknown names, names of positional-only and of variadic parameters
      bound == filled \cup byKw
  IN /\ (npos > Len(pp) => HasKind(s, VP))           \* takes N positional arguments but M were given
     /\ filled \cap byKw = {}                        \* got multiple values for argument
     /\ (extraKw # {} => HasKind(s, VK))             \* unexpected keyword / positional-only passed as keyword
     /\ \A i \in 1..Len(s) :                         \* missing required argument
           (s[i].kind \in {PO, PK, KO} /\ s[i].default = None) => s[i].name \in bound

\* bind sets, one per signature: a constant table forced to a real function once (TLCEval), because
\* TLC would otherwise re-evaluate PyBinds for every pair
BindTable == TLCEval([i \in 1..N |-> {c \in Calls : PyBinds(SigSeq[i], c)}])

\* ---- implementation: _griffe.diff._function_incompatibilities, rule by rule ----------------------
\* What the visitor stores as default: "()" for *args, "{}" for **kwargs (agents/nodes/parameters.py).
GDefault(p) == IF p.kind = VP THEN "()" ELSE IF p.kind = VK THEN "{}" ELSE p.default
Required(p) == GDefault(p) = None                                         \* Parameter.required
NamesOf(s) == {s[i].name : i \in 1..Len(s)}
IndexOf(s, n) == CHOOSE i \in 1..Len(s) : s[i].name = n                   \* new_param_names.index(name)
ByName(s, n) == s[IndexOf(s, n)]                                          \* new_function.parameters[name]

\* "if old_param.name not in new_function.parameters: swallowed = ...; if not swallowed: yield ...; continue"
RuleRemoved(old, new, i) ==
  LET p == old[i]
      swallowed == \/ (p.kind = KO /\ HasKind(new, VK))
                   \/ (p.kind = PO /\ HasKind(new, VP))
                   \/ (p.kind = PK /\ HasKind(new, VP) /\ HasKind(new, VK))
  IN IF ~swallowed THEN {<<"REMOVED", p.name>>} ELSE {}
\* "if new_param.required and not old_param.required"
RuleRequired(p, q) == IF Required(q) /\ ~Required(p) THEN {<<"CHANGED_REQUIRED", p.name>>} ELSE {}
\* "if old_param.kind in _POSITIONAL and new_param.kind in _POSITIONAL: if new_index != old_index"
RuleMoved(new, i, p, q) ==
  IF p.kind \in POSITIONAL /\ q.kind \in POSITIONAL /\ IndexOf(new, p.name) # i
  THEN {<<"MOVED", p.name>>} ELSE {}
\* "if old_param.kind is not new_param.kind: incompatible_kind = any((...))"  - six disjuncts
RuleKind(new, p, q) ==
  IF p.kind # q.kind /\
     \/ (p.kind = PO /\ q.kind = KO)
     \/ (p.kind = KO /\ q.kind = PO)
     \/ (p.kind = PK /\ q.kind \in POSKWONLY)
     \/ (q.kind = VK /\ p.kind # KO /\ ~HasKind(new, VP))
     \/ (q.kind = VP /\ p.kind # PO /\ ~HasKind(new, VK))
     \/ (p.kind \in VARIADIC /\ q.kind \notin VARIADIC)       \* variadic to non-variadic (fix a22df05)
  THEN {<<"CHANGED_KIND", p.name>>} ELSE {}
\* "non_required and non_variadic and old_param.default != new_param.default"
RuleDefault(p, q) ==
  IF ~Required(p) /\ ~Required(q) /\ p.kind \notin VARIADIC /\ q.kind \notin VARIADIC
     /\ GDefault(p) # GDefault(q)
  THEN {<<"CHANGED_DEFAULT", p.name>>} ELSE {}
\* "for new_param in new_function.parameters: if new_param.name not in old and new_param.required"
RuleAdded(old, new) ==
  {<<"ADDED_REQUIRED", new[j].name>> : j \in {k \in 1..Len(new) : new[k].name \notin NamesOf(old) /\ Required(new[k])}}

ForOldParam(old, new, i) ==
  IF old[i].name \notin NamesOf(new) THEN RuleRemoved(old, new, i)
  ELSE LET p == old[i]
           q == ByName(new, old[i].name)
       IN RuleRequired(p, q) \cup RuleMoved(new, i, p, q) \cup RuleKind(new, p, q) \cup RuleDefault(p, q)

Breakages(old, new) == UNION {ForOldParam(old, new, i) : i \in 1..Len(old)} \cup RuleAdded(old, new)

\* ---- reference obligations of clauses (ii) and (iv), declaratively (CPython's own notions of
\*      "positional", "has a default", "required": the visitor's "()" / "{}" play no role here) -----
Common(old, new) == NamesOf(old) \cap NamesOf(new)
Optional(p) == p.kind \in {PO, PK, KO} /\ p.default # None
Mandatory(p) == p.kind \in {PO, PK, KO} /\ p.default = None
MustReport(old, new) ==
  UNION {LET p == ByName(old, n)
             q == ByName(new, n)
         IN (IF p.kind \in {PO, PK} /\ q.kind \in {PO, PK} /\ IndexOf(old, n) # IndexOf(new, n)
                THEN {<<"MOVED", n>>} ELSE {})
            \cup (IF Optional(p) /\ Optional(q) /\ p.default # q.default THEN {<<"CHANGED_DEFAULT", n>>} ELSE {})
            \cup (IF Optional(p) /\ Mandatory(q) THEN {<<"CHANGED_REQUIRED", n>>} ELSE {})
         : n \in Common(old, new)}
\* names whose presence, kind, position, default or required-ness differs between old and new
Differing(old, new) ==
  ((NamesOf(old) \cup NamesOf(new)) \ Common(old, new))
  \cup {n \in Common(old, new) :
          \/ ByName(old, n).kind # ByName(new, n).kind
          \/ IndexOf(old, n) # IndexOf(new, n)
          \/ ByName(old, n).default # ByName(new, n).default}     \* (required-ness differs => default differs)

\* ---- the defect families of clause (i), see design.d/C10.md -----------------------------------------
\* same-name kind transitions that can make CPython reject a previously valid call.  The first six (a
\* parameter leaving a variadic kind) were silent until fix a22df05 added the sixth disjunct of RuleKind;
\* they keep their name in the vocabulary (a regression is reported under it) but are no longer excused.
Transitions(old, new) ==
  {<<ByName(old, n).kind, ByName(new, n).kind>> : n \in {m \in Common(old, new) : ByName(old, m).kind # ByName(new, m).kind}}
Uncovered == <<  <<VP, PO>>, <<VP, PK>>, <<VP, KO>>,       \* *a   -> a=d (a named parameter)
                 <<VK, PO>>, <<VK, PK>>, <<VK, KO>>,       \* **a  -> a=d
                 <<KO, PK>>,                               \* keyword-only becomes positional-or-keyword
                 <<PO, PK>>  >>                            \* positional-only becomes positional-or-keyword
CauseName(t) == CASE t = <<VP, PO>> -> "vp>po" [] t = <<VP, PK>> -> "vp>pk" [] t = <<VP, KO>> -> "vp>ko"
                  [] t = <<VK, PO>> -> "vk>po" [] t = <<VK, PK>> -> "vk>pk" [] t = <<VK, KO>> -> "vk>ko"
                  [] t = <<KO, PK>> -> "ko>pk" [] t = <<PO, PK>> -> "po>pk" [] OTHER -> "none"
\* the first uncovered transition present in the pair (fixed priority order), "none" when there is none
\* ... and one family without any transition: a NEW optional positional-or-keyword parameter (it takes a
\* positional argument that used to go elsewhere while its name used to be swallowed by **kwargs)
AddedOptionalPK(old, new) ==
  \E j \in 1..Len(new) : new[j].name \notin NamesOf(old) /\ new[j].kind = PK /\ new[j].default # None
Cause(old, new) ==
  LET ts == Transitions(old, new)
      hit == {i \in 1..Len(Uncovered) : Uncovered[i] \in ts}
  IN IF hit # {} THEN CauseName(Uncovered[CHOOSE i \in hit : \A j \in hit : i <= j])
     ELSE IF AddedOptionalPK(old, new) THEN "new>pk" ELSE "none"

\* ---- canonical old signatures (used only to thin the CASE output of the 3-name alphabet; the model
\*      itself is checked on every pair): names appear in alphabet order and only the default d1 is
\*      used.  Every pair is the image of a pair with canonical old signature under a renaming of
\*      parameter names and a per-name swap of d1/d2, under which PyBinds and Breakages are invariant.
Canon(s) == \A i \in 1..Len(s) : s[i].name = NameSeq[i] /\ s[i].default # "d2"
OldIdx == IF OldDomain = "all" THEN 1..N
          ELSE IF OldDomain = "canon" THEN {i \in 1..N : Canon(SigSeq[i])}
          ELSE Pick \cap (1..N)

\* ---- the Parameters container as a little machine (models.Parameters: a list; by-name access scans it) ----
\* Route "visit": the new signature is loaded from its own source.  Route "inplace": a copy of the OLD
\* parameters is looked up by name (`name in params`, `params[name]` - what stub merging, docstring parsing
\* or an earlier diff do) and then edited through the container API into the new signature, by integer
\* index: params[i] = p, del params[i], params.add(p).  Lookups do not change the container; the finder
\* must see exactly the resulting list whatever the history was.
Lesser(a, b) == IF a < b THEN a ELSE b
OpsFor(old, new) ==
  [i \in 1..Len(old) |-> [op |-> "lookup", i |-> i]]                                   \* by the name of old[i]
  \o SelectSeq([i \in 1..Lesser(Len(old), Len(new)) |-> [op |-> "set", i |-> i]], LAMBDA o : old[o.i] # new[o.i])
  \o [k \in 1..(IF Len(old) > Len(new) THEN Len(old) - Len(new) ELSE 0) |-> [op |-> "del", i |-> Len(new) + 1]]
  \o [k \in 1..(IF Len(new) > Len(old) THEN Len(new) - Len(old) ELSE 0) |-> [op |-> "add", i |-> Len(old) + k]]
Apply(s, o, new) ==                              \* one container call; the operand of set/add is new[o.i]
  CASE o.op = "set" -> [s EXCEPT ![o.i] = new[o.i]]
    [] o.op = "del" -> SubSeq(s, 1, o.i - 1) \o SubSeq(s, o.i + 1, Len(s))
    [] o.op = "add" -> Append(s, new[o.i])
    [] OTHER -> s                                \* lookup
RECURSIVE ApplyAll(_, _, _, _)
ApplyAll(s, os, k, new) == IF k > Len(os) THEN s ELSE ApplyAll(Apply(s, os[k], new), os, k + 1, new)

\* ---- state -----------------------------------------------------------------------------------------
VARIABLES oi, ni,        \* the case: indices of the old / new signature in SigSeq (ni = 0: not chosen yet)
          pc,            \* "old" | "done"
          brk,           \* Impl: set of <<breakage kind, parameter name>> the finder yields
          breaking,      \* Ref: some call binds against old and not against new
          witness,       \* one such call (<<>> when there is none)
          must, differ,  \* Ref: obligations of clause (ii), names allowed by clause (iv)
          cause,         \* defect family of the pair ("none" outside the known families)
          route, ops,    \* how the new parameters were built; the container history of route "inplace"
          built          \* the parameter list the finder is given as "new" (result of the history)
vars == <<oi, ni, pc, brk, breaking, witness, must, differ, cause, route, ops, built>>

Init ==
  /\ oi \in OldIdx /\ ni = 0 /\ pc = "old"
  /\ brk = {} /\ breaking = FALSE /\ witness = <<>> /\ must = {} /\ differ = {} /\ cause = "none"
  /\ route = "none" /\ ops = <<>> /\ built = <<>>

\* find_breaking_changes(old module, new module) on one public function f, and CPython on the same pair
Diff(n, r) ==
  /\ pc = "old"
  /\ LET old == SigSeq[oi]
         new == SigSeq[n]
         lost == BindTable[oi] \ BindTable[n]
         history == IF r = "inplace" THEN OpsFor(old, new) ELSE <<>>
         given == IF r = "inplace" THEN ApplyAll(old, history, 1, new) ELSE new
     IN /\ route' = r /\ ops' = history /\ built' = given
        /\ brk' = Breakages(old, given)
        /\ breaking' = (lost # {})
        /\ witness' = IF lost = {} THEN <<>> ELSE CHOOSE c \in lost : TRUE
        /\ must' = MustReport(old, new)
        /\ differ' = Differing(old, new)
        /\ cause' = Cause(old, new)
  /\ ni' = n /\ pc' = "done"
  /\ UNCHANGED oi

Next == \E n \in 1..N, r \in Routes : Diff(n, r)
Spec == Init /\ [][Next]_vars

\* ---- the property ---------------------------------------------------------------------------------
Done == pc = "done"
\* (i) a call-breaking change is reported - on the domain outside the known (unfixed) defect families ...
KnownCauses == {"ko>pk", "po>pk", "new>pk"}
I_NoSilentBreak_Clean == (Done /\ breaking /\ cause \notin KnownCauses) => brk # {}
\* ... and everywhere (DiffSig_defect.cfg: violated by the unchanged code, documents the defect)
I_NoSilentBreak == (Done /\ breaking) => brk # {}
\* (ii) moved positional parameter, changed default, optional -> required are always reported
I_AlwaysReported == Done => must \subseteq brk
\* whatever the container history, the finder is given the new signature (so (i)-(iv) do not depend on the route)
I_RouteIndependent == Done => built = SigSeq[ni]
\* (iii) identical signatures produce no report
I_IdenticalSilent == (Done /\ oi = ni) => brk = {}
\* (iv) every reported breakage names a parameter that actually changed
I_NamesChanged == Done => \A b \in brk : b[2] \in differ
\* sanity of the reference itself: binding against an identical signature loses nothing, and the
\* witness is a lost call
I_RefSane == Done => /\ (oi = ni => ~breaking)
                     /\ (breaking => /\ PyBinds(SigSeq[oi], witness) /\ ~PyBinds(SigSeq[ni], witness))

\* ---- enumeration ----------------------------------------------------------------------------------
\* the signature table (index, parameters, set of call shapes CPython binds), printed once at start-up
ASSUME Emit => \A i \in 1..N :
         PrintT(<<"CASE", ToJson([t |-> "sig", i |-> i, sig |-> SigSeq[i], canon |-> Canon(SigSeq[i]),
                                  binds |-> BindTable[i]])>>)
EmitPair ==
  (Emit /\ Done) =>
     PrintT(<<"CASE", ToJson([t |-> "pair", o |-> oi, n |-> ni, b |-> brk, x |-> breaking, w |-> witness,
                              m |-> must, d |-> differ, c |-> cause, r |-> route, ops |-> ops])>>)
=============================================================================
