------------------------------- MODULE ExtLoad -------------------------------
(***************************************************************************)
(* X01 - resolution of ONE extension specification by                      *)
(* _griffe.extensions.base.load_extensions / _load_extension.              *)
(*                                                                         *)
(* Shape A (algorithm vs reference).  A *case* `c` is an abstract spec     *)
(* form x a filesystem / importability situation x a module content x an   *)
(* option shape.  The actions below are a statement-by-statement           *)
(* transcription of _load_extension (Impl...), `RefLoad` is the            *)
(* declarative contract (docstring of _load_extension, docs/guide/users/   *)
(* extending.md): a SET of admissible outcomes.  TLC enumerates every case *)
(* in the chosen Domain and checks impl \in ref:                           *)
(*   Domain = "clean"  : cases free of every known defect trigger          *)
(*                       (DefectClass = "none"); all invariants hold.      *)
(*   Domain = "defect" : the complement; Conforms / NoClobber are violated *)
(*                       there, which documents the genuine defects.       *)
(* Every case is printed (EmitCase) and replayed on the real code by       *)
(* gverif/props/x01.py.  The dispatch side (Extensions.add/call, several   *)
(* specs in one load_extensions call) is spec/ExtDispatch.tla; how agents  *)
(* and the loader fire events is spec/EventProtocol.tla, LoadProtocol.tla. *)
(***************************************************************************)
EXTENDS Naturals, Sequences, FiniteSets, TLC, Json

CONSTANTS Domain,     \* "clean" | "defect" | "all" (both, every clause guarded by the domain of the case)
          MaxDef,     \* number of Extension subclasses defined in the module: 0..MaxDef
          Inits,      \* shapes of __init__ of the classes: subset of AllInits
          DictOpts,   \* option shapes passed through the dict form
          WithAbs,    \* also absolute filesystem paths
          WithPathObj,\* also pathlib.Path objects as spec / dict key
          Emit

NA == "-"
AllInits == {"kwargs", "named", "noinit", "attrerr"}
MsgClasses == {"notfound", "importerror", "noattr", "badpath"}

VARIABLES c,                                   \* the case (record, see Init)
          pc, options, ename, extobj, loaded,  \* locals of _load_extension / load_extensions
          impl, ref, clobbered, fired          \* outcome, admissible outcomes, sys.modules damage, vacuity
vars == <<c, pc, options, ename, extobj, loaded, impl, ref, clobbered, fired>>

\* ---- outcomes ---------------------------------------------------------------------------------
Ok(e)    == [kind |-> "ok",    exts |-> e,    msg |-> NA, exc |-> NA]
Enle(m)  == [kind |-> "enle",  exts |-> <<>>, msg |-> m,  exc |-> NA]   \* ExtensionNotLoadedError, message class m
Raise(x) == [kind |-> "raise", exts |-> <<>>, msg |-> NA, exc |-> x]    \* any other exception type leaves the call
AnyEnle  == {Enle(m) : m \in MsgClasses}
Pending  == [kind |-> "pending", exts |-> <<>>, msg |-> NA, exc |-> NA]
E(cls, o) == [cls |-> cls, opts |-> o]
DC == E("DC", "empty")                       \* the built-in DataclassesExtension
Garbage == E("garbage", NA)                  \* something that is not an Extension sits in the container

\* ---- the world described by the case -----------------------------------------------------------
Stringish == c.form \in {"str", "dict", "pathobj", "dictpathobj"}
\* options as received by __init__: the string forms pass {}
GivenOpts == IF c.opts = "none" THEN "empty" ELSE c.opts

\* what importing / executing the designated module yields
ModuleOutcome ==
  CASE c.target = "builtin" -> "module"
    [] c.target = "file" ->
         (CASE c.sit \in {"ok", "collide"} -> "module"
            [] c.sit = "missing" -> "nomodule"
            [] c.sit \in {"isdir", "badsuffix"} -> "notpython"
            [] c.sit = "body_importerror" -> "deperror"
            [] OTHER -> "bodyerror")
    [] OTHER ->
         (CASE c.sit = "ok" -> "module"
            [] c.sit \in {"missing_top", "missing_sub"} -> "nomodule"
            [] c.sit = "body_importerror" -> "deperror"
            [] OTHER -> "bodyerror")

\* Extension subclasses in the module namespace, in namespace order (the re-export is imported first)
ModuleClasses ==
  IF c.target = "builtin" THEN <<"DC">>
  ELSE (IF c.reexp THEN <<"R">> ELSE <<>>) \o SubSeq(<<"A", "B", "C">>, 1, c.ndef)

\* cls( **options) for a class whose __init__ has shape `init`
InitResult(init, o) ==
  CASE init = "attrerr" -> "AttributeError"
    [] init = "kwargs" -> "ok"
    [] init = "named" -> IF o = "unknown" THEN "TypeError" ELSE "ok"
    [] OTHER -> IF o = "empty" THEN "ok" ELSE "TypeError"         \* "noinit": object.__init__
ClassInit == IF c.target = "builtin" THEN "noinit" ELSE c.init

Instantiate(classes, o) ==
  IF classes = <<>> THEN Ok(<<>>)
  ELSE LET r == InitResult(ClassInit, o)
       IN IF r = "ok" THEN Ok([i \in 1..Len(classes) |-> E(classes[i], o)]) ELSE Raise(r)

\* load_extensions: the built-in dataclasses extension is present exactly once
WithDataclasses(out) ==
  IF out.kind # "ok" THEN out
  ELSE IF \E i \in 1..Len(out.exts) : out.exts[i].cls = "DC" THEN out
  ELSE Ok(out.exts \o <<DC>>)

\* ---- reference: the documented contract --------------------------------------------------------
RefNamed(o) ==          \* the class designated by name (after "." or ":")
  CASE c.attr = "missing" -> IF c.sep = "colon" THEN {Enle("noattr")} ELSE {Enle("notfound"), Enle("importerror")}
    [] c.attr = "ext" -> {Instantiate(<<IF c.target = "builtin" THEN "DC" ELSE "A">>, o)}
    [] c.attr = "reexp" -> {Instantiate(<<"R">>, o)}
    [] OTHER -> AnyEnle                                   \* not an Extension subclass: "does not expose the Extension"

RefResolve ==
  LET mo == ModuleOutcome
      o == GivenOpts
  IN CASE mo = "nomodule" -> {Enle("notfound")}
       \* a directory is no extension file: "not a Python file" or "no such module" are both fair descriptions
       [] mo = "notpython" -> IF c.sit = "isdir" THEN {Enle("badpath"), Enle("notfound"), Enle("importerror")}
                              ELSE {Enle("badpath")}
       [] mo = "deperror" -> IF c.target = "file" THEN {Enle("importerror"), Raise("ModuleNotFoundError")}
                             ELSE {Enle("importerror")}
       [] mo = "bodyerror" -> IF c.target = "file" THEN {Raise("ValueError")} ELSE {Enle("importerror")}
       [] OTHER -> IF c.sep = "none" THEN {Instantiate(ModuleClasses, o)} ELSE RefNamed(o)

RefLoad ==
  LET raw ==
        CASE c.form = "instance" -> {Ok(<<IF c.init = "builtin" THEN DC ELSE E("inst", NA)>>)}
          [] c.form = "class" -> IF c.init = "builtin" THEN {Ok(<<DC>>)}
                                 ELSE {IF InitResult(c.init, "empty") = "ok" THEN Ok(<<E("A", "empty")>>)
                                       ELSE Raise(InitResult(c.init, "empty"))}
          [] c.form = "emptydict" -> AnyEnle \cup {Raise("ValueError"), Raise("TypeError")}
          [] OTHER -> RefResolve
      \* the built-in extension takes no options today; a more liberal signature would be no defect
      lenient == IF c.target = "builtin" /\ GivenOpts # "empty" /\ c.attr # "missing"
                 THEN {Ok(<<E("DC", GivenOpts)>>)} ELSE {}
  IN {WithDataclasses(r) : r \in raw \cup lenient}

\* ---- known defect triggers (each class = one root cause, see design.d/X01.md) -------------------
Loads == ModuleOutcome = "module"
DefectClass ==
  CASE c.form = "emptydict" -> "empty-dict"
    [] ~Stringish -> "none"
    [] c.clash /\ c.target = "dotted" -> "cwd-entry-shadows-package"
    [] Loads /\ c.sep = "colon" /\ c.attr \in {"nonext", "func", "const"} -> "named-attr-not-extension"
    [] Loads /\ c.sep = "dot" /\ c.attr \in {"nonext", "func", "const"} -> "dotted-non-extension-object"
    [] Loads /\ c.sep = "colon" /\ c.attr \in {"ext", "reexp"} /\ ClassInit = "attrerr" -> "init-attributeerror-masked"
    [] ModuleOutcome = "nomodule" -> "missing-module-message"
    [] c.target = "file" /\ c.sit = "body_importerror" -> "file-dependency-message"
    [] c.sit = "collide" -> "sysmodules-clobbered"
    [] OTHER -> "none"

\* ---- case space ---------------------------------------------------------------------------------
Case(f, t, d, s, a, si, cl, ab, n, r, i, o) ==
  [form |-> f, target |-> t, depth |-> d, sep |-> s, attr |-> a, sit |-> si, clash |-> cl, abs |-> ab,
   ndef |-> n, reexp |-> r, init |-> i, opts |-> o]
Attrs == {"ext", "reexp", "nonext", "func", "const", "missing"}
AttrOk(s, a, n, r) == IF s = "none" THEN a = NA
                      ELSE a \in Attrs /\ (a = "ext" => n >= 1) /\ (a = "reexp" => r)
StrForms(t) == {"str", "dict"} \cup (IF WithPathObj /\ t = "file" THEN {"pathobj", "dictpathobj"} ELSE {})
OptsOf(f) == IF f \in {"str", "pathobj"} THEN {"none"} ELSE DictOpts
Bools(b) == IF b THEN BOOLEAN ELSE {FALSE}

InitDirect ==   \* instance, class, {} : no string to resolve
  \/ \E i \in {"kwargs", "builtin"} :
       c = Case("instance", NA, NA, "none", NA, NA, FALSE, FALSE, 0, FALSE, i, "none")
  \/ \E i \in Inits \cup {"builtin"} :
       c = Case("class", NA, NA, "none", NA, NA, FALSE, FALSE, 0, FALSE, i, "none")
  \/ c = Case("emptydict", NA, NA, "none", NA, NA, FALSE, FALSE, 0, FALSE, "kwargs", "none")

InitBuiltin ==  \* "dataclasses", "dataclasses:DataclassesExtension", with a cwd entry of that name or not
  \E f \in StrForms("builtin"), s \in {"none", "colon"}, a \in {NA, "ext", "missing"}, cl \in BOOLEAN :
    \E o \in OptsOf(f) :
      /\ (s = "none") = (a = NA)
      /\ c = Case(f, "builtin", NA, s, a, "ok", cl, FALSE, 1, FALSE, "noinit", o)

InitDotted ==   \* "x01top", "x01pkg.mod", "x01pkg.mod.A", "x01pkg.mod:A"
  \E f \in StrForms("dotted"), d \in {"top", "sub"}, s \in {"none", "dot", "colon"}, a \in Attrs \cup {NA},
     si \in {"ok", "missing_top", "missing_sub", "body_importerror", "body_error"} :
    \E o \in OptsOf(f), n \in 0..MaxDef, r \in BOOLEAN, i \in Inits, cl \in BOOLEAN :
      /\ (si = "missing_sub" => d = "sub")
      /\ AttrOk(s, a, n, r)
      /\ (cl => si = "ok" /\ d = "top" /\ s # "dot" /\ a \notin {"nonext", "func", "const"})   \* one trigger at a time
      \* the content of a module that does not load is irrelevant: one representative
      /\ (si # "ok" => n = 1 /\ ~r /\ i = "kwargs" /\ a \in {NA, "ext"})
      /\ c = Case(f, "dotted", d, s, a, si, cl, FALSE, n, r, i, o)

InitFile ==     \* "dir/ext.py", "dir/ext.py:A", absolute, pathlib.Path
  \E f \in StrForms("file"), s \in {"none", "colon"}, a \in Attrs \cup {NA}, ab \in Bools(WithAbs),
     si \in {"ok", "collide", "missing", "isdir", "badsuffix", "body_importerror", "body_error"} :
    \E o \in OptsOf(f), n \in 0..MaxDef, r \in BOOLEAN, i \in Inits :
      /\ AttrOk(s, a, n, r)
      /\ (si \notin {"ok", "collide"} => n = 1 /\ ~r /\ i = "kwargs" /\ a \in {NA, "ext"})
      /\ c = Case(f, "file", NA, s, a, si, FALSE, ab, n, r, i, o)

Init ==
  /\ (InitDirect \/ InitBuiltin \/ InitDotted \/ InitFile)
  /\ (IF Domain = "all" THEN TRUE ELSE (Domain = "clean") = (DefectClass = "none"))
  /\ pc = "start" /\ options = NA /\ ename = NA /\ extobj = "none" /\ loaded = <<>>
  /\ impl = Pending /\ ref = {} /\ clobbered = FALSE /\ fired = {}

\* ---- transcription of load_extensions / _load_extension (one action per statement group) --------
Fire(a) == fired' = fired \cup {a}
Return(out) == impl' = out /\ pc' = "done"          \* an exception leaves load_extensions at once
Keep(vs) == UNCHANGED vs

Start ==                      \* load_extensions(spec): extensions = Extensions(); for extension in exts: ...
  /\ pc = "start" /\ Fire("Start")
  /\ ref' = RefLoad /\ pc' = "isinstance"
  /\ Keep(<<c, options, ename, extobj, loaded, impl, clobbered>>)

IsInstance ==                 \* if isinstance(extension, Extension): return extension
  /\ pc = "isinstance" /\ Fire("IsInstance")
  /\ IF c.form = "instance"
     THEN loaded' = <<IF c.init = "builtin" THEN DC ELSE E("inst", NA)>> /\ pc' = "add"
     ELSE loaded' = loaded /\ pc' = "isclass"
  /\ Keep(<<c, options, ename, extobj, impl, ref, clobbered>>)

IsClass ==                    \* if isclass(extension) and issubclass(extension, Extension): return extension()
  /\ pc = "isclass" /\ Fire("IsClass")
  /\ IF c.form = "class"
     THEN LET r == InitResult(IF c.init = "builtin" THEN "noinit" ELSE c.init, "empty")
          IN IF r = "ok"
             THEN loaded' = <<IF c.init = "builtin" THEN DC ELSE E("A", "empty")>> /\ pc' = "add" /\ impl' = impl
             ELSE loaded' = loaded /\ Return(Raise(r))
     ELSE loaded' = loaded /\ pc' = "isdict" /\ impl' = impl
  /\ Keep(<<c, options, ename, extobj, ref, clobbered>>)

IsDict ==                     \* dict: import_path, options = next(iter(extension.items())); else options = {}
  /\ pc = "isdict" /\ Fire("IsDict")
  /\ IF c.form = "emptydict"
     THEN options' = options /\ Return(Raise("StopIteration"))
     ELSE options' = GivenOpts /\ pc' = "colon" /\ impl' = impl
  /\ Keep(<<c, ename, extobj, loaded, ref, clobbered>>)

SplitColon ==                 \* import_path, extension_name = import_path.rsplit(":", 1)   (POSIX: no drive)
  /\ pc = "colon" /\ Fire("SplitColon")
  /\ ename' = IF c.sep = "colon" THEN c.attr ELSE NA
  /\ pc' = "resolve"
  /\ Keep(<<c, options, extobj, loaded, impl, ref, clobbered>>)

PathExists == \/ c.target = "file" /\ c.sit # "missing"
              \/ c.target = "dotted" /\ c.clash        \* a cwd entry named like the import path
SpecIsNone == \/ c.target = "file" /\ c.sit \in {"isdir", "badsuffix"}
              \/ c.target = "dotted"                   \* the clashing entry is a directory

Resolve ==                    \* builtin name -> expand; elif os.path.exists(import_path): _load_extension_path
  /\ pc = "resolve" /\ Fire("Resolve")
  /\ IF c.target = "builtin" \/ ~PathExists
     THEN pc' = "dynimport" /\ Keep(<<extobj, impl, clobbered>>)
     ELSE IF SpecIsNone
     THEN Return(Enle("badpath")) /\ Keep(<<extobj, clobbered>>)              \* spec_from_file_location -> None
     ELSE /\ clobbered' = (c.sit = "collide")                                   \* sys.modules[module_name] = module
          /\ CASE c.sit = "body_importerror" -> Return(Enle("notfound")) /\ Keep(<<extobj>>)  \* except ImportError
               [] c.sit = "body_error" -> Return(Raise("ValueError")) /\ Keep(<<extobj>>)
               [] OTHER -> extobj' = "module" /\ pc' = "classcheck" /\ Keep(<<impl>>)
  /\ Keep(<<c, options, ename, loaded, ref>>)

\* importer.dynamic_import: pops trailing parts until a module imports, then getattr; every failure is re-raised as
\* a plain ImportError, so the `except ModuleNotFoundError` branch of _load_extension is never taken.
DynObject ==
  IF ModuleOutcome # "module" THEN "ImportError"
  ELSE IF c.sep # "dot" THEN "module"
  ELSE CASE c.attr = "missing" -> "ImportError"
         [] c.attr \in {"ext", "reexp"} -> "cls_ext"
         [] c.attr = "nonext" -> "cls_nonext"
         [] OTHER -> c.attr                               \* "func" | "const"

DynImport ==                  \* if not ext_object: ext_object = dynamic_import(import_path)
  /\ pc = "dynimport" /\ Fire("DynImport")
  /\ IF DynObject = "ImportError"
     THEN Return(Enle("importerror")) /\ Keep(<<extobj>>)
     ELSE extobj' = DynObject /\ pc' = "classcheck" /\ Keep(<<impl>>)
  /\ Keep(<<c, options, ename, loaded, ref, clobbered>>)

ClassCheck ==                 \* if isclass(ext_object) and issubclass(ext_object, Extension): return ext_object( **options)
  /\ pc = "classcheck" /\ Fire("ClassCheck")
  /\ IF extobj = "cls_ext"
     THEN LET out == Instantiate(<<IF c.attr = "reexp" THEN "R" ELSE "A">>, options)
          IN IF out.kind = "ok" THEN loaded' = out.exts /\ pc' = "add" /\ Keep(<<impl>>)
             ELSE Return(out) /\ Keep(<<loaded>>)
     ELSE pc' = "named" /\ Keep(<<loaded, impl>>)
  /\ Keep(<<c, options, ename, extobj, ref, clobbered>>)

NamedClass == IF c.target = "builtin" THEN "DC" ELSE IF ename = "reexp" THEN "R" ELSE "A"
Named ==                      \* if extension_name: try: return getattr(ext_object, extension_name)( **options)
  /\ pc = "named" /\ Fire("Named")       \*                    except AttributeError: raise ExtensionNotLoadedError
  /\ IF ename = NA THEN pc' = "scan" /\ Keep(<<loaded, impl>>)
     ELSE CASE ename = "missing" -> Return(Enle("noattr")) /\ Keep(<<loaded>>)
            [] ename \in {"ext", "reexp"} ->
                 LET r == InitResult(ClassInit, options)
                 IN CASE r = "ok" -> loaded' = <<E(NamedClass, options)>> /\ pc' = "add" /\ Keep(<<impl>>)
                      [] r = "AttributeError" -> Return(Enle("noattr")) /\ Keep(<<loaded>>)   \* raised by __init__, caught here
                      [] OTHER -> Return(Raise(r)) /\ Keep(<<loaded>>)
            [] ename = "nonext" ->       \* class N: pass   is called like an extension class
                 IF options = "empty" THEN loaded' = <<Garbage>> /\ pc' = "add" /\ Keep(<<impl>>)
                 ELSE Return(Raise("TypeError")) /\ Keep(<<loaded>>)
            [] ename = "func" -> loaded' = <<Garbage>> /\ pc' = "add" /\ Keep(<<impl>>)  \* def func( **kw): return None
            [] OTHER -> Return(Raise("TypeError")) /\ Keep(<<loaded>>)                    \* 3( **options)
  /\ Keep(<<c, options, ename, extobj, ref, clobbered>>)

Scan ==                       \* [obj for obj in vars(ext_object).values() if isclass(obj) and issubclass(obj, Extension) ...]
  /\ pc = "scan" /\ Fire("Scan")
  /\ CASE extobj = "module" ->
            LET out == Instantiate(ModuleClasses, options)
            IN IF out.kind = "ok" THEN loaded' = out.exts /\ pc' = "add" /\ Keep(<<impl>>)
               ELSE Return(out) /\ Keep(<<loaded>>)
       [] extobj \in {"cls_nonext", "func"} -> loaded' = <<>> /\ pc' = "add" /\ Keep(<<impl>>)  \* vars() has no Extension subclass
       [] OTHER -> Return(Raise("TypeError")) /\ Keep(<<loaded>>)                              \* vars(3)
  /\ Keep(<<c, options, ename, extobj, ref, clobbered>>)

Add ==                        \* extensions.add( *ext) / extensions.add(ext)
  /\ pc = "add" /\ Fire("Add")
  /\ pc' = "ensure_dc"
  /\ Keep(<<c, options, ename, extobj, loaded, impl, ref, clobbered>>)

EnsureDataclasses ==          \* for ext in ...: if type(ext) is DataclassesExtension: break; else: add(builtin)
  /\ pc = "ensure_dc" /\ Fire("EnsureDataclasses")
  /\ Return(WithDataclasses(Ok(loaded)))
  /\ Keep(<<c, options, ename, extobj, loaded, ref, clobbered>>)

Next == Start \/ IsInstance \/ IsClass \/ IsDict \/ SplitColon \/ Resolve \/ DynImport \/ ClassCheck
          \/ Named \/ Scan \/ Add \/ EnsureDataclasses
Spec == Init /\ [][Next]_vars

\* ---- properties (the clauses of design.d/X01.md) -----------------------------------------------
Done == pc = "done"
Clean == DefectClass = "none"
TypeOK ==
  /\ impl.kind \in {"pending", "ok", "enle", "raise"}
  /\ (impl.kind = "enle" => impl.msg \in MsgClasses)
  /\ (Done => impl.kind # "pending" /\ ref # {})

\* L1-L6 (resolution, options, error class and message class): what the code does is admissible
Conforms == (Done /\ Clean) => impl \in ref

\* L7: loading leaves the modules that were already imported alone
NoClobber == (Done /\ Clean) => ~clobbered

\* L8: the built-in dataclasses extension is in every container exactly once, after the extensions of the user
\*     unless the user named it
DataclassesOnce ==
  (Done /\ impl.kind = "ok") =>
     /\ Cardinality({i \in 1..Len(impl.exts) : impl.exts[i].cls = "DC"}) = 1
     /\ (c.target # "builtin" /\ c.init # "builtin" => impl.exts[Len(impl.exts)] = DC)

\* L6': an exception that is not ExtensionNotLoadedError was raised by the user's own code (module body, __init__)
ForeignErrorsAreTheUsers ==
  (Done /\ Clean /\ impl.kind = "raise") =>
     \/ impl.exc = "TypeError" /\ InitResult(IF c.init = "builtin" THEN "noinit" ELSE ClassInit, GivenOpts) = "TypeError"
     \/ impl.exc = "AttributeError" /\ c.init = "attrerr"
     \/ impl.exc = "ValueError" /\ c.sit = "body_error" /\ c.target = "file"

\* nothing that is not an Extension ever sits in a container
NoGarbage == (Done /\ Clean /\ impl.kind = "ok") => \A i \in 1..Len(impl.exts) : impl.exts[i] # Garbage

\* defect domain: the model exhibits every defect class (each case of the domain breaks at least one clause)
DefectExhibited ==
  (Done /\ ~Clean) => (impl \notin ref \/ clobbered)

EmitCase ==
  (Emit /\ Done) =>
     PrintT(<<"CASE", ToJson([c |-> c, impl |-> impl, ref |-> ref, defect |-> DefectClass,
                              clobbered |-> clobbered, fired |-> fired])>>)
=============================================================================
