------------------------------ MODULE DocGoogle ------------------------------
(***************************************************************************)
(* The Google-style docstring parser of Griffe as an offset machine.       *)
(*   C12 - total, terminating, well-formed sections, nothing modified      *)
(*   C13 - well-formed docstrings parse back to the structure written      *)
(*                                                                         *)
(* Source: _griffe/docstrings/google.py (parse_google, _read_block_items,  *)
(* _read_block, _read_block_items_maybe, the twelve section readers).      *)
(*                                                                         *)
(* A docstring is a sequence of LINE CLASSES.  Every branch condition of   *)
(* the parser is a function of the class:                                  *)
(*   k = "blank"  a = "e" (empty string) | "w" (white-space only)          *)
(*   k = "text"   a = "plain" | "colon"   column 0, _RE_ADMONITION fails   *)
(*   k = "sec"    a = section kind, t = has a title       column 0         *)
(*   k = "adm"    t = has a title          _RE_ADMONITION matches, the     *)
(*                identifier is not a section keyword      column 0        *)
(*   k = "item"   a = F1 `name: d`  F2 `name (t): d`  F3 `(t): d`          *)
(*                    F4 `: d`  F5 no colon  F6 `name(sig): d`   ind > 0   *)
(*                    F7 `name : d` (white space before the colon, no type) *)
(*   k = "fence"  ``` at any indent      k = "prompt"  >>> at ind > 0      *)
(*                a = "flags": with a `# doctest: +FLAG` comment (a colon)  *)
(*   ind = number of leading spaces, in {0, 4, 6, 8}                       *)
(*                                                                         *)
(* Offsets are 0-based as in the code: L(i) is lines[i].  Every read of    *)
(* lines[i] that the code does not guard is written with an explicit       *)
(* InRange test whose failure is the IndexError crash; reads the code      *)
(* guards (`has_next_line and ...`) are written with the same guard.       *)
(*                                                                         *)
(* Options and the parent are chosen LAZILY: an option is "U" (unread)     *)
(* until the transcribed code reads it, then the action branches on both   *)
(* values; the parent is a set of candidate kinds that each transcribed    *)
(* test on docstring.parent splits.  Every full (options, parent)          *)
(* assignment follows exactly one lazy path, so the exploration covers     *)
(* the full product; the emitted case lists what was read, the harness     *)
(* replays every candidate parent and several fillings of unread options.  *)
(* A test of the form `option and parent is P` that comes out false is     *)
(* recorded as the excluded pair <<option, P>> instead of being split in   *)
(* two (option false / parent not P): both continue identically.           *)
(***************************************************************************)
EXTENDS Integers, Sequences, FiniteSets, TLC, Json

CONSTANTS MaxLen,     \* seq mode: maximal number of lines
          Alpha,      \* seq mode: "core" | "mid" | "rich" | "defect"
          Mode,       \* "seq" (C12: arbitrary class sequences) | "struct" (C13: rendered structures)
          MaxSecs,    \* struct mode: number of sections after the summary
          Variety,    \* struct mode: "full" | "thin" | "mini" item variety
          Emit,       \* print one CASE per final state ...
          EmitMod     \* ... whose checksum is 0 modulo EmitMod (1: all; thorough tier: a deterministic sample for the replay)

VARIABLES lines,      \* the docstring: sequence of line-class records (never changes)
          expect,     \* struct mode: the structure written, in the vocabulary of `sections` (never changes)
          sig,        \* struct mode: per line, what the parent's signature supplies for the item it starts
          wrap,       \* struct mode: shape of the parent's return annotation: "plain" T | "iter" Iterator[T] | "gen" Generator[Y, S, R]
          opts,       \* [option -> "U" | "T" | "F"]
          pcand,      \* candidate parent kinds (narrowed by every test the code makes)
          excl,       \* negative path condition: pairs <<option, parent kind>> that must not hold together
          pc, offset, in_code, cur, sections, crash, flags
vars == <<lines, expect, sig, wrap, opts, pcand, excl, pc, offset, in_code, cur, sections, crash, flags>>
input == <<lines, expect, sig, wrap>>

OptNames == {"ignore_init_summary", "returns_multiple_items", "returns_named_value",
             "receives_multiple_items", "receives_named_value", "returns_type_in_property_summary", "trim_doctest_flags"}
\* trim_doctest_flags and warn_unknown_params change no branch that decides offsets, sections or items: in seq mode they stay
\* unread and are varied by the harness on every case.  In struct mode trim_doctest_flags is part of the case: what an Examples
\* section with doctest decoration (a `# doctest:` comment, a `<BLANKLINE>` output line) must come back as depends on it.
\* aliasmod: a module in which every documented name is imported from a package that is not loaded (unresolvable alias)
\* tuplefn / genfn / tupleprop / tuple0fn / gen1fn / gen2fn / iterfn: function (property) whose return annotation is tuple[a, b],
\* Generator[(a,b), (a,b), (a,b)], tuple[a, b], tuple[()], Generator[a], Generator[a, None], Iterator[a]: expressions with fewer
\* elements than a docstring may document items / than _annotation_from_parent indexes (it runs under suppress(Exception))
Parents == {"none", "module", "class", "function", "init", "property", "aliasmod", "tuplefn", "genfn", "tupleprop", "tuple0fn", "gen1fn", "gen2fn", "iterfn",
            "detachedinit", "nsfunc"}      \* nsfunc: a function of a namespace package (filepath is a list) outside the cwd: warnings have no file prefix      \* detachedinit: a hand-built function named __init__ without any parent (not "__init__ in a class")
PropParents == {"property", "tupleprop"}

ItemKinds == {"parameters", "other_parameters", "raises", "warns", "functions", "classes", "modules", "attributes"}
RetKinds == {"returns", "yields", "receives"}
SecKinds == ItemKinds \cup RetKinds \cup {"examples"}
AllKinds == SecKinds \cup {"text", "admonition"}

\* ---- line classes --------------------------------------------------------------------------------
Blank(a)   == [k |-> "blank", ind |-> 0, a |-> a, t |-> FALSE]
Text(a)    == [k |-> "text", ind |-> 0, a |-> a, t |-> FALSE]
Sec(K, t)  == [k |-> "sec", ind |-> 0, a |-> K, t |-> t]
Adm(t)     == [k |-> "adm", ind |-> 0, a |-> "-", t |-> t]
Item(i, f) == [k |-> "item", ind |-> i, a |-> f, t |-> FALSE]
FenceL(i)  == [k |-> "fence", ind |-> i, a |-> "-", t |-> FALSE]
Prompt(i)  == [k |-> "prompt", ind |-> i, a |-> "-", t |-> FALSE]
PromptF(i) == [k |-> "prompt", ind |-> i, a |-> "flags", t |-> FALSE]

CoreKinds == {"parameters", "attributes", "returns", "receives", "examples"}
Core == {Blank("e"), Text("plain"), Text("colon"), Adm(FALSE), FenceL(0), FenceL(4), Prompt(4)}
          \cup {Sec(K, FALSE) : K \in CoreKinds}
          \cup {Item(4, f) : f \in {"F1", "F4", "F5"}} \cup {Item(6, "F5"), Item(8, "F1"), Item(8, "F5")}
\* every section kind, every item form; a title on one section kind and on admonitions (a title is carried, never tested)
Mid == Core \cup {Blank("w"), Adm(TRUE), PromptF(4), Sec("parameters", TRUE)} \cup {Sec(K, FALSE) : K \in SecKinds}
          \cup {Item(4, f) : f \in {"F2", "F3", "F6", "F7"}} \cup {Item(6, "F1"), Item(8, "F4")}
Rich == Mid \cup {Sec(K, TRUE) : K \in SecKinds}
\* regression domain: small alphabet on which the repaired crashes were reachable with three lines
Defect == {Text("plain"), Item(4, "F1"), Item(4, "F4"), Item(4, "F5"),
           Sec("returns", FALSE), Sec("receives", FALSE), Sec("attributes", FALSE), Sec("parameters", FALSE)}
\* regression domain for the parent-annotation look-ups: one to three items without a type in returns-like sections (five lines)
Defect2 == {Sec("returns", FALSE), Sec("yields", FALSE), Sec("receives", FALSE), Item(4, "F5")}
Alphabet == CASE Alpha = "core" -> Core [] Alpha = "mid" -> Mid [] Alpha = "rich" -> Rich [] Alpha = "defect2" -> Defect2 [] OTHER -> Defect

\* ---- predicates on lines (what the regexes / string tests of the code compute) ----------------------
N == Len(lines)
L(i) == lines[i + 1]
InRange(i) == i >= 0 /\ i < N
IsBlank(ln) == ln.k = "blank"                        \* _is_empty_line
IsEmptyStr(ln) == ln.k = "blank" /\ ln.a = "e"         \* falsy element of any(current_section)
StartsFence(ln) == ln.k = "fence"                      \* line.lstrip(" ").startswith("```")
AdmMatch(ln) == ln.k \in {"sec", "adm"}                \* _RE_ADMONITION.match
IsSection(ln) == ln.k = "sec"                          \* admonition_type.lower() in _section_kind
Indented(ln) == ln.ind > 0                             \* line.startswith(" ") on a non-blank line
HasColon(ln) == \/ ln.k \in {"sec", "adm"}
                \/ ln.k = "item" /\ ln.a \notin {"F5", "BL"}          \* BL: the doctest output line `<BLANKLINE>`
                \/ ln.k = "text" /\ ln.a = "colon"
                \/ ln.k = "prompt" /\ ln.a = "flags"
TitleOf(ln) == IF ln.t THEN "given" ELSE "none"

RECURSIVE RStripBlank(_)
RStripBlank(s) == IF s = <<>> THEN s ELSE IF IsBlank(L(s[Len(s)])) THEN RStripBlank(SubSeq(s, 1, Len(s) - 1)) ELSE s

\* ---- _read_block_items ---------------------------------------------------------------------------
RECURSIVE SkipEmpty(_)
SkipEmpty(i) ==   \* while _is_empty_line(lines[new_offset]): new_offset += 1      (no bound check in the code)
  IF ~InRange(i) THEN -1 ELSE IF IsBlank(L(i)) THEN SkipEmpty(i + 1) ELSE i

RECURSIVE ItemsLoop(_, _, _, _)
ItemsLoop(i, indent, items, item) ==     \* while new_offset < len(lines)
  IF i >= N THEN [crash |-> "", items |-> Append(items, item), off |-> i - 1]
  ELSE LET ln == L(i) IN
       IF IsBlank(ln) \/ ln.ind >= 2 * indent \/ ln.ind >= indent + 1
         THEN ItemsLoop(i + 1, indent, items, [item EXCEPT !.body = Append(@, i)])   \* "" / continuation / confusing indent
       ELSE IF ln.ind >= indent
         THEN ItemsLoop(i + 1, indent, Append(items, item), [first |-> i, body |-> <<>>])
       ELSE [crash |-> "", items |-> Append(items, item), off |-> i - 1]                \* lower indent: break

ReadBlockItems(off) ==
  IF off >= N THEN [crash |-> "", items |-> <<>>, off |-> off]
  ELSE LET s == SkipEmpty(off) IN
       IF s = -1 THEN [crash |-> "IndexError", items |-> <<>>, off |-> off]
       ELSE IF L(s).ind = 0 THEN [crash |-> "", items |-> <<>>, off |-> s - 1]
       ELSE ItemsLoop(s + 1, L(s).ind, <<>>, [first |-> s, body |-> <<>>])

\* ---- _read_block ---------------------------------------------------------------------------------
RECURSIVE BlockLoop(_, _, _)
BlockLoop(i, indent, acc) ==
  IF i < N /\ (L(i).ind >= indent \/ IsBlank(L(i))) THEN BlockLoop(i + 1, indent, Append(acc, i))
  ELSE [crash |-> "", tl |-> RStripBlank(acc), indent |-> indent, off |-> i - 1]

ReadBlock(off) ==
  IF off >= N THEN [crash |-> "", tl |-> <<>>, indent |-> 0, off |-> off - 1]
  ELSE LET s == SkipEmpty(off) IN
       IF s = -1 THEN [crash |-> "IndexError", tl |-> <<>>, indent |-> 0, off |-> off]
       ELSE IF L(s).ind = 0 THEN [crash |-> "", tl |-> <<>>, indent |-> 0, off |-> off - 1]
       ELSE BlockLoop(s + 1, L(s).ind, <<s>>)

\* ---- item interpretation -----------------------------------------------------------------------------
\* element record: first/body = consumed lines; name: "n" the name written on line `first`, "e" the empty string,
\* "x" other text of the line, "-" the element type has no name; ann: "doc" the type written on line `first`,
\* "sig" taken from the parent (the part that belongs to the item), "sigw" the parent's whole return annotation, "none", "x" other text of the line,
\* "p" whatever the parent's return annotation supplies (seq mode); dflt: "sig" | "none" | "-";
\* d: the description starts after the first colon of line `first` ("c") or is the whole line ("l")
El(it, name, ann, dflt, d) == [first |-> it.first, body |-> RStripBlank(it.body), name |-> name, ann |-> ann, dflt |-> dflt, d |-> d]   \* description.rstrip("\n")
\* form of the first line of an item: F1..F6 for item lines, F? for other lines with a colon (a prompt with doctest flags), F5 without
Form(it) == LET ln == L(it.first) IN IF ln.k = "item" THEN ln.a ELSE IF HasColon(ln) THEN "F?" ELSE "F5"
Accepted(it) == HasColon(L(it.first))                   \* `x, y = line.split(":", 1)` does not raise
SigAnn(it) == IF sig[it.first + 1].ann THEN "sig" ELSE "none"
SigDef(it) == IF sig[it.first + 1].def THEN "sig" ELSE "none"

ParamEl(it) ==      \* _read_parameters
  LET f == Form(it) IN
  CASE f = "F1" -> El(it, "n", SigAnn(it), SigDef(it), "c")
    [] f = "F2" -> El(it, "n", "doc", SigDef(it), "c")          \* " " in name_with_type
    [] f = "F?" -> El(it, "x", "x", "none", "c")                \* " " in name_with_type, both parts are other text
    [] f = "F7" -> El(it, "n", "e", SigDef(it), "c")             \* `name ` -> split(" ", 1) -> name, annotation ""
    [] f = "F4" -> El(it, "e", "none", "none", "c")
    [] OTHER    -> El(it, "x", "none", "none", "c")             \* "(t)", "name(sig)": looked up by that text, not found
NameSigEl(it) ==    \* functions / classes
  LET f == Form(it) IN
  CASE f = "F1" -> El(it, "n", "none", "-", "c")
    [] f = "F6" -> El(it, "n", "doc", "-", "c")
    [] f = "F4" -> El(it, "e", "none", "-", "c")
    [] OTHER    -> El(it, "x", "x", "-", "c")                   \* "(" in name_with_signature
ModuleEl(it) == LET f == Form(it) IN El(it, IF f = "F1" THEN "n" ELSE IF f = "F4" THEN "e" ELSE "x", "-", "-", "c")
RaiseEl(it) ==  LET f == Form(it) IN El(it, "-", IF f = "F1" THEN "doc" ELSE IF f = "F4" THEN "e" ELSE "x", "-", "c")

RECURSIVE MapAccepted(_, _, _)
MapAccepted(items, K, acc) ==
  IF items = <<>> THEN acc
  ELSE LET it == Head(items) IN
       MapAccepted(Tail(items), K,
         IF ~Accepted(it) THEN acc
         ELSE Append(acc, CASE K \in {"parameters", "other_parameters"} -> ParamEl(it)
                            [] K \in {"functions", "classes"} -> NameSigEl(it)
                            [] K = "modules" -> ModuleEl(it)
                            [] OTHER -> RaiseEl(it)))

\* _read_attributes_section: `annotation = None` at the top of every iteration; the look-up docstring.parent[name].annotation
\* runs under suppress(AttributeError, KeyError, TypeError, ValueError, AliasResolutionError, CyclicAliasError): it never raises
AttrEl(it) ==
  LET f == Form(it)
      found == f = "F1" /\ sig[it.first + 1].ann          \* docstring.parent[name].annotation
  IN El(it, IF f \in {"F1", "F2", "F7"} THEN "n" ELSE IF f = "F4" THEN "e" ELSE "x",
        IF f = "F2" THEN "doc" ELSE IF f = "F?" THEN "x" ELSE IF f = "F7" THEN "e" ELSE IF found THEN "sig" ELSE "none", "-", "c")
RECURSIVE AttrFold(_, _)
AttrFold(items, acc) ==
  IF items = <<>> THEN acc
  ELSE AttrFold(Tail(items), IF Accepted(Head(items)) THEN Append(acc, AttrEl(Head(items))) ELSE acc)

\* _get_name_annotation_description + annotation choice of the returns / yields / receives readers
\* _annotation_from_parent(gen_index = 2 returns / 0 yields / 1 receives): Generator -> slice.elements[gen_index];
\* Iterator -> slice only for gen_index 0; otherwise the annotation as it is.  "sig": the part that belongs to this section
\* (then, with several items, the element of the tuple), "sigw": the whole return annotation
ParentRet(K) ==
  LET gen_index == CASE K = "returns" -> 2 [] K = "yields" -> 0 [] OTHER -> 1 IN
  IF wrap = "gen" THEN "sig" ELSE IF wrap = "iter" /\ gen_index = 0 THEN "sig" ELSE IF wrap = "iter" THEN "sigw" ELSE "sig"
RetEl(it, K, named) ==
  LET f == Form(it)
      parentann == IF Mode = "seq" THEN "p" ELSE IF sig[it.first + 1].ann THEN ParentRet(K) ELSE "none"   \* "p": whatever the parent supplies
  IN IF named        \* _RE_NAME_ANNOTATION_DESCRIPTION: `name? (type)?: desc`, else everything is the description
       THEN CASE f \in {"F1", "F7"} -> El(it, "n", parentann, "-", "c")       \* `\w+\s*:` - white space before the colon is fine
              [] f = "F2" -> El(it, "n", "doc", "-", "c")
              [] f = "F3" -> El(it, "e", "doc", "-", "c")
              [] f = "F6" -> El(it, "n", "doc", "-", "c")         \* `name(sig): d`: the regex takes sig as the type
              [] f = "F4" -> El(it, "e", parentann, "-", "c")
              [] OTHER    -> El(it, "e", parentann, "-", "l")     \* F5, F?: the optional prefix does not match
       ELSE CASE f = "F1" -> El(it, "e", "doc", "-", "c")         \* the text before the colon is the annotation
              [] f = "F3" -> El(it, "e", "doc", "-", "c")
              [] f \in {"F2", "F6", "F7", "F?"} -> El(it, "e", "x", "-", "c")
              [] f = "F4" -> El(it, "e", parentann, "-", "c")     \* annotation "" is falsy
              [] OTHER    -> El(it, "e", parentann, "-", "l")     \* F5: no colon

\* ---- _read_examples_section: sub-sections of the block -----------------------------------------------------
\* state: ex = in_code_example, cb = in_code_block, ct/ce = current_text / current_example (line lists)
RECURSIVE ExFold(_, _, _, _, _, _, _)
ExFold(tl, indent, ex, cb, ct, ce, subs) ==
  IF tl = <<>>
    THEN IF ct # <<>> THEN Append(subs, [kind |-> "text", tl |-> RStripBlank(ct)])
         ELSE IF ce # <<>> THEN Append(subs, [kind |-> "examples", tl |-> ce]) ELSE subs
  ELSE LET i == Head(tl) ln == L(i) rest == Tail(tl) IN
       IF IsBlank(ln) THEN
          IF ex THEN ExFold(rest, indent, FALSE, cb, ct, <<>>, IF ce # <<>> THEN Append(subs, [kind |-> "examples", tl |-> ce]) ELSE subs)
          ELSE ExFold(rest, indent, ex, cb, Append(ct, i), ce, subs)
       ELSE IF ex THEN ExFold(rest, indent, ex, cb, ct, Append(ce, i), subs)
       ELSE IF ln.k = "fence" /\ ln.ind = indent THEN ExFold(rest, indent, ex, ~cb, Append(ct, i), ce, subs)
       ELSE IF cb THEN ExFold(rest, indent, ex, cb, Append(ct, i), ce, subs)
       ELSE IF ln.k = "prompt" /\ ln.ind = indent
         THEN ExFold(rest, indent, TRUE, cb, <<>>, Append(ce, i), IF ct # <<>> THEN Append(subs, [kind |-> "text", tl |-> RStripBlank(ct)]) ELSE subs)
       ELSE ExFold(rest, indent, ex, cb, Append(ct, i), ce, subs)
\* text.split("\n") of the empty block is [""]: one empty line -> current_text = [""] -> one empty text sub-section
ExSubs(blk) == IF blk.tl = <<>> THEN <<[kind |-> "text", tl |-> <<>>]>> ELSE ExFold(blk.tl, blk.indent, FALSE, FALSE, <<>>, <<>>, <<>>)

\* ---- sections ------------------------------------------------------------------------------------------------------
NoItems == <<>>
SecRec(kind, title, hdr, tl, items, subs) == [kind |-> kind, title |-> title, hdr |-> hdr, tl |-> tl, items |-> items, subs |-> subs]
TextSec(tl) == SecRec("text", "none", -1, tl, NoItems, <<>>)
AnyNonEmpty(c) == \E j \in 1..Len(c) : ~IsEmptyStr(L(c[j]))            \* any(current_section)
Flush(secs, c) == IF c # <<>> /\ AnyNonEmpty(c) THEN Append(secs, TextSec(RStripBlank(c))) ELSE secs

\* ---- lazy reads -------------------------------------------------------------------------------------------------
Val(b) == IF b THEN "T" ELSE "F"
CanRead(o, b) == opts[o] \in {"U", Val(b)}
Split(P, b) == IF b THEN pcand \cap P ELSE pcand \ P       \* candidates for which the test on the parent is b

\* =========================================== the case space ===========================================================
NoSig == [ann |-> FALSE, def |-> FALSE]
\* Docstring.value = inspect.cleandoc(source.rstrip()): first and last line non-blank, and the common indentation is removed, so
\* SOME non-blank line (possibly the first: a source that starts with a newline keeps the relative indentation of its first
\* paragraph) has no indentation.  ("Args:" followed only by indented lines is the most common docstring shape.)
CleandocFixedPoint(d) ==
  /\ ~IsBlank(d[1]) /\ ~IsBlank(d[Len(d)])
  /\ \E j \in 1..Len(d) : ~IsBlank(d[j]) /\ d[j].ind = 0

\* ---- struct mode: structures and their well-formed layout (RenderLines) ------------------------------------------
Shapes == {"one", "two", "blank"}
\* an item as written: named / typed, what the signature supplies, shape of the description
ItemSpecs(K) ==
  LET shapes == CASE Variety = "full" -> Shapes [] Variety = "thin" -> {"one", "blank"} [] OTHER -> {"blank"}
      SA == IF Variety = "mini" THEN {FALSE} ELSE BOOLEAN IN
  CASE K \in {"parameters", "other_parameters"} ->
         {[named |-> TRUE, typed |-> ty, sann |-> sa, sdef |-> sd, shape |-> sh] :
             ty \in BOOLEAN, sa \in SA, sd \in (IF Variety = "full" THEN BOOLEAN ELSE {TRUE}), sh \in shapes}
    [] K = "attributes" ->
         {[named |-> TRUE, typed |-> ty, sann |-> sa, sdef |-> FALSE, shape |-> sh] : ty \in BOOLEAN, sa \in SA, sh \in shapes}
    [] K \in {"raises", "warns"} ->
         {[named |-> FALSE, typed |-> TRUE, sann |-> FALSE, sdef |-> FALSE, shape |-> sh] : sh \in shapes}
    [] K \in {"functions", "classes"} ->
         {[named |-> TRUE, typed |-> ty, sann |-> FALSE, sdef |-> FALSE, shape |-> sh] : ty \in BOOLEAN, sh \in shapes}
    [] K = "modules" ->
         {[named |-> TRUE, typed |-> FALSE, sann |-> FALSE, sdef |-> FALSE, shape |-> sh] : sh \in shapes}
    [] OTHER ->    \* returns / yields / receives
         {[named |-> nm, typed |-> ty, sann |-> sa, sdef |-> FALSE, shape |-> sh] :
             nm \in BOOLEAN, ty \in BOOLEAN, sa \in SA, sh \in shapes}
ItemLists(K) == LET S == ItemSpecs(K) IN
  {<<a>> : a \in S} \cup (CASE Variety = "full" -> {<<a, b>> : a \in S, b \in S} [] Variety = "thin" -> {<<a, a>> : a \in S} [] OTHER -> {})
SectionSpecs ==
  UNION {{[kind |-> K, title |-> t, items |-> il, shape |-> "one"] : t \in BOOLEAN, il \in ItemLists(K)} : K \in ItemKinds \cup RetKinds}
  \cup {[kind |-> "examples", title |-> t, items |-> <<>>, shape |-> sh] : t \in BOOLEAN, sh \in {"one", "two", "three"}}
  \cup {[kind |-> "admonition", title |-> t, items |-> <<>>, shape |-> sh] : t \in BOOLEAN, sh \in Shapes}
  \cup {[kind |-> "text", title |-> FALSE, items |-> <<>>, shape |-> sh] : sh \in Shapes}
ThinSectionSpecs == {s \in SectionSpecs : s.title = FALSE \/ s.kind \in {"admonition", "parameters"}}
MiniSectionSpecs == {s \in SectionSpecs : s.title = FALSE /\ (s.kind \in {"examples", "admonition", "text"} => s.shape = (IF s.kind = "examples" THEN "one" ELSE "blank"))}
Structs == UNION {[1..n -> (CASE Variety = "full" -> SectionSpecs [] Variety = "thin" -> ThinSectionSpecs [] OTHER -> MiniSectionSpecs)] : n \in 1..MaxSecs}

\* the options the layout depends on (named / multiple), chosen with the structure
StructOpts == [returns_multiple_items : BOOLEAN, returns_named_value : BOOLEAN,
               receives_multiple_items : BOOLEAN, receives_named_value : BOOLEAN, trim_doctest_flags : BOOLEAN]
MultiOf(K, so) == IF K = "receives" THEN so.receives_multiple_items ELSE IF K \in {"returns", "yields"} THEN so.returns_multiple_items ELSE TRUE
NamedOf(K, so) == IF K = "receives" THEN so.receives_named_value ELSE IF K \in {"returns", "yields"} THEN so.returns_named_value ELSE TRUE

\* Is the structure expressible in the well-formed syntax under these options?
ItemOK(K, it, so) ==
  /\ (K \in RetKinds /\ ~NamedOf(K, so)) => ~it.named       \* items cannot be named when *_named_value is false
  /\ (K \in RetKinds /\ it.typed) => ~it.sann                \* a written type overrides: the signature is not asked
  /\ (K \in {"parameters", "other_parameters", "attributes"} /\ it.typed) => TRUE
SecOK(s, so) ==
  /\ \A j \in 1..Len(s.items) : ItemOK(s.kind, s.items[j], so)
  /\ (s.kind \in RetKinds /\ ~MultiOf(s.kind, so)) => Len(s.items) = 1
  \* all items of a returns-like section share what the signature supplies (one return annotation)
  /\ (s.kind \in RetKinds /\ Len(s.items) = 2) => (s.items[1].sann = s.items[2].sann \/ s.items[1].typed \/ s.items[2].typed)
\* one documented object must be able to supply everything the structure takes from it: at most one returns-like section asks
\* for the return annotation (the others write their types), and not together with attribute annotations (a class has none)
RetSann(s) == s.kind \in RetKinds /\ \E j \in 1..Len(s.items) : s.items[j].sann
AttrSann(s) == s.kind = "attributes" /\ \E j \in 1..Len(s.items) : s.items[j].sann
OneObject(st) ==
  /\ Cardinality({j \in 1..Len(st) : RetSann(st[j])}) <= 1
  /\ (\E j \in 1..Len(st) : RetSann(st[j])) =>
        /\ \A m \in 1..Len(st) : (st[m].kind \in RetKinds /\ ~RetSann(st[m])) => \A i \in 1..Len(st[m].items) : st[m].items[i].typed
        /\ ~\E m \in 1..Len(st) : AttrSann(st[m])
StructOK(st, so) ==
  /\ \A j \in 1..Len(st) : SecOK(st[j], so)
  /\ OneObject(st)
  \* the four layout options are varied only when a section they govern is present
  /\ ((\A j \in 1..Len(st) : st[j].kind \notin {"returns", "yields"}) => (so.returns_multiple_items /\ so.returns_named_value))
  /\ ((\A j \in 1..Len(st) : st[j].kind # "receives") => (so.receives_multiple_items /\ so.receives_named_value))
  /\ ((\A j \in 1..Len(st) : ~(st[j].kind = "examples" /\ st[j].shape = "three")) => so.trim_doctest_flags)
  \* two text sections in a row are one text section; keep texts apart
  /\ \A j \in 1..Len(st) - 1 : ~(st[j].kind = "text" /\ st[j + 1].kind = "text")
  /\ st[1].kind # "text"                                       \* the summary is the text before section 1

\* rendering: returns [lines, sig, expect] ------------------------------------------------------------------------
FormOf(K, it, so) ==
  CASE K \in {"raises", "warns", "modules"} -> "F1"
    [] K \in {"functions", "classes"} -> IF it.typed THEN "F6" ELSE "F1"
    [] K \in RetKinds /\ ~NamedOf(K, so) -> IF it.typed THEN "F1" ELSE "F5"
    [] OTHER -> IF it.named THEN (IF it.typed THEN "F2" ELSE "F1") ELSE (IF it.typed THEN "F3" ELSE "F5")
DescLines(shape, ci) ==   \* continuation lines of a description, at indent ci
  CASE shape = "one" -> <<>> [] shape = "two" -> <<Item(ci, "F5")>> [] OTHER -> <<Blank("e"), Item(ci, "F5")>>
SeqFromTo(a, b) == [j \in 1..(b - a + 1) |-> a + j - 1]
ExpName(K, it, so) ==
  CASE K \in {"raises", "warns"} -> "-"
    [] K \in RetKinds -> IF it.named THEN "n" ELSE "e"
    [] OTHER -> "n"
ExpAnn(K, it, so) ==
  CASE K = "modules" -> "-"
    [] K \in {"functions", "classes"} -> IF it.typed THEN "doc" ELSE "none"
    [] OTHER -> IF it.typed THEN "doc" ELSE IF it.sann THEN "sig" ELSE "none"
ExpDef(K, it) == IF K \in {"parameters", "other_parameters"} THEN (IF it.sdef THEN "sig" ELSE "none") ELSE "-"

RECURSIVE RenderItems(_, _, _, _, _)
RenderItems(K, items, so, base, acc) ==     \* acc = [lines, sig, els]; base = 0-based index of the next line
  IF items = <<>> THEN acc
  ELSE LET it == Head(items)
           ci == IF MultiOf(K, so) THEN 8 ELSE 4
           dl == DescLines(it.shape, ci)
           ls == <<Item(4, FormOf(K, it, so))>> \o dl
           sg == <<[ann |-> it.sann /\ ~it.typed, def |-> it.sdef]>> \o [j \in 1..Len(dl) |-> NoSig]
           el == [first |-> base, body |-> SeqFromTo(base + 1, base + Len(dl)),
                  name |-> ExpName(K, it, so), ann |-> ExpAnn(K, it, so), dflt |-> ExpDef(K, it),
                  d |-> IF FormOf(K, it, so) = "F5" THEN "l" ELSE "c"]
       IN RenderItems(K, Tail(items), so, base + Len(ls),
                      [lines |-> acc.lines \o ls, sig |-> acc.sig \o sg, els |-> Append(acc.els, el)])

RenderSection(s, so, base) ==    \* lines of one section (without the separating blank line) and the expected record
  LET K == s.kind IN
  CASE K = "text" ->
         LET ls == CASE s.shape = "one" -> <<Text("plain")>> [] s.shape = "two" -> <<Text("plain"), Text("colon")>>
                     [] OTHER -> <<Text("plain"), Blank("e"), Text("plain")>>
         IN [lines |-> ls, sig |-> [j \in 1..Len(ls) |-> NoSig], exp |-> TextSec(SeqFromTo(base, base + Len(ls) - 1))]
    [] K = "admonition" ->
         LET body == <<Item(4, "F5")>> \o DescLines(s.shape, 4)
             ls == <<Adm(s.title)>> \o body
         IN [lines |-> ls, sig |-> [j \in 1..Len(ls) |-> NoSig],
             exp |-> SecRec("admonition", IF s.title THEN "given" ELSE "type", base, SeqFromTo(base + 1, base + Len(body)), NoItems, <<>>)]
    [] K = "examples" ->
         \* "three": a prompt with a `# doctest:` comment, the output line `<BLANKLINE>`, an output line - one console block
         LET body == CASE s.shape = "one" -> <<Item(4, "F5"), Blank("e"), Prompt(4), Item(4, "F5")>>
                       [] s.shape = "three" -> <<PromptF(4), Item(4, "BL"), Item(4, "F5")>>
                       [] OTHER -> <<Prompt(4), Prompt(4), Blank("e"), Item(4, "F5"), Blank("e"), Prompt(4)>>
             ls == <<Sec("examples", s.title)>> \o body
             subs == IF s.shape = "one"
                       THEN <<[kind |-> "text", tl |-> <<base + 1>>], [kind |-> "examples", tl |-> <<base + 3, base + 4>>]>>
                     ELSE IF s.shape = "three" THEN <<[kind |-> "examples", tl |-> <<base + 1, base + 2, base + 3>>]>>
                       ELSE <<[kind |-> "examples", tl |-> <<base + 1, base + 2>>], [kind |-> "text", tl |-> <<base + 4>>],
                              [kind |-> "examples", tl |-> <<base + 6>>]>>
         IN [lines |-> ls, sig |-> [j \in 1..Len(ls) |-> NoSig],
             exp |-> SecRec("examples", TitleOf(Sec(K, s.title)), base, SeqFromTo(base + 1, base + Len(body)), NoItems, subs)]
    [] OTHER ->
         LET r == RenderItems(K, s.items, so, base + 1, [lines |-> <<>>, sig |-> <<>>, els |-> <<>>])
         IN [lines |-> <<Sec(K, s.title)>> \o r.lines, sig |-> <<NoSig>> \o r.sig,
             exp |-> SecRec(K, TitleOf(Sec(K, s.title)), base, <<>>, r.els, <<>>)]

RECURSIVE RenderAll(_, _, _)
RenderAll(st, so, acc) ==      \* acc = [lines, sig, expect]; sections are separated by one blank line
  IF st = <<>> THEN acc
  ELSE LET r == RenderSection(Head(st), so, Len(acc.lines) + 1)
       IN RenderAll(Tail(st), so, [lines |-> acc.lines \o <<Blank("e")>> \o r.lines,
                                   sig |-> acc.sig \o <<NoSig>> \o r.sig,
                                   expect |-> Append(acc.expect, r.exp)])
RenderLines(st, so) ==     \* summary line, then the sections
  RenderAll(st, so, [lines |-> <<Text("plain")>>, sig |-> <<NoSig>>, expect |-> <<TextSec(<<0>>)>>])

\* ---- Init -----------------------------------------------------------------------------------------------------
\* every cleandoc-stable sequence of 1..MaxLen classes (enumerated piecewise: first line, middle, last line), + the empty docstring
SeqLines ==
  \/ lines = <<Blank("e")>>
  \/ \E n \in 1..MaxLen : \E a \in {x \in Alphabet : ~IsBlank(x)} :
       IF n = 1 THEN lines = <<a>> /\ CleandocFixedPoint(lines)
       ELSE \E z \in {x \in Alphabet : ~IsBlank(x)}, m \in [1..(n - 2) -> Alphabet] :
              lines = <<a>> \o m \o <<z>> /\ CleandocFixedPoint(lines)
InitSeq ==
  /\ SeqLines
  /\ sig = [j \in 1..Len(lines) |-> NoSig] /\ wrap = "plain"
  /\ expect = <<>>
  /\ opts = [o \in OptNames |-> "U"]
  /\ pcand = Parents
\* the return annotation of the documented object: what a returns-like section without written types may be taken from.
\* Returns: any shape (a function may return an iterator: then the whole annotation is the type); Yields: Iterator / Generator;
\* Receives: Generator
WrapOK(st, w) ==
  LET S == {j \in 1..Len(st) : RetSann(st[j])} IN
  IF S = {} THEN w = "plain"
  ELSE \A j \in S : st[j].kind = "returns" \/ (st[j].kind = "yields" /\ w # "plain") \/ (st[j].kind = "receives" /\ w = "gen")
\* what the property demands for an item that takes its type from the signature: the part of the return annotation that belongs to
\* the section - for Returns under `-> Iterator[T]` that is the whole annotation
ExpectWrap(exp, w) ==
  [j \in 1..Len(exp) |->
     IF exp[j].kind = "returns" /\ w = "iter"
       THEN [exp[j] EXCEPT !.items = [m \in 1..Len(exp[j].items) |-> IF exp[j].items[m].ann = "sig" THEN [exp[j].items[m] EXCEPT !.ann = "sigw"] ELSE exp[j].items[m]]]
       ELSE exp[j]]
InitStruct ==
  \E st \in Structs, so \in StructOpts, w \in {"plain", "iter", "gen"} :
    /\ StructOK(st, so) /\ WrapOK(st, w) /\ wrap = w
    /\ LET r == RenderLines(st, so) IN lines = r.lines /\ sig = r.sig /\ expect = ExpectWrap(r.expect, w)
    /\ opts = [o \in OptNames |-> CASE o = "returns_multiple_items" -> Val(so.returns_multiple_items)
                                      [] o = "returns_named_value" -> Val(so.returns_named_value)
                                      [] o = "receives_multiple_items" -> Val(so.receives_multiple_items)
                                      [] o = "receives_named_value" -> Val(so.receives_named_value)
                                      [] o = "trim_doctest_flags" -> Val(so.trim_doctest_flags)
                                      [] OTHER -> "F"]
    /\ pcand = {"function"}
Init ==
  /\ IF Mode = "seq" THEN InitSeq ELSE InitStruct
  /\ excl = {}
  /\ pc = "start" /\ offset = 0 /\ in_code = FALSE /\ cur = <<>> /\ sections = <<>>
  /\ crash = [exc |-> "", at |-> ""]
  /\ flags = [ignored |-> FALSE, propsum |-> FALSE]

\* =========================================== parse_google ==============================================================
Crash(exc, at) == /\ pc' = "crashed" /\ crash' = [exc |-> exc, at |-> at]
                  /\ UNCHANGED <<offset, in_code, cur, sections, flags>>

\* ignore_summary = options["ignore_init_summary"] and parent is not None and parent.name == "__init__" and ...
Start ==
  /\ pc = "start"
  /\ \E ignore_summary \in BOOLEAN :
       IF ignore_summary
         THEN /\ CanRead("ignore_init_summary", TRUE) /\ "init" \in pcand
              /\ opts' = [opts EXCEPT !["ignore_init_summary"] = "T"] /\ pcand' = {"init"} /\ excl' = excl
              /\ offset' = 2 /\ flags' = [flags EXCEPT !.ignored = TRUE]
         ELSE /\ opts[("ignore_init_summary")] # "T" \/ pcand # {"init"}
              /\ excl' = (IF opts[("ignore_init_summary")] = "F" \/ "init" \notin pcand THEN excl ELSE excl \cup {<<"ignore_init_summary", "init">>})
              /\ UNCHANGED <<opts, pcand, flags>> /\ offset' = 0
  /\ pc' = "main"
  /\ UNCHANGED <<input, in_code, cur, sections, crash>>

\* one iteration of `while offset < len(lines)` that does not call a reader
MainIter ==
  /\ pc = "main" /\ offset < N
  /\ LET ln == L(offset)
         has_previous_line == offset > 0
         blank_line_above == ~has_previous_line \/ IsBlank(L(offset - 1))
         has_next_line == offset < N - 1
         has_next_lines == offset < N - 2
         blank_line_below == has_next_line /\ IsBlank(L(offset + 1))
         blank_lines_below == has_next_lines /\ IsBlank(L(offset + 2))
         indented_line_below == has_next_line /\ ~blank_line_below /\ Indented(L(offset + 1))
         indented_lines_below == has_next_lines /\ ~blank_lines_below /\ Indented(L(offset + 2))
         skipped == \/ ~(indented_line_below \/ indented_lines_below)                  \* no contents
                    \/ ~blank_line_above                                                 \* missing blank line above
                    \/ (indented_lines_below /\ blank_line_below)                       \* extraneous blank line below
     IN IF in_code
          THEN /\ in_code' = ~StartsFence(ln) /\ cur' = Append(cur, offset) /\ offset' = offset + 1 /\ pc' = "main"
        ELSE IF StartsFence(ln)
          THEN /\ in_code' = TRUE /\ cur' = Append(cur, offset) /\ offset' = offset + 1 /\ pc' = "main"
        ELSE IF AdmMatch(ln) /\ ~skipped
          THEN /\ pc' = (IF IsSection(ln) THEN "section" ELSE "admonition")                \* the reader runs next
               /\ UNCHANGED <<in_code, cur, offset>>
        ELSE /\ cur' = Append(cur, offset) /\ offset' = offset + 1 /\ pc' = "main" /\ in_code' = in_code
  /\ UNCHANGED <<input, opts, pcand, excl, sections, crash, flags>>

Return(secs, off) ==      \* back in the main loop: `offset += 1`
  /\ sections' = secs /\ offset' = off + 1 /\ cur' = <<>> /\ pc' = "main"
  /\ UNCHANGED <<in_code, crash, flags>>

\* parameters, other parameters, raises, warns, functions, classes, modules: _read_block_items + `split(":", 1)`
ReadItemsSection ==
  /\ pc = "section" /\ L(offset).a \in ItemKinds \ {"attributes"}
  /\ LET K == L(offset).a
         r == ReadBlockItems(offset + 1)
         els == MapAccepted(r.items, K, <<>>)
         flushed == Flush(sections, cur)
     IN IF r.crash # "" THEN Crash(r.crash, "_read_block_items")
        ELSE Return(IF els # <<>> THEN Append(flushed, SecRec(K, TitleOf(L(offset)), offset, <<>>, els, <<>>)) ELSE flushed, r.off)
  /\ UNCHANGED <<input, opts, pcand, excl>>

ReadAttributesSection ==
  /\ pc = "section" /\ L(offset).a = "attributes"
  /\ LET r == ReadBlockItems(offset + 1)
         els == AttrFold(r.items, <<>>)
         flushed == Flush(sections, cur)
     IN IF r.crash # "" THEN Crash(r.crash, "_read_block_items")
        ELSE Return(IF els # <<>> THEN Append(flushed, SecRec("attributes", TitleOf(L(offset)), offset, <<>>, els, <<>>)) ELSE flushed, r.off)
  /\ UNCHANGED <<input, opts, pcand, excl>>

\* returns / yields / receives: _read_block_items_maybe(multiple=...), then one element per block item
ReadReturnsSection ==
  /\ pc = "section" /\ L(offset).a \in RetKinds
  /\ LET K == L(offset).a
         om == IF K = "receives" THEN "receives_multiple_items" ELSE "returns_multiple_items"
         on == IF K = "receives" THEN "receives_named_value" ELSE "returns_named_value"
         flushed == Flush(sections, cur)
     IN \E multi \in BOOLEAN, named \in BOOLEAN :
          /\ CanRead(om, multi) /\ CanRead(on, named)
          /\ opts' = [opts EXCEPT ![om] = Val(multi), ![on] = Val(named)]
          /\ IF multi
               THEN LET r == ReadBlockItems(offset + 1)
                        els == [j \in 1..Len(r.items) |-> RetEl(r.items[j], K, named)]
                    IN IF r.crash # "" THEN Crash(r.crash, "_read_block_items")
                       ELSE Return(IF els # <<>> THEN Append(flushed, SecRec(K, TitleOf(L(offset)), offset, <<>>, els, <<>>)) ELSE flushed, r.off)
               ELSE LET b == ReadBlock(offset + 1) IN
                    IF b.crash # "" THEN Crash(b.crash, "_read_block")
                    \* `if not one_block: return [], new_offset`: no item, the section is falsy and dropped
                    ELSE IF b.tl = <<>> THEN Return(flushed, b.off)
                    ELSE Return(Append(flushed, SecRec(K, TitleOf(L(offset)), offset, <<>>,
                                   <<RetEl([first |-> b.tl[1], body |-> Tail(b.tl)], K, named)>>, <<>>)), b.off)
  /\ UNCHANGED <<input, pcand, excl>>

ReadExamplesSection ==
  /\ pc = "section" /\ L(offset).a = "examples"
  /\ LET b == ReadBlock(offset + 1) IN
     IF b.crash # "" THEN Crash(b.crash, "_read_block")
     ELSE Return(Append(Flush(sections, cur), SecRec("examples", TitleOf(L(offset)), offset, b.tl, NoItems, ExSubs(b))), b.off)
  /\ UNCHANGED <<input, opts, pcand, excl>>

\* contents, offset = _read_block(docstring, offset=offset + 1)
ReadAdmonition ==
  /\ pc = "admonition"
  /\ LET b == ReadBlock(offset + 1) IN
     IF b.crash # "" THEN Crash(b.crash, "_read_block")
     ELSE IF b.tl # <<>>
       THEN Return(Append(Flush(sections, cur), SecRec("admonition", IF L(offset).t THEN "given" ELSE "type", offset, b.tl, NoItems, <<>>)), b.off)
     ELSE \* no contents: `with suppress(IndexError): current_section.append(lines[offset])`, offset is the header again
          /\ cur' = (IF InRange(b.off) THEN Append(cur, b.off) ELSE cur) /\ offset' = b.off + 1 /\ pc' = "main"
          /\ UNCHANGED <<sections, in_code, crash, flags>>
  /\ UNCHANGED <<input, opts, pcand, excl>>

\* after the loop: last text section, then returns_type_in_property_summary
FirstNonBlank(tl) == LET S == {j \in 1..Len(tl) : ~IsBlank(L(tl[j]))} IN IF S = {} THEN -1 ELSE tl[CHOOSE j \in S : \A m \in S : j <= m]
Finish ==
  /\ pc = "main" /\ offset >= N
  /\ LET secs == IF cur # <<>> THEN Append(sections, TextSec(RStripBlank(cur))) ELSE sections
         \* if returns_type_in_property_summary and sections and sections[0].kind is text and parent and parent.is_attribute and "property" in labels
         eligible == secs # <<>> /\ (IF secs = <<>> THEN FALSE ELSE secs[1].kind = "text")
     IN \E property_summary \in BOOLEAN :
       IF property_summary
         THEN /\ eligible /\ CanRead("returns_type_in_property_summary", TRUE) /\ pcand \cap PropParents # {}
              /\ opts' = [opts EXCEPT !["returns_type_in_property_summary"] = "T"] /\ pcand' = pcand \cap PropParents /\ excl' = excl
              /\ LET fl == FirstNonBlank(secs[1].tl) IN
                 IF fl # -1 /\ HasColon(L(fl))
                   THEN /\ sections' = Append(secs, SecRec("returns", "none", -1, <<>>,
                                          <<[first |-> -1, body |-> <<>>, name |-> "e", ann |-> "doc", dflt |-> "-", d |-> "c"]>>, <<>>))
                        /\ flags' = [flags EXCEPT !.propsum = TRUE] /\ pc' = "done" /\ UNCHANGED crash
                   ELSE /\ sections' = secs /\ pc' = "done" /\ UNCHANGED <<crash, flags>>
         ELSE /\ ~eligible \/ opts["returns_type_in_property_summary"] # "T" \/ ~(pcand \subseteq PropParents)
              /\ excl' = (IF ~eligible \/ opts["returns_type_in_property_summary"] = "F" \/ pcand \cap PropParents = {}
                            THEN excl ELSE excl \cup {<<"returns_type_in_property_summary", k>> : k \in PropParents})
              /\ sections' = secs /\ pc' = "done" /\ UNCHANGED <<opts, pcand, crash, flags>>
  /\ UNCHANGED <<input, offset, in_code, cur>>

Next == Start \/ MainIter \/ ReadItemsSection \/ ReadAttributesSection \/ ReadReturnsSection \/ ReadExamplesSection
          \/ ReadAdmonition \/ Finish
Spec == Init /\ [][Next]_vars

\* =========================================== properties ==================================================================
Done == pc = "done"
Crashed == pc = "crashed"
Final == Done \/ Crashed

\* C12-total: no exception.  (The crash transitions of the five defects repaired in /repo - findings.d/C12.json, status fixed -
\* are gone from this transcription; the small alphabet "defect" on which they were reachable is kept as a regression domain,
\* DocGoogle_regress.cfg, whose every final state is replayed on the real parser.)
NoCrash == ~Crashed
NoCrashBeyondKnown == NoCrash

\* C12-terminating: every step of the main loop (with or without a reader) moves the offset forward
Progress == [][(pc \in {"section", "admonition"} \/ (pc = "main" /\ pc' = "main")) => (Crashed' \/ offset' > offset)]_vars
\* at most N main-loop iterations: offset never exceeds N + 1 (a reader at the end returns N - 1 or N)
OffsetBounded == offset <= N + 1

\* C12-unmodified: the docstring is never written; what is known about options and parent only grows
Unmodified == [][/\ UNCHANGED input
                 /\ \A o \in OptNames : opts[o] # "U" => opts'[o] = opts[o]
                 /\ pcand' \subseteq pcand /\ pcand' # {} /\ excl \subseteq excl']_vars

\* C12-well-formed: kinds from the enumeration, values of the right shape, lines inside the docstring, no line used twice
SecLines(s) == {s.tl[j] : j \in 1..Len(s.tl)} \cup UNION {{s.items[j].first} \cup {s.items[j].body[m] : m \in 1..Len(s.items[j].body)} : j \in 1..Len(s.items)}
WellFormed ==
  Done => \A j \in 1..Len(sections) : LET s == sections[j] IN
            /\ s.kind \in AllKinds
            /\ (s.kind \in ItemKinds \cup RetKinds) => (s.items # <<>> /\ s.tl = <<>>)
            /\ (s.kind = "examples") => s.subs # <<>>
            /\ (s.kind = "admonition") => s.tl # <<>>
            /\ SecLines(s) \subseteq (0..N - 1) \cup {-1}
            /\ \A m \in 1..Len(sections) : m # j => (SecLines(s) \cap SecLines(sections[m])) \subseteq {-1}
\* headers consumed as headers are not also text
HeadersNotText == Done => \A j, m \in 1..Len(sections) : sections[j].hdr = -1 \/ sections[j].hdr \notin SecLines(sections[m])

\* C12-plain: no section syntax => exactly one text section made of all the lines
NoSyntax == \A j \in 1..N : lines[j].k \notin {"sec", "adm"}
PlainText == (Done /\ NoSyntax /\ ~flags.ignored /\ ~flags.propsum)
                => sections = <<TextSec(RStripBlank(SeqFromTo(0, N - 1)))>>

\* C13: the sections are the structure that was written
ParsesBack == (Mode = "struct" /\ Final) => (Done /\ sections = expect)

\* every state is checked against the invariants; the replay harness gets the final states whose checksum is 0 mod EmitMod
LineCode(ln) == ln.ind + (CASE ln.k = "blank" -> 1 [] ln.k = "text" -> 2 [] ln.k = "sec" -> 3 [] ln.k = "adm" -> 5 [] ln.k = "item" -> 7 [] ln.k = "fence" -> 11 [] OTHER -> 13)
                 + (CASE ln.a \in {"F1", "plain", "parameters", "e"} -> 0 [] ln.a \in {"F4", "colon", "attributes", "w"} -> 17 [] ln.a \in {"F5", "returns"} -> 19 [] OTHER -> 23)
RECURSIVE Checksum(_, _)
Checksum(j, acc) == IF j > Len(lines) THEN acc ELSE Checksum(j + 1, (acc * 31 + j * LineCode(lines[j])) % 1000003)
EmitCase ==
  (Emit /\ Final /\ (EmitMod = 1 \/ Checksum(1, Len(lines)) % EmitMod = 0)) =>
     IF Mode = "seq"
       THEN PrintT(<<"CASE", ToJson([lines |-> lines, opts |-> opts, pcand |-> pcand, excl |-> excl, outcome |-> pc, crash |-> crash,
                                     sections |-> sections, flags |-> flags])>>)
       ELSE PrintT(<<"CASE", ToJson([lines |-> lines, opts |-> opts, pcand |-> pcand, excl |-> excl, outcome |-> pc, crash |-> crash,
                                     sections |-> sections, flags |-> flags, expect |-> expect, sig |-> sig, wrap |-> wrap])>>)
=============================================================================
