------------------------------- MODULE Params -------------------------------
(***************************************************************************)
(* C02 - function signatures equal CPython's view of the same definition.  *)
(*                                                                         *)
(* Shape A (algorithm vs reference).  A *case* is the shape of an          *)
(* ast.arguments node.  ImplParams is a step-by-step transcription of      *)
(* _griffe.agents.nodes.parameters.get_parameters (concatenate, reverse,   *)
(* zip_longest with the reversed defaults, reverse again; the same for     *)
(* keyword-only parameters).  PyParams is the rule of the language         *)
(* reference / inspect.signature: defaults are right-aligned over          *)
(* positional-only ++ positional-or-keyword, kw_defaults are positional.   *)
(* TLC enumerates every shape within the bounds and checks Impl = Py;      *)
(* every shape is printed as a CASE and replayed on the real code and on   *)
(* CPython (gverif/props/c02.py).                                          *)
(***************************************************************************)
EXTENDS Naturals, Sequences, FiniteSets, TLC, Json, SequencesExt

CONSTANTS MaxPos, MaxArgs, MaxKw, Emit

None == "none"
Ctxs == {"def", "async", "method", "lambda"}

VARIABLES npos, nargs, ndef, vararg, nkw, kwmask, kwarg, ctx, annotated,   \* the case
          pc, impl, ref                                                      \* the run
casevars == <<npos, nargs, ndef, vararg, nkw, kwmask, kwarg, ctx, annotated>>
vars == <<casevars, pc, impl, ref>>

\* ---- the ast.arguments node described by the case --------------------------------------------
\* name tables (string concatenation is very slow in TLC: constants instead)
PN == <<"p1", "p2", "p3", "p4">>   AN == <<"a1", "a2", "a3", "a4">>
DN == <<"d1", "d2", "d3", "d4", "d5", "d6", "d7", "d8">>
KN == <<"k1", "k2", "k3", "k4">>   KD == <<"kd1", "kd2", "kd3", "kd4">>
PosOnly == [i \in 1..npos |-> PN[i]]
Args    == [i \in 1..nargs |-> AN[i]]
Defaults == [i \in 1..ndef |-> DN[i]]           \* node.defaults (expression ids)
KwOnly  == [i \in 1..nkw |-> KN[i]]
KwDefaults == [i \in 1..nkw |-> IF kwmask[i] THEN KD[i] ELSE None]   \* node.kw_defaults

\* ---- transcription of get_parameters ---------------------------------------------------------
ZipLongest(s, t, fill) ==
  [i \in 1..(IF Len(s) > Len(t) THEN Len(s) ELSE Len(t)) |->
      <<IF i <= Len(s) THEN s[i] ELSE fill, IF i <= Len(t) THEN t[i] ELSE fill>>]

Tagged == [i \in 1..npos |-> <<PosOnly[i], "positional-only">>]
            \o [i \in 1..nargs |-> <<Args[i], "positional or keyword">>]

ArgsKindsDefaults == Reverse(ZipLongest(Reverse(Tagged), Reverse(Defaults), None))

ImplPositional ==
  [i \in 1..Len(ArgsKindsDefaults) |->
     [name |-> ArgsKindsDefaults[i][1][1], kind |-> ArgsKindsDefaults[i][1][2], default |-> ArgsKindsDefaults[i][2]]]

ImplKw ==
  LET z == Reverse(ZipLongest(Reverse(KwOnly), Reverse(KwDefaults), None))
  IN [i \in 1..Len(z) |-> [name |-> z[i][1], kind |-> "keyword-only", default |-> z[i][2]]]

ImplParams ==
  ImplPositional
    \o (IF vararg THEN <<[name |-> "va", kind |-> "variadic positional", default |-> "()"]>> ELSE <<>>)
    \o ImplKw
    \o (IF kwarg THEN <<[name |-> "kw", kind |-> "variadic keyword", default |-> "{}"]>> ELSE <<>>)

\* ---- reference: what CPython binds (inspect.signature) ---------------------------------------
PyParams ==
  LET n == npos + nargs
      firstDef == n - ndef          \* parameters j > firstDef carry defaults[j - firstDef]
  IN  [j \in 1..n |->
          [name |-> IF j <= npos THEN PosOnly[j] ELSE Args[j - npos],
           kind |-> IF j <= npos THEN "positional-only" ELSE "positional or keyword",
           default |-> IF j > firstDef THEN Defaults[j - firstDef] ELSE None]]
      \o (IF vararg THEN <<[name |-> "va", kind |-> "variadic positional", default |-> None]>> ELSE <<>>)
      \o [i \in 1..nkw |-> [name |-> KwOnly[i], kind |-> "keyword-only", default |-> KwDefaults[i]]]
      \o (IF kwarg THEN <<[name |-> "kw", kind |-> "variadic keyword", default |-> None]>> ELSE <<>>)

\* Parameter.required as Griffe defines it (default is None), vs CPython "must be supplied".
ImplRequired(p) == p.default = None
PyRequired(p) == p.default = None /\ p.kind \notin {"variadic positional", "variadic keyword"}

\* Normalisation stated in DESIGN (C02): variadic parameters carry the conventional "()" / "{}"
\* in Griffe and nothing in CPython; "has a default" is compared on non-variadic parameters.
Variadic(p) == p.kind \in {"variadic positional", "variadic keyword"}
Norm(ps) == [i \in 1..Len(ps) |-> IF Variadic(ps[i]) THEN [ps[i] EXCEPT !.default = None] ELSE ps[i]]

\* ---- case space ------------------------------------------------------------------------------
Init ==
  /\ npos \in 0..MaxPos /\ nargs \in 0..MaxArgs
  /\ ndef \in 0..(npos + nargs)
  /\ vararg \in BOOLEAN /\ kwarg \in BOOLEAN
  /\ nkw \in 0..MaxKw
  /\ kwmask \in [1..nkw -> BOOLEAN]
  /\ ctx \in Ctxs
  /\ annotated \in BOOLEAN
  \* a lambda cannot carry annotations
  /\ (ctx = "lambda" => ~annotated)
  /\ pc = "node" /\ impl = <<>> /\ ref = <<>>

\* One step: Griffe's get_parameters and CPython's binder both look at the node.  (TLC evaluates
\* operator definitions lazily and without memoisation: storing the two results in variables makes
\* every invariant below a cheap look-up.)
GetParameters ==
  /\ pc = "node"
  /\ impl' = ImplParams /\ ref' = PyParams /\ pc' = "done"
  /\ UNCHANGED casevars

Next == GetParameters
Spec == Init /\ [][Next]_vars

\* ---- properties ------------------------------------------------------------------------------
Done == pc = "done"
SameSignature == Done => Norm(impl) = ref
SameRequired == Done => \A i \in 1..Len(impl) :
                   ~Variadic(impl[i]) => (ImplRequired(impl[i]) = PyRequired(ref[i]))
Rank(k) == CASE k = "positional-only" -> 1 [] k = "positional or keyword" -> 2
             [] k = "variadic positional" -> 3 [] k = "keyword-only" -> 4 [] OTHER -> 5
OrderLegal ==   \* kinds appear in CPython's mandatory order and names are unique
  Done => /\ \A i, j \in 1..Len(impl) : i < j => Rank(impl[i].kind) <= Rank(impl[j].kind)
          /\ Cardinality({impl[i].name : i \in 1..Len(impl)}) = Len(impl)
DefaultsOnce ==  \* every default expression of the node is attached to exactly one parameter
  Done => \A d \in 1..ndef : Cardinality({i \in 1..Len(impl) : impl[i].default = DN[d]}) = 1

EmitCase ==
  (Emit /\ Done) =>
     PrintT(<<"CASE", ToJson([npos |-> npos, nargs |-> nargs, ndef |-> ndef, vararg |-> vararg,
                              nkw |-> nkw, kwmask |-> kwmask, kwarg |-> kwarg, ctx |-> ctx,
                              annotated |-> annotated, impl |-> impl, ref |-> ref])>>)
=============================================================================
