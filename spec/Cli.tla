-------------------------------- MODULE Cli --------------------------------
(***************************************************************************)
(* X06 - the command flow of `griffe dump` and of the global options       *)
(* (src/_griffe/cli.py: main, get_parser, dump, _load_packages,            *)
(* _print_data; src/griffe/__main__.py).                                   *)
(*                                                                         *)
(* WHAT is serialised is Serde.tla (C08), how a package is found / loaded  *)
(* is Finder.tla / LoadProtocol.tla (C14, C15), how aliases are resolved   *)
(* is Loader.tla (C06).  This module specifies the FLOW around them:       *)
(*   parse argv -> logging -> options -> extensions -> one load per        *)
(*   PACKAGE (ok / not found / import error / loading error / skipped)     *)
(*   -> alias resolution (side-loading of other packages) -> output        *)
(*   (stdout | one file | one file per package) -> stats -> exit status.   *)
(* One behaviour = one command line.  Init chooses the abstract argv `a`   *)
(* from the option sets of a job; the actions are the statements of the    *)
(* code in order (the Impl lane: variables pc, coll, logs, writes, st);    *)
(* the reference (what the documented contract demands) is declarative:    *)
(* Ref... operators, evaluated by the Judge action into `ref`.             *)
(* The world (which package token exists where, which aliases it has) is   *)
(* the table built on disk by gverif/props/x06_world.py.                   *)
(***************************************************************************)
EXTENDS Naturals, Sequences, FiniteSets, TLC, Json

CONSTANTS Jobs,     \* names of the jobs (option sub-spaces, see JobOf) explored in this run
          Domain,   \* "clean": command lines on which the code meets the reference (invariants must hold)
                    \* "defect": the remaining ones (the model exhibits the recorded defects)  "all": both
          MaxPk,    \* longest PACKAGE list
          Rich      \* TRUE: the larger option products of the thorough tier

Tok == {"pa", "pb", "pc", "pd", "pe", "pi", "ps", "pm", "pt", "px", "here", "nf", "empty", "pa.sub", "bi", "bad", "syn"}
TopOf(t) == IF t = "pa.sub" THEN "pa" ELSE t          \* key in the modules collection
Where(t) ==                                            \* directories holding the package
  CASE t \in {"pa", "pb", "pe", "pi", "ps", "pm", "pt", "bad", "syn", "pa.sub", "_ps"} -> {"src"}
    [] t = "pc" -> {"alt"}
    [] t = "px" -> {"sp"}
    [] t = "pd" -> {"src", "alt", "sp"}
    [] t = "here" -> {"cwd"}
    [] OTHER -> {}
\* import aliases of the top-level packages: exported (listed in __all__) or not, and the package they point into
Aliases(p) ==
  CASE p = "pe" -> {[exp |-> TRUE, tgt |-> "pb"]}
    [] p = "pi" -> {[exp |-> FALSE, tgt |-> "pb"]}
    [] p = "ps" -> {[exp |-> TRUE, tgt |-> "_ps"]}
    [] p = "pm" -> {[exp |-> TRUE, tgt |-> "nx"]}
    [] p = "pt" -> {[exp |-> TRUE, tgt |-> "pe"]}
    [] OTHER -> {}
PrivSibling(p, tgt) == p = "ps" /\ tgt = "_ps"       \* tgt = "_" + p

Range(s) == {s[i] : i \in 1..Len(s)}
InSeq(x, s) == x \in Range(s)
SeqsUpTo(S, n) == UNION {[1..k -> S] : k \in 1..n}

\* ---- jobs: the option sub-spaces (everything not listed takes the default) ---------------------------------
Default == [pks |-> {<<"pa">>}, outs |-> {"stdout"}, fulls |-> {FALSE}, docs |-> {"none"}, dopts |-> {"none"}, rs |-> {FALSE},
            Is |-> {FALSE}, exts |-> {"unset"}, searches |-> {"src"}, ys |-> {FALSE}, es |-> {"none"}, insps |-> {"default"},
            Bs |-> {FALSE}, Ss |-> {FALSE}, Ls |-> {"unset"}, globs |-> {"none"}]
With(r, f, v) == [r EXCEPT ![f] = v]
LoadToks == {"pa", "pe", "pi", "ps", "pm", "pt", "pb", "nf", "empty", "pa.sub", "syn"}
ResolveOn(j) == With(With(With(j, "rs", BOOLEAN), "Is", BOOLEAN), "exts", {"unset", "U", "noU"})
JobOf(n) ==
  CASE n = "exit" ->      ResolveOn(With(Default, "pks", SeqsUpTo(LoadToks, MaxPk)))
    [] n = "extorder" ->  With(With(With(Default, "pks", {<<"pe">>, <<"ps">>, <<"pt", "nf">>}), "rs", {TRUE}), "exts", {"U.noU", "noU.U", "U", "noU", "unset"})
    [] n = "search" ->    With(With(With(With(Default, "pks", SeqsUpTo({"pa", "pc", "px", "pd", "here", "nf"}, 1) \cup {<<"pd", "pc">>, <<"px", "here">>}),
                               "searches", {"none", "src", "alt", "src.alt", "alt.src"}), "ys", BOOLEAN), "insps", {"default", "X"})
    [] n = "insp" ->      With(With(With(Default, "pks", SeqsUpTo({"pa", "bad", "bi", "nf", "syn", "pb"}, MaxPk)), "insps", {"default", "X", "x", "Xx"}), "rs", BOOLEAN)
    [] n = "placement" -> With(With(With(With(With(With(Default, "pks", SeqsUpTo({"pa", "pb", "pe", "nf"}, MaxPk)),
                               "outs", {"stdout", "file", "tmpl", "escaped", "badfield", "badbrace"}), "fulls", IF Rich THEN BOOLEAN ELSE {FALSE}), "rs", BOOLEAN), "exts", {"unset", "U"}),
                               "es", {"none", "missing"})
    [] n = "options" ->   With(With(With(With(With(With(With(With(Default, "pks", {<<"pa">>, <<"pa", "pb">>}), "fulls", BOOLEAN), "docs", {"none", "google", "numpy", "sphinx"}),
                               "dopts", {"none", "ok"}), "es", {"none", "file", "cls", "opts", "builtin", "two"}), "Bs", BOOLEAN),
                               "insps", IF Rich THEN {"default", "x"} ELSE {"default"}), "outs", IF Rich THEN {"stdout", "tmpl"} ELSE {"stdout"})
    [] n = "options2" ->  With(With(With(With(With(With(Default, "fulls", BOOLEAN), "docs", {"none", "google"}), "es", {"none", "file"}), "Bs", BOOLEAN), "insps", {"x"}), "outs", {"stdout", "tmpl", "file"})
    [] n = "logging" ->   With(With(With(With(With(Default, "pks", SeqsUpTo({"pa", "nf", "empty", "pe"}, MaxPk)), "Ls", {"unset", "debug", "INFO", "Warning", "ERROR", "CRITICAL"}),
                               "Ss", BOOLEAN), "rs", BOOLEAN), "insps", IF Rich THEN {"default", "X"} ELSE {"default"})
    [] n = "usage" ->     With(With(With(With(With(With(Default, "globs", {"none", "help", "version", "debuginfo", "nocmd", "unknownopt", "nopkgs", "subhelp", "badcmd"}),
                               "docs", {"none", "bad"}), "dopts", {"none", "bad"}), "Ls", {"unset", "bad"}), "outs", {"stdout", "file"}), "pks", {<<"pa">>, <<"nf">>})
    [] OTHER -> Default

VARIABLES job, a,      \* the case: job name, abstract argv
          pc,          \* next statement of the code
          i,           \* index of the PACKAGE being loaded
          coll,        \* modules collection: sequence of top-level names in insertion order (a dict)
          logs,        \* records handed to the logger so far: [lv, ev, pk]
          writes,      \* what was written where: set of [to, form, pkgs]
          st,          \* [status, exit]: how main() ended ("" while running)
          ref          \* the reference outcome, filled in by Judge
vars == <<job, a, pc, i, coll, logs, writes, st, ref>>

\* ---- derived from argv (get_parser + the first statements of dump) -------------------------------------------
SearchSeq == CASE a.search = "none" -> <<>> [] a.search = "src" -> <<"src">> [] a.search = "alt" -> <<"alt">>
               [] a.search = "src.alt" -> <<"src", "alt">> [] OTHER -> <<"alt", "src">>
\* search_paths.extend(sys.path) when -y; ModuleFinder falls back to sys.path when the list is empty.  "sp" stands
\* for sys.path (the only entry of it that holds packages of the world)
EffSearch == IF a.y THEN SearchSeq \o <<"sp">> ELSE IF SearchSeq = <<>> THEN <<"sp">> ELSE SearchSeq
Allow == a.insp \notin {"X", "Xx"}
Force == a.insp \in {"x", "Xx"}
\* -U / --no-resolve-external share one dest, the last one wins.  Neither given: the help of both options and the
\* docstring of dump() promise "resolve only from one module to its private sibling" (None); argparse however
\* takes the default of the first action registered for the dest (store_true: False)
RefExtMode == CASE a.ext \in {"U", "noU.U"} -> "T" [] a.ext \in {"noU", "U.noU"} -> "F" [] OTHER -> "N"
ImplExtMode == IF RefExtMode = "N" THEN "F" ELSE RefExtMode
Level == CASE a.L \in {"unset", "INFO"} -> 20 [] a.L = "debug" -> 10 [] a.L = "Warning" -> 30 [] a.L = "ERROR" -> 40 [] OTHER -> 50
OnDisk(t) == "cwd" \in Where(t) \/ Where(t) \cap Range(EffSearch) # {}
\* outcome of loader.load(PACKAGE, try_relative_path=True) for the loader built from argv
Outcome(t) ==
  CASE t = "empty" -> "skipped"
    [] t = "syn" /\ OnDisk(t) -> "loadingerror"                       \* SyntaxError in __init__.py -> LoadingError
    [] t \in {"bad", "pm"} /\ OnDisk(t) /\ Force -> "loadingerror"     \* the import raises -> LoadingError
    [] t = "bi" -> IF Allow \/ Force THEN "ok" ELSE "notfound"        \* builtin module: inspected, nothing on disk
    [] ~OnDisk(t) -> IF Allow \/ Force THEN "importerror" ELSE "notfound"   \* dynamic import fallback fails too
    [] OTHER -> "ok"
PdFrom == LET idx == {k \in 1..Len(EffSearch) : EffSearch[k] \in Where("pd")} IN
          IF idx = {} THEN "nowhere" ELSE EffSearch[CHOOSE k \in idx : \A m \in idx : k <= m]
Loadable(tgt) == tgt # "nx" /\ Where(tgt) \cap Range(EffSearch) # {}
\* packages side-loaded by one pass of resolve_aliases(implicit, external = mode) over the collection c (a set)
SideLoads(c, mode) == {al.tgt : al \in UNION {{x \in Aliases(p) : (a.I \/ x.exp) /\ (mode = "T" \/ (mode = "N" /\ PrivSibling(p, x.tgt)))} : p \in c}}
Fresh(c, mode) == {t \in SideLoads(c, mode) : Loadable(t) /\ t \notin c}

\* ---- the reference (declarative) --------------------------------------------------------------------------------
HelpLike == a.glob \in {"help", "subhelp", "version", "debuginfo"}
UsageError == a.glob \in {"nocmd", "unknownopt", "nopkgs", "badcmd"} \/ a.doc = "bad" \/ a.dopt = "bad" \/ a.L = "bad"
Idx == 1..Len(a.pk)
RefFail == {k \in Idx : Outcome(a.pk[k]) \notin {"ok", "skipped"}}
RefBase == {TopOf(a.pk[k]) : k \in {m \in Idx : Outcome(a.pk[m]) = "ok"}}
RECURSIVE Closure(_, _, _)
Closure(c, mode, fuel) == IF fuel = 0 \/ Fresh(c, mode) = {} THEN c ELSE Closure(c \cup Fresh(c, mode), mode, fuel - 1)
RefColl == IF a.r THEN Closure(RefBase, RefExtMode, 4) ELSE RefBase
W(to, name, form, pkgs) == [to |-> to, name |-> name, form |-> form, pkgs |-> pkgs]
RefExit == CASE HelpLike -> 0
             [] UsageError \/ a.out \in {"badfield", "badbrace"} -> 2     \* a template naming an unknown field / a lone brace is a usage error
             [] a.e = "missing" -> 1
             [] RefFail # {} -> 1
             [] OTHER -> 0
RefWrites == CASE HelpLike -> {W("stdout", "", "text", {})}
               [] RefExit = 2 \/ a.e = "missing" -> {}
               [] a.out = "stdout" -> {W("stdout", "", "joint", RefColl)}
               [] a.out = "file" -> {W("file", "", "joint", RefColl)}
               [] a.out = "escaped" -> {W("escfile", "", "joint", RefColl)}   \* `{{x}}` is a literal brace pair: no {package} field, one file
               [] OTHER -> {W("perpkg", p, "bare", {p}) : p \in RefColl}
RefErrors == IF HelpLike \/ RefExit = 2 THEN <<>> ELSE IF a.e = "missing" THEN <<"<extensions>">> ELSE [k \in 1..Cardinality(RefFail) |-> a.pk[CHOOSE m \in RefFail : Cardinality({n \in RefFail : n < m}) = k - 1]]
Features == {f \in {"extra", "sibling", "dup", "empty", "fail", "loadingerror", "statsempty", "escaped", "badfield", "badbrace"} :
               CASE f = "extra" -> RefColl # RefBase
                 [] f = "sibling" -> a.r /\ Closure(RefBase, ImplExtMode, 4) # RefColl
                 [] f = "dup" -> \E k, m \in Idx : k < m /\ Outcome(a.pk[k]) = "ok" /\ Outcome(a.pk[m]) = "ok" /\ TopOf(a.pk[k]) = TopOf(a.pk[m])
                 [] f = "empty" -> \E k \in Idx : a.pk[k] = "empty"
                 [] f = "fail" -> RefFail # {}
                 [] f = "loadingerror" -> \E k \in Idx : Outcome(a.pk[k]) = "loadingerror"
                 [] f = "statsempty" -> a.S /\ RefColl = {} /\ a.e # "missing"
                 [] OTHER -> a.out = f}
Defective == ~HelpLike /\ ~UsageError /\ Features \cap {"extra", "sibling", "dup", "empty", "loadingerror", "statsempty", "escaped", "badfield", "badbrace"} # {}

\* ---- the Impl lane: one action per statement group of cli.py ------------------------------------------------------
Log(lv, ev, p) == logs' = Append(logs, [lv |-> lv, ev |-> ev, pk |-> p])
End(status, code) == st' = [status |-> status, exit |-> code] /\ pc' = "judge"
Put(w, rec) == {x \in w : ~(x.to = rec.to /\ x.name = rec.name)} \cup {rec}    \* open(path, "w"): a later write replaces

Init ==
  /\ job \in Jobs
  /\ \E pk \in JobOf(job).pks, out \in JobOf(job).outs, full \in JobOf(job).fulls, doc \in JobOf(job).docs, dopt \in JobOf(job).dopts,
        r \in JobOf(job).rs, I \in JobOf(job).Is, ext \in JobOf(job).exts, search \in JobOf(job).searches, y \in JobOf(job).ys,
        e \in JobOf(job).es, insp \in JobOf(job).insps, B \in JobOf(job).Bs, S \in JobOf(job).Ss, L \in JobOf(job).Ls, glob \in JobOf(job).globs :
       a = [pk |-> pk, out |-> out, full |-> full, doc |-> doc, dopt |-> dopt, r |-> r, I |-> I, ext |-> ext, search |-> search, y |-> y,
            e |-> e, insp |-> insp, B |-> B, S |-> S, L |-> L, glob |-> glob]
  /\ (a.r \/ (~a.I /\ a.ext = "unset"))                       \* -I / -U without -r change nothing: not enumerated
  /\ (a.dopt = "ok" => a.doc \in {"none", "google"})          \* the option used (returns_named_value) is a Google-style one
  /\ (HelpLike => (a.doc # "bad" /\ a.dopt # "bad" /\ a.L # "bad"))
  /\ pc = "parse" /\ i = 1 /\ coll = <<>> /\ logs = <<>> /\ writes = {} /\ st = [status |-> "", exit |-> 99] /\ ref = [exit |-> 99]
  /\ CASE Domain = "clean" -> ~Defective [] Domain = "defect" -> Defective [] OTHER -> TRUE

Parse ==              \* parser.parse_args(args): argparse exits by itself (0 after help/version/debug-info, 2 on a usage error)
  /\ pc = "parse"
  /\ IF HelpLike THEN writes' = {W("stdout", "", "text", {})} /\ End("sysexit", 0) /\ UNCHANGED <<i, coll, logs>>
     ELSE IF UsageError THEN End("sysexit", 2) /\ UNCHANGED <<i, coll, logs, writes>>
     ELSE pc' = "options" /\ UNCHANGED <<i, coll, logs, writes, st>>      \* logging.basicConfig(level=Level) happens here
  /\ UNCHANGED <<job, a, ref>>

Options ==            \* dump(): output.format(package="package") != output  (raises on an unknown field / a lone brace)
  /\ pc = "options"
  /\ IF a.out \in {"badfield", "badbrace"} THEN End("exc", 1) ELSE pc' = "extensions" /\ UNCHANGED st
  /\ UNCHANGED <<job, a, i, coll, logs, writes, ref>>
PerPackage == a.out \in {"tmpl", "escaped"}

Extensions ==         \* load_extensions(...): ExtensionError -> logger.exception, return 1
  /\ pc = "extensions"
  /\ IF a.e = "missing" THEN Log(40, "exterror", "<extensions>") /\ End("return", 1) ELSE pc' = "load" /\ UNCHANGED <<logs, st>>
  /\ UNCHANGED <<job, a, i, coll, writes, ref>>

LoadOne ==            \* _load_packages: the loop body for packages[i]
  /\ pc = "load" /\ i <= Len(a.pk)
  /\ LET t == a.pk[i]  o == Outcome(t)  lg == Append(logs, [lv |-> 20, ev |-> "loading", pk |-> t]) IN
     CASE o = "skipped" -> Log(10, "empty", t) /\ UNCHANGED <<coll, st>> /\ pc' = pc
       [] o = "ok" -> logs' = lg /\ coll' = (IF InSeq(TopOf(t), coll) THEN coll ELSE Append(coll, TopOf(t))) /\ UNCHANGED st /\ pc' = pc
       [] o = "notfound" -> logs' = Append(lg, [lv |-> 40, ev |-> "notfound", pk |-> t]) /\ UNCHANGED <<coll, st>> /\ pc' = pc
       [] o = "importerror" -> logs' = Append(lg, [lv |-> 40, ev |-> "importerror", pk |-> t]) /\ UNCHANGED <<coll, st>> /\ pc' = pc
       \* LoadingError is neither ModuleNotFoundError nor ImportError: it leaves _load_packages, dump and main
       [] OTHER -> logs' = Append(lg, [lv |-> 40, ev |-> "loadfail", pk |-> t]) /\ UNCHANGED coll /\ End("exc", 1)
  /\ i' = i + 1
  /\ UNCHANGED <<job, a, writes, ref>>

Loaded ==             \* after the loop: "Finished loading packages"
  /\ pc = "load" /\ i > Len(a.pk)
  /\ IF a.r THEN logs' = logs \o <<[lv |-> 20, ev |-> "finished", pk |-> ""], [lv |-> 20, ev |-> "resolving", pk |-> ""]>> /\ pc' = "resolve"
     ELSE Log(20, "finished", "") /\ pc' = "output"
  /\ UNCHANGED <<job, a, i, coll, writes, st, ref>>

ResolveIter ==        \* one iteration of loader.resolve_aliases: unresolved external aliases side-load their package
  /\ pc = "resolve"
  /\ LET new == Fresh(Range(coll), ImplExtMode) IN
     IF new = {} THEN Log(20, "resolved", "") /\ pc' = "output" /\ UNCHANGED coll
     ELSE LET order == CHOOSE s \in [1..Cardinality(new) -> new] : Range(s) = new IN      \* order of discovery: not observable
            coll' = coll \o order /\ UNCHANGED <<logs, pc>>
  /\ UNCHANGED <<job, a, i, writes, st, ref>>

RECURSIVE PerPkgWrites(_, _)
PerPkgWrites(w, s) == IF s = <<>> THEN w ELSE
  PerPkgWrites(Put(w, IF a.out = "tmpl" THEN W("perpkg", Head(s), "bare", {Head(s)}) ELSE W("escfile", "", "bare", {Head(s)})), Tail(s))
Output ==             \* serialise and _print_data
  /\ pc = "output"
  /\ writes' = IF PerPackage THEN PerPkgWrites({}, coll)
               ELSE {W(IF a.out = "file" THEN "file" ELSE "stdout", "", "joint", Range(coll))}
  /\ pc' = "stats"
  /\ UNCHANGED <<job, a, i, coll, logs, st, ref>>

Stats ==              \* loader.stats().as_text() divides by the number of loaded modules and by the time spent loading them
  /\ pc = "stats"
  /\ IF a.S /\ coll = <<>> THEN End("exc", 1) /\ UNCHANGED logs                 \* ZeroDivisionError, after the output was written
     ELSE /\ (IF a.S THEN Log(20, "stats", "") ELSE UNCHANGED logs)
          /\ End("return", IF Len(coll) = Len(a.pk) THEN 0 ELSE 1)      \* return 0 if len(data_packages) == len(packages) else 1
  /\ UNCHANGED <<job, a, i, coll, writes, ref>>

Judge ==
  /\ pc = "judge"
  /\ ref' = [exit |-> RefExit, writes |-> RefWrites, coll |-> RefColl, errors |-> RefErrors, features |-> Features, pdfrom |-> PdFrom]
  /\ pc' = "done"
  /\ UNCHANGED <<job, a, i, coll, logs, writes, st>>

Next == Parse \/ Options \/ Extensions \/ LoadOne \/ Loaded \/ ResolveIter \/ Output \/ Stats \/ Judge
Spec == Init /\ [][Next]_vars

\* ---- what TLC checks and emits ------------------------------------------------------------------------------------
Done == pc = "done"
ErrorToks == LET errs == SelectSeq(logs, LAMBDA r : r.lv = 40) IN [k \in 1..Len(errs) |-> errs[k].pk]
NonEmpty(t) == t # "empty"
Plan == [search |-> SearchSeq, syspath |-> a.y, parser |-> a.doc, docopts |-> a.dopt, exts |-> a.e, allow |-> Allow, force |-> Force,
         stubs |-> a.B, loads |-> SelectSeq(a.pk, NonEmpty), resolve |-> a.r, implicit |-> a.I, external |-> RefExtMode, full |-> a.full,
         level |-> Level, outcomes |-> [k \in Idx |-> Outcome(a.pk[k])]]

\* clauses (see design.d/X06.md): every one is an INVARIANT of the clean domain
I_ExitStatus == Done => st.exit = ref.exit                  \* (E1) 0 ok / 1 some requested package failed, extensions failed / 2 usage
I_NoEscape == Done => st.status # "exc"                      \* (E2) main() returns (or argparse exits): no exception escapes
I_Placement == Done => writes = ref.writes                   \* (O1) stdout | one file | one file per package, exactly the loaded packages
I_Collection == (Done /\ st.status = "return" /\ a.e # "missing") => Range(coll) = ref.coll   \* (O2) what is dumped = requested + side-loaded
I_ErrorsLogged == Done => ErrorToks = ref.errors             \* (L2) one ERROR record per failed package, in order, none otherwise
\* the same clauses restricted to the clean domain, for runs over both domains at once (Domain = "all")
Q_ExitStatus == Defective \/ I_ExitStatus
Q_NoEscape == Defective \/ I_NoEscape
Q_Placement == Defective \/ I_Placement
Q_Collection == Defective \/ I_Collection
Q_ErrorsLogged == Defective \/ I_ErrorsLogged
I_Types == /\ pc \in {"parse", "options", "extensions", "load", "resolve", "output", "stats", "judge", "done"}
           /\ \A k \in 1..Len(coll) : \A m \in 1..Len(coll) : (coll[k] = coll[m]) => k = m          \* a dict: no duplicate keys

Emit == Done => PrintT(<<"CASE", ToJson([job |-> job, a |-> a, plan |-> Plan, clean |-> ~Defective,
                impl |-> [status |-> st.status, exit |-> st.exit, writes |-> writes, coll |-> coll, logs |-> logs], ref |-> ref])>>)
=============================================================================
