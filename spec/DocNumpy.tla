------------------------------- MODULE DocNumpy -------------------------------
(***************************************************************************)
(* The Numpydoc-style docstring parser of Griffe as an offset machine.     *)
(*   C12 - total, terminating, well-formed sections, nothing modified      *)
(*   C13 - well-formed docstrings parse back to the structure written      *)
(*                                                                         *)
(* Source: _griffe/docstrings/numpy.py (parse_numpy, _read_block_items,    *)
(* _read_block, _append_section, the thirteen section readers).            *)
(*                                                                         *)
(* Line classes (every branch condition of the parser is a function of     *)
(* the class):                                                             *)
(*   k = "blank"                                                           *)
(*   k = "dash"    only dashes (and spaces): _is_dash_line                 *)
(*   k = "hdr"     a = section kind: the whole line, lower-cased, is a key *)
(*                 of _section_kind                             column 0   *)
(*   k = "line"    any other line; a = what the item regexes see:          *)
(*        N  `name`  a plain identifier     P  prose starting with a letter *)
(*        NT `name : type`     NK `name :`      C `:`      CT `: type`     *)
(*        NN `n, m : type`     NC `name : {a, b}`   ND `name : type, default d` *)
(*        F  `name(sig)`       X  starts with neither letter, `_`, `*` nor `:` *)
(*   k = "fence"   ```          k = "prompt"  >>>                          *)
(*   ind = leading spaces: 0, 2 (1..3: "confusing indentation") or 4 (>= 4)*)
(* Offsets are 0-based as in the code.  Options and parent are lazy, see   *)
(* DocGoogle.tla.                                                          *)
(***************************************************************************)
EXTENDS Integers, Sequences, FiniteSets, TLC, Json

CONSTANTS MaxLen, Alpha, Mode, MaxSecs, Variety, Emit, EmitMod

VARIABLES lines, expect, sig, wrap, opts, pcand, excl, pc, offset, in_code, cur, adm, sections, crash, flags
vars == <<lines, expect, sig, wrap, opts, pcand, excl, pc, offset, in_code, cur, adm, sections, crash, flags>>
input == <<lines, expect, sig, wrap>>     \* wrap: shape of the parent's return annotation (struct mode): plain | iter | gen

OptNames == {"ignore_init_summary"}     \* trim_doctest_flags, warn_unknown_params decide no branch: varied by the harness
\* tuplefn: function returning tuple[int, str]; genfn: function returning Generator[tuple[..], tuple[..], tuple[..]]
\* aliasmod: a module in which every documented name is imported from a package that is not loaded (unresolvable alias)
Parents == {"none", "module", "class", "function", "init", "property", "tuplefn", "genfn", "aliasmod", "tupleprop", "tuple0fn", "gen1fn", "gen2fn", "iterfn",
            "detachedinit", "nsfunc"}      \* nsfunc: a function of a namespace package (filepath is a list) outside the cwd: warnings have no file prefix      \* detachedinit: a hand-built function named __init__ without any parent (not "__init__ in a class")

ParamKinds == {"parameters", "other_parameters"}
RetKinds == {"returns", "yields", "receives"}
AnnKinds == {"raises", "warns"}
SigKinds == {"functions", "classes", "modules"}
SecKinds == ParamKinds \cup RetKinds \cup AnnKinds \cup SigKinds \cup {"attributes", "deprecated", "examples"}
AllKinds == SecKinds \cup {"text", "admonition"}

\* ---- line classes --------------------------------------------------------------------------------
Blank      == [k |-> "blank", ind |-> 0, a |-> "-"]
Dash(i)    == [k |-> "dash", ind |-> i, a |-> "-"]
Hdr(K)     == [k |-> "hdr", ind |-> 0, a |-> K]
Ln(i, f)   == [k |-> "line", ind |-> i, a |-> f]
FenceL(i)  == [k |-> "fence", ind |-> i, a |-> "-"]
Prompt(i)  == [k |-> "prompt", ind |-> i, a |-> "-"]

CoreKinds == {"parameters", "returns", "attributes", "examples", "deprecated"}
Core == {Blank, Dash(0), Dash(4), FenceL(0), Prompt(0), Ln(2, "X"), Ln(4, "X")}
          \cup {Hdr(K) : K \in CoreKinds} \cup {Ln(0, f) : f \in {"N", "NT", "C", "X"}}
Mid == Core \cup {Hdr(K) : K \in SecKinds} \cup {Ln(0, f) : f \in {"P", "NK", "CT", "NN", "NC", "ND", "F"}} \cup {FenceL(4), Ln(4, "C"), Ln(4, "NT")}
\* regression domains (repaired crashes): attributes + `:`; returns / receives + three untyped items under a tuple / generator parent
Defect == {Dash(0), Hdr("returns"), Hdr("receives"), Hdr("attributes"), Ln(0, "C")}
\* ... attributes + a plain name under a parent in which that name is an unresolvable alias
Defect2 == {Dash(0), Hdr("attributes"), Ln(0, "C"), Ln(0, "N"), Ln(4, "X")}
Alphabet == CASE Alpha = "core" -> Core [] Alpha = "mid" -> Mid [] Alpha = "rich" -> Mid [] Alpha = "defect2" -> Defect2 [] OTHER -> Defect

\* ---- predicates on lines ----------------------------------------------------------------------------
N == Len(lines)
L(i) == lines[i + 1]
InRange(i) == i >= 0 /\ i < N
IsBlank(ln) == ln.k = "blank"               \* _is_empty_line
IsDash(ln) == ln.k = "dash"                 \* _is_dash_line
StartsFence(ln) == ln.k = "fence"
IsKeyword(ln) == ln.k = "hdr"               \* line_lower in _section_kind
Form(ln) == IF ln.k = "line" THEN ln.a ELSE IF ln.k = "hdr" THEN "P" ELSE "X"      \* a keyword is prose that starts with a letter
\* _RE_PARAMETER.match(item[0]): the line starts with an optional `*`/`**` and an identifier, in column 0
ParamMatch(ln) == ln.ind = 0 /\ Form(ln) \in {"N", "P", "NT", "NK", "NN", "NC", "ND", "F"}
NameCount(ln) == IF Form(ln) = "NN" THEN 2 ELSE 1
HasColon(ln) == Form(ln) \in {"NT", "NK", "C", "CT", "NN", "NC", "ND"}

RECURSIVE RStripBlank(_)
RStripBlank(s) == IF s = <<>> THEN s ELSE IF IsBlank(L(s[Len(s)])) THEN RStripBlank(SubSeq(s, 1, Len(s) - 1)) ELSE s
SeqFromTo(a, b) == [j \in 1..(b - a + 1) |-> a + j - 1]

\* ---- _read_block_items ---------------------------------------------------------------------------
RECURSIVE SkipEmpty(_)
SkipEmpty(i) == IF ~InRange(i) THEN -1 ELSE IF IsBlank(L(i)) THEN SkipEmpty(i + 1) ELSE i   \* no bound check in the code

RECURSIVE ItemsLoop(_, _, _)
ItemsLoop(i, items, item) ==
  IF i >= N THEN [crash |-> "", items |-> Append(items, item), off |-> i - 1]
  ELSE LET ln == L(i) IN
       IF IsBlank(ln) \/ ln.ind >= 4 \/ ln.ind >= 1
         THEN ItemsLoop(i + 1, items, [item EXCEPT !.body = Append(@, i)])           \* "" / continuation / confusing indent
       ELSE IF i + 1 < N /\ IsDash(L(i + 1))
         THEN [crash |-> "", items |-> Append(items, item), off |-> i - 1]            \* start of a new section: break
       ELSE ItemsLoop(i + 1, Append(items, item), [first |-> i, body |-> <<>>])
ReadBlockItems(off) ==
  IF off >= N THEN [crash |-> "", items |-> <<>>, off |-> off]
  ELSE LET s == SkipEmpty(off) IN
       IF s = -1 THEN [crash |-> "IndexError", items |-> <<>>, off |-> off]
       ELSE ItemsLoop(s + 1, <<>>, [first |-> s, body |-> <<>>])

\* ---- _read_block ---------------------------------------------------------------------------------
RECURSIVE BlockLoop(_, _)
BlockLoop(i, acc) ==
  IF i >= N THEN [crash |-> "", tl |-> RStripBlank(acc), off |-> i - 1]
  ELSE LET is_empty == IsBlank(L(i)) IN
       IF is_empty /\ i < N - 1 /\ IsDash(L(i + 1)) THEN [crash |-> "", tl |-> RStripBlank(acc), off |-> i - 1]      \* unnamed section
       ELSE IF is_empty /\ i < N - 2 /\ IsDash(L(i + 2)) THEN [crash |-> "", tl |-> RStripBlank(acc), off |-> i - 1]  \* named section
       ELSE BlockLoop(i + 1, Append(acc, i))
ReadBlock(off) ==
  IF off >= N THEN [crash |-> "", tl |-> <<>>, off |-> off]
  ELSE LET s == SkipEmpty(off) IN
       IF s = -1 THEN [crash |-> "IndexError", tl |-> <<>>, off |-> off]
       ELSE BlockLoop(s, <<>>)

\* ---- elements ------------------------------------------------------------------------------------------
\* name: "n" the name(s) written on line `first`, "e" empty string, "l" the whole line, "x" other text of the line, "-" none
\* ann: "doc" written on the line, "sig" from the parent, "none", "l" the whole line, "p" whatever the parent supplies (seq mode)
\* dflt: "doc" | "sig" | "none" | "-";  strip: how the description is finished: "r" rstrip(), "s" strip(), "n" nothing (dedent only)
El(it, cnt, name, ann, dflt, strip) ==
  \* _read_block_items pops the trailing blank lines of every item, whatever the reader does with the text afterwards
  [first |-> it.first, body |-> RStripBlank(it.body), cnt |-> cnt, name |-> name, ann |-> ann, dflt |-> dflt, strip |-> strip]
SigAnn(it) == IF Mode = "seq" THEN "none" ELSE IF sig[it.first + 1].ann THEN "sig" ELSE "none"
SigDef(it) == IF Mode = "seq" THEN "none" ELSE IF sig[it.first + 1].def THEN "sig" ELSE "none"
ParentAnn(it) == IF Mode = "seq" THEN "p" ELSE IF sig[it.first + 1].ann THEN "sig" ELSE "none"

ParamEl(it) ==
  LET ln == L(it.first) f == Form(ln) IN
  CASE f \in {"NT", "NN"} -> El(it, NameCount(ln), "n", "doc", SigDef(it), "r")
    [] f = "NC" -> El(it, 1, "n", "doc", "doc", "r")                  \* choices: the first one is the default
    [] f = "ND" -> El(it, 1, "n", "doc", "doc", "r")
    [] f = "P"  -> El(it, 1, "x", SigAnn(it), SigDef(it), "r")        \* the first word is taken as the name
    [] OTHER    -> El(it, 1, "n", SigAnn(it), SigDef(it), "r")        \* N, NK, F: the name alone matched
RECURSIVE MapParams(_, _)
MapParams(items, acc) ==
  IF items = <<>> THEN acc
  ELSE MapParams(Tail(items), IF ParamMatch(L(Head(items).first)) THEN Append(acc, ParamEl(Head(items))) ELSE acc)

\* _RE_RETURNS always matches a non-empty line: name and type / name / nothing / type
RetEl(it) ==
  LET ln == L(it.first) f == IF ln.ind = 0 \/ Form(ln) = "C" THEN Form(ln) ELSE "X" IN     \* `\s*:\s*$` tolerates leading spaces
  CASE f \in {"NT", "NC", "ND"} -> El(it, 1, "n", "doc", "-", "n")      \* name and type (the type is everything after the colon)
    [] f = "NK" -> El(it, 1, "n", ParentAnn(it), "-", "n")
    [] f = "C"  -> El(it, 1, "e", ParentAnn(it), "-", "n")
    [] f = "CT" -> El(it, 1, "e", "doc", "-", "n")
    [] OTHER    -> El(it, 1, "e", "l", "-", "n")                      \* `(?::\s*)?(?P<type>.+)`: the line is the type
Untyped(it) == LET ln == L(it.first) IN (ln.ind = 0 /\ Form(ln) = "NK") \/ Form(ln) = "C"    \* annotation is None: the parent is asked

AttrEl(it) ==
  LET ln == L(it.first) f == Form(ln) IN
  CASE f \in {"NT", "NC", "ND"} -> El(it, 1, "n", "doc", "-", "n")
    [] f = "NN" -> El(it, 1, "x", "doc", "-", "n")                    \* the name is everything before the colon: `n, m`
    [] f = "NK" -> El(it, 1, "n", SigAnn(it), "-", "n")
    [] f = "CT" -> El(it, 1, "e", "doc", "-", "n")
    [] f = "C"  -> El(it, 1, "e", "none", "-", "n")
    [] f = "N"  -> El(it, 1, "n", SigAnn(it), "-", "n")               \* no colon: the whole line is the name
    [] OTHER    -> El(it, 1, "l", "none", "-", "n")
SigEl(it) == LET f == Form(L(it.first)) IN IF f = "F" THEN El(it, 1, "n", "doc", "-", "s") ELSE El(it, 1, IF f = "N" THEN "n" ELSE "l", "none", "-", "s")
AnnEl(it) == El(it, 1, "-", "l", "-", "n")
MapEls(items, K) == [j \in 1..Len(items) |-> CASE K \in AnnKinds -> AnnEl(items[j]) [] K \in SigKinds -> SigEl(items[j])
                                                [] K = "attributes" -> AttrEl(items[j]) [] OTHER -> RetEl(items[j])]

\* ---- _read_examples_section ------------------------------------------------------------------------------
RECURSIVE ExFold(_, _, _, _, _, _)
ExFold(tl, ex, cb, ct, ce, subs) ==
  IF tl = <<>>
    THEN IF ct # <<>> THEN Append(subs, [kind |-> "text", tl |-> RStripBlank(ct)])
         ELSE IF ce # <<>> THEN Append(subs, [kind |-> "examples", tl |-> ce]) ELSE subs
  ELSE LET i == Head(tl) ln == L(i) rest == Tail(tl) IN
       IF IsBlank(ln) THEN
          IF ex THEN ExFold(rest, FALSE, cb, ct, <<>>, IF ce # <<>> THEN Append(subs, [kind |-> "examples", tl |-> ce]) ELSE subs)
          ELSE ExFold(rest, ex, cb, Append(ct, i), ce, subs)
       ELSE IF ex THEN ExFold(rest, ex, cb, ct, Append(ce, i), subs)
       ELSE IF ln.k = "fence" /\ ln.ind = 0 THEN ExFold(rest, ex, ~cb, Append(ct, i), ce, subs)
       ELSE IF cb THEN ExFold(rest, ex, cb, Append(ct, i), ce, subs)
       ELSE IF ln.k = "prompt" /\ ln.ind = 0
         THEN ExFold(rest, TRUE, cb, <<>>, Append(ce, i), IF ct # <<>> THEN Append(subs, [kind |-> "text", tl |-> RStripBlank(ct)]) ELSE subs)
       ELSE ExFold(rest, ex, cb, Append(ct, i), ce, subs)
ExSubs(tl) == IF tl = <<>> THEN <<[kind |-> "text", tl |-> <<>>]>> ELSE ExFold(tl, FALSE, FALSE, <<>>, <<>>, <<>>)

\* ---- sections ------------------------------------------------------------------------------------------------------
SecRec(kind, hdr, tl, items, subs) == [kind |-> kind, hdr |-> hdr, tl |-> tl, items |-> items, subs |-> subs]
TextSec(tl) == SecRec("text", -1, tl, <<>>, <<>>)
\* _append_section: an admonition when a title is pending, else a text section if any line is non-empty
AnyNonBlank(c) == \E j \in 1..Len(c) : ~IsBlank(L(c[j]))
AppendSection(secs, c, a) ==
  IF a # -1 THEN Append(secs, SecRec("admonition", a, RStripBlank(c), <<>>, <<>>))
  ELSE IF c # <<>> /\ AnyNonBlank(c) THEN Append(secs, TextSec(RStripBlank(c))) ELSE secs

Val(b) == IF b THEN "T" ELSE "F"
CanRead(o, b) == opts[o] \in {"U", Val(b)}
Split(P, b) == IF b THEN pcand \cap P ELSE pcand \ P

\* =========================================== the case space ===========================================================
NoSig == [ann |-> FALSE, def |-> FALSE]
\* Docstring.value = inspect.cleandoc(source.rstrip()): first and last line non-blank, and the common indentation is removed, so
\* SOME non-blank line (possibly the first: a source that starts with a newline keeps the relative indentation of its first
\* paragraph) has no indentation.  ("Args:" followed only by indented lines is the most common docstring shape.)
CleandocFixedPoint(d) ==
  /\ ~IsBlank(d[1]) /\ ~IsBlank(d[Len(d)])
  /\ \E j \in 1..Len(d) : ~IsBlank(d[j]) /\ d[j].ind = 0

\* ---- struct mode ------------------------------------------------------------------------------------------------
Shapes == {"one", "two", "blank"}
ItemSpecs(K) ==
  LET shapes == CASE Variety = "full" -> Shapes [] Variety = "thin" -> {"one", "blank"} [] OTHER -> {"blank"}
      SA == IF Variety = "mini" THEN {FALSE} ELSE BOOLEAN IN
  CASE K \in ParamKinds ->
         {[named |-> TRUE, typed |-> ty, dflt |-> df, sann |-> sa, sdef |-> sd, shape |-> sh] :
             ty \in BOOLEAN, df \in BOOLEAN, sa \in SA, sd \in (IF Variety = "full" THEN BOOLEAN ELSE {TRUE}), sh \in shapes}
    [] K = "attributes" ->
         {[named |-> TRUE, typed |-> ty, dflt |-> FALSE, sann |-> sa, sdef |-> FALSE, shape |-> sh] : ty \in BOOLEAN, sa \in SA, sh \in shapes}
    [] K \in AnnKinds ->
         {[named |-> FALSE, typed |-> TRUE, dflt |-> FALSE, sann |-> FALSE, sdef |-> FALSE, shape |-> sh] : sh \in shapes}
    [] K \in {"functions", "classes"} ->
         {[named |-> TRUE, typed |-> ty, dflt |-> FALSE, sann |-> FALSE, sdef |-> FALSE, shape |-> sh] : ty \in BOOLEAN, sh \in shapes}
    [] K = "modules" ->
         {[named |-> TRUE, typed |-> FALSE, dflt |-> FALSE, sann |-> FALSE, sdef |-> FALSE, shape |-> sh] : sh \in shapes}
    [] OTHER ->
         {[named |-> nm, typed |-> ty, dflt |-> FALSE, sann |-> sa, sdef |-> FALSE, shape |-> sh] :
             nm \in BOOLEAN, ty \in BOOLEAN, sa \in SA, sh \in shapes}
ItemOK(K, it) ==
  /\ (it.dflt => it.typed)                                  \* `name : type, default d` needs the type
  /\ (K \in RetKinds /\ it.typed) => ~it.sann
ItemLists(K) == LET S == {it \in ItemSpecs(K) : ItemOK(K, it)} IN
                {<<a>> : a \in S} \cup (CASE Variety = "full" -> {<<a, b>> : a \in S, b \in S} [] Variety = "thin" -> {<<a, a>> : a \in S} [] OTHER -> {})
StructKinds == ParamKinds \cup RetKinds \cup AnnKinds \cup SigKinds \cup {"attributes"}
SectionSpecs ==
  \* gap: the items of the section are separated by a blank line (valid numpydoc layout)
  UNION {{[kind |-> K, items |-> il, shape |-> "one", gap |-> g] : il \in ItemLists(K), g \in (IF Variety = "mini" THEN {FALSE} ELSE BOOLEAN)} : K \in StructKinds}
  \cup {[kind |-> "examples", items |-> <<>>, shape |-> sh, gap |-> FALSE] : sh \in (IF Variety = "mini" THEN {"one"} ELSE {"one", "two"})}
  \cup {[kind |-> "admonition", items |-> <<>>, shape |-> sh, gap |-> FALSE] : sh \in (IF Variety = "mini" THEN {"blank"} ELSE Shapes)}
Structs == UNION {[1..n -> SectionSpecs] : n \in 1..MaxSecs}
SecOK(s) == (s.gap => Len(s.items) = 2) /\ (s.kind \in RetKinds /\ Len(s.items) = 2) => (s.items[1].sann = s.items[2].sann \/ s.items[1].typed \/ s.items[2].typed)
\* one documented object must be able to supply everything the structure takes from it (see DocGoogle.tla)
RetSann(s) == s.kind \in RetKinds /\ \E j \in 1..Len(s.items) : s.items[j].sann
AttrSann(s) == s.kind = "attributes" /\ \E j \in 1..Len(s.items) : s.items[j].sann
OneObject(st) ==
  /\ Cardinality({j \in 1..Len(st) : RetSann(st[j])}) <= 1
  /\ (\E j \in 1..Len(st) : RetSann(st[j])) =>
        /\ \A m \in 1..Len(st) : (st[m].kind \in RetKinds /\ ~RetSann(st[m])) => \A i \in 1..Len(st[m].items) : st[m].items[i].typed
        /\ ~\E m \in 1..Len(st) : AttrSann(st[m])
StructOK(st) == (\A j \in 1..Len(st) : SecOK(st[j])) /\ OneObject(st)

FormOf(K, it) ==
  CASE K \in ParamKinds -> IF it.dflt THEN "ND" ELSE IF it.typed THEN "NT" ELSE "N"
    [] K = "attributes" -> IF it.typed THEN "NT" ELSE "N"
    [] K \in AnnKinds -> "N"
    [] K \in {"functions", "classes"} -> IF it.typed THEN "F" ELSE "N"
    [] K = "modules" -> "N"
    [] OTHER -> IF it.named THEN (IF it.typed THEN "NT" ELSE "NK") ELSE (IF it.typed THEN "CT" ELSE "C")
DescLines(shape) == CASE shape = "one" -> <<Ln(4, "X")>> [] shape = "two" -> <<Ln(4, "X"), Ln(4, "X")>> [] OTHER -> <<Ln(4, "X"), Blank, Ln(4, "X")>>
ExpName(K, it) == CASE K \in AnnKinds -> "-" [] K \in RetKinds -> (IF it.named THEN "n" ELSE "e") [] OTHER -> "n"
ExpAnn(K, it) ==
  CASE K \in AnnKinds -> "l"
    [] K = "modules" -> "none"
    [] K \in {"functions", "classes"} -> IF it.typed THEN "doc" ELSE "none"
    [] OTHER -> IF it.typed THEN "doc" ELSE IF it.sann THEN "sig" ELSE "none"
ExpDef(K, it) == IF K \in ParamKinds THEN (IF it.dflt THEN "doc" ELSE IF it.sdef THEN "sig" ELSE "none") ELSE "-"
\* what a faithful parser returns: the description as written, without the blank line that separates sections
ExpStrip(K) == IF K \in ParamKinds THEN "r" ELSE IF K \in SigKinds THEN "s" ELSE "r"

RECURSIVE RenderItems(_, _, _, _, _)
RenderItems(K, items, base, acc, gap) ==
  IF items = <<>> THEN acc
  ELSE LET it == Head(items)
           dl == DescLines(it.shape)
           ls == <<Ln(0, FormOf(K, it))>> \o dl
           sg == <<[ann |-> it.sann /\ ~it.typed, def |-> it.sdef /\ ~it.dflt]>> \o [j \in 1..Len(dl) |-> NoSig]
           el == [first |-> base, body |-> SeqFromTo(base + 1, base + Len(dl)), cnt |-> 1,
                  name |-> ExpName(K, it), ann |-> ExpAnn(K, it), dflt |-> ExpDef(K, it), strip |-> ExpStrip(K)]
           sep == IF gap /\ Tail(items) # <<>> THEN <<Blank>> ELSE <<>>        \* the blank line belongs to no item
       IN RenderItems(K, Tail(items), base + Len(ls) + Len(sep),
                      [lines |-> acc.lines \o ls \o sep, sig |-> acc.sig \o sg \o [j \in 1..Len(sep) |-> NoSig], els |-> Append(acc.els, el)], gap)

RenderSection(s, base) ==
  LET K == s.kind IN
  CASE K = "admonition" ->
         LET body == CASE s.shape = "one" -> <<Ln(0, "N")>> [] s.shape = "two" -> <<Ln(0, "N"), Ln(0, "X")>> [] OTHER -> <<Ln(0, "N"), Blank, Ln(0, "N")>>
             ls == <<Ln(0, "N"), Dash(0)>> \o body
         IN [lines |-> ls, sig |-> [j \in 1..Len(ls) |-> NoSig], exp |-> SecRec("admonition", base, SeqFromTo(base + 2, base + 1 + Len(body)), <<>>, <<>>)]
    [] K = "examples" ->
         LET body == IF s.shape = "one" THEN <<Ln(0, "N"), Blank, Prompt(0), Ln(0, "X")>>
                     ELSE <<Prompt(0), Prompt(0), Blank, Ln(0, "N"), Blank, Prompt(0)>>
             b == base + 1
             ls == <<Hdr("examples"), Dash(0)>> \o body
             subs == IF s.shape = "one"
                       THEN <<[kind |-> "text", tl |-> <<b + 1>>], [kind |-> "examples", tl |-> <<b + 3, b + 4>>]>>
                       ELSE <<[kind |-> "examples", tl |-> <<b + 1, b + 2>>], [kind |-> "text", tl |-> <<b + 4>>], [kind |-> "examples", tl |-> <<b + 6>>]>>
         IN [lines |-> ls, sig |-> [j \in 1..Len(ls) |-> NoSig], exp |-> SecRec("examples", base, SeqFromTo(b + 1, b + Len(body)), <<>>, subs)]
    [] OTHER ->
         LET r == RenderItems(K, s.items, base + 2, [lines |-> <<>>, sig |-> <<>>, els |-> <<>>], s.gap)
         IN [lines |-> <<Hdr(K), Dash(0)>> \o r.lines, sig |-> <<NoSig, NoSig>> \o r.sig, exp |-> SecRec(K, base, <<>>, r.els, <<>>)]
RECURSIVE RenderAll(_, _)
RenderAll(st, acc) ==
  IF st = <<>> THEN acc
  ELSE LET r == RenderSection(Head(st), Len(acc.lines) + 1)
       IN RenderAll(Tail(st), [lines |-> acc.lines \o <<Blank>> \o r.lines, sig |-> acc.sig \o <<NoSig>> \o r.sig, expect |-> Append(acc.expect, r.exp)])
\* the free text before the sections: one line ("plain"), or a paragraph followed by an INDENTED fenced code block (as nested in a list
\* item) - the block must be closed by its indented fence, or every following section leaks into the text
RenderLines(st, intro) ==
  IF intro = "plain" THEN RenderAll(st, [lines |-> <<Ln(0, "N")>>, sig |-> <<NoSig>>, expect |-> <<TextSec(<<0>>)>>])
  ELSE RenderAll(st, [lines |-> <<Ln(0, "N"), Blank, FenceL(4), Ln(4, "X"), FenceL(4)>>, sig |-> [j \in 1..5 |-> NoSig],
                      expect |-> <<TextSec(<<0, 1, 2, 3, 4>>)>>])

\* ---- Init -----------------------------------------------------------------------------------------------------
\* every cleandoc-stable sequence of 1..MaxLen classes (enumerated piecewise: first line, middle, last line), + the empty docstring
SeqLines ==
  \/ lines = <<Blank>>
  \/ \E n \in 1..MaxLen : \E a \in {x \in Alphabet : ~IsBlank(x)} :
       IF n = 1 THEN lines = <<a>> /\ CleandocFixedPoint(lines)
       ELSE \E z \in {x \in Alphabet : ~IsBlank(x)}, m \in [1..(n - 2) -> Alphabet] :
              lines = <<a>> \o m \o <<z>> /\ CleandocFixedPoint(lines)
InitSeq ==
  /\ SeqLines
  /\ sig = [j \in 1..Len(lines) |-> NoSig] /\ expect = <<>> /\ wrap = "plain"
  /\ opts = [o \in OptNames |-> "U"] /\ pcand = Parents
\* Returns takes its types from a plain / tuple annotation, Yields from Iterator[...] or Generator[...], Receives from Generator[...]
\* (what the Numpy Returns reader does under Iterator / Generator annotations depends on the number of items and is not claimed)
WrapOK(st, w) ==
  LET S == {j \in 1..Len(st) : RetSann(st[j])} IN
  IF S = {} THEN w = "plain"
  ELSE \A j \in S : (st[j].kind = "returns" /\ w = "plain") \/ (st[j].kind = "yields" /\ w # "plain") \/ (st[j].kind = "receives" /\ w = "gen")
InitStruct ==
  \E st \in Structs, w \in {"plain", "iter", "gen"}, intro \in {"plain", "fenced"} :
    /\ StructOK(st) /\ WrapOK(st, w) /\ wrap = w
    /\ LET r == RenderLines(st, intro) IN lines = r.lines /\ sig = r.sig /\ expect = r.expect
    /\ opts = [o \in OptNames |-> "F"] /\ pcand = {"function"}
Init ==
  /\ IF Mode = "seq" THEN InitSeq ELSE InitStruct
  /\ excl = {} /\ pc = "start" /\ offset = 0 /\ in_code = FALSE /\ cur = <<>> /\ adm = -1 /\ sections = <<>>
  /\ crash = [exc |-> "", at |-> ""] /\ flags = [ignored |-> FALSE]

\* =========================================== parse_numpy ================================================================
Crash(exc, at) == /\ pc' = "crashed" /\ crash' = [exc |-> exc, at |-> at]
                  /\ UNCHANGED <<offset, in_code, cur, adm, sections, flags>>

Start ==
  /\ pc = "start"
  /\ \E ignore_summary \in BOOLEAN :
       IF ignore_summary
         THEN /\ CanRead("ignore_init_summary", TRUE) /\ "init" \in pcand
              /\ opts' = [opts EXCEPT !["ignore_init_summary"] = "T"] /\ pcand' = {"init"} /\ excl' = excl
              /\ offset' = 2 /\ flags' = [flags EXCEPT !.ignored = TRUE]
         ELSE /\ opts["ignore_init_summary"] # "T" \/ pcand # {"init"}
              /\ excl' = (IF opts["ignore_init_summary"] = "F" \/ "init" \notin pcand THEN excl ELSE excl \cup {<<"ignore_init_summary", "init">>})
              /\ UNCHANGED <<opts, pcand, flags>> /\ offset' = 0
  /\ pc' = "main"
  /\ UNCHANGED <<input, in_code, cur, adm, sections, crash>>

\* one iteration of `while offset < len(lines)` that does not call a reader
MainIter ==
  /\ pc = "main" /\ offset < N
  /\ LET ln == L(offset) IN
     IF in_code
       THEN /\ in_code' = ~StartsFence(ln) /\ cur' = Append(cur, offset) /\ offset' = offset + 1 /\ pc' = "main" /\ UNCHANGED <<adm, sections>>
     ELSE IF StartsFence(ln)
       THEN /\ in_code' = TRUE /\ cur' = Append(cur, offset) /\ offset' = offset + 1 /\ pc' = "main" /\ UNCHANGED <<adm, sections>>
     ELSE IF IsBlank(ln)
       THEN /\ cur' = Append(cur, offset) /\ offset' = offset + 1 /\ pc' = "main" /\ UNCHANGED <<in_code, adm, sections>>
     ELSE IF offset = N - 1                                            \* end of the docstring, wrap up
       THEN /\ sections' = AppendSection(sections, Append(cur, offset), adm) /\ adm' = -1 /\ cur' = <<>>
            /\ offset' = offset + 1 /\ pc' = "main" /\ UNCHANGED in_code
     \* lines[offset + 1] is in range here: offset < N - 1
     ELSE IF IsDash(L(offset + 1))
       THEN IF IsKeyword(ln)
              THEN /\ sections' = AppendSection(sections, cur, adm) /\ cur' = <<>> /\ adm' = -1
                   /\ pc' = "section" /\ UNCHANGED <<offset, in_code>>                 \* the reader runs next
              ELSE /\ sections' = AppendSection(sections, cur, adm) /\ cur' = <<>> /\ adm' = offset
                   /\ offset' = offset + 2 /\ pc' = "main" /\ UNCHANGED in_code          \* skip next dash line
     ELSE /\ cur' = Append(cur, offset) /\ offset' = offset + 1 /\ pc' = "main" /\ UNCHANGED <<in_code, adm, sections>>
  /\ UNCHANGED <<input, opts, pcand, excl, crash, flags>>

Return(secs, off) == /\ sections' = secs /\ offset' = off + 1 /\ pc' = "main" /\ UNCHANGED <<in_code, cur, adm, crash, flags>>
Kind == L(offset).a

ReadParametersSection ==
  /\ pc = "section" /\ Kind \in ParamKinds
  /\ LET r == ReadBlockItems(offset + 2) els == MapParams(r.items, <<>>) IN
     IF r.crash # "" THEN Crash(r.crash, "_read_block_items")
     ELSE Return(IF els # <<>> THEN Append(sections, SecRec(Kind, offset, <<>>, els, <<>>)) ELSE sections, r.off)
  /\ UNCHANGED <<input, opts, pcand, excl>>

\* raises, warns, functions, classes, modules, returns, yields, receives, attributes: one element per item; the look-ups in the
\* parent run under suppress(...) that covers what they can raise (IndexError of a tuple overrun, ValueError of the empty name,
\* AliasResolutionError of an unresolvable member)
ReadPlainItemsSection ==
  /\ pc = "section" /\ Kind \in AnnKinds \cup SigKinds \cup RetKinds \cup {"attributes"}
  /\ LET r == ReadBlockItems(offset + 2) IN
     IF r.crash # "" THEN Crash(r.crash, "_read_block_items")
     ELSE Return(IF r.items # <<>> THEN Append(sections, SecRec(Kind, offset, <<>>, MapEls(r.items, Kind), <<>>)) ELSE sections, r.off)
  /\ UNCHANGED <<input, opts, pcand, excl>>

\* deprecated: the first item only (version = its first line, text = the rest)
ReadDeprecatedSection ==
  /\ pc = "section" /\ Kind = "deprecated"
  /\ LET r == ReadBlockItems(offset + 2) IN
     IF r.crash # "" THEN Crash(r.crash, "_read_block_items")
     ELSE Return(IF r.items # <<>> THEN Append(sections, SecRec(Kind, offset, <<>>, <<El(r.items[1], 1, "-", "l", "-", "n")>>, <<>>)) ELSE sections, r.off)
  /\ UNCHANGED <<input, opts, pcand, excl>>

ReadExamplesSection ==
  /\ pc = "section" /\ Kind = "examples"
  /\ LET b == ReadBlock(offset + 2) IN
     IF b.crash # "" THEN Crash(b.crash, "_read_block")
     ELSE Return(Append(sections, SecRec("examples", offset, b.tl, <<>>, ExSubs(b.tl))), b.off)
  /\ UNCHANGED <<input, opts, pcand, excl>>

Finish ==
  /\ pc = "main" /\ offset >= N
  /\ sections' = AppendSection(sections, cur, adm) /\ pc' = "done"
  /\ UNCHANGED <<input, opts, pcand, excl, offset, in_code, cur, adm, crash, flags>>

Next == Start \/ MainIter \/ ReadParametersSection \/ ReadPlainItemsSection
          \/ ReadDeprecatedSection \/ ReadExamplesSection \/ Finish
Spec == Init /\ [][Next]_vars

\* =========================================== properties ==================================================================
Done == pc = "done"
Crashed == pc = "crashed"
Final == Done \/ Crashed

\* (the crash transitions of the defects repaired in /repo are gone; "defect" / "defect2" alphabets = regression domains)
NoCrash == ~Crashed
NoCrashBeyondKnown == NoCrash

Progress == [][(pc = "section" \/ (pc = "main" /\ pc' = "main")) => (Crashed' \/ offset' > offset)]_vars
OffsetBounded == offset <= N + 2

Unmodified == [][/\ UNCHANGED input
                 /\ \A o \in OptNames : opts[o] # "U" => opts'[o] = opts[o]
                 /\ pcand' \subseteq pcand /\ pcand' # {} /\ excl \subseteq excl']_vars

SecLines(s) == {s.tl[j] : j \in 1..Len(s.tl)} \cup UNION {{s.items[j].first} \cup {s.items[j].body[m] : m \in 1..Len(s.items[j].body)} : j \in 1..Len(s.items)}
WellFormed ==
  Done => \A j \in 1..Len(sections) : LET s == sections[j] IN
            /\ s.kind \in AllKinds
            /\ (s.kind \in SecKinds \ {"examples"}) => (s.items # <<>> /\ s.tl = <<>>)
            /\ (s.kind = "examples") => s.subs # <<>>
            /\ (s.kind = "text") => s.tl # <<>>
            /\ SecLines(s) \subseteq 0..N - 1
            /\ \A m \in 1..Len(sections) : m # j => SecLines(s) \cap SecLines(sections[m]) = {}
HeadersNotText == Done => \A j, m \in 1..Len(sections) : sections[j].hdr = -1 \/ sections[j].hdr \notin SecLines(sections[m])

\* no dash line => no section syntax => exactly one text section made of all the lines
NoSyntax == \A j \in 1..N : lines[j].k # "dash"
PlainText == (Done /\ NoSyntax /\ ~flags.ignored) => sections = <<TextSec(SeqFromTo(0, N - 1))>>
\* ... the empty docstring comes back as no section at all (findings.d/C12.json)
EmptyDoc == lines = <<Blank>>
PlainTextBeyondKnown == (Done /\ NoSyntax /\ ~flags.ignored /\ ~EmptyDoc) => sections = <<TextSec(SeqFromTo(0, N - 1))>>

\* C13: kinds, order, header lines, consumed lines, items (names, annotation / default sources, description lines)
Same(a, b) ==
  /\ Len(a) = Len(b)
  /\ \A j \in 1..Len(a) :
       /\ a[j].kind = b[j].kind /\ a[j].hdr = b[j].hdr /\ a[j].tl = b[j].tl /\ a[j].subs = b[j].subs /\ Len(a[j].items) = Len(b[j].items)
       /\ \A m \in 1..Len(a[j].items) : LET x == a[j].items[m] y == b[j].items[m] IN
            /\ x.first = y.first /\ x.cnt = y.cnt /\ x.name = y.name /\ x.ann = y.ann /\ x.dflt = y.dflt /\ x.body = y.body
ParsesBack == (Mode = "struct" /\ Final) => (Done /\ Same(sections, expect))

\* every state is checked against the invariants; the replay harness gets the final states whose checksum is 0 mod EmitMod
LineCode(ln) == ln.ind + (CASE ln.k = "blank" -> 1 [] ln.k = "dash" -> 2 [] ln.k = "hdr" -> 3 [] ln.k = "line" -> 5 [] ln.k = "fence" -> 11 [] OTHER -> 13)
                 + (CASE ln.a \in {"N", "parameters", "-"} -> 0 [] ln.a \in {"NT", "attributes"} -> 17 [] ln.a \in {"C", "returns"} -> 19 [] OTHER -> 23)
RECURSIVE Checksum(_, _)
Checksum(j, acc) == IF j > Len(lines) THEN acc ELSE Checksum(j + 1, (acc * 31 + j * LineCode(lines[j])) % 1000003)
EmitCase ==
  (Emit /\ Final /\ (EmitMod = 1 \/ Checksum(1, Len(lines)) % EmitMod = 0)) =>
     IF Mode = "seq"
       THEN PrintT(<<"CASE", ToJson([lines |-> lines, opts |-> opts, pcand |-> pcand, excl |-> excl, outcome |-> pc, crash |-> crash,
                                     sections |-> sections, flags |-> flags])>>)
       ELSE PrintT(<<"CASE", ToJson([lines |-> lines, opts |-> opts, pcand |-> pcand, excl |-> excl, outcome |-> pc, crash |-> crash,
                                     sections |-> sections, flags |-> flags, expect |-> expect, sig |-> sig, wrap |-> wrap])>>)
=============================================================================
